---------------------------- MODULE Trace_PhiOps ----------------------------
(***************************************************************************)
(* Trace validation for module PhiOps (property C06).  Each record is one  *)
(* call of a dadi.PhiManip function (or Numerics.trapz) with its exact     *)
(* inputs and the raw returned array (or the exception class).  A record   *)
(* is judged entry-wise against the module's operator for that call and,   *)
(* independently of it, clause-wise on the observed output (conservation   *)
(* of the marginal, mixture frequency, identity at proportion 0).  The     *)
(* verdict for a record is the set of violated clause names.  Records      *)
(* that carry encodings of the argument objects before / after the call    *)
(* are also judged for leaving the caller's objects unchanged (FArgs).      *)
(*                                                                         *)
(* Proportions: the functions receive the proportions fs of the source     *)
(* populations as doubles.  A vector in the simplex (all >= 0, sum <= 1,   *)
(* boundary included) must be accepted; so must the doubles nearest to a   *)
(* real point of the simplex such as (0.9, 0.1) or (0.2, 0.4, 0.3, 0.1),   *)
(* whose exact sum exceeds 1 by at most RoundOff = 2^-52 (<= 4 components  *)
(* below 1, each off by <= 2^-54).  A vector summing above 1 + Slack must  *)
(* be refused by raising; in between either is allowed.                    *)
(***************************************************************************)
EXTENDS PhiOps, TLC, Json, IOUtils
CONSTANTS Tau,       \* relative tolerance of float-evaluated linear maps, e.g. "1/10000000000"
          Slack,     \* sums in (1 + RoundOff, 1 + Slack] may be accepted or refused
          RoundOff   \* 2^-52: representation error of a boundary point of the simplex

Trace == JsonDeserialize(IOEnv.TRACE_FILE)
VARIABLE i
F(name, ok) == IF ok THEN {} ELSE {name}
Raised(r)   == "raised" \in DOMAIN r.out
AllNum(q)   == \A k \in 1..Len(q) : IsNum(q[k])
ToSet(q)    == {q[j] : j \in 1..Len(q)}
ShapeOK(out, sh) == out.sh = sh /\ Len(out.d) = Size(sh) /\ AllNum(out.d)

\* per-entry relative error (non-negative data, sums without cancellation)
CloseRel(got, exp) == Len(got) = Len(exp) /\ \A k \in 1..Len(exp) : RCloseRel(got[k], exp[k], Tau, "0")
\* |got - exp| <= Tau * max |exp| over the fibre of the entry along axis a
CloseFibre(got, exp, sh, a) ==
    LET n     == sh[a]
        inner == Stride(sh, a)
        nf    == Size(sh) \div n
        fib(k)  == ((k - 1) \div (n * inner)) * inner + ((k - 1) % inner) + 1
        base(f) == ((f - 1) \div inner) * n * inner + ((f - 1) % inner) + 1
        fm == Force([f \in 1..nf |-> RSeqMaxAbs([v \in 1..n |-> exp[base(f) + (v - 1) * inner]])])   \* tabulated once
    IN  \A k \in 1..Size(sh) : RLeq(RAbs(RSub(got[k], exp[k])), RMul(Tau, fm[fib(k)]))

\* acceptance / refusal of the proportion vector fs
MustRefuse(fs) == RLt(RAdd("1", Slack), RSum(fs))
MustAccept(fs) == (\A m \in 1..Len(fs) : RNonNeg(fs[m])) /\ RLeq(RSum(fs), RAdd("1", RoundOff))
RefusalVerdict(r, fs) == IF MustRefuse(fs) THEN F("RejectAboveOne", Raised(r)) ELSE F("RefusedInSimplex", ~MustAccept(fs))

\* ---- new population by admixture: phi_2D_to_3D_admix, phi_3D_to_4D, phi_4D_to_5D ----
AdmixVerdict(r, phi, gs, props, gn, tag) ==
    LET np  == Len(gs)
        out == r.out.phi
        exp == PhiAdmixNew(phi, gs, props, gn)
        ones == [v \in 1..Len(gn) |-> "1"]
    IN  IF ~ShapeOK(out, exp.sh) THEN {tag \o "Shape"}
        ELSE F(tag \o "Data", CloseFibre(out.d, exp.d, exp.sh, np + 1)) \cup
             \* integrating the new population out of the OBSERVED array returns the input
             F("MarginalConserved", CloseRel(PG_Trapz(out, gn, np + 1).d, phi.d)) \cup
             \* the observed values along the new axis interpolate the mixture frequency
             F("MixtureFrequency",
               LET A == PG_WSum(out, gn, np + 1).d
                   B == PG_WSum(out, ones, np + 1).d
                   st == PStrides(phi.sh) IN
               \A j \in 1..Size(phi.sh) :
                  RLeq(RAbs(RSub(A[j], RMul(MixFreq(props, gs, PUnflat(phi.sh, st, j)), B[j]))), RMul(Tau, RAbs(B[j]))))
FAdmix(r) ==
    LET gs == r.in.gs
        np == Len(gs)
        fs == r.in.fs
    IN  IF MustRefuse(fs) \/ Raised(r) THEN RefusalVerdict(r, fs)
        ELSE AdmixVerdict(r, r.in.phi, gs, FullProps(np, [j \in 1..(np - 1) |-> j], fs, np), r.in.gnew, "Admix")
\* phi_2D_to_3D_split_1 / _split_2: one grid g for all three axes, the new population copies population k
FSplit(r) ==
    IF Raised(r) THEN {"SplitRaised"}
    ELSE LET g  == r.in.g
             gs == <<g, g>>
             k  == r.in.k
             out == r.out.phi
         IN  AdmixVerdict(r, r.in.phi, gs, UnitVec(2, k), g, "Split") \cup
             (IF ShapeOK(out, <<Len(g), Len(g), Len(g)>>)
              THEN \* removing the parent from the OBSERVED array leaves its copy
                   F("SplitCopy", CloseRel(PhiRemove(out, g, k).d, PhiReorder(r.in.phi, MoveToLast(2, k)).d))
              ELSE {})
\* phi_1D_to_2D
FSplit1D(r) ==
    IF Raised(r) THEN {"Split1DRaised"}
    ELSE LET g == r.in.g
             n == Len(g)
             out == r.out.phi
             exp == PhiSplit1D(r.in.phi, g)
         IN  IF ~ShapeOK(out, exp.sh) THEN {"Split1DShape"}
             ELSE F("Split1DData", CloseRel(out.d, exp.d)) \cup
                  \* Remove o Split = id at interior points, on the OBSERVED array (either population)
                  F("RemoveSplitInterior",
                    \A a \in 1..2 : LET m == PhiRemove(out, g, a).d IN
                       \A p \in 2..(n - 1) : RCloseRel(m[p], r.in.phi.d[p], Tau, "0"))

\* ---- pulses ----
FPulse(r) ==
    LET phi == r.in.phi
        gs  == r.in.gs
        np  == Len(gs)
        fs  == r.in.fs
        dest == r.in.dest
    IN  IF MustRefuse(fs) \/ Raised(r) THEN RefusalVerdict(r, fs)
        ELSE
          LET props == FullProps(np, r.in.src, fs, dest)
              out == r.out.phi
          IN  IF ~ShapeOK(out, phi.sh) THEN {"PulseShape"}
              ELSE LET exp == PhiPulse(phi, gs, dest, props) IN
                   F("PulseData", CloseFibre(out.d, exp.d, exp.sh, dest)) \cup
                   \* joint density of the other populations, from the OBSERVED array
                   F("OthersUnchanged", CloseRel(PhiRemove(out, gs[dest], dest).d, PhiRemove(phi, gs[dest], dest).d)) \cup
                   (IF \A m \in 1..Len(fs) : fs[m] = "0" THEN F("IdentityAtZero", CloseRel(out.d, phi.d)) ELSE {})

\* ---- remove / filter / reorder / trapz ----
FRemove(r) ==
    IF Raised(r) THEN {"RemoveRaised"}
    ELSE LET exp == PhiRemove(r.in.phi, r.in.g, r.in.a) IN
         IF ~ShapeOK(r.out.phi, exp.sh) THEN {"RemoveShape"} ELSE F("RemoveData", CloseRel(r.out.phi.d, exp.d))
FFilter(r) ==
    IF Raised(r) THEN {"FilterRaised"}
    ELSE LET exp == PhiFilter(r.in.phi, r.in.g, ToSet(r.in.keep)) IN
         IF ~ShapeOK(r.out.phi, exp.sh) THEN {"FilterShape"} ELSE F("FilterData", CloseRel(r.out.phi.d, exp.d))
FReorder(r) ==
    IF Raised(r) THEN {"ReorderRaised"}
    ELSE LET exp == PhiReorder(r.in.phi, r.in.perm) IN
         IF ~ShapeOK(r.out.phi, exp.sh) THEN {"ReorderShape"} ELSE F("ReorderData", r.out.phi.d = exp.d)

\* ---- state / aliasing: every function is a function of the VALUES of its arguments ----
\* r.out.args.before / .after: bit-exact encodings <<[name, kind, dtype, sh, v]>> of the argument objects (density,
\* grids, proportions, population numbers, order) as the caller wrote them and as they are after the call.  The phi of
\* the phi_*D_admix_* pulse functions, documented as altered in place, is not listed.  Records with in.nth = 2 carry the
\* second of two consecutive calls with the same argument objects; the clauses above judge it against r.in, i.e. against
\* the values the caller wrote.
FArgs(r) ==
    IF "args" \notin DOMAIN r.out THEN {}
    ELSE LET b == r.out.args.before
             a == r.out.args.after
         IN  IF Len(a) # Len(b) THEN {"ArgumentsUnchanged"}
             ELSE {"ArgumentsUnchanged[" \o b[k].name \o "]" : k \in {j \in 1..Len(b) : a[j] # b[j]}}

FOp(r) ==
    CASE r.op = "admix_new" -> FAdmix(r)
      [] r.op = "split"     -> FSplit(r)
      [] r.op = "split1d"   -> FSplit1D(r)
      [] r.op = "pulse"     -> FPulse(r)
      [] r.op = "remove"    -> FRemove(r)
      [] r.op = "filter"    -> FFilter(r)
      [] r.op = "reorder"   -> FReorder(r)
      [] OTHER              -> {"UnknownOp"}
Failed(r) == FOp(r) \cup FArgs(r)

Init == i = 0
Next == /\ i < Len(Trace)
        /\ i' = i + 1
        /\ LET r == Trace[i + 1] f == Failed(r) IN IF f = {} THEN TRUE ELSE PrintT(<<"BAD", r.id, f>>)
Spec == Init /\ [][Next]_i
Done == (i = Len(Trace)) => PrintT(<<"DONE", i>>)
AllConsumed == TLCGet("stats").diameter - 1 = Len(Trace)
=============================================================================
