CONSTANT Tau = "1/10000000000"
CONSTANT Slack = "1/1000000000"
CONSTANT RoundOff = "1/4503599627370496"
SPECIFICATION Spec
CHECK_DEADLOCK FALSE
INVARIANT Done
POSTCONDITION AllConsumed
