------------------------------- MODULE Extrap -------------------------------
(***************************************************************************)
(* Grid extrapolation of dadi (property C07): Numerics.make_extrap_func /  *)
(* make_extrap_log_func.                                                   *)
(*                                                                         *)
(* A model evaluated on a grid of "size" pts returns a flat sequence of    *)
(* entries together with the grid spacing x it used (.extrap_x).  The      *)
(* wrapper evaluates the model on k grids and returns, entry by entry, the *)
(* value at x = 0 of the polynomial of degree k-1 through the k points     *)
(* (x_j, y_j) (Lagrange form), k = 1..6.                                   *)
(*                                                                         *)
(* Numbers are exact rationals (module Rat).  In log mode the machine      *)
(* below works with formal positive numbers  [pow10 |-> q]  = 10^q, so     *)
(* that "extrapolate the logarithms, then exponentiate" and "decades" are  *)
(* exact; the trace specification judges the real code with supplied ln    *)
(* tables instead.                                                         *)
(***************************************************************************)
EXTENDS Rat, Integers, Sequences, FiniteSets

RProd(f) == LET RECURSIVE go(_)
                go(D) == IF D = {} THEN "1" ELSE LET x == CHOOSE y \in D : TRUE IN RMul(f[x], go(D \ {x}))
            IN go(DOMAIN f)
Distinct(xs) == \A a, b \in 1..Len(xs) : a # b => xs[a] # xs[b]

\* Lagrange basis polynomial of node j evaluated at 0
Weight(xs, j) == RProd([m \in (1..Len(xs)) \ {j} |-> RDiv(xs[m], RSub(xs[m], xs[j]))])
Weights(xs)   == [j \in 1..Len(xs) |-> Weight(xs, j)]
\* extrapolation of scalars ys[j] observed at xs[j] to x = 0
Extrap0(xs, ys) == RDot(Weights(xs), ys)
\* sum_j |w_j| |y_j| : the scale against which a float evaluation of Extrap0 is judged
ExtrapScale(xs, ys) == LET w == Weights(xs) IN RSum([j \in 1..Len(xs) |-> RMul(RAbs(w[j]), RAbs(ys[j]))])
\* entry-wise on arrays: ys[j] is the flat entry sequence of the j-th result
Column(ys, e)     == [j \in 1..Len(ys) |-> ys[j][e]]
ExtrapArr(xs, ys) == [e \in 1..Len(ys[1]) |-> Extrap0(xs, Column(ys, e))]

\* the two closed forms dadi documents (linear_extrap, quadratic_extrap)
LinearForm(xs, ys) == RDiv(RSub(RMul(xs[2], ys[1]), RMul(xs[1], ys[2])), RSub(xs[2], xs[1]))
QuadraticForm(xs, ys) ==
    LET t(a, b, c) == RMul(RDiv(RMul(xs[b], xs[c]), RMul(RSub(xs[a], xs[b]), RSub(xs[a], xs[c]))), ys[a])
    IN  RAdd(RAdd(t(1, 2, 3), t(2, 1, 3)), t(3, 1, 2))

\* polynomial c[1] + c[2] x + ... (Horner)
PolyVal(c, x) == LET RECURSIVE go(_)
                     go(i) == IF i > Len(c) THEN "0" ELSE RAdd(c[i], RMul(x, go(i + 1)))
                 IN go(1)
\* index of the smallest x (the finest grid); the first one on ties
ArgMin(xs) == CHOOSE j \in 1..Len(xs) : (\A m \in 1..Len(xs) : RLeq(xs[j], xs[m])) /\ (\A m \in 1..(j - 1) : RLt(xs[j], xs[m]))

Pow10(f) == RPow("10", f)
\* "more than f decades away", linear domain.  Defined when the ratio is positive
\* or zero (a zero ratio is infinitely many decades away); undefined otherwise.
FarDefined(ex, best) == RSign(best) # 0 /\ RSign(ex) * RSign(best) >= 0
Far(ex, best, f) == LET q == RDiv(ex, best) IN RSign(q) = 0 \/ RGt(q, Pow10(f)) \/ RLt(q, RDiv("1", Pow10(f)))

\* ---- formal positive numbers 10^q (log mode of the machine) ----
Pw(q)  == [pow10 |-> q]
Lg(v)  == v.pow10
FarLog(qex, qbest, f) == RGt(RAbs(RSub(qex, qbest)), RInt(f))

(***************************************************************************)
(* The dispatch state machine.  call is the record                         *)
(*  [kw     : pts passed by keyword (TRUE) or as last positional argument, *)
(*   scalar : pts is a single number rather than a list,                   *)
(*   noex   : no_extrap requested,                                         *)
(*   xsrc   : "attr" (x from result.extrap_x) | "explicit" (extrap_x_l)    *)
(*            | "none",                                                    *)
(*   log    : extrapolate logarithms,     fm : fail_mag (decades),         *)
(*   pts    : the grid sizes (a number if scalar), xs : the x the model    *)
(*            uses for the j-th grid size,   coef : per entry, the coefficients of the model's  *)
(*            polynomial dependence on x (of its log in log mode),         *)
(*   ids    : labels carried by the results]                               *)
(***************************************************************************)
VARIABLES pc, call, ptsl, res, xl, val, ret
evars == <<pc, call, ptsl, res, xl, val, ret>>

NEntries(c) == Len(c.coef)
K(c)        == Len(ptsl)
ModelAt(c, j) ==
    [v   |-> [e \in 1..NEntries(c) |-> LET p == PolyVal(c.coef[e], c.xs[j]) IN IF c.log THEN Pw(p) ELSE p],
     x   |-> IF c.xsrc = "attr" THEN c.xs[j] ELSE "none",
     ids |-> c.ids, pts |-> ptsl[j]]
NoRet == [kind |-> "none"]

\* ParseArgs: pts is the keyword argument or the last positional one (call.kw; both spellings
\* denote the same value); a scalar becomes a singleton list
Parse == /\ pc = "parse" /\ pc' = "eval"
         /\ ptsl' = IF call.scalar THEN <<call.pts>> ELSE call.pts
         /\ UNCHANGED <<call, res, xl, val, ret>>
\* Eval(pts_j), in list order, all other arguments unchanged
Eval == /\ pc = "eval" /\ Len(res) < K(call)
        /\ res' = Append(res, ModelAt(call, Len(res) + 1))
        /\ UNCHANGED <<pc, call, ptsl, xl, val, ret>>
EvalDone == /\ pc = "eval" /\ Len(res) = K(call)
            /\ IF call.noex THEN pc' = "done" /\ ret' = [kind |-> "list", l |-> res]
                            ELSE pc' = "getx" /\ ret' = ret
            /\ UNCHANGED <<call, ptsl, res, xl, val>>
\* GetX: explicit list | .extrap_x of the results | error (not needed for a single grid)
GetX == /\ pc = "getx"
        /\ \/ /\ call.xsrc = "explicit" /\ xl' = call.xs /\ pc' = "log" /\ ret' = ret
           \/ /\ call.xsrc = "attr" /\ xl' = [j \in 1..K(call) |-> res[j].x] /\ pc' = "log" /\ ret' = ret
           \/ /\ call.xsrc = "none" /\ K(call) = 1 /\ xl' = <<"0">> /\ pc' = "log" /\ ret' = ret
           \/ /\ call.xsrc = "none" /\ xl' = xl /\ pc' = "done" /\ ret' = [kind |-> "raised", what |-> "ValueError"]
        /\ UNCHANGED <<call, ptsl, res, val>>
Log == /\ pc = "log" /\ pc' = "formula"
       /\ val' = [j \in 1..K(call) |-> IF call.log THEN [e \in 1..NEntries(call) |-> Lg(res[j].v[e])] ELSE res[j].v]
       /\ UNCHANGED <<call, ptsl, res, xl, ret>>
\* Formula(k): Lagrange weights for k in 1..6, error otherwise
Formula == /\ pc = "formula"
           /\ IF K(call) \in 1..6 /\ Distinct(xl)
              THEN pc' = "fallback" /\ val' = ExtrapArr(xl, val) /\ ret' = ret
              ELSE pc' = "done" /\ val' = val /\ ret' = [kind |-> "raised", what |-> "ValueError"]
           /\ UNCHANGED <<call, ptsl, res, xl>>
\* Exp (log mode) and Fallback: an entry farther than fm decades from the result of the
\* smallest x is replaced by that result; where "decades" is undefined either is allowed
Best(c, r, x) == r[ArgMin(x)].v
FallbackChoices(c, r, x, ex, e) ==
    LET best == Best(c, r, x)[e] IN
    IF K(c) = 1 THEN {IF c.log THEN Pw(ex[e]) ELSE ex[e]}
    ELSE IF c.log THEN {IF FarLog(ex[e], Lg(best), c.fm) THEN best ELSE Pw(ex[e])}
    ELSE IF ~FarDefined(ex[e], best) THEN {ex[e], best}
    ELSE {IF Far(ex[e], best, c.fm) THEN best ELSE ex[e]}
Fallback == /\ pc = "fallback" /\ pc' = "done"
            /\ \E v \in [1..NEntries(call) -> UNION {FallbackChoices(call, res, xl, val, e) : e \in 1..NEntries(call)}] :
                  /\ \A e \in 1..NEntries(call) : v[e] \in FallbackChoices(call, res, xl, val, e)
                  \* Relabel: the labels of the (first) result are kept
                  /\ ret' = [kind |-> "value", v |-> v, ids |-> res[1].ids]
            /\ UNCHANGED <<call, ptsl, res, xl, val>>
ENext == Parse \/ Eval \/ EvalDone \/ GetX \/ Log \/ Formula \/ Fallback
=============================================================================
