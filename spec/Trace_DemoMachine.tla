-------------------------- MODULE Trace_DemoMachine --------------------------
(***************************************************************************)
(* Trace validation of dadi's library models against the demographic       *)
(* machine (property C15).                                                 *)
(*                                                                         *)
(* One model evaluation is the event sequence                              *)
(*     begin  call*  end                                                   *)
(* where every `call` was logged by a proxy around one of the primitives   *)
(* (PhiManip.phi_1D*, phi_1D_to_2D, phi_2D_to_3D_*, phi_3D_to_4D,          *)
(* phi_4D_to_5D, phi_*_admix_*, remove_pop, filter_pops, reorder_pops,     *)
(* Integration.one_pop .. five_pops, Spectrum.from_phi[_inbreeding]) with  *)
(* the exact argument values AS PASSED (an argument that was not passed is *)
(* absent; a time function is known by its values at fixed fractions of    *)
(* the interval).  Each call must be an enabled action of DemoMachine in   *)
(* the current state; the spec keeps the machine state, collects the       *)
(* violated clauses of the evaluation and, at `end`, judges the observed   *)
(* result and stores the normal form of the history together with the      *)
(* spectrum under the evaluation's slot name.                              *)
(*                                                                         *)
(* `relate` events then decide relations between stored evaluations:       *)
(*   nest     Norm(history A) = Norm(history B) and the spectra coincide   *)
(*   alike    the same for one model called with the same values in        *)
(*            another container / number type                              *)
(*   differs  changing one parameter changes the normal form               *)
(*   swap     label-swap equivariance as a refinement between two          *)
(*            time-step scales: e2 <= SwapRatio*e1 + SwapFloor*scale       *)
(*   arity    the model accepts exactly the parameters it names            *)
(* A failed clause never stops the trace.                                  *)
(***************************************************************************)
EXTENDS DemoMachine, TLC, Json, IOUtils
CONSTANTS TauSame,     \* relative tolerance for "the same numerical program gave the same spectrum"
          NegTol,      \* an entry may be below zero by at most NegTol * (largest entry)
          SwapRatio,   \* required contraction of the swap asymmetry for a 4-fold smaller time step
          SwapFloor    \* ... up to this multiple of the largest entry

Trace == JsonDeserialize(IOEnv.TRACE_FILE)
VARIABLES l,        \* events consumed
          st,       \* the machine state of the evaluation in progress
          cur,      \* its begin event (<<>> outside an evaluation)
          grid,     \* the first grid seen in the evaluation (<<>> before)
          bad,      \* violated clauses of the evaluation in progress
          saved     \* slot name -> [norm, sampled, out, ok] of finished evaluations of this group
vars == <<l, st, cur, grid, bad, saved>>

F(name, ok) == IF ok THEN {} ELSE {name}
e == Trace[l + 1]

\* ---------------------------------------------------------------- arguments
Val(x)    == IF x.k = "n" THEN Dflt ELSE x              \* an explicit None is the absent argument
HasArg(n) == n \in DOMAIN e.args
Arg(n)    == IF HasArg(n) THEN Val(e.args[n]) ELSE Dflt
HasInts(n) == n \in DOMAIN e.ints
Sfx(P, i) == IF P = 1 THEN "" ELSE ToString(i)
ConstArg(n) == HasArg(n) /\ IsC(Arg(n))
Fr(n)     == Num(Arg(n))                                \* the rational of a constant argument

IntegratorP == [one_pop |-> 1, two_pops |-> 2, three_pops |-> 3, four_pops |-> 4, five_pops |-> 5]
IsIntegrator(fn) == fn \in DOMAIN IntegratorP
EquilFns == {"phi_1D", "phi_1D_genic", "phi_1D_snm"}
SplitInfo == [phi_1D_to_2D |-> [P |-> 1, parent |-> 1], phi_2D_to_3D_split_1 |-> [P |-> 2, parent |-> 1],
              phi_2D_to_3D_split_2 |-> [P |-> 2, parent |-> 2]]
AdmixInfo == [phi_2D_to_3D_admix |-> 2, phi_2D_to_3D |-> 2, phi_3D_to_4D |-> 3, phi_4D_to_5D |-> 4]
PulseInfo == [phi_2D_admix_1_into_2 |-> [P |-> 2, dest |-> 2], phi_2D_admix_2_into_1 |-> [P |-> 2, dest |-> 1],
              phi_3D_admix_1_and_2_into_3 |-> [P |-> 3, dest |-> 3], phi_3D_admix_1_and_3_into_2 |-> [P |-> 3, dest |-> 2],
              phi_3D_admix_2_and_3_into_1 |-> [P |-> 3, dest |-> 1],
              phi_4D_admix_into_1 |-> [P |-> 4, dest |-> 1], phi_4D_admix_into_2 |-> [P |-> 4, dest |-> 2],
              phi_4D_admix_into_3 |-> [P |-> 4, dest |-> 3], phi_4D_admix_into_4 |-> [P |-> 4, dest |-> 4],
              phi_5D_admix_into_1 |-> [P |-> 5, dest |-> 1], phi_5D_admix_into_2 |-> [P |-> 5, dest |-> 2],
              phi_5D_admix_into_3 |-> [P |-> 5, dest |-> 3], phi_5D_admix_into_4 |-> [P |-> 5, dest |-> 4],
              phi_5D_admix_into_5 |-> [P |-> 5, dest |-> 5]]
SampleFns == {"from_phi", "from_phi_inbreeding"}

\* the argument names each primitive understands (labels such as deme_ids are not logged)
IntegratorNames(P) ==
    {"T", "theta0", "initial_t", "beta", "enable_cuda_cached"}
    \cup {"nu" \o Sfx(P, i) : i \in 1..P} \cup {"gamma" \o Sfx(P, i) : i \in 1..P} \cup {"h" \o Sfx(P, i) : i \in 1..P}
    \cup {"frozen" \o Sfx(P, i) : i \in 1..P} \cup {"nomut" \o ToString(i) : i \in 1..P}
    \cup {"m" \o ToString(p[1]) \o ToString(p[2]) : p \in Pairs(P)}
\* proportions: the population that is not named receives the remainder
FracName(P, j) == IF P = 2 THEN "f" ELSE "f" \o ToString(j)
Props(P, rest, names) ==     \* rest = the index holding the remainder; names[j] = argument carrying proportion j
    LET given(j) == Fr(names[j])
        others == RSum([j \in 1..P |-> IF j = rest THEN "0" ELSE given(j)])
    IN [j \in 1..P |-> IF j = rest THEN RSub("1", others) ELSE given(j)]
KnownNames(fn) ==
    IF IsIntegrator(fn) THEN IntegratorNames(IntegratorP[fn])
    ELSE IF fn \in EquilFns THEN {"nu", "theta0", "gamma", "h", "beta", "theta"}
    ELSE IF fn \in DOMAIN SplitInfo THEN {}
    ELSE IF fn = "phi_2D_to_3D_admix" \/ fn = "phi_2D_to_3D" THEN {"f1"}
    ELSE IF fn = "phi_3D_to_4D" THEN {"f1", "f2"}
    ELSE IF fn = "phi_4D_to_5D" THEN {"f1", "f2", "f3"}
    ELSE IF fn \in DOMAIN PulseInfo THEN {FracName(PulseInfo[fn].P, j) : j \in (1..PulseInfo[fn].P) \ {PulseInfo[fn].dest}}
    ELSE IF fn = "remove_pop" THEN {"popnum"}
    ELSE IF fn \in SampleFns THEN {"mask_corners", "admix_props", "het_ascertained", "force_direct", "Fs"}
    ELSE {}

\* ------------------------------------------------- the action a call stands for
\* [ok |-> FALSE] when the call cannot be read as an action (clause NotAnAction)
NoAct == [ok |-> FALSE, acts |-> <<>>]
One(a) == [ok |-> TRUE, acts |-> <<a>>]
ActionOf ==
    LET fn == e.fn IN
    IF fn \in EquilFns THEN
        One([op |-> "equilibrium", via |-> fn, par |-> <<Arg("nu"), Arg("theta0"), Arg("gamma"), Arg("h"), Arg("beta"), Arg("theta")>>])
    ELSE IF IsIntegrator(fn) THEN
        LET P == IntegratorP[fn]
            t0 == Arg("initial_t")
        IN IF ~ConstArg("T") \/ ~(IsD(t0) \/ IsC(t0)) THEN NoAct
           ELSE One([op |-> "integrate", T |-> RSub(Fr("T"), IF IsD(t0) THEN "0" ELSE Num(t0)),
                     nus |-> [i \in 1..P |-> Arg("nu" \o Sfx(P, i))],
                     gammas |-> Each([i \in 1..P |-> Arg("gamma" \o Sfx(P, i))]),
                     hs |-> Each([i \in 1..P |-> Arg("h" \o Sfx(P, i))]),
                     ms |-> Mat([i \in 1..P |-> [j \in 1..P |-> IF i = j THEN Dflt ELSE Arg("m" \o ToString(i) \o ToString(j))]]),
                     theta |-> Arg("theta0"),
                     frozen |-> [i \in 1..P |-> Arg("frozen" \o Sfx(P, i))],
                     nomut |-> [i \in 1..P |-> Arg("nomut" \o ToString(i))],
                     beta |-> Arg("beta"), t0 |-> t0])
    ELSE IF fn \in DOMAIN SplitInfo THEN
        IF NP(st) # SplitInfo[fn].P THEN NoAct ELSE One([op |-> "split", parent |-> SplitInfo[fn].parent])
    ELSE IF fn \in DOMAIN AdmixInfo THEN
        LET P == AdmixInfo[fn] IN
        IF NP(st) # P \/ \E j \in 1..(P - 1) : ~ConstArg("f" \o ToString(j)) THEN NoAct
        ELSE One([op |-> "admixnew", props |-> Props(P, P, [j \in 1..P |-> "f" \o ToString(j)])])
    ELSE IF fn \in DOMAIN PulseInfo THEN
        LET P == PulseInfo[fn].P d == PulseInfo[fn].dest IN
        IF NP(st) # P \/ \E j \in (1..P) \ {d} : ~ConstArg(FracName(P, j)) THEN NoAct
        ELSE One([op |-> "pulse", dest |-> d, props |-> Props(P, d, [j \in 1..P |-> FracName(P, j)])])
    ELSE IF fn = "remove_pop" THEN
        IF ~ConstArg("popnum") \/ ~RIsInt(Fr("popnum")) THEN NoAct ELSE One([op |-> "remove", i |-> RFloor(Fr("popnum"))])
    ELSE IF fn = "filter_pops" THEN
        IF ~HasInts("tokeep") THEN NoAct
        ELSE LET keep == {e.ints.tokeep[j] : j \in 1..Len(e.ints.tokeep)}
                 RECURSIVE down(_)
                 down(i) == IF i = 0 THEN <<>> ELSE (IF i \in keep THEN <<>> ELSE <<[op |-> "remove", i |-> i]>>) \o down(i - 1)
             IN [ok |-> TRUE, acts |-> down(NP(st))]
    ELSE IF fn = "reorder_pops" THEN
        IF ~HasInts("neworder") THEN NoAct ELSE One([op |-> "reorder", perm |-> e.ints.neworder])
    ELSE IF fn \in SampleFns THEN
        IF ~HasInts("ns") THEN NoAct
        ELSE One([op |-> "sample", ns |-> e.ints.ns,
                  how |-> [fn |-> fn, extra |-> <<Arg("mask_corners"), Arg("admix_props"), Arg("het_ascertained"), Arg("force_direct"), Arg("Fs")>>,
                           ploidys |-> IF HasInts("ploidys") THEN e.ints.ploidys ELSE <<>>]])
    ELSE NoAct

\* apply a sequence of actions; the first that is not enabled stops it
RECURSIVE Apply(_, _)
Apply(s, acts) == IF acts = <<>> THEN [s |-> s, ok |-> TRUE]
                  ELSE IF ~Enabled(s, Head(acts)) THEN [s |-> s, ok |-> FALSE]
                  ELSE Apply(Do(s, Head(acts)), Tail(acts))

\* a migration or selection parameter that carries the name of an integrator argument (m12, gamma1, ...) is that
\* argument: whenever the argument is passed as a constant it is 0 (switched off in that epoch) or the parameter's value
ParamNamed(n) == cur.params[CHOOSE j \in 1..Len(cur.names) : cur.names[j] = n]
\* (sizes are exempt: in the three-population models the argument nu2 of the two-population phase is the ancestor nuA by design)
BoundNames == {"m" \o ToString(p[1]) \o ToString(p[2]) : p \in Pairs(5)} \cup {"gamma" \o ToString(i) : i \in 1..5}
NameBindingOK ==
    \A n \in {cur.names[j] : j \in 1..Len(cur.names)} \cap DOMAIN e.args \cap BoundNames :
        ConstArg(n) => (RIsZero(Fr(n)) \/ RNorm(Fr(n)) = RNorm(ParamNamed(n)))

Square(n, pts) == [i \in 1..n |-> pts]
NoCur  == [op |-> "none", names |-> <<>>, params |-> <<>>, ns |-> <<>>, pts |-> 0, fine |-> FALSE]
NoGrid == [n |-> 0, x1 |-> "none", dig |-> ""]
GridOK(g) == g.n = cur.pts /\ (grid.n = 0 \/ g = grid)

\* ------------------------------------------------------------------ events
EvBegin ==
    /\ e.op = "begin"
    /\ st' = Empty /\ cur' = e /\ grid' = NoGrid /\ bad' = {}
    /\ saved' = IF e.first THEN <<>> ELSE saved

EvCall ==
    /\ e.op = "call"
    /\ LET fn == e.fn
           act == ActionOf
           res == IF act.ok THEN Apply(st, act.acts) ELSE [s |-> st, ok |-> FALSE]
           isSample == fn \in SampleFns
           f == F("InsideAnEvaluation", cur.op = "begin") \cup
                F("NotAnAction:" \o fn, act.ok) \cup
                (IF act.ok THEN F("NoEnabledAction:" \o fn, res.ok) ELSE {}) \cup
                F("UnknownArgument:" \o fn, "unbindable" \notin DOMAIN e /\ DOMAIN e.args \subseteq KnownNames(fn)) \cup
                \* dimension: the density handed in has one axis of pts points per live population, the result one per population afterwards
                F("DensityDimension:" \o fn, e.phi_in = Square(NP(st), cur.pts)) \cup
                (IF isSample THEN F("OneGridPerPopulation", Len(e.grids) = NP(st))
                 ELSE F("ResultDimension:" \o fn, e.out_shape = Square(NP(res.s), cur.pts)) \cup F("FiniteDensity:" \o fn, e.out_finite)) \cup
                F("SameGridThroughout", \A j \in 1..Len(e.grids) : GridOK(e.grids[j])) \cup
                (IF IsIntegrator(fn) THEN F("NamedParameterReachesSameNamedArgument", NameBindingOK) ELSE {})
       IN /\ bad' = bad \cup f
          /\ st' = res.s
          /\ grid' = IF grid.n = 0 /\ Len(e.grids) > 0 THEN e.grids[1] ELSE grid
    /\ UNCHANGED <<cur, saved>>

\* ---- the observed result
RECURSIVE IProd(_)
IProd(q) == IF q = <<>> THEN 1 ELSE Head(q) * IProd(Tail(q))
Stride(sh, j) == IProd(SubSeq(sh, j + 1, Len(sh)))
Unflat(sh, k) == [j \in 1..Len(sh) |-> ((k - 1) \div Stride(sh, j)) % sh[j]]
RECURSIVE ISum(_)
ISum(q) == IF q = <<>> THEN 0 ELSE Head(q) + ISum(Tail(q))
Flat(sh, ix)  == 1 + ISum([j \in 1..Len(sh) |-> ix[j] * Stride(sh, j)])
AllNum(q) == \A j \in 1..Len(q) : IsNum(q[j])
MaxAbs(q) == RSeqMaxAbs(q)

Verdict(f) == IF f = {} THEN TRUE ELSE PrintT(<<"BAD", e.tid, f>>)
IsSpectrum(o) == "raised" \notin DOMAIN o /\ o.kind # "str"
EvEnd ==
    /\ e.op = "end"
    /\ LET o == e.out
           want == [i \in 1..Len(cur.ns) |-> cur.ns[i] + 1]
           f == IF "raised" \in DOMAIN o THEN {"Raised:" \o o.raised}
                ELSE IF o.kind = "str" THEN {"ReturnedAString"}
                ELSE F("EndsWithSample", st.pc = "sampled") \cup
                     (IF st.pc = "sampled" THEN F("SampleSizesAsRequested", st.ns = cur.ns) ELSE {}) \cup
                     F("SpectrumShape", o.sh = want /\ Len(o.d) = IProd(o.sh) /\ Len(o.m) = IProd(o.sh)) \cup
                     F("Finite", AllNum(o.d)) \cup
                     (IF AllNum(o.d) /\ cur.fine THEN F("NonNegative", LET lo == RNeg(RMul(NegTol, MaxAbs(o.d))) IN \A q \in 1..Len(o.d) : RLeq(lo, o.d[q])) ELSE {}) \cup
                     F("TaggedForExtrapolation", o.extrap_x # "none" /\ grid.n > 0 /\ o.extrap_x = grid.x1) \cup
                     F("Unfolded", ~o.folded) \cup
                     F("WellFormedHistory", WF(st))
           all == bad \cup f
       IN /\ Verdict(all)
          /\ saved' = [x \in DOMAIN saved \cup {e.slot} |->
                         IF x = e.slot THEN [norm |-> Norm(st), sampled |-> st.pc = "sampled", out |-> o, ok |-> IsSpectrum(o) /\ AllNum(o.d)]
                         ELSE saved[x]]
    /\ cur' = NoCur /\ bad' = {}
    /\ UNCHANGED <<st, grid>>

\* ---- relations between finished evaluations
Have(x) == x \in DOMAIN saved /\ saved[x].ok /\ saved[x].sampled
SameSpectrum(a, b) ==
    /\ a.sh = b.sh /\ Len(a.d) = Len(b.d)
    /\ LET sc == MaxAbs(b.d) IN \A q \in 1..Len(b.d) : RLeq(RAbs(RSub(a.d[q], b.d[q])), RMul(TauSame, sc))
\* largest |A[ix] - B[ix o perm]| over the entries unmasked in both; B is the evaluation with swapped labels
SwapDistance(a, b, perm) ==
    LET bix(ix) == [j \in 1..Len(perm) |-> ix[perm[j]]]
        diff == [q \in 1..Len(a.d) |-> LET ix == Unflat(a.sh, q) qb == Flat(b.sh, bix(ix)) IN
                                        IF a.m[q] \/ b.m[qb] THEN "0" ELSE RAbs(RSub(a.d[q], b.d[qb]))]
    IN MaxAbs(diff)
SwapShapeOK(a, b, perm) == Len(perm) = Len(a.sh) /\ b.sh = [j \in 1..Len(perm) |-> a.sh[perm[j]]] /\ Len(a.d) = Len(b.d)

FRelate ==
    CASE e.kind = "nest" ->
            IF ~(Have(e.a) /\ Have(e.b)) THEN {"NestingPairNotEvaluated"}
            ELSE F("NestedProgramsCoincide", saved[e.a].norm = saved[e.b].norm) \cup
                 F("NestedSpectraCoincide", SameSpectrum(saved[e.a].out, saved[e.b].out))
      \* the same parameter values handed over in another container / number type (list, array, int, numpy.float64)
      [] e.kind = "alike" ->
            IF ~(Have(e.a) /\ Have(e.b)) THEN {"EquivalentCallNotEvaluated"}
            ELSE F("EquivalentArgumentsSameProgram", saved[e.a].norm = saved[e.b].norm) \cup
                 F("EquivalentArgumentsSameSpectrum", SameSpectrum(saved[e.a].out, saved[e.b].out))
      [] e.kind = "differs" ->
            IF ~(Have(e.a) /\ Have(e.b)) THEN {"PerturbedPairNotEvaluated"}
            ELSE F("ParameterInfluencesProgram:" \o e.name, saved[e.a].norm # saved[e.b].norm)
      [] e.kind = "swap" ->
            IF ~(Have(e.a1) /\ Have(e.b1) /\ Have(e.a2) /\ Have(e.b2)) THEN {"SwapPairNotEvaluated"}
            ELSE LET A1 == saved[e.a1].out B1 == saved[e.b1].out A2 == saved[e.a2].out B2 == saved[e.b2].out IN
                 IF ~(SwapShapeOK(A1, B1, e.perm) /\ SwapShapeOK(A2, B2, e.perm)) THEN {"SwappedSampleSizes"}
                 ELSE LET e1 == SwapDistance(A1, B1, e.perm)
                          e2 == SwapDistance(A2, B2, e.perm)
                          sc == MaxAbs(A2.d)
                      IN F("SwapEquivarianceRefines", RLeq(e2, RAdd(RMul(SwapRatio, e1), RMul(SwapFloor, sc))))
      [] e.kind = "arity" ->
            F("AcceptsNamedParameters", e.exact) \cup
            (IF e.nnames >= 1 THEN F("RejectsTooFewParameters", e.short_raised) \cup F("RejectsTooManyParameters", e.long_raised) ELSE {})
      [] OTHER -> {"UnknownRelation"}
EvRelate ==
    /\ e.op = "relate"
    /\ Verdict(FRelate)
    /\ UNCHANGED <<st, cur, grid, bad, saved>>

EvOther ==
    /\ e.op \notin {"begin", "call", "end", "relate"}
    /\ PrintT(<<"BAD", "?", {"UnknownEvent"}>>)
    /\ UNCHANGED <<st, cur, grid, bad, saved>>

Init == l = 0 /\ st = Empty /\ cur = NoCur /\ grid = NoGrid /\ bad = {} /\ saved = <<>>
Next == /\ l < Len(Trace) /\ l' = l + 1
        /\ (EvBegin \/ EvCall \/ EvEnd \/ EvRelate \/ EvOther)
Spec == Init /\ [][Next]_vars
Done == (l = Len(Trace)) => PrintT(<<"DONE", l>>)
AllConsumed == TLCGet("stats").diameter - 1 = Len(Trace)
=============================================================================
