---------------------------- MODULE LikelihoodMC ----------------------------
(***************************************************************************)
(* Exhaustive exploration for C11.  The state is a (model, data) pair of   *)
(* spectra; actions rescale the model, mask entries of either spectrum and *)
(* fold the data; the laws are invariants evaluated in every reachable     *)
(* state.  Only the rational skeleton of the likelihood occurs: the laws   *)
(* hold term by term and therefore for every ln / lnGamma table.  They are *)
(* also evaluated with one concrete (arbitrary, non-logarithmic) table to  *)
(* make sure the table-carrying operators themselves are exercised.        *)
(***************************************************************************)
EXTENDS Likelihood, TLC
CONSTANTS MaxDepth, Shapes, FullMaskSize

ShapesQuick    == {<<3>>, <<4>>, <<2, 2>>, <<2, 3>>}
ShapesThorough == ShapesQuick \cup {<<5>>, <<6>>, <<3, 3>>, <<2, 2, 2>>}
VARIABLES mo, da, depth
vars == <<mo, da, depth>>

Primes  == <<"2", "3", "5", "7", "11", "13", "17", "19", "23">>
Halves  == <<"7/2", "1/2", "0", "9/4", "3", "0", "5/3", "1", "4">>
DataChoices(sh)  == {[k \in 1..Size(sh) |-> Primes[k]], [k \in 1..Size(sh) |-> Halves[k]],
                     [k \in 1..Size(sh) |-> IF k = 2 THEN "3" ELSE "0"]}
ModelChoices(sh) == {[k \in 1..Size(sh) |-> "1"], [k \in 1..Size(sh) |-> Primes[Size(sh) + 1 - k]],
                     [k \in 1..Size(sh) |-> RDiv("1", Primes[k])],
                     [k \in 1..Size(sh) |-> IF k = 1 THEN "0" ELSE Halves[Size(sh) + 2 - k]]}
MaskChoices(sh) ==
    IF Size(sh) <= FullMaskSize THEN [1..Size(sh) -> BOOLEAN]
    ELSE {[k \in 1..Size(sh) |-> FALSE], [k \in 1..Size(sh) |-> k = 1 \/ k = Size(sh)]}
         \cup {[k \in 1..Size(sh) |-> k = u] : u \in 1..Size(sh)}
         \cup {[k \in 1..Size(sh) |-> k = u \/ k = 1 \/ k = Size(sh)] : u \in 2..(Size(sh) - 1)}
Sp(sh, d, m) == [sh |-> sh, d |-> d, m |-> m, f |-> FALSE, ids |-> <<>>]
NoM(sh) == [k \in 1..Size(sh) |-> FALSE]

\* two-stage start: Init fixes shape and both data vectors, Choose the two (independent) masks
Init == /\ depth = -1
        /\ \E sh \in Shapes : \E d \in DataChoices(sh) : \E m \in ModelChoices(sh) \cup {RScaleSeq("3/7", d)} :
              mo = Sp(sh, m, NoM(sh)) /\ da = Sp(sh, d, NoM(sh))
Choose == /\ depth = -1 /\ depth' = 0
          /\ \E a \in MaskChoices(mo.sh) : \E b \in MaskChoices(da.sh) : mo' = [mo EXCEPT !.m = a] /\ da' = [da EXCEPT !.m = b]

Factors == {"2", "1/3", "7/5"}
DoScale   == \E c \in Factors : mo' = ScaleBy(mo, c) /\ da' = da
DoFoldD   == ~da.f /\ da' = Fold(da) /\ mo' = mo
DoFoldM   == ~mo.f /\ mo' = Fold(mo) /\ da' = da
DoMaskM   == \E k \in 1..Size(mo.sh) : ~mo.m[k] /\ mo' = [mo EXCEPT !.m[k] = TRUE] /\ da' = da
DoMaskD   == \E k \in 1..Size(da.sh) : ~da.m[k] /\ da' = [da EXCEPT !.m[k] = TRUE] /\ mo' = mo
Next == Choose \/
        /\ depth >= 0 /\ depth < MaxDepth /\ depth' = depth + 1
        /\ (DoScale \/ DoFoldD \/ DoFoldM \/ DoMaskM \/ DoMaskD)
Spec == Init /\ [][Next]_vars

\* states in which dadi accepts the pair (a folded model against unfolded data is not a use case)
Usable == ~(mo.f /\ ~da.f)
em == EffModel(mo, da)
TypeOK == WellFormed(mo) /\ WellFormed(da) /\ mo.sh = da.sh

\* an arbitrary table pair (deliberately not a logarithm: the laws may not depend on it)
FakeLn  == [k \in 1..Size(da.sh) |-> RSub(RInt(k), "5/2")]
FakeLnG == [k \in 1..Size(da.sh) |-> RDiv(RInt(k * k), "3")]

\* the joint entries are exactly those masked in neither (effective) model nor data
L_Joint == Usable => /\ JointMask(em, da) = {k \in 1..Size(da.sh) : ~em.m[k]} \cap {k \in 1..Size(da.sh) : ~da.m[k]}
                      /\ Joint(em, da) \subseteq JointMask(em, da)
                      /\ (da.f => \A k \in JointMask(em, da) : ~FoldedOut(da.sh, Unflat(da.sh, k)))
\* ll is the sum of ll_per_bin; masking one more entry removes exactly that term
L_Additive == Usable => \A k \in Joint(em, da) :
                 LL(em, da, FakeLn, FakeLnG) =
                 RAdd(LL(em, [da EXCEPT !.m[k] = TRUE], FakeLn, FakeLnG), PerBin(em, da, FakeLn, FakeLnG, k))
\* first-order condition of theta |-> LL(theta m, d) at ThetaOpt, and uniqueness (the score is decreasing)
AllPos == JointMask(em, da) = Joint(em, da)
L_FOC == (Usable /\ HasTheta(em, da) /\ AllPos /\ RPos(DataSum(em, da))) =>
             LET th == ThetaOpt(em, da) IN
             /\ RIsZero(Score(em, da, th))
             /\ \A c \in {"1/2", "9/10", "11/10", "3"} : RSign(Score(em, da, RMul(c, th))) = RSign(RSub("1", c))
\* the optimally scaled model has the data's total
L_Totals == (Usable /\ HasTheta(em, da)) => SumOver(JointMask(em, da), ScaleBy(em, ThetaOpt(em, da)).d) = DataSum(em, da)
\* rescaling the model changes neither the joint entries nor any term of the multinomial likelihood
L_ScaleInv == (Usable /\ HasTheta(em, da)) => \A c \in Factors :
                 LET e2 == EffModel(ScaleBy(mo, c), da) IN
                 /\ Joint(e2, da) = Joint(em, da) /\ JointMask(e2, da) = JointMask(em, da)
                 /\ ThetaOpt(e2, da) = RDiv(ThetaOpt(em, da), c)
                 /\ \A k \in Joint(em, da) : RMul(ThetaOpt(e2, da), e2.d[k]) = RMul(ThetaOpt(em, da), em.d[k])
\* ... hence LLmultinom(c m) = LLmultinom(m) when ln(c m) = ln c + ln m
L_ScaleInvLL == (Usable /\ HasTheta(em, da) /\ RPos(DataSum(em, da))) =>
                 LET e2 == EffModel(ScaleBy(mo, "2"), da)
                     ln2 == "7/10"           \* stands for ln 2 (any value)
                 IN  LLmultinom(e2, da, [k \in DOMAIN FakeLn |-> RAdd(FakeLn[k], ln2)], FakeLnG, RSub("1/9", ln2))
                       = LLmultinom(em, da, FakeLn, FakeLnG, "1/9")
\* model = c * data: its optimal scaling reproduces the data, and no model beats it
StarModel == [da EXCEPT !.d = RScaleSeq("3/7", da.d), !.m = da.m]
L_Star == RPos(SumOver({k \in 1..Size(da.sh) : ~da.m[k]}, da.d)) =>
             /\ ThetaOpt(StarModel, da) = "7/3"
             /\ \A k \in JointMask(StarModel, da) : RMul(ThetaOpt(StarModel, da), StarModel.d[k]) = da.d[k]
L_DataMaximises == (Usable /\ HasTheta(em, da) /\ AllPos) => RNonNeg(GapLowerBound(em, da))
\* folding: an unfolded model against folded data is the folded model; totals (hence theta) survive folding
L_AutoFold == (~mo.f /\ ~da.f) =>
                 /\ EffModel(mo, Fold(da)) = Fold(mo)
                 /\ (NoMask(mo) /\ NoMask(da) /\ HasTheta(mo, da)) => ThetaOpt(EffModel(mo, Fold(da)), Fold(da)) = ThetaOpt(mo, da)
\* residual algebra: sign and the two exact special cases
L_Resid == \A k \in 1..Size(da.sh) : PosAt(mo, k) =>
                 /\ RSign(LinResid(mo.d[k], da.d[k], "3")) = RSign(RSub(mo.d[k], da.d[k]))
                 /\ LinResid(mo.d[k], mo.d[k], "3") = "0"
                 /\ AnsResid("2", "4") = "0"                    \* m = 64 = d  (sixth root 2, cube root 4)
                 /\ RPos(AnsResid("2", "1")) /\ ~RNonNeg(AnsResid("1", "4"))   \* m = 64 > d = 1;  m = 1 < d = 64
=============================================================================
