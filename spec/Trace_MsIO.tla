----------------------------- MODULE Trace_MsIO -----------------------------
(***************************************************************************)
(* Trace validation for module MsIO (extension X01).  A record is one real *)
(* call on dadi:                                                           *)
(*  from_ms_file       the driver wrote an ms output file for an abstract  *)
(*                     content (in.content), in.lines are the lines found  *)
(*                     on disk, out is what Spectrum.from_ms_file returned *)
(*                     (list of spectra, header strings) or what it raised *)
(*  from_sfscode_file  the same for an sfs_code output file                *)
(*  ms_command         Misc.ms_command(theta, ns, core, iter, ..) -> text  *)
(*  mscore             Demographics2D.<model>_mscore(params) -> text       *)
(* The lines are judged against the format (the line-stream machine must   *)
(* recover exactly the recorded content), the returned spectra against     *)
(* SpectrumOfMs / SpectrumOfSfs of the content, entry by entry, mask,      *)
(* folding flag and labels included.                                       *)
(* Tau bounds the one float division of the averaging; TauF is half a unit *)
(* of the sixth decimal ("%f"), TauE the relative float-evaluation slack   *)
(* of a substituted value.                                                 *)
(***************************************************************************)
EXTENDS MsIO, Json, IOUtils
CONSTANTS Tau, TauF, TauE

Trace == JsonDeserialize(IOEnv.TRACE_FILE)
VARIABLE i
F(name, ok) == IF ok THEN {} ELSE {name}
Raised(o) == "raised" \in DOMAIN o

Close(got, exact, avg) == IF avg THEN RCloseRel(got, exact, Tau, "0") ELSE got = exact
SpecClauses(s, exp, avg, idsGiven) ==
    F("Shape", s.sh = exp.sh) \cup
    (IF s.sh = exp.sh /\ Len(s.d) = Len(exp.d) /\ Len(s.m) = Len(exp.m)
     THEN F("Mask", s.m = exp.m) ELSE {"Shape"}) \cup
    F("Unfolded", s.f = exp.f) \cup
    F(IF idsGiven THEN "Labels" ELSE "DefaultLabels", s.ids = exp.ids)
HeaderClauses(r) ==
    IF r.in.opt.hdr THEN F("Header", r.out.command \in {r.in.lines[1], r.in.lines[1] \o <<NL>>} /\ r.out.seeds \in {r.in.lines[2], r.in.lines[2] \o <<NL>>}) ELSE {}

\* ---- from_ms_file ----
MsValueClauses(c, opt, specs) ==
    LET exp == SpectrumOfMs(c, opt)
        n   == Len(exp[1].d)
    IN  IF \E b \in 1..opt.B : specs[b].sh # exp[b].sh \/ Len(specs[b].d) # n THEN {}
        ELSE IF opt.B = 1 THEN F("Values", \A k \in 1..n : Close(specs[1].d[k], exp[1].d[k], opt.avg))
        ELSE LET whole == SpectrumOfMs(c, [opt EXCEPT !.B = 1])[1].d
                 nr    == Len(c.reps)
             IN  F("SegmentSum", \A k \in 1..n : RCloseRel(RSum([b \in 1..opt.B |-> specs[b].d[k]]), whole[k], RMul(Tau, RInt(opt.B)), "0")) \cup
                 F("SegmentValues", \A b \in 1..opt.B :
                        LET lo == SegCounts(c, opt, b, SegSure) hi == SegCounts(c, opt, b, SegMaybe) IN
                        \A k \in 1..n : \E v \in lo[k]..hi[k] : Close(specs[b].d[k], Scale(v, nr, opt.avg), opt.avg))
FMs(r) ==
    LET p == MsParse(r.in.lines) IN
    IF r.in.expect = "refuse" THEN F("FileFormat", ~p.ok) \cup F("NotRefused", Raised(r.out))
    ELSE IF ~p.ok \/ p.out # r.in.content THEN {"FileFormat"}
    ELSE IF Raised(r.out) THEN {"Raised"}
    ELSE IF Len(r.out.specs) # r.in.opt.B THEN {"SpectrumCount"}
    ELSE LET c == r.in.content opt == r.in.opt exp == SpectrumOfMs(c, opt) IN
         UNION {SpecClauses(r.out.specs[b], exp[b], opt.avg, opt.ids # <<>>) : b \in 1..opt.B} \cup
         MsValueClauses(c, opt, r.out.specs) \cup HeaderClauses(r)

\* ---- from_sfscode_file ----
FSfs(r) ==
    LET p == SfsParse(r.in.lines) IN
    IF ~p.ok \/ p.c # r.in.content THEN {"FileFormat"}
    ELSE IF Raised(r.out) THEN {"Raised"}
    ELSE LET opt == r.in.opt exp == SpectrumOfSfs(r.in.content, opt) s == r.out.spec IN
         SpecClauses(s, exp, opt.avg, opt.ids # <<>>) \cup
         (IF s.sh = exp.sh /\ Len(s.d) = Len(exp.d) THEN F("Values", \A k \in 1..Len(exp.d) : Close(s.d[k], exp.d[k], opt.avg)) ELSE {}) \cup
         HeaderClauses(r)

\* ---- ms_command ----
FCommand(r) ==
    IF Raised(r.out) THEN {"Raised"}
    ELSE LET a == r.in toks == Words(r.out.text) c == MsParseCmd(r.out.text) IN
         F("Tokens", TokensOK(MsCommand(a.theta, a.ns, a.core, a.iter, a.recomb, a.rsites, a.seeds), toks, TauF, TauE)) \cup
         F("ReaderAgrees", c.ok /\ c.nsam = ISumSeq(a.ns) /\ c.nreps = a.iter /\ c.pops = (IF Len(a.ns) > 1 THEN a.ns ELSE <<>>))

\* ---- *_mscore ----
LnOf(tab, x) == LET hit == {j \in 1..Len(tab.ln) : tab.ln[j][1] = x} IN IF hit = {} THEN "nan" ELSE tab.ln[IMin(hit)][2]
FCore(r) ==
    IF Raised(r.out) THEN {"Raised"}
    ELSE LET args == MsCoreLnArgs(r.in.model, r.in.p)
             lnv  == IF args = <<>> THEN [a1 |-> "0", a2 |-> "0"] ELSE [a1 |-> LnOf(r.in.tab, args[1]), a2 |-> LnOf(r.in.tab, args[2])]
             toks == Words(r.out.text)
         IN  IF ~IsNum(lnv.a1) \/ ~IsNum(lnv.a2) THEN {"MissingTable"}
             ELSE LET items == MsCore(r.in.model, r.in.p, lnv) IN
                  F("KnownModel", items # <<>>) \cup
                  F("Tokens", TokensOK(items, toks, TauF, TauE)) \cup
                  F("NoPlaceholderLeft", \A j \in 1..Len(r.out.text) : r.out.text[j] \notin {"%", "(", ")"})

Failed(r) ==
    CASE r.op = "from_ms_file"      -> FMs(r)
      [] r.op = "from_sfscode_file" -> FSfs(r)
      [] r.op = "ms_command"        -> FCommand(r)
      [] r.op = "mscore"            -> FCore(r)
      [] OTHER                      -> {"UnknownOp"}

Init == i = 0
Next == /\ i < Len(Trace)
        /\ i' = i + 1
        /\ LET r == Trace[i + 1] f == Failed(r) IN IF f = {} THEN TRUE ELSE PrintT(<<"BAD", r.id, f>>)
Spec == Init /\ [][Next]_i
Done == (i = Len(Trace)) => PrintT(<<"DONE", i>>)
AllConsumed == TLCGet("stats").diameter - 1 = Len(Trace)
=============================================================================
