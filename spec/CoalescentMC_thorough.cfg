CONSTANTS
  N = 9
  MaxEpochs = 4
SPECIFICATION Spec
CHECK_DEADLOCK FALSE
INVARIANT RefinementInvariant
INVARIANT ConstantIsNeutral
INVARIANT Positive
