CONSTANTS
  MaxW = 2
  MaxJ = 2
  MaxSplit = 1
  MaxPieces = 1
  AllowDie = TRUE
  PathSet = 0
SPECIFICATION Spec
CHECK_DEADLOCK FALSE
INVARIANT L_NoSilentHole
