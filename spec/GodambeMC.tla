----------------------------- MODULE GodambeMC -----------------------------
(***************************************************************************)
(* Exhaustive exploration for C19.  Three small machines over module       *)
(* Godambe, selected by the configuration file:                            *)
(*   SpecStencil : state = (test function, parameter point, eps); laws:    *)
(*                 the Hessian stencil is exact on every quadratic, the    *)
(*                 gradient stencil on quadratics (central) / linear       *)
(*                 functions (one-sided), at points with zero, tiny and    *)
(*                 negative coordinates.  Stencils are linear in the       *)
(*                 function, so the monomial basis (plus one generic       *)
(*                 quadratic) decides all quadratics.                      *)
(*   SpecStats   : state = (linear Poisson model, data, bootstrap list);   *)
(*                 laws: closed forms are consistent (Hessian = derivative *)
(*                 of the score), symmetric, and every statistic is        *)
(*                 invariant under permutation of the bootstrap list.      *)
(*   SpecCache   : the spectrum cache with function objects that are       *)
(*                 created, called (at points <<params, ns, grid>>) and    *)
(*                 dropped; law: a call is always served the spectrum of   *)
(*                 its own model at its own point.  Refuted variants: key  *)
(*                 = number derived from the address (_hashkey), key       *)
(*                 without one component of the point (_dropgrid, _dropns, *)
(*                 _dropparams).                                           *)
(***************************************************************************)
EXTENDS Godambe, TLC
CONSTANTS MaxDepth, Dims, KeyHoldsRef, Addrs, FullBoots

VARIABLES st, depth
vars == <<st, depth>>

(***************************************************************************)
(* stencils                                                                *)
(***************************************************************************)
Primes == <<"2", "-3", "5", "7", "-11", "13", "17", "19", "-23", "29", "31", "37">>
SymPrime(n) == [i \in 1..n |-> [j \in 1..n |-> Primes[IF i <= j THEN (i - 1) * n + j ELSE (j - 1) * n + i]]]
Mono2(n, a, b) == [Q |-> [i \in 1..n |-> [j \in 1..n |-> IF (i = a /\ j = b) \/ (i = b /\ j = a) THEN (IF a = b THEN "2" ELSE "1") ELSE "0"]],
                   b |-> VZero(n), c |-> "0"]                                   \* x_a x_b
Mono1(n, a)    == [Q |-> MZero(n), b |-> [i \in 1..n |-> IF i = a THEN "1" ELSE "0"], c |-> "0"]   \* x_a
Mono0(n)       == [Q |-> MZero(n), b |-> VZero(n), c |-> "1"]
Generic(n)     == [Q |-> SymPrime(n), b |-> [i \in 1..n |-> Primes[13 - i]], c |-> "41/3"]
GenericLin(n)  == [Q |-> MZero(n), b |-> [i \in 1..n |-> Primes[i + 3]], c |-> "-9/7"]
Funcs(n) == {Mono2(n, a, b) : a, b \in 1..n} \cup {Mono1(n, a) : a \in 1..n} \cup {Mono0(n), Generic(n), GenericLin(n)}
\* zero, ordinary, negative, tiny (p*eps < 1e-6 for every eps), borderline values
\* (1/100000 and 1/100 sit exactly on the threshold p * eps = 1e-6 for eps = 1/10 and 1/10000)
PVals   == {"0", "1", "-2", "1/2", "1/1000000000", "3/10000000", "1/100000", "1/100", "7"}
EpsVals == {"1/10", "1/100", "1/10000"}

InitStencil == /\ depth = -1
               /\ \E n \in Dims : \E f \in Funcs(n) : st = [f |-> f, p |-> [i \in 1..n |-> "1"], eps |-> "1/100"]
ChooseStencil == /\ depth = -1 /\ depth' = 0
                 /\ \E p \in [1..Len(st.p) -> PVals] : \E e \in EpsVals : st' = [st EXCEPT !.p = p, !.eps = e]
MoveStencil == /\ depth >= 0 /\ depth < MaxDepth /\ depth' = depth + 1
               /\ \/ \E i \in 1..Len(st.p) : \E v \in PVals : st' = [st EXCEPT !.p[i] = v]
                  \/ \E e \in EpsVals : st' = [st EXCEPT !.eps = e]
SpecStencil == InitStencil /\ [][ChooseStencil \/ MoveStencil]_vars

F0(x) == QEval(st.f, x)
L_StepRule == \A i \in 1..Len(st.p) :
                 LET p == st.p[i] h == StepLen(p, st.eps) one == OneSided(p, st.eps) IN
                 /\ RPos(h)
                 /\ one = (RIsZero(p) \/ RLt(RMul(p, st.eps), "1/1000000"))
                 /\ (one => h = st.eps) /\ (~one => h = RMul(st.eps, p))
\* "the finite-difference Hessian is exact for every quadratic function"
L_HessExact == HessFD(F0, st.p, st.eps) = st.f.Q
L_HessSym   == IsSym(HessFD(F0, st.p, st.eps))
\* "the gradient is exact for quadratics under central and for linear functions under one-sided differences"
L_GradCentral == \A i \in 1..Len(st.p) : ~OneSided(st.p[i], st.eps) => GradFD(F0, st.p, st.eps)[i] = QGrad(st.f, st.p)[i]
L_GradLinear  == QIsLinear(st.f) => GradFD(F0, st.p, st.eps) = st.f.b
\* what the one-sided difference returns on a quadratic: the derivative plus h Q_ii / 2 (first order, as specified)
L_GradOneSided == \A i \in 1..Len(st.p) : OneSided(st.p[i], st.eps) =>
                     GradFD(F0, st.p, st.eps)[i] = RAdd(QGrad(st.f, st.p)[i], RHalf(RMul(st.eps, st.f.Q[i][i])))

\* on the threshold (NearTie) a double-precision implementation may take either stencil for that parameter: all laws
\* hold for every admissible choice, provided points and divisor belong to the same stencil
L_TieChoice == \A one \in SidedChoices(st.p, st.eps) :
                  LET g == GradFDWith(F0, st.p, st.eps, one) IN
                  /\ HessFDWith(F0, st.p, st.eps, one) = st.f.Q
                  /\ \A i \in 1..Len(st.p) : ~one[i] => g[i] = QGrad(st.f, st.p)[i]
                  /\ QIsLinear(st.f) => g = st.f.b
\* non-vacuity of the above: the model does visit points with more than one admissible choice, and the rule's own
\* choice is always among them
L_TieVisited == /\ Sided(st.p, st.eps) \in SidedChoices(st.p, st.eps)
                /\ (\E i \in 1..Len(st.p) : NearTie(st.p[i], st.eps)) <=> Cardinality(SidedChoices(st.p, st.eps)) > 1

(***************************************************************************)
(* closed forms of the statistics                                          *)
(***************************************************************************)
BasisPool == <<<<"1", "2", "3", "1/2">>, <<"3", "1", "1/2", "2">>, <<"1", "1", "1", "1">>>>
DataPool  == <<<<"4", "7", "5", "2">>, <<"6", "3", "9", "1">>, <<"2", "8", "4", "3">>, <<"5", "5", "1", "6">>, <<"9", "2", "6", "4">>>>
LivePool  == {<<TRUE, TRUE, TRUE, TRUE>>, <<TRUE, TRUE, TRUE, FALSE>>}
Fixed(mn) == IF mn THEN <<"1", "1/2", "2", "1">> ELSE <<"0", "0", "0", "0">>
Models == {[B0 |-> Fixed(mn), B |-> <<BasisPool[a]>>, p |-> <<pa>>, multinom |-> mn, live |-> lv] :
              a \in 1..2, pa \in {"1", "3/2"}, mn \in BOOLEAN, lv \in LivePool}
          \cup {[B0 |-> Fixed(mn), B |-> <<BasisPool[a], BasisPool[b]>>, p |-> <<pa, pb>>, multinom |-> mn, live |-> lv] :
                  a \in {1}, b \in {2, 3}, pa \in {"1", "3/2"}, pb \in {"2", "1/3"}, mn \in BOOLEAN, lv \in LivePool}
Perms(n) == {q \in [1..n -> 1..n] : \A i, j \in 1..n : i # j => q[i] # q[j]}
InitStats == /\ depth = -1
             /\ \E md \in Models : st = [md |-> md, d |-> DataPool[1], boots |-> <<DataPool[2], DataPool[3], DataPool[4]>>,
                                         adj |-> <<"1", "1", "1">>]
ChooseStats == /\ depth = -1 /\ depth' = 0
               /\ \E d \in 1..2 : \E bs \in {q \in [1..3 -> 2..5] : IF FullBoots THEN q[1] # q[2] /\ q[2] # q[3] /\ q[1] # q[3] ELSE q[1] < q[2] /\ q[2] < q[3]} :
                  \E ad \in {<<"1", "1", "1">>, <<"1", "9/10", "6/5">>} :
                     /\ (st.md.multinom => ad = <<"1", "1", "1">>)
                     /\ st' = [st EXCEPT !.d = DataPool[d], !.boots = [k \in 1..3 |-> DataPool[bs[k]]], !.adj = ad]
SpecStats == InitStats /\ [][ChooseStats]_vars

Th  == IF st.md.multinom THEN ThetaFit(st.md, st.d) ELSE "1"
DS  == Design(st.md, Th)
PermSeq(s, q) == [k \in 1..Len(s) |-> s[q[k]]]
LrtOf(H, J)   == RDiv(RInt(Len(H)), MTrace(MMul(J, MInv(H))))
L_InfoSym == LET ds == DS IN IsSym(InfoMat(ds, st.d)) /\ IsSym(JMat(ds, st.boots, st.adj))
\* the information matrix is minus the derivative of the score: exact difference quotient identity
\*   (g_a(p + t e_b) - g_a(p)) / t = - sum_i d_i B_a B_b / (m_i(p) m_i(p + t e_b))      (plain linear model)
L_ScoreInfo == (~st.md.multinom) => \A a, b \in 1..Len(st.md.p) : \A t \in {"1/2", "1/1000"} :
                  LET md2 == [st.md EXCEPT !.p[b] = RAdd(@, t)]
                      ds1 == Design(st.md, "1") ds2 == Design(md2, "1")
                  IN  RDiv(RSub(ScoreVec(ds2, st.d, "1")[a], ScoreVec(ds1, st.d, "1")[a]), t)
                        = RNeg(RSum([i \in LiveSet(st.md) |-> RDiv(RMul(st.d[i], RMul(st.md.B[a][i], st.md.B[b][i])),
                                                                     RMul(ds1.mu[i], ds2.mu[i]))]))
\* at the fitted theta the theta-score of the data vanishes (multinom), and data = mean has zero score
L_ThetaScoreZero == st.md.multinom => LET ds == DS IN RIsZero(ScoreVec(ds, st.d, "1")[NPar(st.md)])
L_FitScoreZero   == LET ds == DS IN \A a \in 1..NPar(st.md) : RIsZero(ScoreVec(ds, ds.mu, "1")[a])
\* the positive parts dominate, and coincide with information / score part where all terms are positive
L_PosParts == LET ds == DS H == InfoMat(ds, st.d) P == InfoPos(ds, st.d) IN
              \A a, b \in 1..NPar(st.md) : (~st.md.multinom => H[a][b] = P[a][b]) /\ RNonNeg(P[a][b]) /\ (a <= Len(st.md.p) /\ b <= Len(st.md.p) => H[a][b] = P[a][b])
\* exact linear algebra: inverse, Godambe sandwich
L_Inverse  == LET H == InfoMat(DS, st.d) IN Invertible(H) => MMul(H, MInv(H)) = MId(NPar(st.md))
L_Sandwich == LET H == InfoMat(DS, st.d) IN Invertible(H) => GodambeMat(H, H) = H
\* statistics do not depend on the order of the bootstraps: J and cU are invariant, and the Godambe matrix, the LRT
\* adjustment and the score statistic are functions of (H, J, cU) only
L_PermInvariant ==
    LET ds == DS
        J0 == JMat(ds, st.boots, st.adj)
        c0 == CUVec(ds, st.boots, st.adj)
    IN  \A q \in Perms(3) :
           LET bs == PermSeq(st.boots, q) ad == PermSeq(st.adj, q) IN
           JMat(ds, bs, ad) = J0 /\ CUVec(ds, bs, ad) = c0
L_StatsOfHJ ==
    LET ds == DS
        H  == InfoMat(ds, st.d)
        J0 == JMat(ds, st.boots, st.adj)
        J1 == JMat(ds, PermSeq(st.boots, <<3, 1, 2>>), PermSeq(st.adj, <<3, 1, 2>>))
        c1 == CUVec(ds, PermSeq(st.boots, <<2, 3, 1>>), PermSeq(st.adj, <<2, 3, 1>>))
        c0 == CUVec(ds, st.boots, st.adj)
    IN  (Invertible(J0) /\ Invertible(H)) =>
           /\ GodambeMat(H, J1) = GodambeMat(H, J0) /\ IsSym(GodambeMat(H, J0))
           /\ LrtOf(H, J1) = LrtOf(H, J0)
           /\ Quad(c1, MInv(J1), c1) = Quad(c0, MInv(J0), c0)
\* folding: mass is conserved, the upper half is empty, and the folded model is the linear model of the folded components
L_Fold == LET md == st.md fm == FoldModel(md) n == Len(md.live)
              lin == Vec(n, LAMBDA i : Lin(md, i))
          IN  /\ RSum(FoldVec(lin)) = RSum(lin)
              /\ \A i \in 1..n : Lin(fm, i) = FoldVec(lin)[i]
              /\ \A i \in 1..n : i \notin LowerHalf(n) => RIsZero(Lin(fm, i)) /\ ~fm.live[i]
              /\ FoldVec(FoldVec(lin)) = FoldVec(lin)
\* the mixture tail: weights (0,1) give the plain chi-square tail, weight on zero d.o.f. only counts for x > 0
L_Chi2 == /\ Chi2MixTail("3", <<"0", "1">>, <<"9/10">>) = "1/10"
          /\ Chi2MixTail("3", <<"1/2", "1/2">>, <<"9/10">>) = "1/20"
          /\ Chi2MixTail("0", <<"1/2", "1/2">>, <<"0">>) = "1"
          /\ Chi2MixTail("3", <<"1/4", "1/2", "1/4">>, <<"9/10", "7/10">>) = RSub("1", RAdd(RAdd("9/20", "7/40"), "1/4"))

(***************************************************************************)
(* the spectrum cache                                                      *)
(***************************************************************************)
ModelNames == {"A", "B"}
\* points <<params, ns, grid>>: a base point and one that differs from it in exactly one component, for every component
\* (PointsAll: the full product, used by the thorough configuration)
PointsStar == {<<"p0", "n1", "g1">>, <<"p1", "n1", "g1">>, <<"p0", "n2", "g1">>, <<"p0", "n1", "g2">>}
PointsAll  == {<<p, n, g>> : p \in {"p0", "p1"}, n \in {"n1", "n2"}, g \in {"g1", "g2"}}
Points     == PointsStar
\* components of the point the key is built from (the specified key: all of them); the refutation configurations
\* GodambeMC_cache_drop*.cfg replace it by a key without the grid / sample-size / parameter component
KeyParts   == KeyPartsFull
PartsNoGrid   == {1, 2}
PartsNoNs     == {1, 3}
PartsNoParams == {2, 3}
NoCall     == [obj |-> [addr |-> 0, model |-> "A"], pt |-> <<"p0", "n1", "g1">>, served |-> <<"A", <<"p0", "n1", "g1">>>>]
InitCache == depth = 0 /\ st = [alive |-> {}, held |-> {}, cache |-> <<>>, last |-> NoCall]
Occupied  == {o.addr : o \in st.alive}
\* a caller creates a function object (a def, or a transient lambda) at any free address
Alloc == \E m \in ModelNames : \E a \in Addrs \ Occupied :
            LET o == [addr |-> a, model |-> m] IN st' = [st EXCEPT !.alive = @ \cup {o}, !.held = @ \cup {o}]
\* a Godambe function evaluates the model through the cache
Call  == \E o \in st.held : \E pt \in Points :
            st' = [st EXCEPT !.cache = CachePutK(st.cache, o, pt, KeyParts),
                             !.last = [obj |-> o, pt |-> pt, served |-> ServedK(st.cache, o, pt, KeyParts)]]
\* the caller forgets the object; it is reclaimed unless the cache key keeps it alive
Drop  == \E o \in st.held :
            st' = [st EXCEPT !.held = @ \ {o}, !.alive = IF Reclaimable(st.cache, o, KeyHoldsRef) THEN @ \ {o} ELSE @]
NextCache == depth < MaxDepth /\ depth' = depth + 1 /\ (Alloc \/ Call \/ Drop)
SpecCache == InitCache /\ [][NextCache]_vars
\* "must never serve one model's spectrum to the other" - nor the spectrum of another parameter point, sample size or grid
L_CacheCoherent == Coherent(st.last.served, st.last.obj, st.last.pt)
\* every entry holds the spectrum of a point that agrees with its key in the key's components
L_CacheEntries  == \A k \in DOMAIN st.cache : [c \in DOMAIN k[2] |-> st.cache[k][2][c]] = k[2]
=============================================================================
