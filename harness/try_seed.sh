#!/bin/sh
# usage: try_seed.sh <patch.diff> <prop> [tier]  - run a check against a scratch copy of /repo with the patch applied
# (a copy is used so that other work reading /repo is not disturbed; with no other readers `git -C /repo apply` is equivalent)
set -e
PATCH="$1"; PROP="$2"; TIER="${3:-quick}"
D=$(mktemp -d /var/tmp/seedrepo-XXXXXX)
rsync -a --exclude .git --exclude doc --exclude examples /repo/ "$D/"
( cd "$D" && patch -p1 -s < "$PATCH" )
cd /verif
set +e
VERIF_REPO="$D" ./check "$PROP" --tier "$TIER" --no-mc > "$D.log" 2>&1
RC=$?
grep -E "^VIOLATION|^  what|^KNOWN|MACHINERY|PASS|FAIL" "$D.log" | head -40
rm -rf "$D" "$D.log"
exit $RC
