----------------------------- MODULE DataDictMC -----------------------------
(***************************************************************************)
(* Exhaustive exploration of the VCF reader as a state machine: the state  *)
(* is the file read so far and the reader's state (phase, dictionary,      *)
(* log) for filter = TRUE and filter = FALSE; every step reads one more    *)
(* line.  The laws of C13 are invariants evaluated on every reachable      *)
(* prefix, i.e. on every small genotype matrix of the configuration.       *)
(*                                                                         *)
(* Mode "geno": every genotype matrix (each call in {00, 01, 11, missing};  *)
(*   Alphabet = 3 drops 00 to reach two lines with two populations)        *)
(*   of 1-2 populations x 2 diploids, ancestral allele = REF / ALT /       *)
(*   absent, distinct positions (lines are appended in non-decreasing code *)
(*   order: the laws do not depend on the order of lines with distinct     *)
(*   keys, which mode "flags" checks).                                     *)
(* Mode "flags": few genotype vectors, but every combination of FILTER,    *)
(*   REF/ALT shape, AA field (REF, ALT, absent, mismatching), chromosome   *)
(*   name, position (duplicates included) and interspersed meta lines, in  *)
(*   every order.                                                          *)
(***************************************************************************)
EXTENDS DataDict
CONSTANTS MaxLines, Mode, SampleChoices, Reduce, ChunkSizes, BootMax, AllProjDepth, FlagSet, Alphabet

Samples1 == {<<"P1", "P1">>}
Samples2 == {<<"P1", "P1", "P2", "P2">>}
Samples12 == Samples1 \cup Samples2
SamplesFlags == {<<"P1", "", "P1">>, <<"P2", "P1">>}
SamplesFlags1 == {<<"P2", "", "P1">>}

VARIABLES file, st, depth, pend
vars == <<file, st, depth, pend>>

G4 == IF Alphabet = 4 THEN {<<0, 0>>, <<0, 1>>, <<1, 1>>, <<2, 2>>} ELSE {<<0, 1>>, <<1, 1>>, <<2, 2>>}
GCode(g) == 3 * g[1] + g[2]
DataLine(chrom, pos, filt, ref, alt, aa, gts) ==
    [kind |-> "data", chrom |-> chrom, pos |-> pos, filt |-> filt, ref |-> ref, alt |-> alt, aa |-> aa, gts |-> gts]
\* individuals of one population are exchangeable: optionally keep one representative per class
Canon(samples, g) == \A i, j \in 1..Len(samples) : (i < j /\ samples[i] = samples[j]) => GCode(g[i]) <= GCode(g[j])
AACode(aa) == CASE aa = "A" -> 0 [] aa = "T" -> 1 [] OTHER -> 2
RECURSIVE GVecCode(_, _)
GVecCode(g, j) == IF j > Len(g) THEN 0 ELSE GCode(g[j]) + 9 * GVecCode(g, j + 1)
LineCode(l) == AACode(l.aa) + 3 * GVecCode(l.gts, 1)
GenoLines(samples, pos) ==
    {DataLine("c1", pos, "PASS", "A", "T", aa, g) : aa \in {"A", "T", "absent"},
         g \in {h \in [1..Len(samples) -> G4] : ~Reduce \/ Canon(samples, h)}}
FlagGenos(samples) == {[j \in 1..Len(samples) |-> IF j = 1 THEN <<0, 1>> ELSE <<1, 1>>],
                       [j \in 1..Len(samples) |-> IF j = 1 THEN <<0, 0>> ELSE <<2, 2>>]}
FlagWhere == IF FlagSet = "small" THEN {<<"c_1", 1>>, <<"c_1", 3>>, <<"s.2", 1>>} ELSE {"c_1", "s.2"} \X {1, 3}
FlagLines(samples) ==
    {DataLine(w[1], w[2], ft, ra[1], ra[2], aa, g) : w \in FlagWhere, ft \in {"PASS", "q10"},
         ra \in {<<"A", "T">>, <<"AT", "G">>}, aa \in {"A", "T", "absent", "G"},
         g \in IF FlagSet = "small" THEN {CHOOSE x \in FlagGenos(samples) : x[1] = <<0, 1>>} ELSE FlagGenos(samples)}
    \cup {[kind |-> "meta"]}
LineChoices(samples, d) == IF Mode = "geno" THEN GenoLines(samples, d + 1) ELSE FlagLines(samples)

\* Reading a line takes two steps (choose it, then consume it) so that TLC's workers share the
\* evaluation of the laws on the successor states; the laws speak about states without a pending line.
NoLine == [kind |-> "none"]
Init == /\ depth = 0 /\ pend = NoLine
        /\ \E samples \in SampleChoices :
              /\ file = [samples |-> samples, lines |-> <<[kind |-> "meta"], [kind |-> "header"]>>]
              /\ st = [f \in BOOLEAN |-> ParseFrom(PInit, [samples |-> samples, lines |-> <<[kind |-> "meta"], [kind |-> "header"]>>], 1, f)]
ChooseLine == /\ pend = NoLine /\ depth < MaxLines
              /\ \E l \in LineChoices(file.samples, depth) :
                    /\ (Mode = "geno" /\ depth > 0) => LineCode(l) >= LineCode(file.lines[Len(file.lines)])
                    /\ pend' = l
              /\ UNCHANGED <<file, st, depth>>
ReadLine == /\ pend # NoLine /\ pend' = NoLine /\ depth' = depth + 1
            /\ file' = [file EXCEPT !.lines = Append(@, pend)]
            /\ st' = [f \in BOOLEAN |-> PStep(st[f], file.samples, pend, f)]
Next == ChooseLine \/ ReadLine
Spec == Init /\ [][Next]_vars
Settled == pend = NoLine

\* ------------------------------------------------------------------------
S_   == file.samples
L_(i) == file.lines[i]
DD(f) == st[f].dd
PopsOf == PopSet(S_)
NInd(p) == Cardinality(IdxOf(S_, p))
PopSeqs == IF Cardinality(PopsOf) = 2 THEN {<<"P1", "P2">>, <<"P2">>} ELSE {<<"P1">>}
\* every projection vector up to depth AllProjDepth (all laws are checked per SNP for every projection
\* there); on longer files the projections of two populations are restricted to a few vectors
Projs(pops) == {m \in [1..Len(pops) -> 1..4] :
                   /\ \A a \in 1..Len(pops) : m[a] <= 2 * NInd(pops[a])
                   /\ (depth > AllProjDepth /\ Len(pops) = 2) => m \in {<<4, 4>>, <<2, 3>>, <<3, 1>>, <<2, 2>>}}
FullProj(pops) == [a \in 1..Len(pops) |-> 2 * NInd(pops[a])]
Filters == IF Mode = "geno" THEN {TRUE} ELSE BOOLEAN
EffLines(f, pops, proj, pol) == {i \in Effective(file, f) : LineUsable(S_, L_(i), pops, proj, pol)}

TypeOK == /\ depth \in 0..MaxLines /\ Len(file.lines) = depth + 2
          /\ \A f \in BOOLEAN : st[f].phase = "Data" /\ Len(st[f].log) = Len(file.lines)

\* the reader's dictionary = last stored line of every key; reading incrementally = reading the whole file
L_ParserDirect == Settled => \A f \in BOOLEAN :
    LET dd == DD(f)  E == Effective(file, f) IN
    /\ st[f] = Parse(file, f)
    /\ DOMAIN dd = {Key(L_(i)) : i \in E}
    /\ \A i \in E : dd[Key(L_(i))] = EntryOf(S_, L_(i))
    /\ Cardinality({i \in 1..Len(st[f].log) : st[f].log[i] = "stored"}) = Cardinality(StoredIdx(file, f))
    /\ \A i \in DataIdx(file) : st[f].log[i] = SkipReason(L_(i), f)

\* usable at the level of the dictionary = usable at the level of the genotype matrix; total = their number
L_Total == Settled => \A f \in Filters : \A pops \in PopSeqs : \A proj \in Projs(pops) : \A pol \in BOOLEAN :
    LET U == UsableKeys(DD(f), pops, proj, pol) IN
    /\ U = {Key(L_(i)) : i \in EffLines(f, pops, proj, pol)}
    /\ Total(SpectrumOf(DD(f), pops, proj, pol)) = RInt(Cardinality(U))

\* each entry = sum over usable SNPs of the fraction of subsamples showing exactly that configuration
L_Literal == Settled => \A f \in Filters : \A pops \in PopSeqs : \A proj \in Projs(pops) :
    LET s == SpectrumOf(DD(f), pops, proj, TRUE)
        E == SetToSeq(EffLines(f, pops, proj, TRUE))
        \* per usable SNP: the derived-count configuration of every subsample
        hist == TLCEval([u \in 1..Len(E) |-> LET l == L_(E[u]) SS == Subsamples(S_, l, pops, proj) IN
                          TLCEval([t \in SS |-> [a \in 1..Len(pops) |-> DerivedIn(l, t[a])]])]) IN
    \A k \in 1..Size(s.sh) :
        s.d[k] = RSum([u \in 1..Len(E) |-> RDiv(RInt(Cardinality({t \in DOMAIN hist[u] : hist[u][t] = Unflat(s.sh, k)})),
                                                RInt(Cardinality(DOMAIN hist[u])))])

\* the folded spectrum ignores the ancestral-allele information, and is the fold of any polarisation
EraseOG(dd) == [k \in DOMAIN dd |-> [dd[k] EXCEPT !.og = "-"]]
L_Fold == Settled => \A f \in Filters : \A pops \in PopSeqs : \A proj \in Projs(pops) :
    LET fo == SpectrumOf(DD(f), pops, proj, FALSE) IN
    /\ Same(fo, SpectrumOf(EraseOG(DD(f)), pops, proj, FALSE))
    /\ fo.f /\ WellFormed(fo)
    /\ (\A k \in DOMAIN DD(f) : Polarized(DD(f)[k])) => Same(fo, Fold(SpectrumOf(DD(f), pops, proj, TRUE)))

\* projecting the dictionary = projecting the spectrum when no call is missing (ties to C08), and the
\* order of the requested populations is the order of the axes (ties to C10)
L_ProjectConsistent == Settled => \A f \in Filters : \A pops \in PopSeqs :
    LET full == SpectrumOf(DD(f), pops, FullProj(pops), TRUE) IN
    \A proj \in Projs(pops) :
       (\A k \in UsableKeys(DD(f), pops, proj, TRUE) : CalledVec(DD(f)[k], pops) = FullProj(pops))
          => SpectrumOf(DD(f), pops, proj, TRUE).d = Project(full, proj).d
L_PopOrder == (Settled /\ Cardinality(PopsOf) = 2) => \A f \in Filters : \A proj \in Projs(<<"P1", "P2">>) : \A pol \in BOOLEAN :
    Same(SpectrumOf(DD(f), <<"P2", "P1">>, <<proj[2], proj[1]>>, pol), Reorder(SpectrumOf(DD(f), <<"P1", "P2">>, proj, pol), <<2, 1>>))

\* canonical chunks are a legal chunking; chunk spectra add up to the whole; bootstraps are sums of chunk spectra
Identity(n) == [i \in 1..n |-> i]
L_Chunks == Settled => \A f \in Filters : \A cs \in ChunkSizes :
    LET dd == DD(f)
        where == WhereOfFile(file, Effective(file, f))
        q == SetToSeq(ChunkSets(where, cs)) IN
    /\ DOMAIN where = DOMAIN dd
    /\ IsPartition(q, DOMAIN dd) /\ OneChrom(q, where) /\ SpanOK(q, where, cs) /\ Contiguous(q, where)
    /\ \A pops \in PopSeqs : \A pol \in BOOLEAN :
          LET proj == [a \in 1..Len(pops) |-> 2]
              whole == SpectrumOf(dd, pops, proj, pol)
              csp == ChunkSpectra(dd, q, pops, proj, pol) IN
          Len(q) > 0 =>
            /\ AddSpectra(csp, whole).d = whole.d
            /\ BootSum(csp, Identity(Len(q))).d = whole.d
            /\ Len(q) <= BootMax => \A draw \in [1..Len(q) -> 1..Len(q)] :
                  Total(BootSum(csp, draw)) = RSum([i \in 1..Len(q) |-> Total(csp[draw[i]])])

\* "calls of some k fully called individuals" (closed form) = literally choosing k individuals;
\* a line is stored under subsampling iff k individuals can be chosen in every requested population
L_Subsample == Settled => \A i \in StoredIdx(file, TRUE) : \A p \in PopsOf : \A k \in 1..NInd(p) :
    LET l == L_(i)  FC == FullyCalled(S_, l, p) IN
    /\ \A c \in (0..(2 * k)) \X (0..(2 * k)) :
          SubCallsOK(S_, l, p, k, c) <=> \E T \in KSubsets(FC, k) : CallsOfIndividuals(l, T) = c
    /\ (i \in SubStoredIdx(file, TRUE, [x \in {p} |-> k])) <=> (KSubsets(FC, k) # {})

\* statistics of the spectrum = the same statistics counted on the genotype matrix
L_Stats1 == Settled => \A f \in Filters : \A p \in PopsOf : \A m \in 2..(2 * NInd(p)) :
    LET dd == DD(f)
        s  == SpectrumOf(dd, <<p>>, <<m>>, TRUE)
        sf == SpectrumOf(dd, <<p>>, <<m>>, FALSE)
        E  == EffLines(f, <<p>>, <<m>>, TRUE)
        EF == EffLines(f, <<p>>, <<m>>, FALSE)
        segfrac(i) == LET C == Chroms(S_, L_(i), p) IN
                      RDiv(RInt(Cardinality({T \in KSubsets(C, m) : \E x, y \in T : AlleleAt(L_(i), x) # AlleleAt(L_(i), y)})),
                           RInt(Cardinality(KSubsets(C, m))))
        pairfrac(i) == RDiv(RInt(Cardinality(DiffPairs(S_, L_(i), p))), RInt(Cardinality(KSubsets(Chroms(S_, L_(i), p), 2))))
    IN
    /\ SOf(s)  = RSum([i \in E |-> segfrac(i)])   /\ SOf(s)  = SMat(dd, <<p>>, <<m>>, TRUE)
    /\ SOf(sf) = RSum([i \in EF |-> segfrac(i)])  /\ SOf(sf) = SMat(dd, <<p>>, <<m>>, FALSE)
    /\ PiOf(s)  = RSum([i \in E |-> pairfrac(i)])  /\ PiOf(s)  = PiMat(dd, p, m, TRUE)
    /\ PiOf(sf) = RSum([i \in EF |-> pairfrac(i)]) /\ PiOf(sf) = PiMat(dd, p, m, FALSE)
    /\ WattersonOf(s) = RDiv(SMat(dd, <<p>>, <<m>>, TRUE), Harm(m))
    /\ ThetaLOf(s) = RSum([i \in E |-> SubsampleAvg(S_, L_(i), <<p>>, <<m>>,
                              LAMBDA c : IF c[1] > 0 /\ c[1] < m THEN RDiv(RInt(c[1]), RInt(m - 1)) ELSE "0")])
    /\ ThetaLOf(s) = ThetaLMat(dd, p, m)
    /\ TajNumOf(s) = RSub(PiMat(dd, p, m, TRUE), RDiv(SMat(dd, <<p>>, <<m>>, TRUE), Harm(m)))
    /\ TajCsq(s) = TajCsqOf(m, SMat(dd, <<p>>, <<m>>, TRUE))
    /\ (m >= 4 /\ RPos(SOf(s))) => RPos(TajCsq(s))
    /\ (m <= 3) => RIsZero(TajCsq(s))
L_Fst == (Settled /\ Cardinality(PopsOf) = 2) => \A f \in Filters : \A proj \in {FullProj(<<"P1", "P2">>), <<3, 2>>} : \A pol \in BOOLEAN :
    LET pops == <<"P1", "P2">>
        s == SpectrumOf(DD(f), pops, proj, pol)
        E == EffLines(f, pops, proj, pol)
        fs == FstSums(s) IN
    FstDefined(s.sh) =>
       /\ fs[1] = RSum([i \in E |-> SubsampleAvg(S_, L_(i), pops, proj, LAMBDA c : WC(proj, c)[1])])
       /\ fs[2] = RSum([i \in E |-> SubsampleAvg(S_, L_(i), pops, proj, LAMBDA c : WC(proj, c)[2])])
       /\ SOf(s) = SMat(DD(f), pops, proj, pol)
       /\ RNonNeg(fs[2])
=============================================================================
