CONSTANTS
  MaxDepth = 1
  Shapes <- ShapesThoroughBook
  FullMaskSize = 4
SPECIFICATION Spec
CHECK_DEADLOCK FALSE
INVARIANT TypeOK
INVARIANT L_MargTotal
INVARIANT L_ReorderTotal
INVARIANT L_CombineTotal
INVARIANT L_ScrambleTotal
INVARIANT L_MargProject
INVARIANT L_ReorderProject
INVARIANT L_ReorderFold
INVARIANT L_MargFold
INVARIANT L_CombineFold
INVARIANT L_ReorderCompose
INVARIANT L_ScrambleFixed
INVARIANT L_IdsFollow
