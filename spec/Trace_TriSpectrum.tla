------------------------- MODULE Trace_TriSpectrum -------------------------
(***************************************************************************)
(* Trace validation for module TriSpectrum.  Each record is one call on    *)
(* the real dadi.Triallele (TriSpectrum object, numerics, integration,     *)
(* demographics) with its exact inputs and the raw observed result; it is  *)
(* judged against the module's operator for that call.  The verdict is the *)
(* set of violated clauses; nothing is judged outside TLC.                 *)
(***************************************************************************)
EXTENDS TriSpectrum, Json, IOUtils
CONSTANTS Tau,      \* relative tolerance of one or a few float operations (linear maps on the data)
          TauS      \* relative tolerance of float-evaluated weights (exp(lgamma) trinomial / hypergeometric) and long sums

Trace == JsonDeserialize(IOEnv.TRACE_FILE)
VARIABLE i
F(name, ok) == IF ok THEN {} ELSE {name}
Raised(r) == "raised" \in DOMAIN r.out
Tiny == "1/1000000000000000000000000000000"
MaxAbsOn(d, S) == LET RECURSIVE go(_, _)
                      go(T, m) == IF T = {} THEN m ELSE LET k == CHOOSE y \in T : TRUE IN go(T \ {k}, RMax(m, RAbs(d[k])))
                  IN go(S, "0")

\* observed spectrum: [n, d, m, fm, fa, ex, et, flags_ok]
ShapeOK(o, n) == o.n = n /\ Len(o.d) = Size(n) /\ Len(o.m) = Size(n)
\* data at the entries the specification leaves unmasked
DataOK(o, e, tau, floor) ==
    \A k \in 1..Size(e.n) : ~e.m[k] => RCloseRel(o.d[k], e.d[k], tau, floor)
FloorOf(e) == RMul(Tiny, MaxAbsOn(e.d, Unmasked(e)))
Cmp(r, e, tag, tau, floor) ==
    IF Raised(r) THEN {tag \o "Raised"}
    ELSE LET o == r.out.s IN
         IF ~ShapeOK(o, e.n) THEN {tag \o "Shape"}
         ELSE F(tag \o "Data", DataOK(o, e, tau, floor)) \cup F(tag \o "Mask", o.m = e.m) \cup
              F(tag \o "Flags", o.flags_ok /\ o.fm = e.fm /\ o.fa = e.fa) \cup
              F(tag \o "Extrap", o.ex = e.ex /\ o.et = e.et)
CmpT(r, e, tag) == Cmp(r, e, tag, Tau, FloorOf(e))
\* data and mask only (helpers that return fresh objects)
CmpDM(r, e, tag, tau, floor) ==
    IF Raised(r) THEN {tag \o "Raised"}
    ELSE LET o == r.out.s IN
         IF ~ShapeOK(o, e.n) THEN {tag \o "Shape"}
         ELSE F(tag \o "Data", DataOK(o, e, tau, floor)) \cup F(tag \o "Mask", o.m = e.m)
Spec0(q) == [n |-> q.n, d |-> q.d, m |-> q.m, fm |-> q.fm, fa |-> q.fa, ex |-> q.ex, et |-> q.et]   \* drop recorder extras

\* ---------------- the object ----------------
FNew(r) ==
    LET q == r.in
        m == IF q.m = <<>> THEN NoMask(q.n) ELSE q.m
        e == New(q.n, q.d, m, q.mi, q.fm = "True", q.fa = "True", q.ex, q.et)
    IN  CmpT(r, e, "New") \cup
        (IF ~Raised(r) /\ q.mi /\ ShapeOK(r.out.s, q.n)
         THEN F("NewSimplex", \A a, b \in 0..q.n : (~Feasible(q.n, a, b)) => r.out.s.m[K(q.n, a, b)]) ELSE {})
FFoldMajor(r) == LET s == Spec0(r.in.s) IN
    IF s.fm THEN F("FoldFoldedRefused", Raised(r)) ELSE CmpT(r, FoldMajor(s), "FoldMajor")
FFoldAnc(r) == LET s == Spec0(r.in.s) IN
    IF s.fa THEN F("FoldFoldedRefused", Raised(r)) ELSE CmpT(r, FoldAncestral(s), "FoldAnc")
FUnfold(r) == LET s == Spec0(r.in.s) IN
    IF ~s.fm THEN F("UnfoldUnfoldedRefused", Raised(r)) ELSE CmpT(r, Unfold(s), "Unfold")
FArith(r) ==
    LET a == Spec0(r.in.a)
        isS == "b" \in DOMAIN r.in
    IN  IF isS /\ ~CanOperate(a, Spec0(r.in.b)) THEN F("MixedFoldingRefused", Raised(r))
        ELSE CmpT(r, IF isS THEN (IF r.in.refl THEN Arith(r.in.op, Spec0(r.in.b), a) ELSE Arith(r.in.op, a, Spec0(r.in.b)))
                     ELSE ArithScalar(r.in.op, a, r.in.c, r.in.refl), "Arith")
\* views, copies, ufuncs: the four attributes travel along
FKeep(r) == IF Raised(r) THEN {"KeepRaised"}
            ELSE LET s == r.in.s o == r.out IN
                 F("KeepFlags", o.fm = (IF s.fm THEN "True" ELSE "False") /\ o.fa = (IF s.fa THEN "True" ELSE "False")) \cup
                 F("KeepExtrap", o.ex = s.ex /\ o.et = s.et)
\* (the sum over no entries at all is numpy's "masked", not a number)
FS(r) == IF Raised(r) THEN {"SRaised"} ELSE F("STotal", Unmasked(Spec0(r.in.s)) = {} \/ RCloseRel(r.out.v, Total(Spec0(r.in.s)), Tau, "0"))
FPickle(r) == CmpT(r, Spec0(r.in.s), "Pickle") \cup
              (IF ~Raised(r) /\ ShapeOK(r.out.s, r.in.s.n) THEN F("PickleExact", r.out.s.d = r.in.s.d) ELSE {})
\* to_file then from_file: what is on disk follows the documented format, and reading gives the spectrum back
FFile(r) ==
    IF Raised(r) THEN {"FileRaised"}
    ELSE LET s == Spec0(r.in.s)
             f == r.out.file
             o == r.out.r
             p == r.in.precision
             w == WriteFile(s)
             tol == RAdd(PrecTol(p), Tau)
             full == r.in.fmi /\ r.in.exi
             \* what a file without folding / mask information (foldmaskinfo=False) or without the extrapolation values
             \* (extrapinfo=False) can give back: unfolded, nothing masked (but the infeasible entries), no values
             hdr == [w.hdr EXCEPT !.fm = IF r.in.fmi THEN @ ELSE "unfolded_major", !.fa = IF r.in.fmi THEN @ ELSE "unfolded_ancestral",
                                  !.ex = IF r.in.exi THEN @ ELSE "None", !.et = IF r.in.exi THEN @ ELSE "None"]
             e == ReadFile([hdr |-> hdr, data |-> s.d, mask |-> IF r.in.fmi THEN w.mask ELSE [k \in 1..Size(s.n) |-> 0]], r.in.mi)
         IN  (IF full THEN F("FileHeader", f.hdr = w.hdr) ELSE {}) \cup
             (IF r.in.fmi THEN F("FileMask", f.mask = w.mask) ELSE F("FileMask", f.mask = <<>>)) \cup
             F("FileData", Len(f.data) = Size(s.n) /\ \A k \in 1..Size(s.n) : RCloseRel(f.data[k], s.d[k], PrecTol(p), "0")) \cup
             F("FileComments", f.comments = r.in.comments) \cup
             (IF ~ShapeOK(o, s.n) THEN {"ReadShape"}
              ELSE F("ReadData", \A k \in 1..Size(s.n) : RCloseRel(o.d[k], s.d[k], tol, "0")) \cup
                   (IF p >= 17 THEN F("ReadDataExact", o.d = s.d) ELSE {}) \cup
                   F("ReadMask", o.m = e.m) \cup F("ReadFlags", o.flags_ok /\ o.fm = e.fm /\ o.fa = e.fa) \cup
                   F("ReadExtrap", o.ex = e.ex /\ o.et = e.et)) \cup
             (IF r.in.rc THEN F("ReadComments", r.out.comments = r.in.comments) ELSE {})

\* ---------------- spectrum helpers of numerics ----------------
ProjFloor(s) == RMul(Tiny, MaxAbsOn(s.d, Unmasked(s)))
FProject(r) ==
    LET s == Spec0(r.in.s) IN
    IF ~CanProject(s, r.in.n) THEN F("UpwardNotProjected", Raised(r) \/ (ShapeOK(r.out.s, s.n) /\ r.out.s.d = s.d /\ r.out.s.m = s.m))
    ELSE Cmp(r, Project(s, r.in.n), "Proj", TauS, ProjFloor(s))
FProject2(r) == LET s == Spec0(r.in.s) IN CmpDM(r, Project(s, r.in.n2), "TwoStage", TauS, ProjFloor(s))
FMisid(r) == LET s == Spec0(r.in.s) IN CmpT(r, Misid(s, r.in.p), "Misid")
\* the module-level fold / fold_ancestral helpers: same data and mask as the methods, and the result says that it is folded
FFnFold(r) == LET s == Spec0(r.in.s) e == FoldMajor(s) IN
    CmpDM(r, e, "FnFold", Tau, FloorOf(e)) \cup (IF Raised(r) THEN {} ELSE F("FnFoldFlag", r.out.s.fm))
FFnFoldAnc(r) == LET s == Spec0(r.in.s) e == FoldAncestral(s) IN
    CmpDM(r, e, "FnFoldAnc", Tau, FloorOf(e)) \cup (IF Raised(r) THEN {} ELSE F("FnFoldAncFlag", r.out.s.fm /\ r.out.s.fa))
\* optimal_sfs_scaling(model, data) = sum(data) / sum(model) over the entries unmasked in both folded spectra
FScaling(r) ==
    IF Raised(r) THEN {"ScalingRaised"}
    ELSE LET fm(q) == IF q.fm THEN q ELSE FoldMajor(q)
             a == fm(Spec0(r.in.model))
             b == fm(Spec0(r.in.data))
             both == {k \in 1..Size(a.n) : ~a.m[k] /\ ~b.m[k]}
             sa == RSum([k \in both |-> a.d[k]])
             sb == RSum([k \in both |-> b.d[k]])
         IN  F("Scaling", both = {} \/ (sa # "0" /\ RCloseRel(r.out.v, RDiv(sb, sa), Tau, "0")))
\* a law observed on the implementation: two spectra that must agree (data at commonly unmasked entries, mask)
FSameAs(r) ==
    IF Raised(r) THEN {r.in.law \o "Raised"}
    ELSE LET a == r.out.s b == r.out.t IN
         F(r.in.law, a.n = b.n /\ a.m = b.m /\
              \A k \in 1..Size(a.n) : ~a.m[k] => RCloseRel(a.d[k], b.d[k], TauS, RMul(Tiny, MaxAbsOn(b.d, Unmasked(b)))))

\* ---------------- numerics on the triangle ----------------
SeqClose(got, exp, tau, floor) == Len(got) = Len(exp) /\ \A k \in 1..Len(exp) : RCloseRel(got[k], exp[k], tau, floor)
FGridDx(r) == IF Raised(r) THEN {"GridDxRaised"} ELSE F("GridDx", SeqClose(r.out.dx, GridDx(r.in.x), Tau, RMul(Tau, RSeqMaxAbs(r.in.x))))   \* (differences of neighbouring points cancel)
FGridDx2d(r) == IF Raised(r) THEN {"GridDx2dRaised"} ELSE F("GridDx2d", SeqClose(r.out.dxx, GridDx2d(r.in.x, r.in.dx), Tau, "0"))
FDomain(r) == IF Raised(r) THEN {"DomainRaised"} ELSE
    LET e == Domain(r.in.x) IN F("Domain", Len(r.out.u) = Len(e) /\ \A k \in 1..Len(e) : r.out.u[k] = RInt(e[k]))
FInt2(r) == IF Raised(r) THEN {"Int2Raised"} ELSE
    F("Int2", RCloseRel(r.out.v, Int2(r.in.dxx, r.in.u), TauS, RMul(Tau, RSum([k \in 1..Len(r.in.u) |-> RAbs(RMul(r.in.dxx[k], r.in.u[k]))]))))
FTrinomial(r) == IF Raised(r) THEN {"TrinomialRaised"} ELSE F("Trinomial", RCloseRel(r.out.v, Trinomial(r.in.n, r.in.a, r.in.b), TauS, "0"))
\* absolute floor of an entry of a sample: 1e-14 of (trinomial weight x total |mass|); covers the rounding of 1 - x - y next to 0
SampleFloor(phi, ns, x) ==
    LET DXX == GridDx2d(x, GridDx(x))
        mass == RSum([k \in 1..Len(phi) |-> RAbs(RMul(DXX[k], phi[k]))])
        big == RBinom(ns, ns \div 3)
    IN  RMul("1/100000000000000", RMul(RMul(big, RBinom(ns - ns \div 3, (ns - ns \div 3) \div 2)), mass))
FSample(r) == Cmp(r, Sample(r.in.phi, r.in.ns, r.in.x), "Sample", TauS, SampleFloor(r.in.phi, r.in.ns, r.in.x))
FEquil(r) == IF Raised(r) THEN {"EquilExactRaised"} ELSE F("EquilExact", SeqClose(r.out.phi, EquilNeutral(r.in.x), Tau, "0"))
FInject(r) ==
    IF Raised(r) THEN {"InjectRaised"}
    ELSE LET q == r.in
             e == CASE q.which = "1" -> Inject1(q.phi, q.dt, q.x, q.dx, q.y, q.theta)
                    [] q.which = "2" -> Inject2(q.phi, q.dt, q.x, q.dx, q.y, q.theta)
                    [] OTHER -> InjectBoth(q.phi, q.dt, q.x, q.dx, q.theta)
         IN  F("Inject", SeqClose(r.out.phi, e, Tau, "0"))
FJenkins(r) ==
    IF Raised(r) THEN {"JenkinsRaised"}
    ELSE LET n == r.in.ns e == Jenkins(n) o == r.out.s IN
         IF ~ShapeOK(o, n) THEN {"JenkinsShape"}
         ELSE F("JenkinsMask", o.m = Infeasible(n)) \cup
              F("JenkinsData", \A k \in 1..Size(n) : ~Infeasible(n)[k] => RCloseRel(o.d[k], e[k], Tau, "0"))
\* one-dimensional transition matrices: entries, and conservation judged directly on the observed matrices
FTrans1D(r) ==
    IF Raised(r) THEN {"Trans1DRaised"}
    ELSE LET x == r.in.x dx == r.in.dx L == Len(x)
             V == T1DV(x, dx) M == T1DM(x, dx, r.in.sig)
             oV == r.out.V oM == r.out.M
             cons(A) == \A b \in 1..L :
                          RLeq(RAbs(RSum([a \in 1..L |-> RMul(dx[a], A[P2(L, a, b)])])),
                               RMul(Tau, RSum([a \in 1..L |-> RAbs(RMul(dx[a], A[P2(L, a, b)]))])))
         IN  IF Len(oV) # L * L \/ Len(oM) # L * L THEN {"Trans1DShape"}
             ELSE F("VarianceTerm", SeqClose(oV, V, Tau, "0")) \cup F("MeanTerm", SeqClose(oM, M, Tau, "0")) \cup
                  F("VarianceConserves", cons(oV)) \cup F("MeanConserves", cons(oM))
\* two-dimensional transition matrices: entries (banded storage [line][lower, diagonal, upper][point]) and conservation
\* of every active line judged directly on the observed arrays
BandClose(got, exp, L, floor) == /\ Len(got) = L
                                 /\ \A b \in 1..L : Len(got[b]) = 3 /\ \A k \in 1..3 : SeqClose(got[b][k], exp[b][k], Tau, floor)
FTrans2D(r) ==
    IF Raised(r) THEN {"Trans2DRaised"}
    ELSE LET x == r.in.x dx == r.in.dx L == Len(x) U == r.in.U01
             one == r.in.which = "1"
             V == IF one THEN Trans1V(x, dx, U) ELSE Trans2V(x, dx, U)
             M == IF one THEN Trans1M(x, dx, U, r.in.s1, r.in.s2) ELSE Trans2M(x, dx, U, r.in.s1, r.in.s2)
             UU == IF one THEN U ELSE TransposeSq(L, U)
             act == {b \in 1..L : Cardinality(ColDom(L, UU, b)) > 1}
             \* observed entry (a, a2) of line b
             ent(A, b, a, a2) == IF a2 = a - 1 THEN A[b][1][a] ELSE IF a2 = a THEN A[b][2][a] ELSE IF a2 = a + 1 THEN A[b][3][a] ELSE "0"
             cons(A) == \A b \in act : LET w == ColWeights(x, dx, UU, b) IN \A a2 \in 1..L :
                           LET S == {a \in 1..L : a - a2 \in {-1, 0, 1}} IN
                           RLeq(RAbs(RSum([a \in S |-> RMul(w[a], ent(A, b, a, a2))])),
                                RMul(Tau, RSum([a \in S |-> RAbs(RMul(w[a], ent(A, b, a, a2)))])))
             \* the effective selection coefficient is a difference of terms of size |s1| + |s2| (it vanishes, e.g., on the line
             \* x + 3 y = 1 for s1 = -1, s2 = -3): absolute floor Tau x (|s1| + |s2|) / min dx for the mean term
             mfloor == RMul(Tau, RDiv(RAdd(RAbs(r.in.s1), RAbs(r.in.s2)), dx[1]))
         IN  IF ~(BandClose(r.out.V, r.out.V, L, "0") /\ BandClose(r.out.M, r.out.M, L, "0")) THEN {"Trans2DShape"}
             ELSE F("VarianceTerm", BandClose(r.out.V, V, L, "0")) \cup F("MeanTerm", BandClose(r.out.M, M, L, mfloor)) \cup
                  F("VarianceConserves", cons(r.out.V)) \cup F("MeanConserves", cons(r.out.M))
FTrans12(r) ==
    IF Raised(r) THEN {"Trans12Raised"}
    ELSE LET x == r.in.x dx == r.in.dx L == Len(x) U == r.in.U01
             C == Trans12(x, dx, U)
             o == r.out.C
             DXX == GridDx2d(x, dx)
             LL2 == L * L
             w == [row \in 1..LL2 |-> IF U[row] = 1 THEN DXX[row] ELSE "0"]
         IN  IF Len(o) # LL2 * LL2 THEN {"Trans12Shape"}
             ELSE F("CovarianceTerm", SeqClose(o, C, Tau, "0")) \cup
                  F("CovarianceConserves", \A col \in 1..LL2 :
                        RLeq(RAbs(RSum([row \in 1..LL2 |-> RMul(w[row], o[(row - 1) * LL2 + col])])),
                             RMul(Tau, RSum([row \in 1..LL2 |-> RAbs(RMul(w[row], o[(row - 1) * LL2 + col]))]))))

FMove(r) ==
    IF Raised(r) THEN {"MoveRaised"}
    ELSE LET L == r.in.L
             e == Move(L, r.in.phi, r.in.P)
             DXX == GridDx2d(Uniform(L - 1), GridDx(Uniform(L - 1)))
         IN  F("MoveApplicable", MoveOK(L, r.in.P)) \cup
             F("Move", SeqClose(r.out.phi, e, Tau, RMul(Tau, RSeqMaxAbs(r.in.phi)))) \cup
             F("MoveConserves", RCloseRel(Int2(DXX, r.out.phi), Int2(DXX, r.in.phi), Tau, "0"))
\* implicit steps, judged by the residual of the system they solve
ResidOK(got, rhs, scale) == /\ Len(got) = Len(rhs)
                            /\ \A k \in 1..Len(rhs) : IsNum(got[k]) /\ RLeq(RAbs(RSub(got[k], rhs[k])), RMul(TauS, scale))
AllNum(q) == \A k \in 1..Len(q) : IsNum(q[k])
FAdv1D(r) ==
    IF Raised(r) THEN {"Advance1DRaised"}
    ELSE LET L == Len(r.in.u) o == r.out.u IN
         IF Len(o) # L \/ ~AllNum(o) THEN {"Advance1DSolves"}
         ELSE F("Advance1DSolves", ResidOK(MatVec(L, r.in.P, o), r.in.u, RAdd(RSeqMaxAbs(r.in.u), RSeqMaxAbs(o))))
FAdvLine(r) ==
    IF Raised(r) THEN {"AdvanceLineRaised"}
    ELSE LET L == r.in.L o == r.out.phi IN
         IF Len(o) # L * L \/ ~AllNum(o) THEN {"AdvanceLineSolves"}
         ELSE LET u == DiagOf(L, r.in.phi) v == DiagOf(L, o) IN
              F("AdvanceLineSolves", ResidOK(MatVec(L, r.in.P, v), u, RAdd(RSeqMaxAbs(u), RSeqMaxAbs(v)))) \cup
              F("AdvanceLineElsewhere", \A a, b \in 1..L : a + b # L + 1 => o[P2(L, a, b)] = r.in.phi[P2(L, a, b)])
FAdi(r) ==
    IF Raised(r) THEN {"AdvanceAdiRaised"}
    ELSE LET L == r.in.L o == r.out.U IN
         IF Len(o) # L * L \/ ~AllNum(o) THEN {"AdvanceAdiSolves"}
         ELSE F("AdvanceAdiSolves", ResidOK(AdiSystem(L, r.in.P1, r.in.P2, r.in.U01, o, r.in.step), r.in.U,
                                            RAdd(RSeqMaxAbs(r.in.U), RSeqMaxAbs(o))))

\* the library models: run, and return a well-formed spectrum of the asked size carrying the grid / time step used;
\* the neutral equilibrium model is the sample of the exact neutral density
FModel(r) ==
    IF Raised(r) THEN {"ModelRaised"}
    ELSE LET q == r.in o == r.out.s
             std == IF q.folded THEN Mat(q.ns, LAMBDA a, b : FoldOutM(q.ns, a, b)) ELSE Infeasible(q.ns)
         IN  IF ~ShapeOK(o, q.ns) THEN {"ModelShape"}
             ELSE F("ModelMask", o.m = std) \cup F("ModelFlags", o.flags_ok /\ o.fm = q.folded /\ ~o.fa) \cup
                  F("ModelExtrap", o.ex = q.x[2] /\ o.et = q.dt) \cup
                  F("ModelFinite", \A k \in 1..Size(q.ns) : ~o.m[k] => IsNum(o.d[k])) \cup
                  (IF q.exact
                   THEN LET e0 == Sample(EquilNeutral(q.x), q.ns, q.x)
                            e == IF q.folded THEN FoldMajor(e0) ELSE e0
                        IN F("ModelNeutralExact", DataOK(o, e, TauS, SampleFloor(EquilNeutral(q.x), q.ns, q.x)))
                   ELSE {})
FImport(r) == F("Importable", r.out.ok)

Failed(r) ==
    CASE r.op = "new"            -> FNew(r)
      [] r.op = "fold_major"     -> FFoldMajor(r)
      [] r.op = "fold_ancestral" -> FFoldAnc(r)
      [] r.op = "unfold"         -> FUnfold(r)
      [] r.op = "arith"          -> FArith(r)
      [] r.op = "keep"           -> FKeep(r)
      [] r.op = "S"              -> FS(r)
      [] r.op = "pickle"         -> FPickle(r)
      [] r.op = "file"           -> FFile(r)
      [] r.op = "project"        -> FProject(r)
      [] r.op = "project2"       -> FProject2(r)
      [] r.op = "misid"          -> FMisid(r)
      [] r.op = "fn_fold"        -> FFnFold(r)
      [] r.op = "fn_fold_ancestral" -> FFnFoldAnc(r)
      [] r.op = "scaling"        -> FScaling(r)
      [] r.op = "same_as"        -> FSameAs(r)
      [] r.op = "grid_dx"        -> FGridDx(r)
      [] r.op = "grid_dx_2d"     -> FGridDx2d(r)
      [] r.op = "domain"         -> FDomain(r)
      [] r.op = "int2"           -> FInt2(r)
      [] r.op = "trinomial"      -> FTrinomial(r)
      [] r.op = "sample"         -> FSample(r)
      [] r.op = "equil_exact"    -> FEquil(r)
      [] r.op = "inject"         -> FInject(r)
      [] r.op = "jenkins"        -> FJenkins(r)
      [] r.op = "trans1d"        -> FTrans1D(r)
      [] r.op = "trans2d"        -> FTrans2D(r)
      [] r.op = "trans12"        -> FTrans12(r)
      [] r.op = "move"           -> FMove(r)
      [] r.op = "advance1d"      -> FAdv1D(r)
      [] r.op = "advance_line"   -> FAdvLine(r)
      [] r.op = "advance_adi"    -> FAdi(r)
      [] r.op = "model"          -> FModel(r)
      [] r.op = "import"         -> FImport(r)
      [] OTHER                   -> {"UnknownOp"}

Init == i = 0
Next == /\ i < Len(Trace)
        /\ i' = i + 1
        /\ LET r == Trace[i + 1] f == Failed(r) IN IF f = {} THEN TRUE ELSE PrintT(<<"BAD", r.id, f>>)
Spec == Init /\ [][Next]_i
Done == (i = Len(Trace)) => PrintT(<<"DONE", i>>)
AllConsumed == TLCGet("stats").diameter - 1 = Len(Trace)
=============================================================================
