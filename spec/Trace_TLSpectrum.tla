-------------------------- MODULE Trace_TLSpectrum --------------------------
(***************************************************************************)
(* Trace validation for module TLSpectrum (extension module X05).  Each    *)
(* record is one call on the real dadi.TwoLocus code with its exact inputs *)
(* and the raw observed result; it is judged against the module's operator *)
(* for that call.  The verdict for a record is the set of violated         *)
(* clauses; nothing is judged outside TLC.                                 *)
(***************************************************************************)
EXTENDS TLSpectrum, Json, IOUtils
CONSTANTS Tau,       \* relative tolerance for float-evaluated sums of non-negative terms, "1/10000000000"
          TauAbs     \* absolute tolerance for O(1) quantities with cancellation (D, grid points), "1/100000000000000"

Trace == JsonDeserialize(IOEnv.TRACE_FILE)
VARIABLE i
F(name, ok) == IF ok THEN {} ELSE {name}
Raised(r) == "raised" \in DOMAIN r.out
Tiny == "1/1000000000000000000000000000000"

MaxAbsU(e) == RSeqMaxAbs([q \in 1..Size3(e.n) |-> IF e.m[q] THEN "0" ELSE e.d[q]])
\* data at the entries the specification leaves unmasked
DataU(out, e, floor) == \A q \in 1..Size3(e.n) : ~e.m[q] => RCloseRel(out.d[q], e.d[q], Tau, floor)
ShapeOK(out, n) == out.n = n /\ Len(out.d) = Size3(n) /\ Len(out.m) = Size3(n)
\* compare an observed spectrum with the expected one: shape, data (unmasked entries), mask (exact), folding status
Cmp(r, e, tag, flag) ==
    IF Raised(r) THEN {tag \o "Raised"}
    ELSE IF ~ShapeOK(r.out.s, e.n) THEN {tag \o "Shape"}
    ELSE F(tag \o "Data", DataU(r.out.s, e, RMul(Tiny, MaxAbsU(e)))) \cup F(tag \o "Mask", r.out.s.m = e.m)
         \cup (IF flag THEN F(tag \o "Flag", r.out.s.f = e.f) ELSE {})
Pre(r, ok, rest) == IF ok THEN rest ELSE {"PreconditionOfRecord"}     \* a recorder error, never a verdict on dadi

FConstruct(r) ==
    LET e == Construct(r.in.n, r.in.d, r.in.m, r.in.mi, IF r.in.df = "folded" THEN "folded" ELSE "unfolded") IN
    IF Raised(r) THEN {"ConstructRaised"}
    ELSE IF ~ShapeOK(r.out.s, e.n) THEN {"ConstructShape"}
    ELSE F("ConstructData", r.out.s.d = e.d) \cup F("ConstructMask", r.out.s.m = e.m) \cup F("ConstructFlag", r.out.s.f = e.f)

FFold(r) ==
    Pre(r, WellFormed(r.in.s) /\ WellMasked(r.in.s),
        IF r.in.s.f = "folded" THEN F("FoldFoldedRefused", Raised(r))
        ELSE Cmp(r, Fold(r.in.s), "Fold", r.in.flag) \cup
             (IF ~Raised(r) /\ "self" \in DOMAIN r.out THEN F("FoldPure", Same(r.out.self, r.in.s)) ELSE {}))
FFoldLR(r) == Pre(r, WellFormed(r.in.s) /\ WellMasked(r.in.s), Cmp(r, FoldLR(r.in.s), "FoldLR", FALSE))
FUnfold(r) ==
    LET s == r.in.s IN
    IF s.f = "unfolded" THEN F("UnfoldUnfoldedRefused", Raised(r))
    ELSE IF Raised(r) THEN {"UnfoldRaised"}
    ELSE IF ~ShapeOK(r.out.s, s.n) THEN {"UnfoldShape"}
    ELSE F("UnfoldFlag", r.out.s.f = "unfolded")
         \cup F("UnfoldKeeps", \A q \in 1..Size3(s.n) : (~s.m[q] /\ Informative(s.n, Unflat3(s.n, q))) => (r.out.s.d[q] = s.d[q] /\ ~r.out.s.m[q]))
         \cup F("UnfoldMask", InfMasked(r.out.s))
FFuf(r) == Pre(r, WellFormed(r.in.s) /\ r.in.s.m = DefaultMask(r.in.s.n) /\ r.in.s.f = "unfolded", Cmp(r, Fold(r.in.s), "FoldUnfoldFold", TRUE))

FProject(r) ==
    Pre(r, WellFormed(r.in.s) /\ InfMasked(r.in.s) /\ r.in.m >= 1 /\ r.in.m <= r.in.s.n,
        IF r.in.m = r.in.s.n THEN Cmp(r, r.in.s, "ProjSame", TRUE) ELSE Cmp(r, Project(r.in.s, r.in.m), "Proj", TRUE))
FProject2(r) ==
    Pre(r, WellFormed(r.in.s) /\ InfMasked(r.in.s) /\ r.in.m2 >= 1 /\ r.in.m2 < r.in.m1 /\ r.in.m1 < r.in.s.n,
        Cmp(r, Project(r.in.s, r.in.m2), "TwoStage", TRUE))
FWeights(r) ==
    LET n == r.in.n mm == r.in.m X == r.in.hits w == r.out.w IN
    Pre(r, mm >= 1 /\ mm <= n /\ Feasible(n, X),
        IF Raised(r) THEN {"WeightsRaised"}
        ELSE IF Len(w) # Size3(mm) THEN {"WeightsShape"}
        ELSE F("HypWeights", \A q \in 1..Size3(mm) : LET y == Unflat3(mm, q) IN
                  RCloseRel(w[q], IF Feasible(mm, y) /\ Covers(n, mm, X, y) THEN MVH(n, mm, X, y) ELSE "0", Tau, Tiny)))

FMarginal(r) ==
    LET s == r.in.s n == s.n
        e == IF r.in.locus = "A" THEN MargA(s) ELSE MargB(s)
        cnt(X) == IF r.in.locus = "A" THEN NA(X) ELSE NB(X)
        floor == RMul(Tiny, MaxAbsU(s))
    IN  Pre(r, WellFormed(s) /\ WellMasked(s),
            IF Raised(r) THEN {"MargRaised"}
            ELSE IF Len(r.out.d) # n + 1 \/ Len(r.out.m) # n + 1 THEN {"MargShape"}
            ELSE F("MargData", \A a \in 1..(n - 1) : ~r.out.m[a + 1] => RCloseRel(r.out.d[a + 1], e[a], Tau, floor))
                 \cup F("MargMask", \A a \in 1..(n - 1) : r.out.m[a + 1] => \E X \in InfSet(n) : cnt(X) = a /\ MaskAt(s, X)))
FCondition(r) ==
    LET s == r.in.s a == r.in.a e == Condition(s, a) c == r.out.c IN
    Pre(r, WellFormed(s) /\ InfMasked(s) /\ a >= 0 /\ a <= s.n,
        IF Raised(r) THEN {"ConditionRaised"}
        ELSE IF Len(c) # a + 1 \/ \E ii \in 1..Len(c) : Len(c[ii]) # s.n - a + 1 THEN {"ConditionShape"}
        ELSE F("ConditionData", \A ii \in 0..a : \A kk \in 0..(s.n - a) : c[ii + 1][kk + 1] = e[ii][kk]))

FMeanR2(r) ==
    LET s == r.in.s IN
    Pre(r, WellFormed(s) /\ InfMasked(s) /\ TotalU(s) # "0" /\ \A q \in 1..Size3(s.n) : ~s.m[q] => RNonNeg(s.d[q]),
        IF Raised(r) THEN {"MeanR2Raised"} ELSE F("MeanR2", RCloseRel(r.out.v, MeanR2(s), Tau, "0")))
FLD(r) ==
    LET n == r.in.n IN
    IF Raised(r) THEN {"LDRaised"}
    ELSE IF ~ShapeOK(r.out.D, n) \/ ~ShapeOK(r.out.r2, n) THEN {"LDShape"}
    ELSE F("LDMask", r.out.D.m = DefaultMask(n) /\ r.out.r2.m = DefaultMask(n))
         \cup F("LDD", \A ix \in InfSet(n) : LET v == r.out.D.d[Flat3(n, ix)] IN IsNum(v) /\ RLeq(RAbs(RSub(v, DStat(n, ix))), TauAbs))
         \cup F("LDR2", \A ix \in InfSet(n) : RCloseRel(r.out.r2.d[Flat3(n, ix)], R2Stat(n, ix), Tau, TauAbs))

\* file round trip: to_file(precision) then from_file(mask_infeasible = r.in.mi)
PrecTau(p) == RDiv("1", RPow("10", p - 1))
FFile(r) ==
    LET s == r.in.s IN
    Pre(r, WellFormed(s),
        IF Raised(r) THEN {"FileRaised"}
        ELSE IF ~ShapeOK(r.out.s, s.n) THEN {"FileShape"}
        ELSE F("FileData", \A q \in 1..Size3(s.n) :
                  IF r.in.precision >= 17 THEN r.out.s.d[q] = s.d[q]
                  ELSE RCloseRel(r.out.s.d[q], s.d[q], PrecTau(r.in.precision), "0"))
             \cup F("FileMask", r.out.s.m = Construct(s.n, s.d, s.m, r.in.mi, s.f).m)
             \cup F("FileFlag", r.out.s.f = s.f)
             \cup F("FileComments", r.out.comments = r.in.comments))
FPickle(r) == IF Raised(r) THEN {"PickleRaised"} ELSE F("PickleSame", ShapeOK(r.out.s, r.in.s.n) /\ Same(r.out.s, r.in.s))

\* a op b (spectrum b) or a op c (scalar c); refl: the operands exchanged; both plain and in-place forms
FArith(r) ==
    LET a == r.in.a isS == "b" \in DOMAIN r.in IN
    IF isS /\ r.in.b.f # a.f THEN F("MixedFoldingRefused", Raised(r))
    ELSE LET e == IF isS THEN (IF r.in.refl THEN Arith(r.in.op, r.in.b, a) ELSE Arith(r.in.op, a, r.in.b))
                  ELSE ArithC(r.in.op, a, r.in.c, r.in.refl)
         IN  IF Raised(r) THEN {"ArithRaised"}
             ELSE IF ~ShapeOK(r.out.s, a.n) THEN {"ArithShape"}
             ELSE F("ArithData", \A q \in 1..Size3(a.n) : ~e.m[q] => RCloseRel(r.out.s.d[q], e.d[q], Tau, "0"))
                  \cup F("ArithMask", r.out.s.m = e.m) \cup F("ArithFlag", r.out.s.f = a.f)
FMisid(r) == Pre(r, WellFormed(r.in.s) /\ WellMasked(r.in.s), Cmp(r, Misid(r.in.s, r.in.p), "Misid", TRUE))

\* ---- numerics on the grid
FGrid(r) ==
    LET P == r.in.P x == r.out.x dx == r.out.dx N == P + 1 IN
    IF Raised(r) THEN {"GridRaised"}
    ELSE IF Len(x) # N \/ Len(dx) # N \/ Len(r.out.U) # Size3(P) \/ Len(r.out.DX) # Size3(P) THEN {"GridShape"}
    ELSE F("GridPoints", \A k \in 1..N : IsNum(x[k]) /\ RLeq(RAbs(RSub(x[k], GridX(P)[k])), TauAbs) /\ x[1] = "0" /\ x[N] = "1")
         \cup F("GridDx", \A k \in 1..N : RCloseRel(dx[k], GridDx(x)[k], Tau, "0"))
         \cup F("Domain", \A q \in 1..Size3(P) : r.out.U[q] = (IF InDomain(P, Unflat3(P, q)) THEN "1" ELSE "0"))
         \cup F("Weights3", \A g \in Simplex(P) : RCloseRel(r.out.DX[Flat3(P, g)], DX3(P, dx, g), Tau, "0"))
         \cup F("DomainSurf", Len(r.out.U2) = N * N /\ \A a, b \in 0..P : r.out.U2[FlatS(P, a, b)] = (IF a + b <= P THEN "1" ELSE "0"))
         \cup F("Weights2", Len(r.out.DXX) = N * N /\ \A a, b \in 0..P : a + b <= P =>
                   RCloseRel(r.out.DXX[FlatS(P, a, b)], IF a + b = P THEN RHalf(RMul(dx[a + 1], dx[b + 1])) ELSE RMul(dx[a + 1], dx[b + 1]), Tau, "0"))
FSurf(r) ==
    LET P == r.in.P phi == r.in.phi e == SurfOf(P, phi) b == PutSurf(P, r.in.surf, phi) IN
    IF Raised(r) THEN {"SurfRaised"}
    ELSE IF Len(r.out.surf) # (P + 1) * (P + 1) \/ Len(r.out.back) # Size3(P) THEN {"SurfShape"}
    ELSE F("PhiToSurf", \A ii, jj \in 0..P : ii + jj <= P => r.out.surf[FlatS(P, ii, jj)] = e[FlatS(P, ii, jj)])
         \cup F("SurfToPhi", \A g \in Simplex(P) : r.out.back[Flat3(P, g)] = b[Flat3(P, g)])
FSample(r) ==
    LET P == r.in.P x == r.in.x phi == r.in.phi n == r.in.n
        absphi == [q \in 1..Size3(P) |-> RAbs(phi[q])]
        floor == RMul(TauAbs, Int3(P, GridDx(x), absphi))
    IN  Pre(r, Len(x) = P + 1 /\ Len(phi) = Size3(P) /\ \A q \in 1..Size3(P) : ~InDomain(P, Unflat3(P, q)) => phi[q] = "0",
            LET e == Sample(P, x, phi, n) IN
            IF Raised(r) THEN {"SampleRaised"}
            ELSE IF ~ShapeOK(r.out.s, n) THEN {"SampleShape"}
            ELSE F("SampleData", DataU(r.out.s, e, floor)) \cup F("SampleMask", r.out.s.m = e.m) \cup F("SampleFlag", r.out.s.f = "unfolded"))
FQuad(r) == IF Raised(r) THEN {"QuadRaised"} ELSE F("Quadrinomial", RCloseRel(r.out.v, Quad(r.in.n, r.in.ix), Tau, "0"))
FT1D(r) ==
    LET x == r.in.x dx == r.in.dx N == Len(x) M == r.out.P
        e == T1D(x, dx, r.in.dt, r.in.gamma, r.in.nu)
    IN  IF Raised(r) THEN {"T1DRaised"}
        ELSE IF Len(M) # N \/ \E a \in 1..Len(M) : Len(M[a]) # N THEN {"T1DShape"}
        ELSE F("T1DEntries", \A a, b \in 1..N : RCloseRel(M[a][b], e[a][b], Tau, TauAbs))
             \cup F("T1DConserves", \A b \in 1..N : RCloseRel(RSum([a \in 1..N |-> RMul(dx[a], M[a][b])]), dx[b], Tau, TauAbs))
\* tridiagonal line solves: a[i] u[i-1] + b[i] u[i] + c[i] u[i+1] = rhs[i] (a[1], c[N] unused), judged by the row residuals
RowRes(a, b, c, u, rhs, k) ==
    LET N == Len(u)
        ta == IF k > 1 THEN RMul(a[k], u[k - 1]) ELSE "0"
        tb == RMul(b[k], u[k])
        tc == IF k < N THEN RMul(c[k], u[k + 1]) ELSE "0"
    IN  RLeq(RAbs(RSub(RAdd(RAdd(ta, tb), tc), rhs[k])), RAdd(RMul(Tau, RAdd(RAdd(RAbs(ta), RAbs(tb)), RAdd(RAbs(tc), RAbs(rhs[k])))), Tiny))
AllNum(q) == \A k \in 1..Len(q) : IsNum(q[k])
FAdvance1D(r) ==
    LET M == r.in.P N == Len(r.in.u)
        a == [k \in 1..N |-> IF k > 1 THEN M[k][k - 1] ELSE "0"]
        b == [k \in 1..N |-> M[k][k]]
        c == [k \in 1..N |-> IF k < N THEN M[k][k + 1] ELSE "0"]
    IN  IF Raised(r) THEN {"Advance1DRaised"}
        ELSE IF Len(r.out.u) # N THEN {"Advance1DShape"}
        ELSE IF ~AllNum(r.out.u) THEN {"Advance1DSolves"}
        ELSE F("Advance1DSolves", \A k \in 1..N : RowRes(a, b, c, r.out.u, r.in.u, k))
FAdvanceAdi(r) ==
    LET P == r.in.P N == P + 1 ax == r.in.axis
        pt(aa, bb, k) == IF ax = 1 THEN <<k, aa, bb>> ELSE IF ax = 2 THEN <<aa, k, bb>> ELSE <<aa, bb, k>>
        diag(aa, bb, d) == [k \in 1..N |-> r.in.Pm[((aa * N + bb) * 3 + d) * N + k]]
        line(v, aa, bb) == [k \in 1..N |-> v[Flat3(P, pt(aa, bb, k - 1))]]
    IN  IF Raised(r) THEN {"AdvanceAdiRaised"}
        ELSE IF Len(r.out.phi) # Size3(P) THEN {"AdvanceAdiShape"}
        ELSE IF ~AllNum(r.out.phi) THEN {"AdvanceAdiSolves"}
        ELSE F("AdvanceAdiSolves", \A aa, bb \in 0..P : aa + bb <= P - 1 =>
                  \A k \in 1..N : RowRes(diag(aa, bb, 0), diag(aa, bb, 1), diag(aa, bb, 2), line(r.out.phi, aa, bb), line(r.in.phi, aa, bb), k))
             \cup F("AdvanceAdiUntouched", \A aa, bb \in 0..P : aa + bb > P - 1 => line(r.out.phi, aa, bb) = line(r.in.phi, aa, bb))
\* end to end (no accuracy claim): the equilibrium spectrum exists, is finite, carries the constructor's mask; asking again (answered from
\* the cache file) and appending an epoch of zero duration give the same spectrum
FEquilibrium(r) ==
    LET n == r.in.ns IN
    IF Raised(r) THEN {"EquilibriumRaised"}
    ELSE IF ~ShapeOK(r.out.s, n) THEN {"EquilibriumShape"}
    ELSE F("EquilibriumMask", r.out.s.m = DefaultMask(n) /\ r.out.s.f = "unfolded")
         \cup F("EquilibriumFinite", \A ix \in InfSet(n) : IsNum(r.out.s.d[Flat3(n, ix)]))
         \cup F("EquilibriumCached", ShapeOK(r.out.again, n) /\ Same(r.out.again, r.out.s))
         \cup F("ZeroEpochIdentity", ShapeOK(r.out.zero, n) /\ Same(r.out.zero, r.out.s))
FA2S(r) == IF Raised(r) THEN {"ArrayToSpectrumRaised"}
           ELSE F("ArrayToSpectrumData", r.out.d = r.in.d) \cup F("ArrayToSpectrumMask", r.out.m = DefaultMask(r.in.n))

\* ---- genotype helpers; dictionaries are recorded as parallel sequences keys / vals
ToSet(q) == {q[k] : k \in 1..Len(q)}
NoDup(q) == Cardinality(ToSet(q)) = Len(q)
FGenoPairs(r) ==
    LET c == r.in.counts IN
    IF Raised(r) THEN {"GenoPairsRaised"}
    ELSE F("GenoPairsKeys", NoDup(r.out.keys) /\ ToSet(r.out.keys) = GenoConfigs(c) /\ Len(r.out.vals) = Len(r.out.keys))
         \cup F("GenoPairsProb", \A k \in 1..Len(r.out.keys) :
                  (\A a \in 1..10 : r.out.keys[k][a] >= 0) /\ HapOf(r.out.keys[k]) = c => RCloseRel(r.out.vals[k], GenoProb(c, r.out.keys[k]), Tau, "0"))
FGenoSpectrum(r) ==
    LET s == r.in.s
        val(key) == IF r.in.form = "pairs" THEN PairValue(s, key) ELSE ObsValue(s, key)
        expkeys == IF r.in.form = "pairs"
                   THEN UNION {{SubSeq(g, 1, 9) : g \in GenoConfigs(Counts(s.n, X))} : X \in {Y \in Unmasked(s) : RPos(At(s, Y))}}
                   ELSE ObsKeys(s)
        floor == RMul(Tiny, MaxAbsU(s))
    IN  Pre(r, WellFormed(s) /\ InfMasked(s) /\ s.n % 2 = 0,
            IF Raised(r) THEN {"GenoSpectrumRaised"}
            ELSE F("GenoSpectrumShape", NoDup(r.out.keys) /\ Len(r.out.vals) = Len(r.out.keys) /\ r.out.ng = s.n \div 2)
                 \cup F("GenoSpectrumValues", \A k \in 1..Len(r.out.keys) : RCloseRel(r.out.vals[k], val(r.out.keys[k]), Tau, floor))
                 \cup F("GenoSpectrumComplete", \A key \in expkeys : key \in ToSet(r.out.keys) \/ val(key) = "0"))
FGenoWeights(r) ==
    LET nf == r.in.nf nt == r.in.nt G9 == With9(r.in.hits, nf) IN
    Pre(r, nt >= 1 /\ nt <= nf /\ \A k \in 1..9 : G9[k] >= 0,
        IF Raised(r) THEN {"GenoWeightsRaised"}
        ELSE F("GenoWeightsValues", NoDup(r.out.keys) /\ Len(r.out.vals) = Len(r.out.keys) /\
                  \A k \in 1..Len(r.out.keys) : RCloseRel(r.out.vals[k], GMVH(nf, nt, G9, With9(r.out.keys[k], nt)), Tau, "0"))
             \cup F("GenoWeightsSupport", ToSet(r.out.keys) = {First8(O) : O \in {T \in GTargets(nt, G9) : SegG(nt, T)}}))
FGenoProject(r) ==
    LET nf == r.in.nf nt == r.in.nt
        src == 1..Len(r.in.keys)
        val(o8) == LET O == With9(o8, nt) IN
                   RSum([k \in src |-> LET G9 == With9(r.in.keys[k], nf) IN
                           IF \A a \in 1..9 : O[a] >= 0 /\ O[a] <= G9[a] THEN RMul(r.in.vals[k], GMVH(nf, nt, G9, O)) ELSE "0"])
        expkeys == UNION {{First8(O) : O \in {T \in GTargets(nt, With9(r.in.keys[k], nf)) : SegG(nt, T)}} : k \in src}
        floor == RMul(Tiny, RSeqMaxAbs(r.in.vals))
    IN  IF Raised(r) THEN {"GenoProjectRaised"}
        ELSE F("GenoProjectValues", NoDup(r.out.keys) /\ Len(r.out.vals) = Len(r.out.keys) /\ r.out.nt = nt /\
                  \A k \in 1..Len(r.out.keys) : RCloseRel(r.out.vals[k], val(r.out.keys[k]), Tau, floor))
             \cup F("GenoProjectSupport", ToSet(r.out.keys) = expkeys)
FPairings(r) == IF Raised(r) THEN {"PairingsRaised"} ELSE F("Pairings", r.out.v = Pairings(r.in.n))

Failed(r) ==
    CASE r.op = "construct"   -> FConstruct(r)
      [] r.op = "fold"        -> FFold(r)
      [] r.op = "fold_lr"     -> FFoldLR(r)
      [] r.op = "unfold"      -> FUnfold(r)
      [] r.op = "fuf"         -> FFuf(r)
      [] r.op = "project"     -> FProject(r)
      [] r.op = "project2"    -> FProject2(r)
      [] r.op = "weights"     -> FWeights(r)
      [] r.op = "marginal"    -> FMarginal(r)
      [] r.op = "condition"   -> FCondition(r)
      [] r.op = "mean_r2"     -> FMeanR2(r)
      [] r.op = "ld_per_bin"  -> FLD(r)
      [] r.op = "file"        -> FFile(r)
      [] r.op = "pickle"      -> FPickle(r)
      [] r.op = "arith"       -> FArith(r)
      [] r.op = "misid"       -> FMisid(r)
      [] r.op = "grid"        -> FGrid(r)
      [] r.op = "surf"        -> FSurf(r)
      [] r.op = "sample"      -> FSample(r)
      [] r.op = "quadrinomial" -> FQuad(r)
      [] r.op = "transition1D" -> FT1D(r)
      [] r.op = "array_to_spectrum" -> FA2S(r)
      [] r.op = "advance1D"    -> FAdvance1D(r)
      [] r.op = "advance_adi"  -> FAdvanceAdi(r)
      [] r.op = "equilibrium"  -> FEquilibrium(r)
      [] r.op = "geno_pairs"   -> FGenoPairs(r)
      [] r.op = "geno_spectrum" -> FGenoSpectrum(r)
      [] r.op = "geno_weights" -> FGenoWeights(r)
      [] r.op = "geno_project" -> FGenoProject(r)
      [] r.op = "pairings"     -> FPairings(r)
      [] OTHER                -> {"UnknownOp"}

Init == i = 0
Next == /\ i < Len(Trace)
        /\ i' = i + 1
        /\ LET r == Trace[i + 1] f == Failed(r) IN IF f = {} THEN TRUE ELSE PrintT(<<"BAD", r.id, f>>)
Spec == Init /\ [][Next]_i
Done == (i = Len(Trace)) => PrintT(<<"DONE", i>>)
AllConsumed == TLCGet("stats").diameter - 1 = Len(Trace)
=============================================================================
