CONSTANTS
  MaxDepth = 1
  Sizes = {5}
  MaskExtra = FALSE
  StaticN = 2
  StaticP = {2}
  GenoN = {2}
SPECIFICATION Spec
CHECK_DEADLOCK FALSE
INVARIANT TypeOK
INVARIANT L_FoldTotal
INVARIANT L_FoldCanonical
INVARIANT L_FoldRelabel
INVARIANT L_FoldUnfoldFold
INVARIANT L_FoldR2
INVARIANT L_FoldMarg
INVARIANT L_FoldLR
INVARIANT L_MargTotal
INVARIANT L_MargRelabel
INVARIANT L_Condition
INVARIANT L_ProjMass
INVARIANT L_ProjTwoStage
INVARIANT L_ProjMarg
INVARIANT L_ProjRelabel
INVARIANT L_ProjMask
INVARIANT L_Misid
INVARIANT L_Arith
