----------------------------- MODULE TriSpectrum -----------------------------
(***************************************************************************)
(* dadi.Triallele: the triallelic frequency spectrum as an abstract object *)
(* and the discrete parts of the triallelic numerics.                      *)
(*                                                                         *)
(* A site with three alleles in a sample of n chromosomes is a composition *)
(* (i, j, k), i + j + k = n, of the counts of the first derived, second    *)
(* derived and ancestral allele, all three >= 1.  A spectrum is the        *)
(* (n+1) x (n+1) array over (i, j); every entry outside the open simplex   *)
(* i >= 1, j >= 1, i + j <= n - 1 is infeasible and masked.                *)
(*                                                                         *)
(* Part 1: TriSpectrum_mod.TriSpectrum (construction, folding of the two   *)
(*   derived alleles, folding of the ancestral state, arithmetic, file     *)
(*   format) and the spectrum helpers of numerics (project,                *)
(*   misidentification).                                                   *)
(* Part 2: numerics / integration helpers with a discrete meaning: grid    *)
(*   weights of the triangular trapezoid rule, domain marker, sampling of  *)
(*   a density (trinomial weights), the exact neutral density, mutation    *)
(*   injection, the one-dimensional transition matrices (finite-volume     *)
(*   form, conservative), moving density to the diagonal boundary.         *)
(* All numbers are exact rationals (module Rat).                           *)
(***************************************************************************)
EXTENDS Rat, Integers, Sequences, FiniteSets, TLC

\* ======================================================================
\* Part 1: the spectrum object
\*   [n, d, m, fm, fa, ex, et]: sample size, data and mask (row-major, (n+1)^2 entries),
\*   folded_major, folded_ancestral, extrap_x, extrap_t ("None" or a rational)
\* ======================================================================
Mod(a, b) == a % b
Size(n) == (n + 1) * (n + 1)
K(n, i, j) == i * (n + 1) + j + 1              \* position of entry (i, j), 0 <= i, j <= n
RowOf(n, k) == (k - 1) \div (n + 1)
ColOf(n, k) == Mod(k - 1, n + 1)
Mat(n, Op(_, _)) == TLCEval([k \in 1..Size(n) |-> Op(RowOf(n, k), ColOf(n, k))])

Feasible(n, i, j) == i >= 1 /\ j >= 1 /\ i + j <= n - 1
Infeasible(n) == Mat(n, LAMBDA i, j : ~Feasible(n, i, j))
NoMask(n) == Mat(n, LAMBDA i, j : FALSE)
NumFeasible(n) == IF n >= 3 THEN ((n - 1) * (n - 2)) \div 2 ELSE 0

At(s, i, j) == s.d[K(s.n, i, j)]
MaskedAt(s, i, j) == s.m[K(s.n, i, j)]
IsSpectrum(s) == /\ s.n \in Nat /\ Len(s.d) = Size(s.n) /\ Len(s.m) = Size(s.n)
                 /\ s.fm \in BOOLEAN /\ s.fa \in BOOLEAN
WellFormed(s) == IsSpectrum(s) /\ \A k \in 1..Size(s.n) : Infeasible(s.n)[k] => s.m[k]
Unmasked(s) == {k \in 1..Size(s.n) : ~s.m[k]}
Total(s) == RSum([k \in Unmasked(s) |-> s.d[k]])          \* TriSpectrum.S()

\* TriSpectrum(data, mask, mask_infeasible, data_folded_major, data_folded_ancestral, extrap_x, extrap_t)
New(n, d, m, mi, fm, fa, ex, et) ==
    [n |-> n, d |-> d, m |-> IF mi THEN Mat(n, LAMBDA i, j : m[K(n, i, j)] \/ ~Feasible(n, i, j)) ELSE m,
     fm |-> fm, fa |-> fa, ex |-> ex, et |-> et]

\* ---- fold_major: the two derived alleles are not told apart; (i, j) and (j, i) are one class,
\*      kept at i >= j.  A class with a masked member is masked.
FoldOutM(n, i, j) == i = 0 \/ j = 0 \/ j > i \/ i + j >= n
FoldMajor(s) ==
    LET n == s.n
        mm == Mat(n, LAMBDA i, j : FoldOutM(n, i, j) \/ MaskedAt(s, i, j) \/ MaskedAt(s, j, i))
    IN  [n |-> n, m |-> mm,
         d |-> Mat(n, LAMBDA i, j : IF mm[K(n, i, j)] THEN "0" ELSE IF i = j THEN At(s, i, i) ELSE RAdd(At(s, i, j), At(s, j, i))),
         fm |-> TRUE, fa |-> s.fa, ex |-> s.ex, et |-> s.et]

\* ---- fold_ancestral: the ancestral allele is not known either; the class of (i, j, k) is its
\*      multiset, kept at k >= i >= j (largest count taken as ancestral).  Masked entries are skipped.
Max2(a, b) == IF a >= b THEN a ELSE b
Min2(a, b) == IF a <= b THEN a ELSE b
Max3(a, b, c) == Max2(a, Max2(b, c))
Min3(a, b, c) == Min2(a, Min2(b, c))
Mid3(a, b, c) == a + b + c - Max3(a, b, c) - Min3(a, b, c)
Canon(n, i, j) == LET k == n - i - j IN <<Mid3(i, j, k), Min3(i, j, k)>>
AncOut(n, i, j) == LET k == n - i - j IN ~(k >= i /\ i >= j)
FoldAncestral(s) ==
    LET n == s.n
        mm == Mat(n, LAMBDA i, j : MaskedAt(s, i, j) \/ (i < n /\ j < n /\ AncOut(n, i, j)))
        src == {p \in (0..(n - 1)) \X (0..(n - 1)) : ~MaskedAt(s, p[1], p[2])}
    IN  [n |-> n, m |-> mm,
         d |-> Mat(n, LAMBDA i, j : IF mm[K(n, i, j)] THEN "0"
                                     ELSE RSum([p \in {q \in src : Canon(n, q[1], q[2]) = <<i, j>>} |-> At(s, p[1], p[2])])),
         fm |-> TRUE, fa |-> TRUE, ex |-> s.ex, et |-> s.et]

\* ---- unfold: back to the full feasible region (data untouched)
Unfold(s) == [s EXCEPT !.m = Infeasible(s.n), !.fm = FALSE, !.fa = FALSE]

\* ---- relabelling the alleles (used by the laws)
Transpose(s) == [s EXCEPT !.d = Mat(s.n, LAMBDA i, j : At(s, j, i)), !.m = Mat(s.n, LAMBDA i, j : MaskedAt(s, j, i))]
\* exchange the first derived allele with the ancestral one: (i, j, k) -> (k, j, i) on the feasible region
SwapAnc(s) == LET n == s.n
                  src(i, j) == IF Feasible(n, i, j) THEN <<n - i - j, j>> ELSE <<i, j>>
              IN  [s EXCEPT !.d = Mat(n, LAMBDA i, j : At(s, src(i, j)[1], src(i, j)[2])),
                            !.m = Mat(n, LAMBDA i, j : MaskedAt(s, src(i, j)[1], src(i, j)[2]))]

\* ---- arithmetic: entrywise on the data, masks are united, folding flags must agree
ArithVal(op, x, y) == CASE op = "add" -> RAdd(x, y) [] op = "sub" -> RSub(x, y)
                        [] op = "mul" -> RMul(x, y) [] op = "div" -> (IF y = "0" THEN "0" ELSE RDiv(x, y))     \* (a zero divisor occurs at masked entries only)
                        [] OTHER -> "0"
CanOperate(a, b) == a.fm = b.fm /\ a.fa = b.fa
Arith(op, a, b) ==
    [n |-> a.n, d |-> [k \in 1..Size(a.n) |-> ArithVal(op, a.d[k], b.d[k])], m |-> [k \in 1..Size(a.n) |-> a.m[k] \/ b.m[k]],
     fm |-> a.fm, fa |-> a.fa, ex |-> IF a.ex = b.ex THEN a.ex ELSE "None", et |-> IF a.et = b.et THEN a.et ELSE "None"]
ArithScalar(op, a, c, refl) ==
    [a EXCEPT !.d = [k \in 1..Size(a.n) |-> IF refl THEN ArithVal(op, c, a.d[k]) ELSE ArithVal(op, a.d[k], c)]]

\* ---- numerics.project: hypergeometric subsampling of n out of N chromosomes, then fold_major
\*      (sites that are no longer triallelic in the subsample leave the spectrum)
HypW(N, n, X1, X2, i, j) ==
    RDiv(RMul(RMul(RBinom(X1, i), RBinom(X2, j)), RBinom(N - X1 - X2, n - i - j)), RBinom(N, n))
ProjRaw(s, n) ==
    LET N == s.n
        src == {p \in (0..(N - 1)) \X (0..(N - 1)) : ~MaskedAt(s, p[1], p[2])}
    IN  Mat(n, LAMBDA i, j : IF i + j > n THEN "0"
                             ELSE RSum([p \in src |-> RMul(HypW(N, n, p[1], p[2], i, j), At(s, p[1], p[2]))]))
CanProject(s, n) == n >= 0 /\ n <= s.n
Project(s, n) ==
    IF n = s.n THEN s
    ELSE FoldMajor([n |-> n, d |-> ProjRaw(s, n), m |-> Infeasible(n), fm |-> FALSE, fa |-> FALSE, ex |-> "None", et |-> "None"])

\* ---- numerics.misidentification: with probability p one of the two derived alleles (each with p/2)
\*      is the true ancestral allele; input and result are folded_major
MisidRaw(s, p) ==
    LET n == s.n
        src == {q \in (1..(n - 1)) \X (1..(n - 1)) : q[2] <= q[1] /\ q[1] + q[2] <= n /\ ~MaskedAt(s, q[1], q[2])}
        w(q, i, j) == RAdd(IF <<i, j>> = q THEN RSub("1", p) ELSE "0",
                           RAdd(IF <<i, j>> = <<n - q[1] - q[2], q[2]>> THEN RHalf(p) ELSE "0",
                                IF <<i, j>> = <<q[1], n - q[1] - q[2]>> THEN RHalf(p) ELSE "0"))
    IN  Mat(n, LAMBDA i, j : RSum([q \in src |-> RMul(w(q, i, j), At(s, q[1], q[2]))]))
Misid(s, p) == LET t == IF s.fm THEN s ELSE FoldMajor(s) IN       \* an unfolded spectrum is folded first
    FoldMajor([n |-> t.n, d |-> MisidRaw(t, p), m |-> Infeasible(t.n), fm |-> FALSE, fa |-> FALSE, ex |-> t.ex, et |-> t.et])

\* ---- file format (to_file / from_file): header tokens, then data, then mask
FoldTokM(b) == IF b THEN "folded_major" ELSE "unfolded_major"
FoldTokA(b) == IF b THEN "folded_ancestral" ELSE "unfolded_ancestral"
\* an extrapolation value that is None (or zero) is written as the token None
ExtrapTok(e) == IF e = "0" THEN "None" ELSE e
Header(s) == [n |-> s.n, fm |-> FoldTokM(s.fm), fa |-> FoldTokA(s.fa), ex |-> ExtrapTok(s.ex), et |-> ExtrapTok(s.et)]
MaskInts(s) == [k \in 1..Size(s.n) |-> IF s.m[k] THEN 1 ELSE 0]
\* reading: [hdr, data, mask] -> spectrum
ReadFile(f, mi) == New(f.hdr.n, f.data, [k \in 1..Len(f.mask) |-> f.mask[k] # 0], mi,
                       f.hdr.fm = "folded_major", f.hdr.fa = "folded_ancestral", f.hdr.ex, f.hdr.et)
WriteFile(s) == [hdr |-> Header(s), data |-> s.d, mask |-> MaskInts(s)]
\* half a unit in the p-th significant digit, relative
PrecTol(p) == RDiv("1", RMul("2", RPow("10", p - 1)))

\* ======================================================================
\* Part 2: numerics on the triangular domain.  A grid x is a sequence x[1..L] (x[1] = 0, x[L] = 1,
\* increasing); a density phi is an L x L array, row-major, phi[(a-1)*L + b] at (x[a], x[b]).
\* ======================================================================
P2(L, a, b) == (a - 1) * L + b
SqMat(L, Op(_, _)) == TLCEval([k \in 1..(L * L) |-> Op((k - 1) \div L + 1, Mod(k - 1, L) + 1)])
Uniform(pts) == [a \in 1..(pts + 1) |-> RDiv(RInt(a - 1), RInt(pts))]

\* grid_dx: trapezoid weights, half cells at both ends
GridDx(x) == LET L == Len(x) IN
    TLCEval([a \in 1..L |-> RHalf(RAdd(IF a < L THEN RSub(x[a + 1], x[a]) ELSE "0", IF a > 1 THEN RSub(x[a], x[a - 1]) ELSE "0"))])
\* grid_dx_2d: product weights, halved on the diagonal boundary x + y = 1 (a + b = L + 1)
GridDx2d(x, dx) == LET L == Len(x) IN SqMat(L, LAMBDA a, b : RMul(RMul(dx[a], dx[b]), IF a + b = L + 1 THEN "1/2" ELSE "1"))
\* domain: 1 inside the triangle or on its boundary
DomTol == "1000000000001/1000000000000"
Domain(x) == LET L == Len(x) IN SqMat(L, LAMBDA a, b : IF RLeq(RAdd(x[a], x[b]), DomTol) THEN 1 ELSE 0)
Int2(DXX, U) == RDot(DXX, U)

Trinomial(n, i, j) == RMul(RBinom(n, i), RBinom(n - i, j))
\* sample: F[i, j] = n!/(i! j! k!) * sum_ab DXX[a,b] phi[a,b] x_a^i x_b^j (1 - x_a - x_b)^k on the feasible entries
SampleData(phi, ns, x) ==
    LET L == Len(x)
        dx == GridDx(x)
        DXX == GridDx2d(x, dx)
        w == TLCEval([k \in 1..(L * L) |-> RMul(DXX[k], phi[k])])
        nz == {k \in 1..(L * L) : w[k] # "0"}
        XP == TLCEval([a \in 1..L |-> [e \in 0..ns |-> RPow(x[a], e)]])
        QP == TLCEval([k \in nz |-> [e \in 0..ns |-> RPow(RSub("1", RAdd(x[(k - 1) \div L + 1], x[Mod(k - 1, L) + 1])), e)]])
    IN  Mat(ns, LAMBDA i, j : IF ~Feasible(ns, i, j) THEN "0"
                              ELSE RMul(Trinomial(ns, i, j),
                                        RSum([k \in nz |-> RMul(RMul(w[k], QP[k][ns - i - j]),
                                                                RMul(XP[(k - 1) \div L + 1][i], XP[Mod(k - 1, L) + 1][j]))])))
Sample(phi, ns, x) == [n |-> ns, d |-> SampleData(phi, ns, x), m |-> Infeasible(ns), fm |-> FALSE, fa |-> FALSE, ex |-> x[2], et |-> "None"]

\* integration.equilibrium_neutral_exact: 1 / (x y) strictly inside the triangle
EquilNeutral(x) == LET L == Len(x) IN
    SqMat(L, LAMBDA a, b : IF a >= 2 /\ b >= 2 /\ b <= L - a THEN RDiv("1", RMul(x[a], x[b])) ELSE "0")

\* mutation injection (one time step dt): new second mutations enter next to the axes against the biallelic background y
Inject1(phi, dt, x, dx, y2, th) == LET L == Len(x) IN
    SqMat(L, LAMBDA a, b : IF a = 2 /\ b >= 2 /\ b <= L - 1
                           THEN RAdd(phi[P2(L, a, b)], RDiv(RMul(RMul(y2[b], dt), RHalf(th)), RMul(dx[2], x[2]))) ELSE phi[P2(L, a, b)])
Inject2(phi, dt, x, dx, y1, th) == LET L == Len(x) IN
    SqMat(L, LAMBDA a, b : IF b = 2 /\ a >= 2 /\ a <= L - 1
                           THEN RAdd(phi[P2(L, a, b)], RDiv(RMul(RMul(y1[a], dt), RHalf(th)), RMul(dx[2], x[2]))) ELSE phi[P2(L, a, b)])
InjectBoth(phi, dt, x, dx, th) == LET L == Len(x) IN
    SqMat(L, LAMBDA a, b : IF a = 2 /\ b = 2
                           THEN RAdd(phi[P2(L, a, b)], RDiv(RMul(dt, th), RMul(RSq(x[2]), RSq(dx[2])))) ELSE phi[P2(L, a, b)])

\* integration.alt_mut_mech_sample_spectrum (Jenkins et al. 2014), t = i + j derived copies
Jenkins(ns) == Mat(ns, LAMBDA i, j : IF ~Feasible(ns, i, j) THEN "0"
                   ELSE LET t == i + j IN RDiv(RDiv(RInt(2 * ns), RInt(ns - 2)), RInt((t - 1) * t * (t + 1))))

\* ---- one-dimensional transition matrices: du/dt = 1/2 (V u)'' - (M u)',  V = x(1-x), M = sig x(1-x),
\*      finite volumes with weights dx; the implicit step is (I + dt (PV/nu + PM)) u' = u.
\*      Both matrices conserve sum_a dx[a] u[a] (x = 0 and x = 1 absorb).
Var(x, a) == RMul(x[a], RSub("1", x[a]))
T1DV(x, dx) == LET L == Len(x)
                   h(a) == RSub(x[a + 1], x[a])                \* a in 1..L-1
                   c(a) == RDiv("1/2", dx[a])
               IN SqMat(L, LAMBDA a, b :
                    IF a = 1 THEN (IF b = 1 THEN RMul(c(1), RDiv(Var(x, 1), h(1)))
                                   ELSE IF b = 2 THEN RNeg(RMul(c(1), RDiv(Var(x, 2), h(1)))) ELSE "0")
                    ELSE IF a = L THEN (IF b = L - 1 THEN RNeg(RMul(c(L), RDiv(Var(x, L - 1), h(L - 1))))
                                        ELSE IF b = L THEN RMul(c(L), RDiv(Var(x, L), h(L - 1))) ELSE "0")
                    ELSE (IF b = a - 1 THEN RNeg(RMul(c(a), RDiv(Var(x, a - 1), h(a - 1))))
                          ELSE IF b = a THEN RMul(c(a), RAdd(RDiv(Var(x, a), h(a - 1)), RDiv(Var(x, a), h(a))))
                          ELSE IF b = a + 1 THEN RNeg(RMul(c(a), RDiv(Var(x, a + 1), h(a)))) ELSE "0"))
T1DM(x, dx, sig) == LET L == Len(x)
                        c(a) == RDiv(RHalf(sig), dx[a])
                    IN SqMat(L, LAMBDA a, b :
                         IF b = a + 1 /\ a < L THEN RMul(c(a), Var(x, a + 1))
                         ELSE IF b = a - 1 /\ a > 1 THEN RNeg(RMul(c(a), Var(x, a - 1)))
                         ELSE "0")
\* weighted column sums: what one application of the matrix adds to the total mass, per unit of u[b]
ColSums(L, w, A) == [b \in 1..L |-> RSum([a \in 1..L |-> RMul(w[a], A[P2(L, a, b)])])]

\* ---- implicit steps: advance1D / advance_line / advance_adi solve tridiagonal systems.  The specification
\*      states them by the system solved (forward application), not by an elimination order.
\*      P3 = <<lower, diagonal, upper>> (three sequences of length L; lower[1] and upper[L] unused)
ApplyTri(P3, v) == LET L == Len(v) IN
    [a \in 1..L |-> RAdd(RMul(P3[2][a], v[a]),
                         RAdd(IF a > 1 THEN RMul(P3[1][a], v[a - 1]) ELSE "0", IF a < L THEN RMul(P3[3][a], v[a + 1]) ELSE "0"))]
MatVec(L, A, v) == [a \in 1..L |-> RSum([b \in 1..L |-> RMul(A[P2(L, a, b)], v[b])])]
ColActive(L, U01, b) == Cardinality({a \in 1..L : U01[P2(L, a, b)] = 1}) > 1
RowActive(L, U01, a) == Cardinality({b \in 1..L : U01[P2(L, a, b)] = 1}) > 1
\* apply the x-direction operators (one tridiagonal matrix P1[b] per column b) / the y-direction operators (P2[a] per row a)
ColApply(L, P1, U01, W) ==
    LET cols == TLCEval([b \in 1..L |-> IF ColActive(L, U01, b) THEN ApplyTri(P1[b], [a \in 1..L |-> W[P2(L, a, b)]])
                                        ELSE [a \in 1..L |-> W[P2(L, a, b)]]])
    IN  SqMat(L, LAMBDA a, b : cols[b][a])
RowApply(L, P2x, U01, W) ==
    LET rows == TLCEval([a \in 1..L |-> IF RowActive(L, U01, a) THEN ApplyTri(P2x[a], [b \in 1..L |-> W[P2(L, a, b)]])
                                        ELSE [b \in 1..L |-> W[P2(L, a, b)]]])
    IN  SqMat(L, LAMBDA a, b : rows[a][b])
\* the system one ADI step solves for its result R: even steps sweep x first, odd steps y first
AdiSystem(L, P1, P2x, U01, R, step) ==
    IF Mod(step, 2) = 0 THEN ColApply(L, P1, U01, RowApply(L, P2x, U01, R)) ELSE RowApply(L, P2x, U01, ColApply(L, P1, U01, R))
\* the diagonal boundary of phi as a vector, from (x=0, y=1) to (x=1, y=0)
DiagOf(L, phi) == [a \in 1..L |-> phi[P2(L, a, L + 1 - a)]]

\* ---- two-dimensional transition matrices (ADI): transition1 holds, for every column b (y = x[b] fixed), the
\*      tridiagonal x-direction operator on the grid points of that column inside the triangle; the last point of
\*      the column lies on the diagonal boundary, takes no part in the diffusion (variance 0 there) and only
\*      receives the drift.  Entry (a, a2) of column b; U is the domain marker (row-major, 1 inside).
ColDom(L, U, b) == {a \in 1..L : U[P2(L, a, b)] = 1}
SetMax(S) == CHOOSE m \in S : \A y \in S : y <= m
Hx(x, a) == RSub(x[a + 1], x[a])
T1VEntry(x, dx, U, b, a, a2) ==
    LET L == Len(x)
        D == ColDom(L, U, b)
        last == SetMax(D)
        body == D \ {last}
        V(c) == IF b > 1 /\ c = last THEN "0" ELSE Var(x, c)
        c0 == RNeg(RDiv("1/2", dx[a]))
        left == RMul(c0, RDiv(V(a - 1), Hx(x, a - 1)))
        first == IF a2 = 1 THEN RMul(c0, RNeg(RDiv(V(1), Hx(x, 1)))) ELSE IF a2 = 2 THEN RMul(c0, RDiv(V(2), Hx(x, 1))) ELSE "0"
        inner == IF a2 = a - 1 THEN left
                 ELSE IF a2 = a THEN RMul(c0, RNeg(RAdd(RDiv(V(a), Hx(x, a - 1)), RDiv(V(a), Hx(x, a)))))
                 ELSE IF a2 = a + 1 THEN RMul(c0, RDiv(V(a + 1), Hx(x, a))) ELSE "0"
    IN  IF b > 1
        THEN IF a \notin body THEN "0"
             ELSE IF a = 1 THEN first
             ELSE IF a = SetMax(body) THEN (IF a2 = a - 1 THEN left ELSE IF a2 = a THEN RMul(c0, RNeg(RDiv(V(a), Hx(x, a - 1)))) ELSE "0")
             ELSE inner
        ELSE IF a = 1 THEN first
             ELSE IF a = L THEN (IF a2 = L - 1 THEN RMul("2", left) ELSE IF a2 = L THEN RMul("2", RMul(c0, RNeg(RDiv(V(L), Hx(x, L - 1))))) ELSE "0")
             ELSE inner
\* selection on the first allele against the rest, given the second allele at frequency x[b]
SigNew(x, b, a, s1, s2) ==
    IF a = Len(x) THEN "0"
    ELSE RDiv(RAdd(RMul(s1, RSub(RSub("1", x[a]), x[b])), RMul(RSub(s1, s2), x[b])), RSub("1", x[a]))
T1MEntry(x, dx, U, b, a, a2, s1, s2) ==
    LET L == Len(x)
        D == ColDom(L, U, b)
        last == SetMax(D)
        M(c) == IF c = last THEN "0" ELSE RMul(SigNew(x, b, c, s1, s2), Var(x, c))
        e == RDiv("1/2", dx[a])
    IN  IF a \notin D THEN "0"
        ELSE IF a = 1 THEN (IF a2 = 1 THEN RMul(e, M(1)) ELSE IF a2 = 2 THEN RMul(e, M(2)) ELSE "0")
        ELSE IF a = last THEN (IF a2 = a - 1 THEN RNeg(RMul(RMul("2", e), M(a - 1))) ELSE IF a2 = a THEN RNeg(RMul(RMul("2", e), M(a))) ELSE "0")
        ELSE (IF a2 = a - 1 THEN RNeg(RMul(e, M(a - 1))) ELSE IF a2 = a + 1 THEN RMul(e, M(a + 1)) ELSE "0")
\* the arrays as the code stores them: [column][lower, diagonal, upper][row]
Banded(L, E(_, _, _)) ==
    TLCEval([b \in 1..L |-> <<[a \in 1..L |-> IF a > 1 THEN E(b, a, a - 1) ELSE "0"],
                              [a \in 1..L |-> E(b, a, a)],
                              [a \in 1..L |-> IF a < L THEN E(b, a, a + 1) ELSE "0"]>>])
Trans1V(x, dx, U) == Banded(Len(x), LAMBDA b, a, a2 : T1VEntry(x, dx, U, b, a, a2))
Trans1M(x, dx, U, s1, s2) == Banded(Len(x), LAMBDA b, a, a2 : T1MEntry(x, dx, U, b, a, a2, s1, s2))
\* transition2 is transition1 with the roles of the two derived alleles exchanged
TransposeSq(L, U) == SqMat(L, LAMBDA a, b : U[P2(L, b, a)])
Trans2V(x, dx, U) == Trans1V(x, dx, TransposeSq(Len(x), U))
Trans2M(x, dx, U, s1, s2) == Trans1M(x, dx, TransposeSq(Len(x), U), s2, s1)
\* weights of the points of column b in the two-dimensional trapezoid rule, per unit of dx[b]
ColWeights(x, dx, U, b) == LET L == Len(x) DXX == GridDx2d(x, dx) IN
    [a \in 1..L |-> IF U[P2(L, a, b)] = 1 THEN RDiv(DXX[P2(L, a, b)], dx[b]) ELSE "0"]

\* ---- transition12: the mixed derivative D_xy(-x y phi), explicit; cells 0-based (i, j) as in the code,
\*      coefficient of cell (i + di, j + dj) in the row of cell (i, j), di, dj in {-1, 1}
C12Entry(x, dx, U, i, j, di, dj) ==
    LET L == Len(x)
        U0(p, q) == U[P2(L, p + 1, q + 1)] = 1
        inr == i + di >= 0 /\ i + di <= L - 1 /\ j + dj >= 0 /\ j + dj <= L - 1
        base == IF ~inr THEN "0"
                ELSE RMul(RInt(di * dj), RMul(RDiv("1/4", RMul(dx[i + 1], dx[j + 1])), RNeg(RMul(x[i + di + 1], x[j + dj + 1]))))
        loop == i <= L - 3 /\ j <= L - 3
        c1 == loop /\ (U0(i + 2, j + 2) \/ U0(i + 1, j + 2) \/ U0(i + 2, j + 1))
        c2 == loop /\ ~c1 /\ (U0(i + 1, j + 1) \/ U0(i + 1, j) \/ U0(i, j + 1))
        nb == inr /\ U0(i + di, j + dj)
        main == IF c1 /\ nb THEN base
                ELSE IF c2 /\ nb THEN (IF di = 1 /\ dj = 1 THEN "0" ELSE IF di = -1 /\ dj = -1 THEN base ELSE RHalf(base))
                ELSE "0"
        extra == IF (i = 0 /\ j = L - 2 /\ di = 1 /\ dj = -1) \/ (i = L - 2 /\ j = 0 /\ di = -1 /\ dj = 1) THEN RHalf(base) ELSE "0"
    IN  RAdd(main, extra)
\* dense (L*L) x (L*L), row-major in (row cell, column cell), cells numbered i*L + j
Trans12(x, dx, U) == LET L == Len(x) IN
    TLCEval([k \in 1..(L * L * L * L) |->
        LET row == (k - 1) \div (L * L)
            col == Mod(k - 1, L * L)
            i == row \div L  j == Mod(row, L)  i2 == col \div L  j2 == Mod(col, L)
        IN IF (i2 - i = 1 \/ i - i2 = 1) /\ (j2 - j = 1 \/ j - j2 = 1) THEN C12Entry(x, dx, U, i, j, i2 - i, j2 - j) ELSE "0"])

\* ---- move_density_to_bdry: a fraction P of the density at an interior point goes to the nearest
\*      point(s) of the diagonal boundary; boundary cells have half weight, hence the factor 2.
\*      Cells are 0-based (i, j) as in the code; phi, P row-major.
MoveTargets(L, i, j) ==      \* set of <<i', j', factor>>
    LET s == i + j
        dist == (L - 1 - s) \div 2
    IN  IF i = 1 /\ j = L - 3 THEN {<<i + 1, j, "1/2">>, <<i, j + 1, "1/2">>, <<i - 1, j, "1">>}
        ELSE IF i = L - 3 /\ j = 1 THEN {<<i + 1, j, "1/2">>, <<i, j + 1, "1/2">>, <<i, j - 1, "1">>}
        ELSE IF Mod(L - 1 - s, 2) = 1 THEN {<<i + dist + 1, j + dist, "1">>, <<i + dist, j + dist + 1, "1">>}
        ELSE {<<i + dist, j + dist, "2">>}
MoveSupport(L, P) == {q \in (0..(L - 1)) \X (0..(L - 1)) : P[P2(L, q[1] + 1, q[2] + 1)] # "0"}
MoveOK(L, P) == \A q \in MoveSupport(L, P) : q[1] >= 1 /\ q[2] >= 1 /\ q[1] + q[2] < L - 1
Move(L, phi, P) ==
    LET S == MoveSupport(L, P)
        inflow(i, j) == RSum([q \in {r \in S : \E t \in MoveTargets(L, r[1], r[2]) : t[1] = i /\ t[2] = j} |->
                               LET t == CHOOSE u \in MoveTargets(L, q[1], q[2]) : u[1] = i /\ u[2] = j
                                   k == P2(L, q[1] + 1, q[2] + 1)
                               IN RMul(RMul(phi[k], P[k]), t[3])])
    IN  SqMat(L, LAMBDA a, b : LET k == P2(L, a, b) IN
                 IF <<a - 1, b - 1>> \in S THEN RMul(phi[k], RSub("1", P[k])) ELSE RAdd(phi[k], inflow(a - 1, b - 1)))
=============================================================================
