CONSTANT K = 12
INIT Init
NEXT Next
CHECK_DEADLOCK FALSE
