CONSTANTS
  MaxDepth = 1
  Configs <- ConfigsQuick
  ExtraNew <- ExtraNewQuick
  PropSet <- PropSetQuick
  UnitLimit = 18
  ActLimit = 16
  GrowLimit = 6
SPECIFICATION Spec
CHECK_DEADLOCK FALSE
INVARIANT TypeOK
INVARIANT L_Admix
INVARIANT L_AdmixRelabel
INVARIANT L_SplitCopy
INVARIANT L_Split1D
INVARIANT L_PulseZero
INVARIANT L_Pulse
INVARIANT L_PulseRelabel
INVARIANT L_ReorderIsPermutation
INVARIANT L_ReorderCompose
INVARIANT L_RemoveReorder
INVARIANT L_RemoveFubini
INVARIANT L_RemoveIsTrapz
INVARIANT L_Filter
