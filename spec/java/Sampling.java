// Operator overrides for module Sampling (property C05).  The TLA+ definitions in
// Sampling.tla remain the semantics; SamplingMC.tla compares these overrides with the
// definitions (ASSUME OverrideSelfTest) on a lattice of arguments.
//   Strict(f)            = f, with every value of the function computed once
//   IntMono(a,b,lo,hi)   = integral over [lo,hi] of x^a (1-x)^b dx   (exact rational)
import java.math.BigInteger;
import tlc2.value.impl.*;

public final class Sampling {
    private static BigInteger[] parse(Value v) {
        if (v instanceof IntValue) return new BigInteger[] { BigInteger.valueOf(((IntValue) v).val), BigInteger.ONE };
        if (!(v instanceof StringValue)) throw new IllegalArgumentException("Sampling: not a rational: " + v);
        String s = ((StringValue) v).getVal().toString();
        int k = s.indexOf('/');
        try {
            if (k < 0) return new BigInteger[] { new BigInteger(s), BigInteger.ONE };
            BigInteger n = new BigInteger(s.substring(0, k)), d = new BigInteger(s.substring(k + 1));
            if (d.signum() == 0) throw new ArithmeticException("Sampling: zero denominator");
            if (d.signum() < 0) { n = n.negate(); d = d.negate(); }
            return new BigInteger[] { n, d };
        } catch (NumberFormatException e) {
            throw new IllegalArgumentException("Sampling: not a rational: \"" + s + "\"");
        }
    }
    private static Value out(BigInteger n, BigInteger d) {
        if (d.signum() < 0) { n = n.negate(); d = d.negate(); }
        BigInteger g = n.gcd(d);
        if (g.signum() != 0 && !g.equals(BigInteger.ONE)) { n = n.divide(g); d = d.divide(g); }
        if (n.signum() == 0) return new StringValue("0");
        return new StringValue(d.equals(BigInteger.ONE) ? n.toString() : n.toString() + "/" + d.toString());
    }

    public static Value Strict(Value f) {
        if (f instanceof TupleValue || f instanceof FcnRcdValue || f instanceof RecordValue) return f;
        if (!(f instanceof FcnLambdaValue)) return f;
        Value t = (Value) f.toTuple();
        if (t != null) return t;
        Value r = (Value) f.toFcnRcd();
        return r != null ? r : f;
    }

    // numerator of  Sum_k C(b,k) (-1)^k x^(a+k+1) / (a+k+1)  over the denominator  lcm * q^(a+b+1),  x = p/q
    private static BigInteger prim(int a, int b, BigInteger p, BigInteger q, BigInteger lcm) {
        BigInteger[] qp = new BigInteger[b + 1];
        qp[0] = BigInteger.ONE;
        for (int k = 1; k <= b; k++) qp[k] = qp[k - 1].multiply(q);
        BigInteger pp = p.pow(a + 1), c = BigInteger.ONE, sum = BigInteger.ZERO;
        for (int k = 0; k <= b; k++) {
            BigInteger t = c.multiply(pp).multiply(qp[b - k]).multiply(lcm.divide(BigInteger.valueOf(a + k + 1)));
            sum = (k % 2 == 0) ? sum.add(t) : sum.subtract(t);
            pp = pp.multiply(p);
            c = c.multiply(BigInteger.valueOf(b - k)).divide(BigInteger.valueOf(k + 1));
        }
        return sum;
    }
    public static Value IntMono(Value va, Value vb, Value vlo, Value vhi) {
        int a = ((IntValue) va).val, b = ((IntValue) vb).val;
        if (a < 0 || b < 0) throw new IllegalArgumentException("Sampling.IntMono: negative exponent");
        BigInteger[] lo = parse(vlo), hi = parse(vhi);
        BigInteger lcm = BigInteger.ONE;
        for (int k = a + 1; k <= a + b + 1; k++) { BigInteger kk = BigInteger.valueOf(k); lcm = lcm.multiply(kk).divide(lcm.gcd(kk)); }
        BigInteger nh = prim(a, b, hi[0], hi[1], lcm), nl = prim(a, b, lo[0], lo[1], lcm);
        BigInteger dh = hi[1].pow(a + b + 1), dl = lo[1].pow(a + b + 1);
        // nh/(lcm dh) - nl/(lcm dl)
        return out(nh.multiply(dl).subtract(nl.multiply(dh)), lcm.multiply(dh).multiply(dl));
    }
}
