CONSTANTS
  MaxSteps = 1
  PSet = {1, 2}
  Tier = "quick"
SPECIFICATION Spec
CHECK_DEADLOCK FALSE
INVARIANT LinesRescale
PROPERTY StepOK
