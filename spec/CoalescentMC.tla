---------------------------- MODULE CoalescentMC ----------------------------
(***************************************************************************)
(* Laws of the coalescent oracle, checked exhaustively: the state is a     *)
(* size history (with a rational stand-in table for the exponentials,      *)
(* which only have to be multiplicative), actions refine the history; the  *)
(* expected spectrum is invariant under refinements that do not change the *)
(* demography, and equals theta/b for the constant history.                *)
(***************************************************************************)
EXTENDS Coalescent, TLC
CONSTANTS N, MaxEpochs
VARIABLES hist, E, sfs0
vars == <<hist, E, sfs0>>
Nus == {"1/2", "1", "3"}
\* stand-ins for exp(-C(j,2) T/nu): any value in (0,1) per (epoch, j); multiplicativity is what the laws use
Decay(q, j) == RDiv(RInt(q), RInt(q + j * (j - 1)))        \* a different rational in (0,1) for every (q, j)
Row(q) == [j \in 2..N |-> Decay(q, j)]
SFS(h, tab) == ExpectedSFS(N, h, "1", tab, "2")

Init == hist = <<>> /\ E = <<>> /\ sfs0 = SFS(<<>>, <<>>)
\* add an older epoch (between the current oldest epoch and the ancestral population)
AddEpoch == /\ Len(hist) < MaxEpochs
            /\ \E nu \in Nus : \E q \in 1..3 :
                 /\ hist' = Append(hist, [nu |-> nu])
                 /\ E' = Append(E, Row(q))
                 /\ sfs0' = SFS(hist', E')
\* split epoch e into two consecutive epochs of the same size: table entries multiply
SplitEpoch == /\ Len(hist) >= 1 /\ Len(hist) < MaxEpochs
              /\ \E e \in 1..Len(hist) : \E q \in 1..2 :
                   LET first == Row(q)
                       second == [j \in 2..N |-> RDiv(E[e][j], first[j])]
                       ins(s, x, y) == [i \in 1..(Len(s) + 1) |-> IF i < e THEN s[i] ELSE IF i = e THEN x ELSE IF i = e + 1 THEN y ELSE s[i - 1]]
                   IN /\ \A j \in 2..N : RLt(E[e][j], first[j])      \* the first piece is shorter than the whole
                      /\ hist' = ins(hist, hist[e], hist[e])
                      /\ E' = ins(E, first, second)
                      /\ UNCHANGED sfs0
\* a zero-length epoch anywhere changes nothing
ZeroEpoch == /\ Len(hist) < MaxEpochs
             /\ \E e \in 1..(Len(hist) + 1) : \E nu \in Nus :
                   LET ins(s, x) == [i \in 1..(Len(s) + 1) |-> IF i < e THEN s[i] ELSE IF i = e THEN x ELSE s[i - 1]]
                   IN hist' = ins(hist, [nu |-> nu]) /\ E' = ins(E, [j \in 2..N |-> "1"]) /\ UNCHANGED sfs0
Next == AddEpoch \/ SplitEpoch \/ ZeroEpoch
Spec == Init /\ [][Next]_vars

\* the spectrum recorded when the demography last changed is the spectrum of the current (refined) history
RefinementInvariant == SFS(hist, E) = sfs0
\* constant size: theta/b
ConstantIsNeutral == (\A e \in 1..Len(hist) : hist[e].nu = "1") => \A b \in 1..(N - 1) : SFS(hist, E)[b] = RDiv("2", RInt(b))
\* total branch length is positive and every entry is positive
Positive == \A b \in 1..(N - 1) : RPos(SFS(hist, E)[b])
\* at time 0 there are exactly n ancestors
ASSUME \A n \in 2..12 : \A k \in 2..n : RSum([j \in k..n |-> Coef(n, j, k)]) = (IF k = n THEN "1" ELSE "0")
\* the descendant-count law is a probability distribution weighted as it must: SUM_b b*k*Desc = n
ASSUME \A n \in 2..12 : \A k \in 2..n : RSum([b \in 1..(n - 1) |-> RMul(RInt(b * k), Desc(n, k, b))]) = RInt(n)
=============================================================================
