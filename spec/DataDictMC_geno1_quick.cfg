CONSTANTS
  MaxLines = 2
  SampleChoices <- Samples1
  Reduce = FALSE
  ChunkSizes = {1, 2}
  BootMax = 3
  Alphabet = 4
  Mode = "geno"
  FlagSet = "small"
  AllProjDepth = 1
SPECIFICATION Spec
CHECK_DEADLOCK FALSE
INVARIANT TypeOK
INVARIANT L_ParserDirect
INVARIANT L_Total
INVARIANT L_Literal
INVARIANT L_Fold
INVARIANT L_ProjectConsistent
INVARIANT L_PopOrder
INVARIANT L_Chunks
INVARIANT L_Subsample
INVARIANT L_Stats1
INVARIANT L_Fst
