\* DEFECTIVE design (must be refuted): perturb_params rewrites the caller's bound lists
CONSTANTS
  MaxDepth = 1
  BaseSel = "memo"
  LaySel = "C"
  ProjKeyMode = "full"
  DbetaKeyMode = "full"
  PartKeyMode = "full"
  EntryMode = "copy_all"
  XXMode = "contig"
  GodMode = "object"
  DemesMode = "pure"
  PerturbMode = "rewrites_none"
  HashMode = "ordered"
  SFSMode = "copies"
  VectorMode = "copies"
  MaskMode = "setter"
  KernelMode = "stateless"
  MaxTable = 60
SPECIFICATION Spec
CHECK_DEADLOCK FALSE
CONSTRAINT TableBound
VIEW MCView
INVARIANT TypeOK
INVARIANT AlphabetOK
INVARIANT TablesSound
INVARIANT ResultIndependentOfHistory
INVARIANT ResultIndependentOfHashSeed
INVARIANT LayoutIndependent
INVARIANT ArgumentsUnchanged
INVARIANT ResultIsFresh
