"""C17 - DFE integration is the documented quadrature of a schedule-independent cache
(spec/DFECache.tla, spec/DFEQuad.tla).

Part A (schedules, fault sequences): the real Cache1D/Cache2D._multiple_processes and
_worker_sfs run on the lock-step scheduler of harness/fake_mp.py along schedules chosen
by TLC (every complete schedule of DFECacheMC!SpecPaths) and along seeded random
schedules; after every step the observable state is recorded; TLC (Trace_DFECache)
folds the specification's transition function over each recorded schedule.  Real
multi-process runs and merges of split pieces are recorded as digests.

Part B (inputs): integrate*/mixture* calls on tiny caches built from cheap model
functions, with exact rational records, judged by TLC against DFEQuad.

Python generates inputs and records; every verdict is TLC's.
"""
import os, sys, json, math, random, hashlib, itertools, tempfile, time, contextlib
from fractions import Fraction
import numpy as np
from . import common
from .common import rat, rats

PROP = 'C17'


# --------------------------------------------------------------------------
# model functions (module level: picklable for real multiprocessing)
# --------------------------------------------------------------------------
def _log_job(tag):
    p = os.environ.get('C17_JOBLOG')
    if p:
        fd = os.open(p, os.O_WRONLY | os.O_APPEND | os.O_CREAT)
        try:
            os.write(fd, ('%d %s\n' % (os.getpid(), tag)).encode())
        finally:
            os.close(fd)


def model_1d(params, ns, pts):
    """Cheap stand-in for a demography+selection model, 1-D cache: a small Spectrum depending
    smoothly on gamma.  params[:-1] lists the gammas on which the model raises (fault injection);
    the value depends on gamma only."""
    import dadi
    g = float(params[-1])
    _log_job(repr(g))
    if any(g == float(f) for f in params[:-1]):
        raise ValueError('c17 injected failure', g)
    a = abs(g)
    d = [0.0, 1.0 / (1.0 + a) + (0.25 if g > 0 else 0.0), 0.5 / (1.0 + 0.5 * a), 0.125 + 0.3 / (2.0 + a) ** 2, 0.0]
    return dadi.Spectrum(d[:ns[0]] + [0.0])


def model_2d(params, ns, pts):
    """2-D cache stand-in: 3x3 Spectrum depending smoothly on (gamma1, gamma2).  params[:-2] lists
    failing pairs flattened (g1, g2, g1, g2, ...)."""
    import dadi
    g1, g2 = float(params[-2]), float(params[-1])
    _log_job('%r,%r' % (g1, g2))
    fl = [float(x) for x in params[:-2]]
    if any(g1 == fl[k] and g2 == fl[k + 1] for k in range(0, len(fl) - 1, 2)):
        raise ValueError('c17 injected failure', g1, g2)
    a, b = abs(g1), abs(g2)
    d = np.array([[0.0, 1.0 / (1.0 + a), 0.2 / (1.0 + a + b)],
                  [1.0 / (1.0 + b), 0.5 / (1.0 + 0.5 * a) / (1.0 + 0.25 * b), 0.3 / (2.0 + b) + (0.125 if g1 > 0 else 0.0)],
                  [0.1 / (1.0 + a * b), 0.25 / (1.0 + a) + (0.0625 if g2 > 0 else 0.0), 0.0]])
    return dadi.Spectrum(d)


def model_2d_alt(params, ns, pts):
    """A different model (for conflicting split pieces)."""
    fs = model_2d(params, ns, pts)
    return fs * 1.5


def model_1d_pair(params, ns, pts):
    """1-D cache of a two-population model (one gamma shared by both populations), as the mixture functions need."""
    g = params[-1]
    return model_2d(tuple(params[:-1]) + (g, g), ns, pts)


def blind_1d_pair(params, ns, pts):
    return blind_2d(params, ns, pts)


def blind_1d(params, ns, pts):
    """Selection-blind model: the same spectrum for every gamma."""
    import dadi
    return dadi.Spectrum([0.0, 0.75, 0.3125, 0.1875, 0.0])


def blind_2d(params, ns, pts):
    import dadi
    return dadi.Spectrum([[0.0, 0.75, 0.125], [0.5, 0.3125, 0.0625], [0.25, 0.1875, 0.0]])


def dg(a):
    """Digest of a spectrum's data (bit-for-bit comparison token); 'none' for a hole."""
    if a is None:
        return 'none'
    a = np.ascontiguousarray(np.asarray(getattr(a, 'data', a), dtype=float))
    return hashlib.sha256(a.tobytes()).hexdigest()[:20]


# --------------------------------------------------------------------------
# Part A: cache construction under a given job layout
# --------------------------------------------------------------------------
G1 = dict(gamma_bounds=(0.125, 8.0))


class Layout:
    """One cache-generation problem: which class, how many jobs, which fail."""

    def __init__(self, kind, nj, split=1, this=0, fail=()):
        self.kind, self.nj, self.split, self.this, self.fail = kind, nj, split, this, sorted(fail)
        if kind == '1D':
            self.gamma_pts = max(1, nj - 1) if nj > 1 else 1
            self.additional = [2.5] if nj > 1 else []
            self.n = nj
        else:
            n = int(round(math.sqrt(nj)))
            assert n * n == nj
            self.n = n
            self.gamma_pts = max(1, n - 1) if n > 1 else 1
            self.additional = [2.5] if n > 1 else []
        self.gammas = list(-np.logspace(np.log10(G1['gamma_bounds'][1]), np.log10(G1['gamma_bounds'][0]), self.gamma_pts)) + self.additional
        assert len(self.gammas) == self.n

    def params(self, fail=None):
        fail = self.fail if fail is None else fail
        if self.kind == '1D':
            return [self.gammas[j] for j in fail]
        out = []
        for j in fail:
            out += [self.gammas[j // self.n], self.gammas[j % self.n]]
        return out

    def build(self, cpus, fail=None, func=None, split=None, this=None):
        import dadi.DFE as DFE
        split = self.split if split is None else split
        this = self.this if this is None else this
        if self.kind == '1D':
            return DFE.Cache1D(self.params(fail), [3], func or model_1d, [1], gamma_pts=self.gamma_pts,
                               additional_gammas=self.additional, cpus=cpus, **G1)
        return DFE.Cache2D(self.params(fail), [2, 2], func or model_2d, [1], gamma_pts=self.gamma_pts,
                           additional_gammas=self.additional, cpus=cpus, split_jobs=split, this_job_id=this, **G1)

    def table(self, cache):
        """Digest per job of what the cache holds.  An entry (or a whole object) of unexpected form is an
        OBSERVATION: it is recorded as an 'unreadable:...' token, which the trace spec cannot accept as F(job)."""
        out = []
        for j in range(self.nj):
            try:
                cell = cache.spectra[j] if self.kind == '1D' else cache.spectra[j // self.n][j % self.n]
                out.append(dg(cell))
            except Exception as e:
                out.append('unreadable:' + type(e).__name__)
        return out

    def job_of_item(self, item):
        if item is None:
            return -1
        if self.kind == '1D':
            return int(item[0])
        return int(item[0]) * self.n + int(item[1])

    def job_of_result(self, x):
        if isinstance(x, BaseException):
            try:
                if self.kind == '1D':
                    return [self.gammas.index(x.args[1]), 'err']
                return [self.gammas.index(x.args[1]) * self.n + self.gammas.index(x.args[2]), 'err']
            except Exception:
                return [-9, 'err:' + type(x).__name__]
        try:
            return [self.job_of_item(x[:-1]), 'ok']
        except Exception:
            return [-9, 'unknown']

    def conf(self, nw):
        return {'nw': nw, 'nj': self.nj, 'cap': nw, 'split': self.split, 'this': self.this, 'fail': list(self.fail)}


_REF = {}


def reference_table(lay):
    """Digests of the single-process, unsplit, fault-free cache (the 'F' of the specification)."""
    key = (lay.kind, lay.nj)
    if key not in _REF:
        c = lay.build(1, fail=[], split=1, this=0)
        _REF[key] = (lay.table(c), c)
    return _REF[key][0]


@contextlib.contextmanager
def quiet_stderr():
    """The worker prints the traceback of a raising model function; keep the check's output clean."""
    sys.stderr.flush()
    saved = os.dup(2)
    dn = os.open(os.devnull, os.O_WRONLY)
    os.dup2(dn, 2)
    try:
        yield
    finally:
        sys.stderr.flush()
        os.dup2(saved, 2)
        os.close(dn)
        os.close(saved)


def project(view, lay, nw):
    """The observable abstract state (DFECache!Proj) of a scheduler view."""
    q = [lay.job_of_item(it) for it in (view['queues'][0] if view['queues'] else [])]
    res = [lay.job_of_result(x) for x in (view['lists'][0] if view['lists'] else [])]
    acts = view['actors']
    st, op, arg = acts[0]
    if st == 'parked':
        if op == 'start':
            m = ['start', view['nproc'] + 1]
        elif op == 'put':
            m = ['put', lay.job_of_item(arg)]
        elif op == 'join':
            m = ['join', getattr(arg, 'ident', -9)]
        elif op == 'iter':
            m = ['iter', 0]
        else:
            m = [str(op), -9]
    elif st == 'finished':
        m = ['done', 0] if arg is None else ['raised', 0]
    else:
        m = [st, -9]
    w = []
    for k in range(1, nw + 1):
        if k not in acts:
            w.append(['unstarted', -1])
            continue
        st, op, arg = acts[k]
        if st == 'parked' and op == 'get':
            w.append(['get', -1])
        elif st == 'parked' and op == 'append':
            w.append(['append', lay.job_of_result(arg)[0]])
        elif st == 'finished':
            w.append(['exited', -1] if arg is None else ['crashed:' + type(arg).__name__, -1])
        else:
            w.append([str(st) + ':' + str(op), -9])
    extra = [k for k in acts if k > nw]
    if extra:
        m = m + ['extra-actors']
    return {'q': q, 'res': res, 'm': m, 'w': w}


def run_schedule(lay, nw, path=None, rng=None, maxsteps=400, builder=None):
    """Run the real cache constructor with cpus=nw on the lock-step scheduler, following `path`
    (sequence of actors chosen by TLC) or, when path is None, seeded random choices among the
    enabled actors.  Returns the 'out' part of a schedule record."""
    from . import fake_mp
    sched = fake_mp.Scheduler()
    out = {'steps': []}
    with sched.patched(), quiet_stderr():
        try:
            sched.run_main(builder or (lambda: lay.build(nw)))
            out['init'] = project(sched.view(), lay, nw)
            k = 0
            while True:
                if path is not None:
                    if k >= len(path):
                        break
                    a = path[k]
                else:
                    en = sched.enabled_actors()
                    if not en or k >= maxsteps:
                        break
                    a = rng.choice(en)
                done = sched.step(a)
                ob = project(sched.view(), lay, nw)
                ob['a'] = a
                ob['done'] = 'yes' if done else 'no'
                out['steps'].append(ob)
                k += 1
                if not done:
                    break
            main = sched.actors[0]
            if main.state == 'finished':
                if main.exc is None:
                    out['final'] = {'outcome': 'ok', 'exc': 'none', 'table': lay.table(main.result)}
                else:
                    out['final'] = {'outcome': 'error', 'exc': type(main.exc).__name__, 'table': []}
            else:
                out['final'] = {'outcome': 'unfinished', 'exc': 'none', 'table': [],
                                'enabled': sched.enabled_actors()}
        finally:
            sched.abort()
    return out


def build_via_pool(lay, nw):
    """cpus=1 takes the single-process branch of the constructor; a pool of ONE worker is reached by
    calling the real _multiple_processes directly on a constructed object whose table was emptied."""
    if nw >= 2:
        return lay.build(nw)
    import dadi
    c = lay.build(1, fail=[])
    c.params = lay.params()
    if lay.kind == '1D':
        c.spectra = [None] * lay.n
        c._multiple_processes(1, 0, False, model_1d)
    else:
        c.spectra = [[None] * lay.n for _ in range(lay.n)]
        c._multiple_processes(1, 0, False, lay.split, lay.this, model_2d)
    return c


# --------------------------------------------------------------------------
# Part A: schedules from TLC
# --------------------------------------------------------------------------
def tlc_paths(cfg, simulate=None, seed=1, workers=4):
    """Complete schedules of DFECacheMC!SpecPaths: [(nw, nj, split, this, fail list, [actors])]."""
    extra = []
    if simulate:
        extra = ['-seed', str(seed), '-depth', '200']
    r = common.tlc('DFECacheMC', cfg, workers=1 if simulate else workers, simulate=simulate, extra=extra, timeout=900)
    if not r.ok:
        raise common.MachineryError('path enumeration failed (%s): %s\n%s' % (cfg, r.violation, r.out[-2000:]))
    paths = []
    for p in r.prints:
        if p and p[0] == 'PATH':
            paths.append((p[1], p[2], p[3], p[4], [int(ch) for ch in p[5][1:]], [int(ch) for ch in p[6]]))
    if not paths:
        raise common.MachineryError('no schedules produced by %s' % cfg)
    return paths, r


def schedule_record(rid, kind, nw, nj, split, this, fail, path=None, rng=None, src='tlc'):
    lay = Layout(kind, nj, split, this, fail)
    if nw >= 2:
        out = run_schedule(lay, nw, path=path, rng=rng)
    else:
        out = run_schedule(lay, nw, path=path, rng=rng, builder=lambda: build_via_pool(lay, 1))
    site = 'Cache%s._multiple_processes' % kind
    return {'id': rid, 'op': 'schedule', 'site': site,
            'in': {'c': lay.conf(nw), 'F': reference_table(lay), 'src': src, 'kind': kind,
                   'path': ''.join(str(a) for a in path) if path is not None else ''},
            'out': out}


def _sched_chunk(args):
    """Worker for the process pool that replays schedules (each process has its own threads)."""
    import warnings
    warnings.simplefilter('ignore')
    out = []
    for (rid, kind, nw, nj, split, this, fail, path, seed, src) in args:
        rng = random.Random(seed) if path is None else None
        out.append(schedule_record(rid, kind, nw, nj, split, this, fail, path=path, rng=rng, src=src))
    return out


def replay_many(jobs, procs=6):
    """Replay schedules, spread over a few forked processes."""
    if not jobs:
        return []
    if len(jobs) < 200 or procs <= 1:
        return _sched_chunk(jobs)
    import multiprocessing as mp
    chunks = [jobs[k::procs * 4] for k in range(procs * 4)]
    with mp.get_context('fork').Pool(procs) as pool:
        res = pool.map(_sched_chunk, chunks)
    recs = [r for ch in res for r in ch]
    recs.sort(key=lambda r: r['id'])
    return recs


def schedule_jobs(ctx):
    """Which schedules to replay: (rid, kind, nw, nj, split, this, fail, path|None, seed, src)."""
    rng = random.Random(ctx.seed + 17)
    jobs = []
    info = {}
    # (1) every complete schedule of 2 workers x 3 jobs (thorough: for every fail set, PathSet 1; quick: three fail
    #     sets - the schedules themselves do not depend on the fail set) and (2) of 1-2 workers x 2 jobs, every fail
    #     set (includes the one-worker pool).  Quick enumerates both families in one TLC run (PathSet 7).
    if ctx.quick:
        allp, r = tlc_paths('DFECacheMC_paths7.cfg', workers=4)
        paths = [p for p in allp if p[1] == 3]
        paths4 = [p for p in allp if p[1] == 2]
    else:
        paths, r = tlc_paths('DFECacheMC_paths.cfg', workers=4)
        paths4, _ = tlc_paths('DFECacheMC_paths4.cfg', workers=2)
    info['paths_2x3_enumerated'] = len(paths)
    info['paths_states'] = r.states
    by_fail = {}
    for p in paths:
        by_fail.setdefault(tuple(p[4]), []).append(p)
    sel = []
    if ctx.quick:
        for fl, ps in sorted(by_fail.items()):
            sel += rng.sample(ps, min(len(ps), 300))
    else:
        for fl, ps in sorted(by_fail.items()):
            sel += ps if fl in ((), (1,)) else rng.sample(ps, min(len(ps), 1200))
    for k, p in enumerate(sel):
        jobs.append(('sch-a%06d' % k, '1D', p[0], p[1], p[2], p[3], p[4], p[5], 0, 'tlc-all-paths'))
    info['paths_2x3_replayed'] = len(sel)
    if ctx.quick:
        paths4 = [p for p in paths4 if p[0] == 1] + rng.sample([p for p in paths4 if p[0] == 2], 250)
    for k, p in enumerate(paths4):
        jobs.append(('sch-b%06d' % k, '1D', p[0], p[1], p[2], p[3], p[4], p[5], 0, 'tlc-all-paths'))
    info['paths_small_replayed'] = len(paths4)
    # (3) simulated schedules: 2-D cache in split pieces with 2 and 3 workers, 3 workers x 4 jobs (PathSet 6 = 2 + 3)
    n2 = 300 if ctx.quick else 3000
    p23, _ = tlc_paths('DFECacheMC_paths6.cfg', simulate='num=%d' % n2, seed=ctx.seed % 100000 + 2)
    for k, p in enumerate(p23):
        jobs.append(('sch-c%06d' % k, '1D' if p[2] == 1 else '2D', p[0], p[1], p[2], p[3], p[4], p[5], 0, 'tlc-simulate'))
    info['paths_simulated'] = len(p23)
    # (4) code -> spec: seeded random schedules (the scheduler picks among the actors enabled in the real code)
    nr = 150 if ctx.quick else 2500
    for k in range(nr):
        kind = rng.choice(['1D', '2D'])
        nw = rng.choice([1, 2, 2, 3, 3, 4])
        if kind == '1D':
            nj, split, this = rng.randint(1, 5), 1, 0
        else:
            nj = rng.choice([4, 9])
            split = rng.randint(1, 4)
            this = rng.randrange(split)
        fail = sorted(rng.sample(range(nj), rng.choice([0, 0, 1, 1, 2]) if nj >= 2 else rng.choice([0, 1])))
        jobs.append(('sch-r%06d' % k, kind, nw, nj, split, this, fail, None, ctx.seed * 1000 + k, 'random'))
    # deterministic part: a worker raising on every single job (and on all jobs), 1..4, 8 and 16 workers, more
    # workers than jobs, 2-D pieces failing on an own / a foreign job
    fixed = []
    for nj in (3, 5):
        for fl in [[j] for j in range(nj)] + [list(range(nj))]:
            fixed.append(('1D', 2 if len(fl) == 1 and fl[0] % 2 == 0 else 3, nj, 1, 0, fl))
    for nw in (1, 2, 3, 4, 8, 16):
        fixed.append(('1D', nw, 3, 1, 0, []))
        fixed.append(('1D', nw, 4, 1, 0, [nw % 4]))
    for j in range(4):
        fixed.append(('2D', 2, 4, 1, 0, [j]))
    for split in range(1, 7):
        for this in range(split):
            own = [j for j in range(9) if j % split == this]
            fixed.append(('2D', 2 + (split + this) % 2, 9, split, this, [own[len(own) // 2]] if (split + this) % 2 else []))
    fixed.append(('2D', 2, 9, 3, 1, [0, 2]))          # failing jobs that belong to other pieces
    fixed.append(('2D', 2, 4, 6, 5, []))              # a piece that owns no job
    for k, (kind, nw, nj, split, this, fl) in enumerate(fixed):
        jobs.append(('sch-f%06d' % k, kind, nw, nj, split, this, fl, None, ctx.seed * 1000 + 500000 + k, 'random-fixed-config'))
    info['random_schedules'] = nr
    info['fixed_config_schedules'] = len(fixed)
    return jobs, info


# --------------------------------------------------------------------------
# Part A: real processes, split jobs, merges
# --------------------------------------------------------------------------
MP_TIMEOUT = 30.0


def _mp_child(conn, lay, cpus):
    """Runs in a forked child (own session, so that a hung pool can be killed as a group)."""
    import warnings
    warnings.simplefilter('ignore')
    os.setsid()
    try:
        with quiet_stderr():
            try:
                cache = lay.build(cpus)
                msg = ('ok', 'none', lay.table(cache), cache)
            except Exception as e:
                msg = ('error', type(e).__name__, [], None)
        conn.send(msg)
    except BaseException as e:          # e.g. the cache cannot be pickled
        try:
            conn.send(('error', 'child:' + type(e).__name__, [], None))
        except Exception:
            pass
    finally:
        conn.close()


def mp_record(rid, lay, cpus):
    """One real run of the cache constructor (real multiprocessing for cpus > 1) in a forked child with a
    time limit: a pool that never terminates is recorded as outcome 'hang' instead of hanging the check."""
    import multiprocessing as mp, signal
    fd, log = tempfile.mkstemp(prefix='c17-joblog-', dir=common.SCRATCH_ROOT)
    os.close(fd)
    os.environ['C17_JOBLOG'] = log
    cache = None
    mpc = mp.get_context('fork')
    try:
        par, chi = mpc.Pipe(duplex=False)
        p = mpc.Process(target=_mp_child, args=(chi, lay, cpus))
        p.start()
        chi.close()
        if par.poll(MP_TIMEOUT):
            try:
                outcome, exc, table, cache = par.recv()
            except EOFError:
                outcome, exc, table, cache = 'error', 'child-died', [], None
            p.join(20)
        else:
            outcome, exc, table = 'hang', 'none', []
        if p.is_alive() or outcome == 'hang':
            try:
                os.killpg(p.pid, signal.SIGKILL)
            except Exception:
                pass
            p.join(10)
        out = {'outcome': outcome, 'exc': exc, 'table': table}
        counts = [0] * lay.nj
        pids = set()
        with open(log) as f:
            for ln in f:
                pid, tag = ln.split(' ', 1)
                try:
                    if lay.kind == '1D':
                        j = lay.gammas.index(float(tag))
                    else:
                        a, b = tag.split(',')
                        j = lay.gammas.index(float(a)) * lay.n + lay.gammas.index(float(b))
                except ValueError:
                    continue          # the neutral spectrum (gamma = 0) evaluated by the constructor itself
                counts[j] += 1
                pids.add(pid)
        out['computed'] = counts
        out['pids'] = len(pids)
    finally:
        os.environ.pop('C17_JOBLOG', None)
        os.unlink(log)
    rec = {'id': rid, 'op': 'mp_cache', 'site': 'Cache%s(cpus,split_jobs)' % lay.kind,
           'in': {'c': lay.conf(max(1, cpus)), 'F': reference_table(lay), 'kind': lay.kind, 'cpus': cpus},
           'out': out}
    return rec, cache


def mp_records(ctx):
    """Real runs of the constructors.  Deterministic in BOTH tiers: worker counts 1, 2, 3, 4, 8, 16, every
    split_jobs 1..6 with every this_job_id, a failure on every single job (first, interior, last negative
    gamma, the additional positive gamma), a failure on every job, failures outside the own piece, pieces that
    own no job at all.  Thorough adds every worker count 1..16 and every (cpus, split, piece) combination."""
    recs = []
    rng = random.Random(ctx.seed + 171)
    nid = itertools.count()

    def run(lay, cpus):
        rec, cache = mp_record('mp-%d' % next(nid), lay, cpus)
        recs.append(rec)
        return cache
    cpus_q = [1, 2, 3, 4, 8, 16]
    # 1-D: each worker count; more workers than jobs; a single job
    for cpus in (cpus_q if ctx.quick else range(1, 17)):
        run(Layout('1D', 4), cpus)
    run(Layout('1D', 1), 2)
    run(Layout('1D', 2), 4)
    if not ctx.quick:
        for cpus in cpus_q:
            run(Layout('1D', 7), cpus)
    # workers raising on any gamma: every single job, all jobs; single-process and pool
    for j in range(4):
        run(Layout('1D', 4, fail=[j]), 2 if j % 2 == 0 else 3)
    run(Layout('1D', 4, fail=[0]), 1)
    run(Layout('1D', 4, fail=[3]), 1)
    run(Layout('1D', 4, fail=[0, 1, 2, 3]), 2)
    run(Layout('1D', 4, fail=[1, 3]), 16)
    if not ctx.quick:
        for cpus in cpus_q:
            run(Layout('1D', 5, fail=[rng.randrange(5)]), cpus)
    # 2-D: every split_jobs 1..6, every piece
    # (quick: the 3x3 pieces are built below, once through each code path, with rotating worker counts)
    pieces = {}      # (nj, split, this) -> cache object
    for nj in ([] if ctx.quick else [9, 16]):
        for split in range(1, 7):
            for this in range(split):
                cl = [cpus_q[(split + this) % len(cpus_q)]] if nj != 9 else cpus_q
                for cp in cl:
                    cache = run(Layout('2D', nj, split, this), cp)
                    if cache is not None:
                        pieces[(nj, split, this)] = cache
    for nj in ([9] if ctx.quick else [9, 16]):
        for k, cpus in enumerate([1, 2, 3]):
            own = [j for j in range(nj) if j % 2 == 1]
            run(Layout('2D', nj, 2, 1, fail=[own[0], own[-1]] if k == 0 else [rng.choice(own)]), cpus)
            run(Layout('2D', nj, 2, 0, fail=[1]), cpus)            # job 1 is not in piece 0: no failure expected
    for j in range(4):                                             # every single job of a 2x2 cache
        run(Layout('2D', 4, fail=[j]), 2)
    # more pieces than jobs: pieces 4 and 5 of split_jobs=6 own nothing in a 4-job cache
    for this in range(6):
        cache = run(Layout('2D', 4, 6, this), 2 if this % 2 else 1)
        if cache is not None:
            pieces[(4, 6, this)] = cache
    # the SAME piece through both code paths: cpus=1 takes _single_process, cpus>1 the pool of _multiple_processes.
    # (N, split_jobs) with N % split_jobs of every kind (0, 1, 2, 3, 4): 3x3 with split 1..6, 4x4 with split 5 (all
    # splits in thorough), 2x2 with split 3
    both = {}        # (nj, split, this, 'single' | 'multi') -> cache
    want = [(9, sp) for sp in range(1, 7)] + [(16, 5), (4, 3)]
    if not ctx.quick:
        want += [(16, sp) for sp in (2, 3, 4, 6)] + [(4, 2), (25, 4)]
    for nj, split in want:
        for this in range(split):
            both[(nj, split, this, 'single')] = run(Layout('2D', nj, split, this), 1)
            both[(nj, split, this, 'multi')] = run(Layout('2D', nj, split, this), [2, 3, 4, 8, 16][(split + this) % 5])
            if (nj, split, this) not in pieces:
                pick = both[(nj, split, this, 'multi' if (split + this) % 2 else 'single')]
                if pick is not None:
                    pieces[(nj, split, this)] = pick
    return recs, pieces, both


def jobset_records(ctx, both):
    """Complete job sets of one split whose jobs ran through DIFFERENT code paths (some with cpus=1, others with a
    pool), merged in several orders.  Every mixture for split_jobs <= 3 (thorough: <= 6), patterns beyond.  The
    specification: the pieces of a split partition the jobs whatever the path, so the merge of a complete set succeeds
    and equals the single-process cache."""
    import dadi.DFE as DFE
    rngj = random.Random(ctx.seed + 1712)
    recs = []
    nid = itertools.count()
    groups = sorted({(k[0], k[1]) for k in both})
    for nj, split in groups:
        lay0 = Layout('2D', nj)
        F = reference_table(lay0)
        if split <= 3 or not ctx.quick:
            assigns = list(itertools.product(['single', 'multi'], repeat=split))
        else:
            alt1 = tuple('single' if t % 2 == 0 else 'multi' for t in range(split))
            alt2 = tuple('multi' if t % 2 == 0 else 'single' for t in range(split))
            assigns = [tuple(['single'] * split), tuple(['multi'] * split), alt1, alt2,
                       tuple(['multi'] + ['single'] * (split - 1)), tuple(['single'] * (split - 1) + ['multi'])]
        for asg in assigns:
            objs0 = [both.get((nj, split, t, asg[t])) for t in range(split)]
            orders = [list(range(split))]
            if split > 1:
                orders.append(list(range(split))[::-1])
            if split > 2:
                sh = list(range(split))
                rngj.shuffle(sh)
                orders.append(sh)
            for order in orders:
                objs = [objs0[t] for t in order]
                if any(o is None for o in objs):     # a piece whose construction failed is already a violation of its own record
                    out = {'raised': 'piece-missing', 'table': []}
                    tabs = [(lay0.table(o) if o is not None else ['none'] * nj) for o in objs]
                else:
                    tabs = [lay0.table(o) for o in objs]
                    try:
                        m = DFE.Cache2D.merge(objs)
                        out = {'raised': 'none', 'table': lay0.table(m)}
                    except Exception as e:
                        out = {'raised': type(e).__name__, 'table': [], 'msg': str(e)[:100]}
                recs.append({'id': 'js-%d' % next(nid), 'op': 'jobset', 'site': 'Cache2D.merge(mixed paths)',
                             'in': {'nj': nj, 'split': split, 'paths': list(asg), 'order': order, 'pieces': tabs, 'F': F},
                             'out': out})
    return recs


def merge_records(ctx, pieces):
    """Cache2D.merge over subsets, permutations, duplicates and conflicting pieces."""
    import dadi.DFE as DFE
    recs = []
    rng = random.Random(ctx.seed + 172)
    rngm = random.Random(ctx.seed + 1710)
    nid = itertools.count()
    njs = sorted({k[0] for k in pieces})
    NEAR = [('ulp', None), ('e12', 1e-12), ('e9', 1e-9), ('e6', 1e-6), ('copy', 0.0)]

    def near_duplicate(obj, lay, split, t, eps):
        """A deep copy of a piece with ONE entry of ONE of its own spectra changed by 1 ulp / a relative eps
        (eps = 0.0: an identical copy).  Any difference is a conflict; only the identical copy may be absorbed."""
        import copy
        o = copy.deepcopy(obj)
        if eps == 0.0:
            return o
        # perturb an entry the piece really HOLDS (whatever jobs it was supposed to own): the verdict follows the
        # recorded tables, so a piece of unexpected content is judged by TLC, not by an exception here
        held = []
        for j in range(lay.nj):
            try:
                cell = o.spectra[j // lay.n][j % lay.n]
                arr = np.ma.getdata(cell) if cell is not None else None
                if arr is not None and getattr(arr, 'ndim', 0) >= 1 and arr.size and np.any(arr != 0):
                    held.append(arr)
            except Exception:
                continue
        if not held:
            return o
        arr = rngm.choice(held)
        flat = arr.reshape(-1)                      # a view for the contiguous arrays dadi stores
        idx = [i for i in range(flat.size) if flat[i] != 0 and 0 < i < flat.size - 1] or [i for i in range(flat.size) if flat[i] != 0]
        i = rngm.choice(idx)
        flat[i] = np.nextafter(flat[i], np.inf) if eps is None else flat[i] * (1.0 + eps)
        return o

    def emit(nj, split, case, objs, lay0, F):
        tabs = [lay0.table(o) for o in objs]
        try:
            m = DFE.Cache2D.merge(objs)
            out = {'raised': 'none', 'table': lay0.table(m)}
        except Exception as e:
            out = {'raised': type(e).__name__, 'table': [], 'msg': str(e)[:100]}
        recs.append({'id': 'mg-%d' % next(nid), 'op': 'merge', 'site': 'Cache2D.merge',
                     'in': {'nj': nj, 'split': split, 'case': ['%s%d' % c for c in case], 'pieces': tabs, 'F': F},
                     'out': out})
    for nj in njs:
        lay0 = Layout('2D', nj)
        F = reference_table(lay0)
        # near-duplicates: a re-run piece that differs in one spectrum entry by 1 ulp, 1e-12, 1e-9, 1e-6 (conflict,
        # whatever the operand order) or not at all (absorbed); complete sets, so a conflict is the only reason to raise
        for split in sorted({k[1] for k in pieces if k[0] == nj}):
            if nj != 9 or (ctx.quick and split > 3):
                continue
            full = [('p', t) for t in range(split)]
            for k, (nm, eps) in enumerate(NEAR):
                t = k % split
                o = near_duplicate(pieces[(nj, split, t)], lay0, split, t, eps)
                variants = [full + [(nm, t)], [(nm, t)] + full]
                if split > 1:
                    mid = full[:]
                    mid.insert(t + 1, (nm, t))           # directly after the piece it duplicates
                    mid2 = full[:]
                    mid2.insert(t, (nm, t))              # directly before it
                    variants += [mid, mid2]
                for case in variants:
                    emit(nj, split, case, [pieces[(nj, split, tt)] if kind == 'p' else o for kind, tt in case], lay0, F)
        splits = sorted({k[1] for k in pieces if k[0] == nj})
        alt = {}
        for split in splits:
            if split == 1:
                continue
            this = rng.randrange(split)
            alt[split] = (this, Layout('2D', nj, split, this).build(1, func=model_2d_alt))
        for split in splits:
            if split == 1:
                # a complete, unsplit cache merged alone and with itself
                for case in ([('p', 0)], [('p', 0), ('p', 0)]):
                    objs = [pieces[(nj, 1, 0)] for _ in case]
                    tabs = [lay0.table(o) for o in objs]
                    try:
                        m = DFE.Cache2D.merge(objs)
                        out = {'raised': 'none', 'table': lay0.table(m)}
                    except Exception as e:
                        out = {'raised': type(e).__name__, 'table': []}
                    recs.append({'id': 'mg-%d' % next(nid), 'op': 'merge', 'site': 'Cache2D.merge',
                                 'in': {'nj': nj, 'split': 1, 'case': ['%s%d' % c for c in case], 'pieces': tabs, 'F': F},
                                 'out': out})
                continue
            ids = list(range(split))
            cases = []
            for r in range(1, split + 1):
                for sub in itertools.combinations(ids, r):
                    cases.append([('p', t) for t in sub])
            full = [('p', t) for t in ids]
            cases.append(list(reversed(full)))
            for _ in range(3):
                sh = full[:]
                rng.shuffle(sh)
                cases.append(sh)
            cases.append(full + [('p', ids[0])])                      # identical duplicate
            cases.append([('p', ids[-1])] + full)
            ta = alt[split][0]
            cases.append(full + [('a', ta)])                          # conflicting duplicate (last)
            cases.append([('a', ta)] + full)                          # conflicting duplicate (first)
            cases.append([x for x in full if x[1] != ta] + [('a', ta)])   # complete, no conflict, but altered values
            mid = full[:]
            mid.insert(len(mid) // 2, ('a', ta))
            cases.append(mid)
            if split <= 3 or (not ctx.quick and nj == 9):
                # every multiset of pieces with multiplicities 0..2 (every subset of missing AND duplicated pieces)
                for mult in itertools.product([0, 1, 2], repeat=split):
                    if sum(mult) == 0 or max(mult) < 2:
                        continue
                    cases.append([('p', t) for t in ids for _ in range(mult[t])])
            for case in cases:
                objs = [pieces[(nj, split, t)] if kind == 'p' else alt[split][1] for kind, t in case]
                tabs = [lay0.table(o) for o in objs]
                try:
                    m = DFE.Cache2D.merge(objs)
                    out = {'raised': 'none', 'table': lay0.table(m)}
                except Exception as e:
                    out = {'raised': type(e).__name__, 'table': []}
                recs.append({'id': 'mg-%d' % next(nid), 'op': 'merge', 'site': 'Cache2D.merge',
                             'in': {'nj': nj, 'split': split, 'case': ['%s%d' % c for c in case], 'pieces': tabs, 'F': F},
                             'out': out})
    return recs


# --------------------------------------------------------------------------
# Part B: densities
# --------------------------------------------------------------------------
class Fam:
    """Densities with exactly known node values and tail masses (DFEQuad!CompVals/CompNeu/CompDel).
    kinds: list of (kind, par) for 1-D, list of ((kx, px), (ky, py)) for 2-D products.
    The component weights q are passed by the caller through `params` (params[:ncomp]; further
    entries - e.g. the correlation coefficient the mixture functions append - are ignored)."""

    def __init__(self, kinds, xs):
        self.kinds = kinds
        self.g = [-float(x) for x in xs]          # descending
        self.ga = self.g[::-1]                    # ascending, for interpolation

    def comp(self, kind, par, x):
        if kind == 'invsq':
            a = par[0]
            return a / ((1.0 + a * x) * (1.0 + a * x))
        v = par
        g1, gn = self.g[0], self.g[-1]
        va = v[::-1]
        if np.ndim(x) == 0:
            x = float(x)
            if x <= gn:
                return v[-1]
            if x >= g1:
                return v[0] * g1 * g1 / (x * x)
            return float(np.interp(x, self.ga, va))
        x = np.asarray(x, dtype=float)
        out = np.interp(x, self.ga, va)
        big = x > g1
        out[big] = v[0] * g1 * g1 / (x[big] * x[big])
        return out

    def pdf1(self, xx, params):
        tot = 0.0
        for c, (kind, par) in enumerate(self.kinds):
            tot = tot + params[c] * self.comp(kind, par, xx)
        return tot

    def pdf2(self, xx, yy, params):
        tot = 0.0
        arr = np.ndim(xx) > 0 and np.ndim(yy) > 0
        for c, ((kx, px), (ky, py)) in enumerate(self.kinds):
            a, b = self.comp(kx, px, xx), self.comp(ky, py, yy)
            tot = tot + params[c] * (np.outer(a, b) if arr else a * b)
        return tot

    def spec1(self, q):
        return {'kind': 'fam', 'comps': [[rat(q[c]), kind, [rat(v) for v in par]] for c, (kind, par) in enumerate(self.kinds)]}

    def spec2(self, q):
        return {'kind': 'fam', 'comps': [[rat(q[c]), kx, [rat(v) for v in px], ky, [rat(v) for v in py]]
                                         for c, ((kx, px), (ky, py)) in enumerate(self.kinds)]}


# ---- independent evaluation of the shipped densities (closed forms with math / scipy.special) ----
def ref_pdf1(name, p, x):
    x = float(x)
    if name == 'exponential':
        return math.exp(-x / p[0]) / p[0]
    if name == 'lognormal':
        mu, s = p
        return math.exp(-(math.log(x) - mu) ** 2 / (2 * s * s)) / (x * s * math.sqrt(2 * math.pi))
    if name == 'gamma':
        a, b = p
        return math.exp((a - 1) * math.log(x) - x / b - math.lgamma(a) - a * math.log(b))
    if name == 'beta':
        a, b = p
        if x >= 1.0:
            return 0.0 if (x > 1.0 or b > 1) else float('inf')
        return math.exp((a - 1) * math.log(x) + (b - 1) * math.log1p(-x) + math.lgamma(a + b) - math.lgamma(a) - math.lgamma(b))
    raise KeyError(name)


def ref_cdf_sf(name, p, x):
    """(P(X < x), P(X > x)) from closed forms, each computed without cancellation."""
    import scipy.special as sp
    x = float(x)
    if name == 'exponential':
        return -math.expm1(-x / p[0]), math.exp(-x / p[0])
    if name == 'lognormal':
        z = (math.log(x) - p[0]) / p[1]
        return 0.5 * math.erfc(-z / math.sqrt(2)), 0.5 * math.erfc(z / math.sqrt(2))
    if name == 'gamma':
        return float(sp.gammainc(p[0], x / p[1])), float(sp.gammaincc(p[0], x / p[1]))
    if name == 'beta':
        if x >= 1:
            return 1.0, 0.0
        return float(sp.betainc(p[0], p[1], x)), float(sp.betainc(p[1], p[0], 1 - x))
    raise KeyError(name)


def tab1(name, p, xs):
    g = [-float(x) for x in xs]
    return {'kind': 'tab', 'name': name, 'params': [rat(v) for v in p], 'w': [rat(ref_pdf1(name, p, x)) for x in g],
            'tneu': rat(ref_cdf_sf(name, p, g[-1])[0]), 'tdel': rat(ref_cdf_sf(name, p, g[0])[1])}


def _biv_ln_parts(p):
    if len(p) == 3:
        return p[0], p[0], p[1], p[1], p[2]
    return tuple(p)


def ref_biv_lognormal(p, x, y):
    mu1, mu2, s1, s2, rho = _biv_ln_parts(p)
    dx = (math.log(x) - mu1) / s1
    dy = (math.log(y) - mu2) / s2
    q = (dx * dx - 2 * rho * dx * dy + dy * dy) / (1 - rho * rho)
    return math.exp(-q / 2) / (2 * math.pi * s1 * s2 * math.sqrt(1 - rho * rho) * x * y)


def _gam_parts(p):
    if len(p) in (2, 3):
        return p[0], p[0], p[1], p[1]
    return p[0], p[1], p[2], p[3]


def ref_biv_ind_gamma(p, x, y):
    a1, a2, b1, b2 = _gam_parts(p)
    return ref_pdf1('gamma', (a1, b1), x) * ref_pdf1('gamma', (a2, b2), y)


def tab2(name, p, xs):
    """Node values, edge masses and corner masses of a shipped bivariate density from closed forms
    (one outer 1-D quadrature of a closed-form conditional tail for the correlated lognormal corners)."""
    import scipy.integrate
    g = [-float(x) for x in xs]
    n = len(g)
    gn, G = g[-1], g[0]
    if name == 'biv_ind_gamma':
        a1, a2, b1, b2 = _gam_parts(p)
        f1 = [ref_pdf1('gamma', (a1, b1), x) for x in g]
        f2 = [ref_pdf1('gamma', (a2, b2), x) for x in g]
        c1n, _ = ref_cdf_sf('gamma', (a1, b1), gn)
        _, s1G = ref_cdf_sf('gamma', (a1, b1), G)
        c2n, _ = ref_cdf_sf('gamma', (a2, b2), gn)
        _, s2G = ref_cdf_sf('gamma', (a2, b2), G)
        W = [[f1[i] * f2[j] for j in range(n)] for i in range(n)]
        d = {'l1': [s1G * f2[j] for j in range(n)], 'h1': [c1n * f2[j] for j in range(n)],
             'l2': [f1[i] * s2G for i in range(n)], 'h2': [f1[i] * c2n for i in range(n)],
             'NN': c1n * c2n, 'LN': s1G * c2n, 'NL': c1n * s2G, 'LL': s1G * s2G}
    elif name == 'biv_lognormal':
        mu1, mu2, s1, s2, rho = _biv_ln_parts(p)
        sq = math.sqrt(1 - rho * rho)
        W = [[ref_biv_lognormal(p, g[i], g[j]) for j in range(n)] for i in range(n)]

        def cond1(v, lim):     # (P(X < lim | ln Y = v), P(X > lim | ln Y = v))
            z = (math.log(lim) - mu1 - rho * s1 * (v - mu2) / s2) / (s1 * sq)
            return 0.5 * math.erfc(-z / math.sqrt(2)), 0.5 * math.erfc(z / math.sqrt(2))

        def cond2(u, lim):
            z = (math.log(lim) - mu2 - rho * s2 * (u - mu1) / s1) / (s2 * sq)
            return 0.5 * math.erfc(-z / math.sqrt(2)), 0.5 * math.erfc(z / math.sqrt(2))
        fY = [ref_pdf1('lognormal', (mu2, s2), y) for y in g]
        fX = [ref_pdf1('lognormal', (mu1, s1), x) for x in g]
        d = {'l1': [fY[j] * cond1(math.log(g[j]), G)[1] for j in range(n)],
             'h1': [fY[j] * cond1(math.log(g[j]), gn)[0] for j in range(n)],
             'l2': [fX[i] * cond2(math.log(g[i]), G)[1] for i in range(n)],
             'h2': [fX[i] * cond2(math.log(g[i]), gn)[0] for i in range(n)]}

        def phi2(v):
            return math.exp(-((v - mu2) / s2) ** 2 / 2) / (s2 * math.sqrt(2 * math.pi))

        def outer(lo, hi, k, lim):    # integral over ln Y in (lo, hi) of density * conditional tail k of X at lim
            val, err = scipy.integrate.quad(lambda v: phi2(v) * cond1(v, lim)[k], lo, hi, epsabs=1e-14, epsrel=1e-12, limit=200)
            return val
        lo, hi = mu2 - 40 * s2, mu2 + 40 * s2
        d['NN'] = outer(lo, math.log(gn), 0, gn)
        d['LN'] = outer(lo, math.log(gn), 1, G)        # pop 1 lethal, pop 2 neutral
        d['NL'] = outer(math.log(G), hi, 0, gn)
        d['LL'] = outer(math.log(G), hi, 1, G)
    else:
        raise KeyError(name)
    out = {'kind': 'tab', 'name': name, 'params': [rat(v) for v in p], 'W': rats(W)}
    for k, v in d.items():
        out[k] = rats(v)
    return out


# --------------------------------------------------------------------------
# Part B: caches and recorders
# --------------------------------------------------------------------------
def small_cache1(n, lo, hi, blind=False, extra=(2.5,), pair=False):
    import dadi.DFE as DFE
    if pair:
        return DFE.Cache1D([], [2, 2], blind_1d_pair if blind else model_1d_pair, [1], gamma_bounds=(lo, hi), gamma_pts=n,
                           additional_gammas=list(extra), cpus=1)
    return DFE.Cache1D([], [3], blind_1d if blind else model_1d, [1], gamma_bounds=(lo, hi), gamma_pts=n,
                       additional_gammas=list(extra), cpus=1)


def small_cache2(n, lo, hi, blind=False, extra=(2.5,)):
    import dadi.DFE as DFE
    return DFE.Cache2D([], [2, 2], blind_2d if blind else model_2d, [1], gamma_bounds=(lo, hi), gamma_pts=n,
                       additional_gammas=list(extra), cpus=1)


def enc_c1(c):
    n = len(c.neg_gammas)
    return {'xs': rats(c.neg_gammas), 'S': [rats(np.asarray(c.spectra[i]).ravel()) for i in range(n)],
            'neu': rats(np.asarray(c.neu_spec.data).ravel())}


def enc_c2(c):
    n = len(c.neg_gammas)
    return {'xs': rats(c.neg_gammas), 'S': [[rats(np.asarray(c.spectra[i][j]).ravel()) for j in range(n)] for i in range(n)]}


def obs(fn):
    import numpy.ma as ma
    import warnings
    try:
        with warnings.catch_warnings():
            warnings.simplefilter('ignore')
            res = fn()
    except Exception as e:
        return {'raised': type(e).__name__, 'msg': str(e)[:120]}
    return {'d': rats(np.asarray(ma.getdata(res), dtype=float).ravel()), 'm': [bool(b) for b in ma.getmaskarray(res).ravel()]}


GRIDS = [(0.125, 4.0), (0.25, 8.0), (0.0625, 2.0), (0.5, 3.0)]
THETAS = [1.0, 2.5, 0.375, 1000.0, 12345.678]

PLV = [0.0, 0.03125, 0.125, 0.25, 0.5, 0.75, 1.0, 1.5]


def rand_comp(rng, n):
    if rng.random() < 0.6:
        v = [rng.choice(PLV) for _ in range(n)]
        if rng.random() < 0.7:
            v[0] = rng.choice(PLV[2:])       # make the lethal tail carry mass
            v[-1] = rng.choice(PLV[2:])      # ... and the neutral one
        return ('pl', v)
    return ('invsq', [rng.choice([0.125, 0.25, 0.5, 1.0, 2.0])])


def pl_mass(xs, v):
    """Exact mass of a 'pl' component (Fractions)."""
    x = [Fraction(float(t)) for t in xs]
    v = [Fraction(float(t)) for t in v]
    m = sum((x[i + 1] - x[i]) * (v[i] + v[i + 1]) / 2 for i in range(len(x) - 1))
    return m + v[-1] * (-x[-1]) + v[0] * (-x[0])


def quad_records(ctx):
    import dadi, dadi.DFE as DFE
    from dadi.DFE import PDFs, Cache2D_mod
    rng = random.Random(ctx.seed + 1700)
    recs = []
    nid = itertools.count()
    stats = {'t_2d': 0.0}

    def add(op, site, inp, out, cls=None):
        r = {'id': '%s-%d' % (op, next(nid)), 'op': op, 'site': site, 'in': inp, 'out': out}
        if cls:
            r['cls'] = cls
        recs.append(r)
        return r

    def pick1(c, allow_tab=True):
        """A 1-D density for cache c: (callable, params list, spec dict)."""
        xs = c.neg_gammas
        if allow_tab and rng.random() < 0.45:
            name = rng.choice(['exponential', 'lognormal', 'gamma', 'beta'])
            G = -float(xs[0])
            p = {'exponential': lambda: [rng.choice([0.5, 1.0, 3.0, 10.0])],
                 'lognormal': lambda: [rng.uniform(-1.0, 2.0), rng.uniform(0.4, 2.0)],
                 'gamma': lambda: [rng.uniform(0.6, 3.0), rng.uniform(0.3, 5.0)],
                 'beta': lambda: [rng.uniform(1.0, 3.0), rng.uniform(2.0, 4.0)]}[name]()
            return getattr(PDFs, name), p, tab1(name, p, xs), name
        nc = rng.choice([1, 1, 2])
        fam = Fam([rand_comp(rng, len(xs)) for _ in range(nc)], xs)
        q = [rng.choice([0.25, 0.5, 1.0, 1.25]) for _ in range(nc)]
        return fam.pdf1, q, fam.spec1(q), 'fam'

    def pick2(c, allow_tab=True, sym=None):
        xs = c.neg_gammas
        if allow_tab and rng.random() < 0.3:
            name = rng.choice(['biv_lognormal', 'biv_ind_gamma'])
            if name == 'biv_lognormal':
                rho = rng.choice([0.0, rng.uniform(-0.9, 0.9), rng.uniform(-0.9, 0.9)])
                if rng.random() < 0.5:
                    p = [rng.uniform(-1.0, 1.5), rng.uniform(0.5, 1.5), rho]
                else:
                    p = [rng.uniform(-1.0, 1.5), rng.uniform(-1.0, 1.5), rng.uniform(0.5, 1.5), rng.uniform(0.5, 1.5), rho]
            else:
                p = [rng.uniform(0.7, 3.0), rng.uniform(0.3, 4.0)] if rng.random() < 0.5 else \
                    [rng.uniform(0.7, 3.0), rng.uniform(0.7, 3.0), rng.uniform(0.3, 4.0), rng.uniform(0.3, 4.0)]
            return getattr(PDFs, name), p, tab2(name, p, xs), name
        nc = rng.choice([1, 1, 2])
        kinds = []
        for _ in range(nc):
            cx = rand_comp(rng, len(xs))
            cy = cx if (sym if sym is not None else rng.random() < 0.3) else rand_comp(rng, len(xs))
            kinds.append((cx, cy))
        fam = Fam(kinds, xs)
        q = [rng.choice([0.25, 0.5, 1.0, 1.25]) for _ in range(nc)]
        return fam.pdf2, q, fam.spec2(q), 'fam'

    def newc1(blind=False, n=None, grid=None):
        lo, hi = grid or rng.choice(GRIDS)
        return small_cache1(n or rng.randint(4, 8), lo, hi, blind=blind, extra=(2.5, 0.75))

    def newc2(blind=False, n=None, grid=None):
        lo, hi = grid or rng.choice(GRIDS)
        return small_cache2(n or rng.randint(4, 6), lo, hi, blind=blind, extra=(2.5, 0.75))

    N1 = 40 if ctx.quick else 500
    N2 = 14 if ctx.quick else 200
    # ---------------- 1-D ----------------
    for k in range(N1):
        c = newc1(blind=(k % 6 == 0))
        pdf, p, spec, name = pick1(c)
        theta = rng.choice(THETAS)
        ext = rng.random() < 0.75
        add('integrate1d', 'Cache1D.integrate', {'theta': rat(theta), 'ext': ext, 'c1': enc_c1(c), 'pdf1': spec},
            obs(lambda: c.integrate(p, None, pdf, theta, None, exterior_int=ext)), cls=name)
        if k % 3 == 0:
            t2 = rng.choice([t for t in THETAS if t != theta])
            o1 = obs(lambda: c.integrate(p, None, pdf, theta, None, exterior_int=ext))
            o2 = obs(lambda: c.integrate(p, None, pdf, t2, None, exterior_int=ext))
            add('theta_pair', 'Cache1D.integrate', {'theta1': rat(theta), 'theta2': rat(t2)},
                {'d1': o1['d'], 'm1': o1['m'], 'd2': o2['d'], 'm2': o2['m']} if 'd' in o1 and 'd' in o2 else {'raised': 'yes'})
    # point masses of positive selection
    for k in range(N1):
        c = newc1(blind=(k % 7 == 0))
        pdf, p, spec, name = pick1(c)
        theta = rng.choice(THETAS)
        npos = rng.choice([1, 1, 2])
        mode = rng.choice(['cached', 'cached', 'uncached', 'mixed']) if npos == 2 else rng.choice(['cached', 'cached', 'uncached'])
        gpos = {'cached': [2.5, 0.75], 'uncached': [1.5, 3.25], 'mixed': [2.5, 3.25]}[mode][:npos]
        if npos == 1 and mode == 'cached':
            gpos = [rng.choice([2.5, 0.75])]
        props = [rng.choice([0.0625, 0.125, 0.25, 0.375]) for _ in range(npos)]
        func = model_1d if (mode != 'cached' or rng.random() < 0.3) else None
        blindf = blind_1d if (k % 7 == 0) else model_1d
        if func is not None and k % 7 == 0:
            func = blind_1d
        pp = []
        for pr, g in zip(props, gpos):
            if g in list(c.gammas):
                S = np.asarray(c.spectra[list(c.gammas).index(g)]).ravel()
            else:
                S = np.asarray(dadi.Numerics.make_extrap_func(blindf)(tuple(c.params) + (g,), c.ns, c.pts).data).ravel()
            pp.append({'p': rat(pr), 'S': rats(S), 'gamma': rat(g)})
        params = list(p) + [v for pr, g in zip(props, gpos) for v in (pr, g)]
        c1enc = enc_c1(c)
        add('pointpos1d', 'Cache1D.integrate_point_pos',
            {'theta': rat(theta), 'ext': True, 'c1': c1enc, 'pdf1': spec, 'pp': pp, 'mode': mode},
            obs(lambda: c.integrate_point_pos(params, None, pdf, theta, func, npos)), cls=name + '/' + mode)
        if k % 2 == 0:
            # the same call again with another theta on the same cache object: theta_pair, and the second call alone
            t2 = rng.choice([t for t in THETAS if t != theta])
            o1 = obs(lambda: c.integrate_point_pos(params, None, pdf, theta, func, npos))
            o2 = obs(lambda: c.integrate_point_pos(params, None, pdf, t2, func, npos))
            add('theta_pair', 'Cache1D.integrate_point_pos', {'theta1': rat(theta), 'theta2': rat(t2), 'mode': mode},
                {'d1': o1['d'], 'm1': o1['m'], 'd2': o2['d'], 'm2': o2['m']} if 'd' in o1 and 'd' in o2 else {'raised': 'yes'})
            add('pointpos1d', 'Cache1D.integrate_point_pos',
                {'theta': rat(t2), 'ext': True, 'c1': c1enc, 'pdf1': spec, 'pp': pp, 'mode': mode + '/repeat'}, o2, cls=name + '/' + mode + '/repeat')
    # unit mass, selection-blind (1-D)
    for k in range(10 if ctx.quick else 60):
        c = newc1(blind=True)
        xs = c.neg_gammas
        kind, v = 'pl', [rng.choice(PLV[2:]) for _ in range(len(xs))]
        z = float(1 / pl_mass(xs, v))
        fam = Fam([(kind, v)], xs)
        theta = rng.choice(THETAS)
        add('unit1d', 'Cache1D.integrate', {'theta': rat(theta), 'ext': True, 'c1': enc_c1(c), 'pdf1': fam.spec1([z]),
                                            'common': rats(blind_1d(None, None, None).data)},
            obs(lambda: c.integrate([z], None, fam.pdf1, theta, None)))
    # ---------------- 2-D ----------------
    t0 = time.time()
    for k in range(N2):
        c = newc2(blind=(k % 6 == 0))
        pdf, p, spec, name = pick2(c, allow_tab=(k % 3 == 1))
        theta = rng.choice(THETAS)
        ext = rng.random() < 0.8
        add('integrate2d', 'Cache2D.integrate', {'theta': rat(theta), 'ext': ext, 'c2': enc_c2(c), 'pdf2': spec},
            obs(lambda: c.integrate(p, None, pdf, theta, None, exterior_int=ext)), cls=name)
    for k in range(6 if ctx.quick else 40):
        c = newc2(blind=True, n=rng.randint(4, 5))
        xs = c.neg_gammas
        v1 = [rng.choice(PLV[2:]) for _ in range(len(xs))]
        v2 = v1 if k % 2 == 0 else [rng.choice(PLV[2:]) for _ in range(len(xs))]
        z = float(1 / (pl_mass(xs, v1) * pl_mass(xs, v2)))
        fam = Fam([(('pl', v1), ('pl', v2))], xs)
        theta = rng.choice(THETAS)
        add('unit2d', 'Cache2D.integrate', {'theta': rat(theta), 'ext': True, 'c2': enc_c2(c), 'pdf2': fam.spec2([z]),
                                            'common': rats(blind_2d(None, None, None).data.ravel())},
            obs(lambda: c.integrate([z], None, fam.pdf2, theta, None)))
    # point masses in two populations
    for k in range(N2):
        c = newc2(blind=(k % 5 == 0), n=rng.randint(4, 5))
        pdf, p, spec, name = pick2(c, allow_tab=(k % 4 == 1))
        theta = rng.choice(THETAS)
        gl = list(c.gammas)
        symmetric = k % 2 == 0
        rho = rng.choice([0.0, 0.25, 0.5, 0.9, 1.0])
        if symmetric:
            p1 = p2 = rng.choice([0.0625, 0.125, 0.25])
            g1 = g2 = rng.choice([2.5, 0.75])
            if name == 'biv_lognormal':
                rho = p[-1]
            params = list(p[:-1] if name == 'biv_lognormal' else p) + [rho, p1, g1]
            site = 'Cache2D.integrate_symmetric_point_pos'
            call = lambda: c.integrate_symmetric_point_pos(params, None, pdf, theta)
        else:
            p1, p2 = rng.choice([0.0625, 0.125, 0.25]), rng.choice([0.0625, 0.25, 0.5])
            g1, g2 = rng.choice([2.5, 0.75]), rng.choice([2.5, 0.75])
            params = list(p) + [p1, g1, p2, g2]
            site = 'Cache2D.integrate_point_pos'
            call = lambda: c.integrate_point_pos(params, None, pdf, theta, rho=rho)
        i1, i2 = gl.index(g1), gl.index(g2)
        n = len(c.neg_gammas)
        inp = {'theta': rat(theta), 'c2': enc_c2(c), 'pdf2': spec, 'rho': rat(rho), 'p1': rat(p1), 'p2': rat(p2),
               'sq': rat(math.sqrt(p1 * p2)), 'pospos': rats(np.asarray(c.spectra[i1][i2]).ravel()),
               'spn': [rats(np.asarray(c.spectra[i1][j]).ravel()) for j in range(n)],
               'snp': [rats(np.asarray(c.spectra[i][i2]).ravel()) for i in range(n)]}
        add('pointpos2d', site, inp, obs(call), cls=name)
        if k % 3 == 0:
            t2 = rng.choice([t for t in THETAS if t != theta])
            o1 = obs(call)
            th_save = theta
            theta = t2
            o2 = obs(call)
            theta = th_save
            add('theta_pair', site, {'theta1': rat(th_save), 'theta2': rat(t2)},
                {'d1': o1['d'], 'm1': o1['m'], 'd2': o2['d'], 'm2': o2['m']} if 'd' in o1 and 'd' in o2 else {'raised': 'yes'})
    # ---------------- mixtures ----------------
    NM = 10 if ctx.quick else 80
    for k in range(NM):
        grid = rng.choice(GRIDS)
        n = rng.randint(4, 5)
        blind = k % 4 == 0
        c1 = small_cache1(n, grid[0], grid[1], blind=blind, extra=(2.5, 0.75), pair=True)
        c2 = newc2(blind=blind, n=rng.randint(4, 5))
        theta = rng.choice(THETAS)
        p2d = rng.choice([0.0, 0.125, 0.25, 0.5, 1.0])
        rho = rng.choice([0.0, 0.25, 0.75])
        if k % 3 == 2:
            mu, sg = rng.uniform(-0.5, 1.0), rng.uniform(0.5, 1.5)
            rho = rng.uniform(-0.8, 0.8)
            pdf1, pdf2 = PDFs.lognormal, PDFs.biv_lognormal
            shared = [mu, sg]
            spec1, spec2 = tab1('lognormal', [mu, sg], c1.neg_gammas), tab2('biv_lognormal', [mu, sg, rho], c2.neg_gammas)
            name = 'lognormal'
        else:
            # shared weights q; the 1-D density uses components on c1's grid, the 2-D one products on c2's grid
            nc = rng.choice([1, 2])
            f1 = Fam([rand_comp(rng, len(c1.neg_gammas)) for _ in range(nc)], c1.neg_gammas)
            kinds = []
            for _ in range(nc):
                cx = rand_comp(rng, len(c2.neg_gammas))
                kinds.append((cx, cx if rng.random() < 0.5 else rand_comp(rng, len(c2.neg_gammas))))
            f2 = Fam(kinds, c2.neg_gammas)
            shared = [rng.choice([0.25, 0.5, 1.0]) for _ in range(nc)]
            pdf1, pdf2 = f1.pdf1, f2.pdf2
            spec1, spec2 = f1.spec1(shared), f2.spec2(shared)
            name = 'fam'
        variant = k % 3
        base = {'theta': rat(theta), 'ext': True, 'c1': enc_c1(c1), 'pdf1': spec1, 'c2': enc_c2(c2), 'pdf2': spec2, 'p2d': rat(p2d)}
        if variant == 0 or name == 'lognormal' and k % 2 == 0:
            ext = rng.random() < 0.7
            base['ext'] = ext
            add('mixture', 'DFE.mixture', base,
                obs(lambda: DFE.mixture(shared + [rho, p2d], None, c1, c2, pdf1, pdf2, theta, None, exterior_int=ext)), cls=name)
            continue
        gl = list(c2.gammas)
        n2 = len(c2.neg_gammas)
        if variant == 1:
            pp_, gp = rng.choice([0.0625, 0.25]), rng.choice([2.5, 0.75])
            p1 = p2 = pp_
            g1 = g2 = gp
            site = 'DFE.mixture_symmetric_point_pos'
            call = lambda: DFE.mixture_symmetric_point_pos(shared + [rho, pp_, gp, p2d], None, c1, c2, pdf1, pdf2, theta)
        else:
            p1, p2 = rng.choice([0.0625, 0.25]), rng.choice([0.125, 0.5])
            g1, g2 = rng.choice([2.5, 0.75]), rng.choice([2.5, 0.75])
            site = 'DFE.mixture_point_pos'
            call = lambda: Cache2D_mod.mixture_point_pos(shared + [rho, p1, g1, p2, g2, p2d], None, c1, c2, pdf1, pdf2, theta)
        rho_used = rho     # documented: "the correlation coefficient for the 2D distribution" links the quadrants too
        i1, i2 = gl.index(g1), gl.index(g2)
        base.update({'rho': rat(rho_used), 'p1': rat(p1), 'p2': rat(p2), 'sq': rat(math.sqrt(p1 * p2)),
                     'pospos': rats(np.asarray(c2.spectra[i1][i2]).ravel()),
                     'spn': [rats(np.asarray(c2.spectra[i1][j]).ravel()) for j in range(n2)],
                     'snp': [rats(np.asarray(c2.spectra[i][i2]).ravel()) for i in range(n2)],
                     'pp': [{'p': rat(p1), 'S': rats(np.asarray(c1.spectra[list(c1.gammas).index(g1)]).ravel()), 'gamma': rat(g1)}]})
        add('mixture_pp', site, base, obs(call), cls=name)
    # Vourlaki et al. mixture (gamma density, shipped)
    for k in range(6 if ctx.quick else 40):
        grid = rng.choice(GRIDS)
        n = rng.randint(4, 5)
        blind = k % 3 == 0
        c1 = small_cache1(n, grid[0], grid[1], blind=blind, extra=(2.5, 0.75), pair=True)
        c2 = small_cache2(n, grid[0], grid[1], blind=blind, extra=(2.5, 0.75))
        al, be = rng.uniform(0.7, 2.5), rng.uniform(0.3, 3.0)
        pw, pc, pcp = rng.choice([0.0, 0.125, 0.5]), rng.choice([0.0, 0.25, 0.5, 1.0]), rng.choice([0.0, 0.25, 0.5])
        gp = rng.choice([2.5, 0.75])
        theta = rng.choice(THETAS)
        ip = list(c2.gammas).index(gp)
        inp = {'theta': rat(theta), 'c1': enc_c1(c1), 'c2': enc_c2(c2), 'pdf1': tab1('gamma', [al, be], c1.neg_gammas),
               'pdf2': tab2('biv_ind_gamma', [al, be], c2.neg_gammas), 'pw': rat(pw), 'pc': rat(pc), 'pcp': rat(pcp),
               'pospos': rats(np.asarray(c2.spectra[ip][ip]).ravel()),
               'spn': [rats(np.asarray(c2.spectra[ip][j]).ravel()) for j in range(n)],
               'snp': [rats(np.asarray(c2.spectra[i][ip]).ravel()) for i in range(n)]}
        add('vourlaki', 'DFE.Vourlaki_mixture', inp,
            obs(lambda: DFE.Vourlaki_mixture([al, be, pw, gp, pc, pcp], None, c1, c2, theta, None)))
    # ---------------- asymmetric densities that (nearly) vanish at the symmetry probe points ----------------
    # Cache2D.integrate decides with sel_dist(testx, testx) at testx = (0.01, 1, 100) whether it may reuse the
    # gamma1 tail masses for gamma2.  Clearly asymmetric densities whose values at the off-diagonal probe pairs
    # are all far below 1e-8 (narrow lognormals / high-shape gammas centred at gammas of order 1..6) exercise
    # that decision with exterior_int=True: a probe that lets absolute smallness pass as symmetry changes the
    # edge and corner masses of population 2.
    rng2 = random.Random(ctx.seed + 1717)
    PROBE = [0.01, 1.0, 100.0]

    def low_probe_asym(lognormal):
        while True:
            if lognormal:
                name = 'biv_lognormal'
                m1, m2 = rng2.uniform(math.log(0.4), math.log(6.0)), rng2.uniform(math.log(0.4), math.log(6.0))
                if abs(m1 - m2) < 0.8:
                    continue
                p = [m1, m2, rng2.uniform(0.25, 0.4), rng2.uniform(0.25, 0.4), rng2.uniform(-0.6, 0.6)]
                ref = ref_biv_lognormal
            else:
                name = 'biv_ind_gamma'
                a1, a2 = rng2.uniform(6.0, 10.0), rng2.uniform(6.0, 10.0)
                b1, b2 = rng2.uniform(0.08, 0.6), rng2.uniform(0.08, 0.6)
                if abs(math.log(a1 * b1) - math.log(a2 * b2)) < 0.8:
                    continue
                p = [a1, a2, b1, b2]
                ref = ref_biv_ind_gamma
            off = [ref(p, a, b) for a in PROBE for b in PROBE if a != b]
            if max(off) < 1e-10:
                return name, p
    NA = 8 if ctx.quick else 60
    for k in range(NA):
        name, p = low_probe_asym(k % 8 not in (1, 6))
        grid = rng2.choice([(0.25, 8.0), (0.125, 4.0), (0.5, 3.0)])
        blind = k % 4 == 0
        c = small_cache2(rng2.randint(4, 6), grid[0], grid[1], blind=blind, extra=(2.5, 0.75))
        pdf = getattr(PDFs, name)
        spec = tab2(name, p, c.neg_gammas)
        theta = rng2.choice(THETAS)
        mode = k % 4
        if mode in (0, 1):
            add('integrate2d', 'Cache2D.integrate', {'theta': rat(theta), 'ext': True, 'c2': enc_c2(c), 'pdf2': spec},
                obs(lambda: c.integrate(p, None, pdf, theta, None, exterior_int=True)), cls=name + '/asym-lowprobe')
        elif mode == 2:
            gl = list(c.gammas)
            n = len(c.neg_gammas)
            p1, p2 = rng2.choice([0.0625, 0.125, 0.25]), rng2.choice([0.0625, 0.25, 0.5])
            g1, g2 = rng2.choice([2.5, 0.75]), rng2.choice([2.5, 0.75])
            rho = rng2.choice([0.0, 0.25, 0.5])
            i1, i2 = gl.index(g1), gl.index(g2)
            params = list(p) + [p1, g1, p2, g2]
            add('pointpos2d', 'Cache2D.integrate_point_pos',
                {'theta': rat(theta), 'c2': enc_c2(c), 'pdf2': spec, 'rho': rat(rho), 'p1': rat(p1), 'p2': rat(p2),
                 'sq': rat(math.sqrt(p1 * p2)), 'pospos': rats(np.asarray(c.spectra[i1][i2]).ravel()),
                 'spn': [rats(np.asarray(c.spectra[i1][j]).ravel()) for j in range(n)],
                 'snp': [rats(np.asarray(c.spectra[i][i2]).ravel()) for i in range(n)]},
                obs(lambda: c.integrate_point_pos(params, None, pdf, theta, rho=rho)), cls=name + '/asym-lowprobe')
        else:
            # DFE.mixture: the 1-D component is the population-1 marginal family with the shared parameters
            c1 = small_cache1(rng2.randint(4, 5), grid[0], grid[1], blind=blind, extra=(2.5, 0.75), pair=True)
            p2d = rng2.choice([0.25, 0.5, 1.0])
            if name == 'biv_lognormal':
                shared, tail = p[:4], p[4]
                pdf1 = lambda xx, q: PDFs.lognormal(xx, [q[0], q[2]])
                spec1 = tab1('lognormal', [p[0], p[2]], c1.neg_gammas)
            else:
                shared, tail = p[:4], 0.0          # a fifth parameter of biv_ind_gamma is documented as ignored
                pdf1 = lambda xx, q: PDFs.gamma(xx, [q[0], q[2]])
                spec1 = tab1('gamma', [p[0], p[2]], c1.neg_gammas)
            add('mixture', 'DFE.mixture', {'theta': rat(theta), 'ext': True, 'c1': enc_c1(c1), 'pdf1': spec1, 'c2': enc_c2(c),
                                           'pdf2': spec, 'p2d': rat(p2d)},
                obs(lambda: DFE.mixture(list(shared) + [tail, p2d], None, c1, c, pdf1, pdf, theta, None, exterior_int=True)),
                cls=name + '/asym-lowprobe')
    # ---------------- fixed records: every named density / option / boundary value, in both tiers ----------------
    rng3 = random.Random(ctx.seed + 1718)

    def pp2_in(c, spec, theta, rho, p1, g1, p2, g2):
        gl = list(c.gammas)
        n = len(c.neg_gammas)
        i1, i2 = gl.index(g1), gl.index(g2)
        return {'theta': rat(theta), 'c2': enc_c2(c), 'pdf2': spec, 'rho': rat(rho), 'p1': rat(p1), 'p2': rat(p2),
                'sq': rat(math.sqrt(p1 * p2)), 'pospos': rats(np.asarray(c.spectra[i1][i2]).ravel()),
                'spn': [rats(np.asarray(c.spectra[i1][j]).ravel()) for j in range(n)],
                'snp': [rats(np.asarray(c.spectra[i][i2]).ravel()) for i in range(n)]}
    FIX1 = [('exponential', [2.0]), ('gamma', [0.8, 3.0]), ('lognormal', [0.5, 1.0]), ('beta', [2.0, 3.0])]
    # each shipped 1-D density with and without the exterior terms; parameters as list / tuple / array
    for k, (name, p) in enumerate(FIX1):
        for ext in (True, False):
            c = small_cache1(5 + k % 2, 0.125, 4.0, extra=(2.5, 0.75))
            pv = [list(p), tuple(p), np.array(p)][(k + ext) % 3]
            theta = THETAS[(2 * k + ext) % len(THETAS)]
            add('integrate1d', 'Cache1D.integrate', {'theta': rat(theta), 'ext': ext, 'c1': enc_c1(c), 'pdf1': tab1(name, p, c.neg_gammas)},
                obs(lambda: c.integrate(pv, None, getattr(PDFs, name), theta, None, exterior_int=ext)), cls=name + '/fixed')
    # numeric corners of the density parameters (own RNG): very large shape at fixed mean (sharply peaked gamma DFE),
    # very small shape, very large / small scale, lognormal with tiny / huge sigma, beta with large parameters.  The
    # reference node values and tail masses are evaluated in log space (lgamma) / with incomplete gamma and beta
    # functions; the result must be finite and equal theta times the quadrature (existing Quadrature clause).
    rngc = random.Random(ctx.seed + 1713)
    CORNERS1 = [('gamma', [150.0, 9.0 / 150.0]), ('gamma', [180.0, 0.05]), ('gamma', [250.0, 9.0 / 250.0]), ('gamma', [400.0, 9.0 / 400.0]),
                ('gamma', [500.0, 0.02]), ('gamma', [0.01, 50.0]), ('gamma', [1.0, 1.0e4]), ('gamma', [3.0, 0.02]),
                ('exponential', [1.0e4]), ('exponential', [0.02]), ('lognormal', [math.log(5.0), 0.02]), ('lognormal', [1.0, 5.0]),
                ('beta', [200.0, 300.0]), ('beta', [40.0, 2.0]), ('beta', [1.0, 500.0])]
    if not ctx.quick:
        CORNERS1 += [('gamma', [a, 9.0 / a]) for a in (100.0, 120.0, 171.0, 172.0, 300.0, 450.0)] + [('gamma', [0.001, 5.0]), ('lognormal', [0.0, 0.005])]
    for k, (name, p) in enumerate(CORNERS1):
        lo, hi = (0.01, 2.0) if name == 'beta' else (0.1, 100.0)
        blind = k % 3 == 0
        c = small_cache1(10 if k % 2 else 16, lo, hi, blind=blind, extra=(2.5,))
        theta = THETAS[k % len(THETAS)]
        ext = k % 5 != 4
        add('integrate1d', 'Cache1D.integrate', {'theta': rat(theta), 'ext': ext, 'c1': enc_c1(c), 'pdf1': tab1(name, p, c.neg_gammas)},
            obs(lambda: c.integrate(p, None, getattr(PDFs, name), theta, None, exterior_int=ext)), cls=name + '/corner%d' % k)
    # the same corners for the compiled bivariate densities (against the log-space reference) and for Cache2D.integrate
    XC, YC = [0.05, 4.0, 8.0, 9.0, 10.0, 60.0], [0.5, 9.0, 11.0]
    PC = [('biv_ind_gamma', [a, 9.0 / a]) for a in (100.0, 150.0, 180.0, 250.0, 400.0)] + \
         [('biv_ind_gamma', [300.0, 0.01, 0.03, 40.0]), ('biv_ind_gamma', [0.01, 50.0]), ('biv_ind_gamma', [1.0, 1.0e4]), ('biv_ind_gamma', [3.0, 0.02]),
          ('biv_lognormal', [math.log(9.0), 0.02, 0.5]), ('biv_lognormal', [1.0, 5.0, -0.5]), ('biv_lognormal', [2.0, 2.2, 0.01, 3.0, 0.9])]
    for k, (name, p) in enumerate(PC):
        reff = ref_biv_ind_gamma if name == 'biv_ind_gamma' else ref_biv_lognormal
        pyf = PDFs.biv_ind_gamma_py if name == 'biv_ind_gamma' else PDFs.biv_lognormal_py
        try:
            import warnings
            with warnings.catch_warnings():
                warnings.simplefilter('ignore')
                cv = np.asarray(getattr(PDFs, name)(np.array(XC), np.array(YC), p), dtype=float).ravel()
                pyv = np.asarray(pyf(np.array(XC), np.array(YC), p), dtype=float).ravel()
            out = {'c': rats(cv), 'py': rats(pyv)}
        except Exception as e:
            out = {'raised': type(e).__name__, 'msg': str(e)[:120]}
        add('pdf2d', 'PDFs.' + name, {'name': name, 'x': rats(XC), 'y': rats(YC), 'params': rats(p), 'layout': 'corner',
                                       'ref': rats([reff(p, x, y) for x in XC for y in YC])}, out, cls='corner%d' % k)
    for k, (name, p) in enumerate([('biv_ind_gamma', [180.0, 0.05]), ('biv_ind_gamma', [400.0, 9.0 / 400.0, 0.0]), ('biv_lognormal', [math.log(9.0), 0.05, 0.5])]):
        c = small_cache2(6, 0.1, 100.0, blind=(k == 0), extra=(2.5,))
        add('integrate2d', 'Cache2D.integrate', {'theta': rat(2.5), 'ext': True, 'c2': enc_c2(c), 'pdf2': tab2(name, p, c.neg_gammas)},
            obs(lambda: c.integrate(p, None, getattr(PDFs, name), 2.5, None)), cls=name + '/corner%d' % k)
    # the regime of real analyses: the default gamma_bounds (1e-4, 2000), shapes with a singular density at 0
    # (gamma / beta shape < 1), heavy lethal tails
    for k, (name, p, lo, hi, n) in enumerate([('gamma', [0.2, 10.0], 0.125, 4.0, 5), ('gamma', [0.2, 1000.0], 1e-4, 2000.0, 8),
                                              ('lognormal', [5.0, 3.0], 1e-4, 2000.0, 8), ('exponential', [50.0], 1e-4, 2000.0, 6),
                                              ('beta', [0.5, 2.0], 0.01, 2.0, 5), ('gamma', [0.05, 5.0], 1e-3, 100.0, 6)]):
        c = small_cache1(n, lo, hi, extra=(2.5,))
        theta = THETAS[k % len(THETAS)]
        add('integrate1d', 'Cache1D.integrate', {'theta': rat(theta), 'ext': True, 'c1': enc_c1(c), 'pdf1': tab1(name, p, c.neg_gammas)},
            obs(lambda: c.integrate(p, None, getattr(PDFs, name), theta, None)), cls=name + '/fixed-regime%d' % k)
    cw = small_cache2(5, 1e-4, 2000.0, extra=(2.5,))
    for name, p in [('biv_lognormal', [5.0, 3.0, 0.8]), ('biv_ind_gamma', [0.2, 1000.0])]:
        add('integrate2d', 'Cache2D.integrate', {'theta': rat(2.5), 'ext': True, 'c2': enc_c2(cw), 'pdf2': tab2(name, p, cw.neg_gammas)},
            obs(lambda: cw.integrate(p, None, getattr(PDFs, name), 2.5, None)), cls=name + '/fixed-regime')
    # grids: a single gamma, two gammas, no additional gammas; theta = 0, theta as Python int
    for n, extra, theta, name in [(1, (2.5,), 2.5, 'fam'), (1, (), 1.0, 'exponential'), (2, (2.5,), 1000.0, 'fam'), (2, (), 2.5, 'lognormal'),
                                  (3, (), 0.375, 'gamma'), (8, (2.5, 0.75), 0, 'fam'), (4, (2.5,), 1, 'fam'), (5, (), 3, 'beta')]:
        c = small_cache1(n, 0.25, 8.0, extra=extra)
        if name == 'fam':
            fam = Fam([('pl', [0.5, 0.25, 1.0, 0.125, 0.75, 0.5, 0.25, 1.5][:n]), ('invsq', [0.5])], c.neg_gammas)
            pdf, p, spec = fam.pdf1, [0.5, 1.25], fam.spec1([0.5, 1.25])
        else:
            p = dict(FIX1)[name]
            pdf, spec = getattr(PDFs, name), tab1(name, p, c.neg_gammas)
        add('integrate1d', 'Cache1D.integrate', {'theta': rat(theta), 'ext': True, 'c1': enc_c1(c), 'pdf1': spec},
            obs(lambda: c.integrate(p, None, pdf, theta, None)), cls=name + '/grid%d' % n)
    # point masses: proportion 0, proportion 1, two masses summing to 1, uncached, additional gamma given as int
    for k, (props, gpos, extra, use_func) in enumerate([([0.0], [2.5], (2.5, 0.75), False), ([1.0], [0.75], (2.5, 0.75), False),
                                                        ([0.5, 0.5], [2.5, 0.75], (2.5, 0.75), True), ([0.25], [1.5], (2.5,), True),
                                                        ([0.125], [2], (2, 0.75), False), ([0.25, 0.125], [3.25, 1.5], (), True),
                                                        ([0.125, 0.25, 0.0625], [2.5, 0.75, 1.5], (2.5, 0.75), True)]):
        c = small_cache1(4 + k % 3, 0.125, 4.0, extra=extra)
        name, p = FIX1[k % 4]
        theta = [2.5, 1000.0, 0.375, 1, 12345.678, 2.5, 0.375][k]
        pp = []
        for pr, g in zip(props, gpos):
            if g in list(c.gammas):
                S = np.asarray(c.spectra[list(c.gammas).index(g)]).ravel()
            else:
                S = np.asarray(dadi.Numerics.make_extrap_func(model_1d)(tuple(c.params) + (g,), c.ns, c.pts).data).ravel()
            pp.append({'p': rat(pr), 'S': rats(S), 'gamma': rat(g)})
        params = list(p) + [v for pr, g in zip(props, gpos) for v in (pr, g)]
        func = model_1d if use_func else None
        npos = len(props)
        add('pointpos1d', 'Cache1D.integrate_point_pos',
            {'theta': rat(theta), 'ext': True, 'c1': enc_c1(c), 'pdf1': tab1(name, p, c.neg_gammas), 'pp': pp, 'mode': 'fixed'},
            obs(lambda: c.integrate_point_pos(params, None, getattr(PDFs, name), theta, func, npos)), cls=name + '/fixed-pp%d' % k)
    # each shipped 2-D density: parameter counts, rho at both ends of (-1,1) and 0, with and without exterior terms
    FIX2 = [('biv_lognormal', [0.3, 0.8, -0.9], True), ('biv_lognormal', [0.3, 0.8, 0.0], True), ('biv_lognormal', [0.3, 0.8, 0.9], True),
            ('biv_lognormal', [0.2, 0.9, 0.7, 1.0, -0.5], True), ('biv_lognormal', [0.2, 0.9, 0.7, 1.0, 0.6], False),
            ('biv_ind_gamma', [1.5, 1.2], True), ('biv_ind_gamma', [1.5, 1.2, 0.3], True), ('biv_ind_gamma', [0.9, 2.0, 1.5, 0.8], True),
            ('biv_ind_gamma', [0.9, 2.0, 1.5, 0.8, -0.4], True), ('biv_ind_gamma', [1.5, 1.2], False)]
    if not ctx.quick:
        FIX2 += [('biv_lognormal', [0.3, 0.8, r], True) for r in (-0.97, -0.6, 0.3, 0.97)]
    for k, (name, p, ext) in enumerate(FIX2):
        c = small_cache2(4, 0.25, 8.0, blind=(k == 1), extra=(2.5, 0.75))
        theta = THETAS[k % len(THETAS)]
        pv = [list(p), tuple(p), np.array(p)][k % 3]
        add('integrate2d', 'Cache2D.integrate', {'theta': rat(theta), 'ext': ext, 'c2': enc_c2(c), 'pdf2': tab2(name, p, c.neg_gammas)},
            obs(lambda: c.integrate(pv, None, getattr(PDFs, name), theta, None, exterior_int=ext)), cls=name + '/fixed%d' % len(p))
    # 2-D grids of one and two gammas
    for n, extra in [(1, (2.5,)), (2, ()), (2, (0.75,))]:
        c = small_cache2(n, 0.25, 8.0, extra=extra)
        fam = Fam([(('pl', [0.5, 0.25][:n]), ('invsq', [0.5])), (('invsq', [1.0]), ('pl', [0.125, 1.0][:n]))], c.neg_gammas)
        add('integrate2d', 'Cache2D.integrate', {'theta': rat(2.5), 'ext': True, 'c2': enc_c2(c), 'pdf2': fam.spec2([0.5, 1.25])},
            obs(lambda: c.integrate([0.5, 1.25], None, fam.pdf2, 2.5, None)), cls='fam/grid%d' % n)
    # point masses in two populations: linking rho 0 and 1, proportion 0 and 1, equal and different positive gammas
    for k, (rho, p1, g1, p2, g2) in enumerate([(0.0, 0.25, 2.5, 0.0625, 0.75), (1.0, 0.25, 0.75, 0.0625, 2.5), (0.5, 0.0, 2.5, 0.25, 2.5),
                                               (0.5, 1.0, 0.75, 1.0, 0.75), (0.25, 0.25, 2.5, 0.25, 2.5), (1.0, 0.0, 2.5, 0.0, 0.75)]):
        c = small_cache2(4, 0.125, 4.0, extra=(2.5, 0.75))
        if k % 3 == 2:
            name, p = 'biv_ind_gamma', [0.9, 2.0, 1.5, 0.8]
            pdf, spec = PDFs.biv_ind_gamma, tab2(name, p, c.neg_gammas)
        else:
            fam = Fam([(('pl', [0.5, 0.25, 1.0, 0.125]), ('invsq', [0.5]))], c.neg_gammas)
            name, p, pdf, spec = 'fam', [1.25], fam.pdf2, fam.spec2([1.25])
        theta = THETAS[(k + 1) % len(THETAS)]
        params = list(p) + [p1, g1, p2, g2]
        add('pointpos2d', 'Cache2D.integrate_point_pos', pp2_in(c, spec, theta, rho, p1, g1, p2, g2),
            obs(lambda: c.integrate_point_pos(params, None, pdf, theta, rho=rho)), cls=name + '/fixed-pp%d' % k)
    for k, (rho, pp_, gp) in enumerate([(0.5, 0.125, 2.5), (-0.5, 0.25, 0.75), (0.0, 0.0, 2.5)]):
        # symmetric variant: rho is the last parameter of the (3-parameter) bivariate lognormal and links the quadrants
        c = small_cache2(4, 0.25, 8.0, extra=(2.5, 0.75))
        p = [0.3, 0.8, rho]
        theta = THETAS[k]
        add('pointpos2d', 'Cache2D.integrate_symmetric_point_pos', pp2_in(c, tab2('biv_lognormal', p, c.neg_gammas), theta, rho, pp_, gp, pp_, gp),
            obs(lambda: c.integrate_symmetric_point_pos(p + [pp_, gp], None, PDFs.biv_lognormal, theta)), cls='biv_lognormal/fixed-sym%d' % k)
    # mixtures: p2d = 0, 1, interior; with and without exterior terms; all three functions with shipped densities
    for k, (fn, p2d, ext) in enumerate([('mixture', 0.0, True), ('mixture', 1.0, True), ('mixture', 0.25, False),
                                        ('sym', 0.5, True), ('sym', 0.0, True), ('pp', 0.5, True), ('pp', 1.0, True)]):
        c1 = small_cache1(4, 0.25, 8.0, extra=(2.5, 0.75), pair=True)
        c2 = small_cache2(4, 0.25, 8.0, extra=(2.5, 0.75))
        mu, sg, rho = 0.3, 0.8, [0.4, -0.3, 0.0][k % 3]
        theta = THETAS[k % len(THETAS)]
        base = {'theta': rat(theta), 'ext': ext, 'c1': enc_c1(c1), 'pdf1': tab1('lognormal', [mu, sg], c1.neg_gammas), 'c2': enc_c2(c2),
                'pdf2': tab2('biv_lognormal', [mu, sg, rho], c2.neg_gammas), 'p2d': rat(p2d)}
        if fn == 'mixture':
            add('mixture', 'DFE.mixture', base,
                obs(lambda: DFE.mixture([mu, sg, rho, p2d], None, c1, c2, PDFs.lognormal, PDFs.biv_lognormal, theta, None, exterior_int=ext)),
                cls='lognormal/fixed')
            continue
        if fn == 'sym':
            p1 = p2 = 0.125
            g1 = g2 = 2.5
            site = 'DFE.mixture_symmetric_point_pos'
            call = lambda: DFE.mixture_symmetric_point_pos([mu, sg, rho, p1, g1, p2d], None, c1, c2, PDFs.lognormal, PDFs.biv_lognormal, theta)
        else:
            p1, g1, p2, g2 = 0.25, 0.75, 0.0625, 2.5
            site = 'DFE.mixture_point_pos'
            call = lambda: Cache2D_mod.mixture_point_pos([mu, sg, rho, p1, g1, p2, g2, p2d], None, c1, c2, PDFs.lognormal, PDFs.biv_lognormal, theta)
        base.update(pp2_in(c2, base['pdf2'], theta, rho, p1, g1, p2, g2))
        base['pp'] = [{'p': rat(p1), 'S': rats(np.asarray(c1.spectra[list(c1.gammas).index(g1)]).ravel()), 'gamma': rat(g1)}]
        add('mixture_pp', site, base, obs(call), cls='lognormal/fixed')
    # Vourlaki mixture at the corners of its weight cube
    for k, (pw, pc, pcp) in enumerate([(0.0, 0.0, 0.0), (1.0, 0.0, 0.0), (0.0, 1.0, 0.0), (0.0, 1.0, 1.0), (1.0, 1.0, 1.0), (1.0, 1.0, 0.0)]):
        c1 = small_cache1(4, 0.25, 8.0, blind=(k == 0), extra=(2.5, 0.75), pair=True)
        c2 = small_cache2(4, 0.25, 8.0, blind=(k == 0), extra=(2.5, 0.75))
        al, be, gp = 1.5, 1.2, [2.5, 0.75][k % 2]
        theta = THETAS[k % len(THETAS)]
        ip = list(c2.gammas).index(gp)
        add('vourlaki', 'DFE.Vourlaki_mixture',
            {'theta': rat(theta), 'c1': enc_c1(c1), 'c2': enc_c2(c2), 'pdf1': tab1('gamma', [al, be], c1.neg_gammas),
             'pdf2': tab2('biv_ind_gamma', [al, be], c2.neg_gammas), 'pw': rat(pw), 'pc': rat(pc), 'pcp': rat(pcp),
             'pospos': rats(np.asarray(c2.spectra[ip][ip]).ravel()),
             'spn': [rats(np.asarray(c2.spectra[ip][j]).ravel()) for j in range(4)],
             'snp': [rats(np.asarray(c2.spectra[i][ip]).ravel()) for i in range(4)]},
            obs(lambda: DFE.Vourlaki_mixture([al, be, pw, gp, pc, pcp], None, c1, c2, theta, None)), cls='fixed-corner%d' % k)
    stats['t_2d'] = round(time.time() - t0, 1)
    # ---------------- compiled bivariate densities ----------------
    NP = 150 if ctx.quick else 3000
    for k in range(NP):
        name = rng.choice(['biv_lognormal', 'biv_ind_gamma'])
        nx, ny = rng.choice([1, 1, 2, 3, 5]), rng.choice([1, 2, 3, 4])
        xs = [10 ** rng.uniform(-3, 3) for _ in range(nx)]
        ys = [10 ** rng.uniform(-3, 3) for _ in range(ny)]
        if name == 'biv_lognormal':
            rho = rng.choice([rng.uniform(-0.999, 0.999), rng.uniform(-0.9, 0.9), 0.0, 0.99, -0.99])
            p = [rng.uniform(-2, 4), rng.uniform(0.3, 3), rho] if rng.random() < 0.5 else \
                [rng.uniform(-2, 4), rng.uniform(-2, 4), rng.uniform(0.3, 3), rng.uniform(0.3, 3), rho]
            ref = [ref_biv_lognormal(p, x, y) for x in xs for y in ys]
            pyf = PDFs.biv_lognormal_py
        else:
            npar = rng.choice([2, 3, 4, 5])
            p = [rng.uniform(0.05, 6.0), 10 ** rng.uniform(-1, 2)] if npar <= 3 else \
                [rng.uniform(0.05, 6.0), rng.uniform(0.05, 6.0), 10 ** rng.uniform(-1, 2), 10 ** rng.uniform(-1, 2)]
            if npar in (3, 5):
                p = p + [rng.uniform(-1, 1)]
            ref = [ref_biv_ind_gamma(p, x, y) for x in xs for y in ys]
            pyf = PDFs.biv_ind_gamma_py
        layout = rng.choice(['list', 'array', 'array', 'strided', 'scalar']) if k % 4 == 0 else rng.choice(['list', 'array'])
        if layout == 'scalar':
            xs, ys = xs[:1], ys[:1]
            ref = ref[:1]
            ax, ay = xs[0], ys[0]
        elif layout == 'strided':
            bx = np.zeros(2 * nx)
            bx[::2] = xs
            bx[1::2] = 7.0
            by = np.zeros(3 * ny)
            by[::3] = ys
            by[1::3] = 0.5
            ax, ay = bx[::2], by[::3]
        elif layout == 'array':
            ax, ay = np.array(xs), np.array(ys)
        else:
            ax, ay = list(xs), list(ys)
        f = getattr(PDFs, name)

        def both():
            import warnings
            with warnings.catch_warnings():
                warnings.simplefilter('ignore')
                cv = np.atleast_1d(np.asarray(f(ax, ay, p), dtype=float)).ravel()
                pv = np.atleast_1d(np.asarray(pyf(np.asarray(ax, dtype=float), np.asarray(ay, dtype=float), p), dtype=float)).ravel()
            return cv, pv
        try:
            cv, pv = both()
            out = {'c': rats(cv), 'py': rats(pv)}
        except Exception as e:
            out = {'raised': type(e).__name__}
        add('pdf2d', 'PDFs.' + name + ('(strided)' if layout == 'strided' else ''),
            {'name': name, 'x': rats(xs), 'y': rats(ys), 'params': rats(p), 'layout': layout, 'ref': rats(ref)}, out, cls=layout)
    # ---------------- call sequences on ONE cache object (history independence), in both tiers ----------------
    # Sessions of calls on a shared Cache1D / Cache2D object: different sel_dist with IDENTICAL numeric params,
    # the same sel_dist with different params, the same call again, other theta / exterior_int, the point-mass and
    # mixture helpers (which integrate with a parameter prefix) - in two different orders.  Every observation is
    # judged by the same quadrature clauses as a call on a fresh object, and must equal the fresh-object result bit
    # for bit (DFEQuad!HistoryIndependent); the object must be unchanged (DFEQuad!ObjectUnchanged).
    rngs = random.Random(ctx.seed + 1700)

    def obj_digest(c):
        h = hashlib.sha256()
        for a in (c.gammas, c.neg_gammas, c.spectra, getattr(getattr(c, 'neu_spec', None), 'data', [])):
            h.update(np.ascontiguousarray(np.asarray(a, dtype=float)).tobytes())
        return h.hexdigest()[:20]

    def session(tag, make, calls, order_a, order_b):
        """calls: list of dicts(label, site, op, run(objs) -> Spectrum, inp(objs) -> record input)."""
        fresh_objs = make()
        inputs = [cl['inp'](fresh_objs) for cl in calls]
        before = [obj_digest(o) for o in fresh_objs]
        fresh = []
        for cl in calls:
            objs = make()
            fresh.append(obs(lambda: cl['run'](objs)))
        seen = {}
        after = []
        for sname, order in (('a', order_a), ('b', order_b)):
            objs = make()
            occ = {}
            for pos, k in enumerate(order):
                cl = calls[k]
                o = obs(lambda: cl['run'](objs))
                occ[k] = occ.get(k, 0) + 1
                seen[(sname, k, occ[k])] = o
                add(cl['op'], cl['site'], inputs[k], o, cls='session-%s/%s%d:%s' % (tag, sname, pos, cl['label']))
            after.append([obj_digest(o) for o in objs])
        for k, cl in enumerate(calls):
            for rep in (1, 2):
                if ('a', k, rep) not in seen and ('b', k, rep) not in seen:
                    continue
                oa = seen.get(('a', k, rep), seen[('a', k, 1)])
                ob = seen.get(('b', k, rep), seen[('b', k, 1)])
                bad = [x for x in (fresh[k], oa, ob) if 'raised' in x]
                out = {'raised': bad[0]['raised'], 'msg': bad[0].get('msg', '')} if bad else {'fresh': fresh[k], 'a': oa, 'b': ob}
                add('history', cl['site'] + '(history)', {'session': tag, 'call': cl['label'], 'occurrence': rep,
                                                          'order_a': [calls[j]['label'] for j in order_a],
                                                          'order_b': [calls[j]['label'] for j in order_b]}, out, cls='session-' + tag)
        for i in range(len(before)):
            add('object', type(fresh_objs[i]).__name__ + '(object)', {'session': tag}, {'before': before[i], 'after': [a[i] for a in after]},
                cls='session-' + tag)

    # ---- 2-D session (with the 1-D two-population cache the mixtures need) ----
    def make2():
        return (small_cache1(4, 0.25, 8.0, extra=(2.5, 0.75), pair=True), small_cache2(4, 0.25, 8.0, extra=(2.5, 0.75)))
    o0 = make2()
    xs2, xs1 = o0[1].neg_gammas, o0[0].neg_gammas
    famS = Fam([(('pl', [0.5, 0.25, 1.0, 0.125]), ('invsq', [0.5])), (('invsq', [1.0]), ('pl', [0.125, 1.0, 0.25, 0.5]))], xs2)
    PS = [1.0, 2.0, 0.3]                 # the SAME numbers for every density of the session

    def int2(label, name, p, theta, ext):
        pdf = famS.pdf2 if name == 'fam' else getattr(PDFs, name)
        spec = famS.spec2(p[:2]) if name == 'fam' else tab2(name, p, xs2)
        return {'label': label, 'site': 'Cache2D.integrate', 'op': 'integrate2d',
                'run': lambda objs: objs[1].integrate(list(p), None, pdf, theta, None, exterior_int=ext),
                'inp': lambda objs: {'theta': rat(theta), 'ext': ext, 'c2': enc_c2(objs[1]), 'pdf2': spec}}
    specG, specL = tab2('biv_ind_gamma', PS, xs2), tab2('biv_lognormal', PS, xs2)
    calls2 = [int2('lognormal', 'biv_lognormal', PS, 2.5, True), int2('gamma', 'biv_ind_gamma', PS, 2.5, True),
              int2('fam', 'fam', PS, 2.5, True), int2('lognormal-theta', 'biv_lognormal', PS, 1000.0, True),
              int2('gamma-noext', 'biv_ind_gamma', PS, 2.5, False), int2('lognormal-p2', 'biv_lognormal', [0.3, 0.8, -0.5], 2.5, True),
              int2('lognormal-p3', 'biv_lognormal', [0.3, 0.8, 0.5], 0.375, True),
              {'label': 'pointpos-gamma', 'site': 'Cache2D.integrate_point_pos', 'op': 'pointpos2d',
               'run': lambda objs: objs[1].integrate_point_pos(PS + [0.25, 2.5, 0.0625, 0.75], None, PDFs.biv_ind_gamma, 2.5, rho=0.5),
               'inp': lambda objs: pp2_in(objs[1], specG, 2.5, 0.5, 0.25, 2.5, 0.0625, 0.75)},
              {'label': 'sympointpos-lognormal', 'site': 'Cache2D.integrate_symmetric_point_pos', 'op': 'pointpos2d',
               'run': lambda objs: objs[1].integrate_symmetric_point_pos(PS + [0.125, 2.5], None, PDFs.biv_lognormal, 1000.0),
               'inp': lambda objs: pp2_in(objs[1], specL, 1000.0, PS[2], 0.125, 2.5, 0.125, 2.5)},
              {'label': 'mixture-lognormal', 'site': 'DFE.mixture', 'op': 'mixture',
               'run': lambda objs: DFE.mixture(PS + [0.25], None, objs[0], objs[1], PDFs.lognormal, PDFs.biv_lognormal, 2.5, None),
               'inp': lambda objs: {'theta': rat(2.5), 'ext': True, 'c1': enc_c1(objs[0]), 'pdf1': tab1('lognormal', PS[:2], xs1),
                                    'c2': enc_c2(objs[1]), 'pdf2': specL, 'p2d': rat(0.25)}},
              {'label': 'mixture-gamma', 'site': 'DFE.mixture', 'op': 'mixture',
               'run': lambda objs: DFE.mixture(PS + [0.5], None, objs[0], objs[1], PDFs.gamma, PDFs.biv_ind_gamma, 0.375, None),
               'inp': lambda objs: {'theta': rat(0.375), 'ext': True, 'c1': enc_c1(objs[0]), 'pdf1': tab1('gamma', PS[:2], xs1),
                                    'c2': enc_c2(objs[1]), 'pdf2': specG, 'p2d': rat(0.5)}}]
    # tied parameter vectors: the same first parameter as PS with another second one; equal shapes with unequal scales
    calls2 += [int2('gamma-tied-scale', 'biv_ind_gamma', [1.0, 4.0, 0.3], 2.5, True),
               int2('gamma-tied-4par', 'biv_ind_gamma', [1.0, 1.0, 2.0, 0.7], 2.5, True),
               int2('lognormal-tied-sigma', 'biv_lognormal', [1.0, 0.7, 0.3], 2.5, True)]
    session('2d', make2, calls2, [0, 1, 11, 12, 13, 2, 3, 4, 5, 6, 7, 8, 9, 10, 1, 0], [10, 9, 8, 7, 13, 12, 1, 11, 6, 5, 0, 4, 3, 2, 0, 1])

    # ---- 1-D session ----
    def make1():
        return (small_cache1(5, 0.125, 4.0, extra=(2.5, 0.75)),)
    x1 = make1()[0].neg_gammas
    fam1 = Fam([('pl', [0.5, 0.25, 1.0, 0.125, 0.75]), ('invsq', [0.5])], x1)
    P1S = [2.0, 3.0]

    def int1(label, name, p, theta, ext):
        pdf = fam1.pdf1 if name == 'fam' else getattr(PDFs, name)
        spec = fam1.spec1(p) if name == 'fam' else tab1(name, p, x1)
        return {'label': label, 'site': 'Cache1D.integrate', 'op': 'integrate1d',
                'run': lambda objs: objs[0].integrate(list(p), None, pdf, theta, None, exterior_int=ext),
                'inp': lambda objs: {'theta': rat(theta), 'ext': ext, 'c1': enc_c1(objs[0]), 'pdf1': spec}}

    def pp1(label, name, p, theta, props, gpos):
        def inp(objs):
            c = objs[0]
            gl = list(c.gammas)
            return {'theta': rat(theta), 'ext': True, 'c1': enc_c1(c), 'pdf1': tab1(name, p, x1), 'mode': 'session',
                    'pp': [{'p': rat(pr), 'S': rats(np.asarray(c.spectra[gl.index(g)]).ravel()), 'gamma': rat(g)} for pr, g in zip(props, gpos)]}
        params = list(p) + [v for pr, g in zip(props, gpos) for v in (pr, g)]
        return {'label': label, 'site': 'Cache1D.integrate_point_pos', 'op': 'pointpos1d', 'inp': inp,
                'run': lambda objs: objs[0].integrate_point_pos(params, None, getattr(PDFs, name), theta, None, len(props))}
    calls1 = [int1('gamma', 'gamma', P1S, 2.5, True), int1('lognormal', 'lognormal', P1S, 2.5, True), int1('beta', 'beta', P1S, 2.5, True),
              int1('fam', 'fam', P1S, 2.5, True), int1('gamma-theta', 'gamma', P1S, 1000.0, True), int1('gamma-noext', 'gamma', P1S, 2.5, False),
              int1('gamma-p2', 'gamma', [0.8, 3.0], 0.375, True), int1('exponential', 'exponential', [2.0], 2.5, True),
              pp1('pointpos-lognormal', 'lognormal', P1S, 2.5, [0.25], [2.5]), pp1('pointpos2-gamma', 'gamma', P1S, 1000.0, [0.125, 0.25], [0.75, 2.5])]
    calls1 += [int1('gamma-tied-scale', 'gamma', [2.0, 1.5], 2.5, True), int1('lognormal-tied-sigma', 'lognormal', [2.0, 1.0], 2.5, True)]
    oa = [0, 10, 1, 11] + list(range(2, 10)) + [1, 0]
    ob = [9, 8, 7, 6, 5, 4, 3, 2, 11, 1, 10, 0] + [0, 1]
    if not ctx.quick:
        rngs.shuffle(ob)
    session('1d', make1, calls1, oa, ob)
    # fixed compiled-density records: rho at both ends of (-1,1), every parameter count, Lanczos reflection branch
    # (alpha < 0.5), every argument layout / dtype
    X0, Y0 = [0.01, 0.75, 3.0, 40.0, 900.0], [0.002, 1.0, 7.5, 250.0]
    PF = [('biv_lognormal', [1.0, 1.5, r]) for r in (-0.999, -0.99, -0.5, 0.0, 0.5, 0.99, 0.999)] + \
         [('biv_lognormal', [1.0, -0.5, 1.5, 0.6, r]) for r in (-0.999, 0.0, 0.999)] + \
         [('biv_ind_gamma', [a, 3.0]) for a in (0.05, 0.3, 0.5, 1.0, 2.5, 6.0, 40.0)] + \
         [('biv_ind_gamma', [0.3, 3.0, 0.7]), ('biv_ind_gamma', [0.3, 2.5, 3.0, 0.4]), ('biv_ind_gamma', [0.3, 2.5, 3.0, 0.4, -0.2])]
    LAYOUTS = ['list', 'tuple', 'array', 'strided', 'reversed', 'scalar', 'pyint', 'intarray', 'float32', 'params-tuple', 'params-array', 'params-strided']
    fixed_pdf = [(nm, pr, LAYOUTS[k % len(LAYOUTS)]) for k, (nm, pr) in enumerate(PF)]
    fixed_pdf += [(nm, pr, lay) for nm, pr in (PF[2], PF[8], PF[11], PF[18]) for lay in LAYOUTS]
    for name, p, layout in fixed_pdf:
        xs, ys = list(X0), list(Y0)
        pv = list(p)
        if layout == 'scalar':
            xs, ys = xs[2:3], ys[1:2]
            ax, ay = xs[0], ys[0]
        elif layout == 'pyint':
            xs, ys = [3.0], [7.0]
            ax, ay = 3, 7
        elif layout == 'intarray':
            xs, ys = [1.0, 3.0, 40.0], [2.0, 7.0]
            ax, ay = np.array([1, 3, 40]), [2, 7]
        elif layout == 'float32':
            ax, ay = np.array(xs, dtype=np.float32), np.array(ys, dtype=np.float32)
            xs, ys = [float(v) for v in ax], [float(v) for v in ay]
        elif layout == 'strided':
            bx = np.full(3 * len(xs), 7.0)
            bx[::3] = xs
            by = np.full(2 * len(ys), 0.5)
            by[::2] = ys
            ax, ay = bx[::3], by[::2]
        elif layout == 'reversed':
            ax, ay = np.array(xs[::-1])[::-1], np.array(ys[::-1])[::-1]
        elif layout == 'tuple':
            ax, ay = tuple(xs), tuple(ys)
        elif layout == 'list':
            ax, ay = list(xs), list(ys)
        else:
            ax, ay = np.array(xs), np.array(ys)
        if layout == 'params-tuple':
            pv = tuple(p)
        elif layout == 'params-array':
            pv = np.array(p)
        elif layout == 'params-strided':
            bp = np.full(2 * len(p), 9.0)
            bp[::2] = p
            pv = bp[::2]
        if name == 'biv_lognormal':
            ref = [ref_biv_lognormal(p, x, y) for x in xs for y in ys]
            pyf = PDFs.biv_lognormal_py
        else:
            ref = [ref_biv_ind_gamma(p, x, y) for x in xs for y in ys]
            pyf = PDFs.biv_ind_gamma_py
        f = getattr(PDFs, name)
        try:
            import warnings
            with warnings.catch_warnings():
                warnings.simplefilter('ignore')
                cv = np.atleast_1d(np.asarray(f(ax, ay, pv), dtype=float)).ravel()
                pyv = np.atleast_1d(np.asarray(pyf(np.asarray(ax, dtype=float), np.asarray(ay, dtype=float), list(p)), dtype=float)).ravel()
            out = {'c': rats(cv), 'py': rats(pyv)}
        except Exception as e:
            out = {'raised': type(e).__name__, 'msg': str(e)[:120]}
        strided = layout in ('strided', 'reversed', 'params-strided')
        add('pdf2d', 'PDFs.' + name + ('(strided)' if strided else ''),
            {'name': name, 'x': rats(xs), 'y': rats(ys), 'params': rats(p), 'layout': layout, 'ref': rats(ref)}, out, cls='fixed/' + layout)
    # compiled densities in SEQUENCES (the extension module is process-global state): consecutive evaluations that share
    # the first parameter and differ in the second (same shape, other scale; same mu, other sigma), in the 2/3- and the
    # 4/5-parameter forms, equal shapes with unequal scales inside ONE call, then back to the first vector.  Every
    # evaluation is judged against the formula; the first vector evaluated again (twice, at different places of the
    # sequence) must reproduce its first values bit for bit.
    rngq = random.Random(ctx.seed + 1711)
    XS, YS = [0.02, 0.9, 4.0, 55.0], [0.3, 2.0, 17.0]
    for fam_name, seqs in (('biv_ind_gamma', [[[0.7, 2.0], [0.7, 5.0], [0.7, 0.4, 0.2], [0.7, 0.7, 2.0, 5.0], [0.7, 0.7, 5.0, 2.0, 0.1],
                                               [2.5, 0.7, 1.0, 3.0], [2.5, 9.0], [0.7, 2.0], [0.7, 9.0], [0.7, 2.0]],
                                              [[3.0, 3.0, 0.5, 6.0], [3.0, 1.25], [3.0, 1.25, 0.5], [0.2, 1.25], [0.2, 30.0], [3.0, 3.0, 0.5, 6.0],
                                               [3.0, 3.0, 6.0, 0.5], [3.0, 3.0, 0.5, 6.0]]]),
                           ('biv_lognormal', [[[1.0, 0.5, 0.3], [1.0, 2.0, 0.3], [1.0, 1.0, 0.5, 2.0, 0.3], [1.0, 1.0, 2.0, 0.5, -0.3],
                                               [-0.5, 0.5, 0.3], [1.0, 0.5, 0.3], [1.0, 0.5, -0.3], [1.0, 0.5, 0.3]]])):
        f = getattr(PDFs, fam_name)
        reff = ref_biv_ind_gamma if fam_name == 'biv_ind_gamma' else ref_biv_lognormal
        pyf = PDFs.biv_ind_gamma_py if fam_name == 'biv_ind_gamma' else PDFs.biv_lognormal_py
        for si, seq in enumerate(seqs):
            if not ctx.quick:
                seq = seq + [rngq.choice(seq) for _ in range(6)]
            seen = {}
            for pos, p in enumerate(seq):
                scalar = pos % 3 == 2            # quadrature calls the kernel on single points
                xs, ys = (XS[1:2], YS[1:2]) if scalar else (XS, YS)
                try:
                    import warnings
                    with warnings.catch_warnings():
                        warnings.simplefilter('ignore')
                        cv = np.atleast_1d(np.asarray(f(xs[0], ys[0], p) if scalar else f(np.array(xs), np.array(ys), p), dtype=float)).ravel()
                        pyv = np.atleast_1d(np.asarray(pyf(np.array(xs), np.array(ys), p), dtype=float)).ravel()
                    out = {'c': rats(cv), 'py': rats(pyv)}
                except Exception as e:
                    out = {'raised': type(e).__name__, 'msg': str(e)[:120]}
                add('pdf2d', 'PDFs.' + fam_name, {'name': fam_name, 'x': rats(xs), 'y': rats(ys), 'params': rats(p), 'layout': 'sequence',
                                                   'seq': si, 'pos': pos, 'ref': rats([reff(p, x, y) for x in xs for y in ys])},
                    out, cls='sequence%d/%d' % (si, pos))
                if not scalar and 'c' in out:
                    seen.setdefault(tuple(p), []).append(out['c'])
            for p, obsv in seen.items():
                if len(obsv) >= 2:
                    m0 = [False] * len(obsv[0])
                    add('history', 'PDFs.' + fam_name + '(history)', {'session': 'pdf-sequence%d' % si, 'call': list(p), 'occurrence': len(obsv)},
                        {'fresh': {'d': obsv[0], 'm': m0}, 'a': {'d': obsv[1], 'm': m0}, 'b': {'d': obsv[-1], 'm': m0}}, cls='pdf-sequence')
    # the 4/5-parameter gamma form with equal shapes and unequal scales inside Cache2D.integrate (fresh object)
    for k, p in enumerate([[1.5, 1.5, 0.6, 2.5], [0.8, 0.8, 3.0, 0.7, 0.2]]):
        c = small_cache2(4, 0.25, 8.0, extra=(2.5, 0.75))
        add('integrate2d', 'Cache2D.integrate', {'theta': rat(2.5), 'ext': True, 'c2': enc_c2(c), 'pdf2': tab2('biv_ind_gamma', p, c.neg_gammas)},
            obs(lambda: c.integrate(p, None, PDFs.biv_ind_gamma, 2.5, None)), cls='biv_ind_gamma/fixed-equal-shapes%d' % k)
    return recs, stats


# --------------------------------------------------------------------------
# binding demonstration, classes, run
# --------------------------------------------------------------------------
def _bump(s, f=Fraction(3, 2)):
    return rat(Fraction(s) * f) if s not in ('nan', 'inf', '-inf') else '1'


def mutate_a(rec):
    out = rec['out']
    if rec['op'] == 'schedule':
        steps = out['steps']
        cand = [k for k, s in enumerate(steps) if s['res']]
        if cand and len(steps) % 2 == 0:
            s = steps[cand[len(cand) // 2]]
            s['res'] = s['res'][:-1]                      # a result that was appended is not seen
        elif out['final']['outcome'] == 'ok':
            t = out['final']['table']
            k = max(range(len(t)), key=lambda j: t[j] != 'none')
            t[k] = 'none' if t[k] != 'none' else 'feedfacefeedfacefeed'       # a silent hole / a spurious entry
        else:
            out['final']['outcome'] = 'ok'
            out['final']['table'] = list(rec['in']['F'])  # a failure that was absorbed
        return rec
    if rec['op'] == 'mp_cache':
        if out['outcome'] == 'ok':
            k = [j for j, v in enumerate(out['table']) if v != 'none']
            if not k:
                return None
            out['table'][k[-1]] = 'none'
        else:
            out['outcome'] = 'ok'
            out['table'] = list(rec['in']['F'])
        return rec
    if rec['op'] == 'jobset':
        if out['raised'] != 'none':
            return None
        out['table'][len(out['table']) // 2] = 'none'          # a hole in the merged cache
        return rec
    if rec['op'] == 'merge':
        if out['raised'] == 'none':
            out['table'][len(out['table']) // 2] = 'feedfacefeedfacefeed'
        else:
            out['raised'] = 'none'
            out['table'] = list(rec['in']['F'])
        return rec
    return None


def mutate_b(rec):
    out = rec['out']
    if 'raised' in out:
        return None
    if rec['op'] == 'history':
        d = out['a']['d']
        ks = [k for k in range(len(d)) if not out['a']['m'][k] and d[k] not in ('nan', 'inf', '-inf') and Fraction(d[k]) != 0]
        if not ks:
            return None
        d[ks[0]] = _bump(d[ks[0]], Fraction(1000001, 1000000))
        return rec
    if rec['op'] == 'object':
        out['after'][-1] = 'feedfacefeedfacefeed'
        return rec
    if rec['op'] == 'theta_pair':
        ks = [k for k in range(len(out['d2'])) if not out['m2'][k] and Fraction(out['d2'][k]) != 0]
        if not ks:
            return None
        out['d2'][ks[0]] = _bump(out['d2'][ks[0]])
        return rec
    if rec['op'] == 'pdf2d':
        ks = [k for k in range(len(out['c'])) if out['c'][k] not in ('nan', 'inf', '-inf') and Fraction(out['c'][k]) > Fraction(1, 10 ** 50)]
        if not ks:
            return None
        out['c'][ks[-1]] = _bump(out['c'][ks[-1]], Fraction(1000001, 1000000))
        return rec
    ks = [k for k in range(len(out['d'])) if not out['m'][k] and out['d'][k] not in ('nan', 'inf', '-inf') and Fraction(out['d'][k]) != 0]
    if not ks:
        return None
    k = max(ks, key=lambda j: abs(Fraction(out['d'][j])))
    out['d'][k] = _bump(out['d'][k])
    return rec


def nontrivial_a(r):
    i = r['in']
    if r['op'] == 'schedule':
        c = i['c']
        if c['nj'] < 2:
            return None
        return ('s', i['kind'], c['nw'], c['nj'], c['split'], c['this'], tuple(c['fail']), ''.join(str(s['a']) for s in r['out']['steps']))
    if r['op'] == 'mp_cache':
        c = i['c']
        return ('m', i['kind'], i['cpus'], c['nj'], c['split'], c['this'], tuple(c['fail']))
    if r['op'] == 'jobset':
        return ('j', i['nj'], i['split'], tuple(i['paths']), tuple(i['order']))
    return ('g', i['nj'], i['split'], tuple(i['case']))


def nontrivial_b(r):
    return (r['op'], r['site'], r.get('cls'), common.digest(r['in']))


ASSUMPTIONS = [
    'BigInteger rational arithmetic of the Rat override (self-tested against the TLA+ definitions)',
    'worker pool: multiprocessing.Manager/Queue/list/Process are replaced by thread-backed fakes whose put/get/append/iter/start/join '
    'are the only yield points (lock-step scheduler); the dadi code between two yield points runs alone, as a process would between two '
    'IPC operations; real multi-process runs (fork start method) are compared by digest only',
    'a worker that is KILLED (not raising) is outside the stated quantifier; the model has the action (AllowDie) and TLC shows it yields a silent hole (observation in die_observation)',
    'F(job) = the entry of the single-process, unsplit, fault-free cache; bit-for-bit comparison by SHA-256 of the float64 data',
    'quadrature records: relative tolerance 1e-9 on the trapezoid sums; 1-D tail masses (scipy quad, default tolerances) allowed 1e-7 abs+rel; '
    '2-D edge/corner masses allowed the accuracy the code itself requests from quad/dblquad (epsabs 1e-4, epsrel 1e-3)',
    'shipped densities: node values and tail masses from closed forms (math, scipy.special incomplete gamma/beta; one outer 1-D quadrature '
    'of a closed-form conditional tail for correlated lognormal corners), never from the code path under test',
    'compiled pdfs compared with the documented formula evaluated with math.* at 1e-9 relative',
    'model functions are cheap closed-form stand-ins for demographic models (the property is about the cache/quadrature layer)']


def _merge_results(ra, rb):
    ca, cb = ra['coverage'], rb['coverage']
    cov = dict(ca)
    for k in ('states', 'transitions', 'traces_validated_against_impl', 'evaluations', 'distinct_nontrivial'):
        cov[k] = ca.get(k, 0) + cb.get(k, 0)
    cov['samples'] = (ca.get('samples') or [])[:2] + (cb.get('samples') or [])[:2]
    cov['model_checking_runs'] = ca.get('model_checking_runs', []) + cb.get('model_checking_runs', [])
    ops = dict(ca.get('records_per_operation', {}))
    ops.update(cb.get('records_per_operation', {}))
    cov['records_per_operation'] = ops
    cov['trace_validation'] = [ca.get('trace_validation'), cb.get('trace_validation')]
    cov['binding_demo'] = [ca.get('binding_demo'), cb.get('binding_demo')]
    cov['rule'] = ca.get('rule', '') + ' || ' + cb.get('rule', '')
    for k, v in cb.items():
        cov.setdefault(k, v)
    return {'coverage': cov, 'assumptions': ASSUMPTIONS, 'violations': ra['violations'] + rb['violations']}


def _what(rec, c):
    i = rec['in']
    if rec['op'] == 'schedule':
        return ('%s cpus=%d jobs=%d split=%d/%d failing=%s, schedule %s (%s): clause %s violated; final=%s'
                % (rec['site'], i['c']['nw'], i['c']['nj'], i['c']['this'], i['c']['split'], i['c']['fail'],
                   ''.join(str(s['a']) for s in rec['out']['steps']), i['src'], c, rec['out']['final'].get('outcome')))
    if rec['op'] == 'mp_cache':
        return '%s cpus=%d jobs=%d split=%d/%d failing=%s (real processes): clause %s violated; outcome=%s' % (
            rec['site'], i['cpus'], i['c']['nj'], i['c']['this'], i['c']['split'], i['c']['fail'], c, rec['out'].get('outcome'))
    if rec['op'] == 'jobset':
        return 'Cache2D.merge of the complete job set split_jobs=%d of a %d-job cache, pieces built by %s, order %s: clause %s violated; raised=%s %s' % (
            i['split'], i['nj'], i['paths'], i['order'], c, rec['out'].get('raised'), rec['out'].get('msg', ''))
    if rec['op'] == 'merge':
        return 'Cache2D.merge of pieces %s (split_jobs=%d): clause %s violated; raised=%s' % (i['case'], i['split'], c, rec['out'].get('raised'))
    extra = ''
    if 'raised' in rec['out']:
        extra = ' (raised %s: %s)' % (rec['out']['raised'], rec['out'].get('msg', ''))
    return 'record %s (%s, %s): clause %s violated%s' % (rec['id'], rec['site'], rec.get('cls') or rec['op'], c, extra)


def run(ctx):
    t0 = time.time()
    tier = ctx.tier
    if ctx.replay:
        ctx.no_mc = True
        rec = ctx.replay_payload['payload']['record']
        if rec['op'] == 'schedule':
            c = rec['in']['c']
            path = [s['a'] for s in rec['out']['steps']]
            fresh = schedule_record(rec['id'], rec['in']['kind'], c['nw'], c['nj'], c['split'], c['this'], c['fail'],
                                    path=path, src=rec['in'].get('src', 'replay'))
            return common.pipeline(ctx, [], 'Trace_DFECache', [fresh], what_of=_what, nontrivial_of=nontrivial_a, assumptions=ASSUMPTIONS)
        if rec['op'] in ('mp_cache', 'merge'):
            return common.pipeline(ctx, [], 'Trace_DFECache', [rec], what_of=_what, nontrivial_of=nontrivial_a, assumptions=ASSUMPTIONS)
        return common.pipeline(ctx, [], 'Trace_DFEQuad', [rec], what_of=_what, nontrivial_of=nontrivial_b, assumptions=ASSUMPTIONS)
    # ---- part A ----
    tj = time.time()
    jobs, info = schedule_jobs(ctx)
    info['path_generation_wall_s'] = round(time.time() - tj, 1)
    ta = time.time()
    recs_a = replay_many(jobs, procs=4 if ctx.quick else 8)
    info['replay_wall_s'] = round(time.time() - ta, 1)
    tm = time.time()
    mp_recs, pieces, both = mp_records(ctx)
    mg_recs = merge_records(ctx, pieces) + jobset_records(ctx, both)
    info['mp_runs'] = len(mp_recs)
    info['merge_cases'] = len(mg_recs)
    info['mp_wall_s'] = round(time.time() - tm, 1)
    recs_a += mp_recs + mg_recs
    # the Die observation: with workers that may be killed the model has a silent hole (expected violation)
    die = None
    if not getattr(ctx, 'no_mc', False):
        r = common.tlc('DFECacheMC', 'DFECacheMC_die.cfg', workers=2, timeout=300)
        die = {'cfg': 'DFECacheMC_die.cfg', 'invariant': 'L_NoSilentHole', 'violated_as_expected': (not r.ok) and 'L_NoSilentHole' in (r.violation or ''),
               'states': r.states}
        if r.ok:
            raise common.MachineryError('DFECacheMC_die.cfg: the killed-worker model did not violate L_NoSilentHole (the invariant is vacuous?)')
    ra = common.pipeline(
        ctx, [('DFECacheMC', 'DFECacheMC_%s.cfg' % tier)], 'Trace_DFECache', recs_a, what_of=_what,
        nontrivial_of=nontrivial_a, mutator=mutate_a, assumptions=ASSUMPTIONS, parallel=8,
        rule='schedules: every complete schedule of 2 workers x 3 jobs enumerated by TLC (%d; replayed: %d), all schedules of 1-2 workers x 2 jobs, '
             'TLC-simulated schedules for 2-D split pieces and 3 workers, seeded random schedules (1-4 workers, 1-9 jobs, 0-2 failing jobs); '
             'distinct by (class, workers, jobs, split, piece, failing set, schedule); real processes: cpus x split_jobs x piece x failing set; '
             'merges: subsets, permutations, duplicates and conflicting pieces' % (info['paths_2x3_enumerated'], info['paths_2x3_replayed']),
        extra_cov={'part_a': info, 'die_observation': die})
    # ---- part B ----
    tb = time.time()
    recs_b, st = quad_records(ctx)
    st['records_wall_s'] = round(time.time() - tb, 1)
    rb = common.pipeline(
        ctx, [('DFEQuadMC', 'DFEQuadMC_%s.cfg' % tier)], 'Trace_DFEQuad', recs_b, what_of=_what,
        nontrivial_of=nontrivial_b, mutator=mutate_b, assumptions=ASSUMPTIONS, parallel=8,
        rule='quadrature: random tiny caches (gamma_pts 4-8), densities from exactly known families (piecewise linear, a/(1+ax)^2, mixtures/products) '
             'and the shipped pdfs with independent tables; theta from a fixed set; point masses cached/uncached; distinct by (operation, function, density class, input digest)',
        extra_cov={'part_b': st})
    res = _merge_results(ra, rb)
    res['coverage']['wall_breakdown_s'] = {'total': round(time.time() - t0, 1), 'part_a': round(tb - t0, 1), 'part_b': round(time.time() - tb, 1)}
    return res
