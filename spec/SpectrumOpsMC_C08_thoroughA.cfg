CONSTANTS
  MaxDepth = 2
  Shapes <- ShapesQuick
  FullMaskSize = 5
SPECIFICATION Spec
CHECK_DEADLOCK FALSE
INVARIANT TypeOK
INVARIANT L_ProjTotal
INVARIANT L_ProjFoldedTotal
INVARIANT L_ProjTwoStage
INVARIANT L_ProjAxisOrder
INVARIANT L_MaskSupport
INVARIANT L_ProjKeepsIds
