---------------------------- MODULE RatSelfTest ----------------------------
(* Checks that the Java overrides of module Rat agree with the TLA+          *)
(* definitions over integer pairs on a lattice of operands.                  *)
EXTENDS Rat, TLC, FiniteSets
CONSTANT K
Nums == (-K)..K
Dens == 1..K
Pairs == Nums \X Dens
S(p) == RFromPair(p)
OKPair(p, q) ==
    /\ RAdd(S(p), S(q)) = S(AddDef(p, q))
    /\ RSub(S(p), S(q)) = S(SubDef(p, q))
    /\ RMul(S(p), S(q)) = S(MulDef(p, q))
    /\ (q[1] # 0 => RDiv(S(p), S(q)) = S(DivDef(p, q)))
    /\ RLeq(S(p), S(q)) = LeqDef(p, q)
    /\ RLt(S(p), S(q)) = LtDef(p, q)
    /\ RMin(S(p), S(q)) = (IF LeqDef(p, q) THEN S(p) ELSE S(q))
    /\ RMax(S(p), S(q)) = (IF LeqDef(q, p) THEN S(p) ELSE S(q))
    /\ (S(p) = S(q)) = (NormDef(p) = NormDef(q))
OKOne(p) ==
    /\ RNeg(S(p)) = S(NegDef(p))
    /\ RAbs(S(p)) = S(AbsDef(p))
    /\ RSign(S(p)) = SignDef(p)
    /\ RToPair(S(p)) = NormDef(p)
    /\ RPow(S(p), 3) = S(MulDef(p, MulDef(p, p)))
    /\ (p[1] # 0 => RPow(S(p), -2) = S(DivDef(<<1, 1>>, MulDef(p, p))))
    /\ RSum(<<S(p), S(p), "1/3">>) = S(AddDef(AddDef(p, p), <<1, 3>>))
    /\ RDot(<<S(p), "2">>, <<"1/2", S(p)>>) = S(AddDef(MulDef(p, <<1, 2>>), MulDef(<<2, 1>>, p)))
    /\ RFloor(S(p)) = (IF p[1] >= 0 THEN p[1] \div p[2] ELSE -((-p[1] + p[2] - 1) \div p[2]))
    /\ RIsInt(S(p)) = (NormDef(p)[2] = 1)
    /\ RNorm(S(p)) = S(p)
ASSUME \A p \in Pairs : OKOne(p)
ASSUME \A p \in Pairs : \A q \in Pairs : OKPair(p, q)
RECURSIVE Pascal(_, _)
Pascal(n, k) == IF k < 0 \/ k > n THEN 0 ELSE IF n = 0 THEN 1 ELSE Pascal(n - 1, k - 1) + Pascal(n - 1, k)
ASSUME \A n \in 0..14 : \A k \in (-1)..(n + 1) : RBinom(n, k) = RInt(Pascal(n, k))
ASSUME RBinom(200, 100) = "90548514656103281165404177077484163874504589675413336841320"
ASSUME RSeqMaxAbs(<<"1/2", "-7/3", "2">>) = "7/3" /\ RSeqMaxAbs(<<>>) = "0" /\ RSeqMaxAbs(<<"-1/5">>) = "1/5"
ASSUME RNorm("6/4") = "3/2" /\ RNorm("-0") = "0" /\ RInt(7) = "7" /\ RAdd("1/3", "1/6") = "1/2"
ASSUME RMul("123456789012345678901234567890", "1/123456789012345678901234567890") = "1"
ASSUME PrintT(<<"RatSelfTest", "pairs", Cardinality(Pairs)>>)
VARIABLE x
Init == x = 0
Next == x' = x /\ FALSE
=============================================================================
