"""C05 - sampling a spectrum from phi is exact binomial integration on every code path
(spec/Sampling.tla, spec/Grid.tla; judged by spec/Trace_Sampling.tla)."""
import random, itertools
import numpy as np
from . import common
from .common import rat, rats
from .spectrum_common import enc

PROP = 'C05'
HET = {0: None, 1: 'xx', 2: 'yy', 3: 'zz'}


# ----------------------------------------------------------------------------
# input generators (inputs only: nothing here is compared with anything)
# ----------------------------------------------------------------------------
def make_grid(rng, L, kind=None, perturb=None):
    from dadi import Numerics
    kind = kind or rng.choice(['uniform', 'default', 'exp', 'random'])
    if kind == 'uniform':
        g = np.linspace(0, 1, L)
    elif kind == 'default':
        g = Numerics.default_grid(L)
    elif kind == 'exp':
        g = Numerics.exponential_grid(L, crwd=rng.choice([1.0, 2.5, 4.0, 6.0]))
    elif kind == 'quadratic':
        g = Numerics.quadratic_grid(L)
    else:
        inner = sorted(set(round(rng.uniform(0.01, 0.99), 3) for _ in range(L - 2)))
        g = np.array([0.0] + inner + [1.0])
    g = np.array(g, dtype=float)
    g[0], g[-1] = 0.0, 1.0
    if kind == 'interior':          # a grid on a sub-interval of [0,1]
        lo, hi = round(rng.uniform(0.0, 0.2), 3), round(rng.uniform(0.8, 1.0), 3)
        return lo + (hi - lo) * np.linspace(0, 1, L)
    perturb = rng.choice([None, None, None, 'lo-', 'lo+', 'hi+', 'hi-', 'both']) if perturb is None else perturb
    if perturb in ('lo-', 'both'):
        g[0] = -1e-16
    if perturb == 'lo+':
        g[0] = 1e-16
    if perturb in ('hi+', 'both'):
        g[-1] = np.nextafter(1.0, 2.0)          # 1 + 2.2e-16
    if perturb == 'hi-':
        g[-1] = np.nextafter(1.0, 0.0)          # 1 - 1.1e-16
    return g


def make_phi(rng, shape, xxs, kind=None):
    """A non-negative density on the grids."""
    kind = kind or rng.choice(['uniform', 'uniform', 'sparse', 'neutral', 'smooth', 'wide'])
    size = int(np.prod(shape))
    if kind == 'uniform':
        d = np.array([rng.uniform(0, 4) for _ in range(size)])
    elif kind == 'sparse':
        d = np.array([rng.choice([0.0, 0.0, rng.uniform(0, 10)]) for _ in range(size)])
    elif kind == 'wide':
        d = np.array([10 ** rng.uniform(-5, 3) for _ in range(size)])
    else:
        # product-form shapes resembling real densities: ~1/x (neutral) or a smooth bump, times noise
        d = np.ones(shape)
        for a, xx in enumerate(xxs):
            x = np.clip(xx, 0, 1)
            if kind == 'neutral':
                f = 1.0 / np.maximum(x, x[1] / 2.0) * (1 - x + 0.05)
            else:
                f = 0.2 + x * (1 - x) * rng.uniform(1, 6) + rng.uniform(0, 1) * x
            sl = [None] * len(shape)
            sl[a] = slice(None)
            d = d * f[tuple(sl)]
        d = d.ravel() * np.array([rng.uniform(0.7, 1.3) for _ in range(size)])
    return np.ascontiguousarray(np.asarray(d, dtype=float).reshape(shape))


def make_admix(rng, P, kind=None):
    """Row-stochastic P x P matrix (tuples of floats)."""
    kind = kind or rng.choice(['identity', 'dyadic', 'dyadic', 'float'])
    rows = []
    for d in range(P):
        if kind == 'identity':
            row = [1.0 if k == d else 0.0 for k in range(P)]
        elif kind == 'dyadic':
            cuts = sorted(rng.randint(0, 64) for _ in range(P - 1))
            parts = [b - a for a, b in zip([0] + cuts, cuts + [64])]
            rng.shuffle(parts)
            row = [p / 64.0 for p in parts]
        else:
            w = [rng.random() for _ in range(P)]
            s = sum(w)
            row = [x / s for x in w]
            row[-1] = 1.0 - sum(row[:-1])
            if row[-1] < 0:
                row = [1.0 if k == d else 0.0 for k in range(P)]
        rows.append(tuple(row))
    return tuple(rows)


def enc_phi(phi):
    return {'sh': [int(x) for x in phi.shape], 'd': rats(np.asarray(phi, dtype=float).ravel())}


def observe(fn):
    import warnings
    try:
        with warnings.catch_warnings():
            warnings.simplefilter('ignore')
            res = fn()
    except Exception as e:           # recorded; the specification decides whether a refusal is acceptable
        return {'raised': type(e).__name__}
    return {'s': enc(res)}


def site_of(P, path):
    return 'Spectrum.from_phi[%dD,%s]' % (P, path)


def _arg_forms(inp, xxs):
    """ns / grids / proportions in the container and number types named by inp['argform'] (default: lists, floats)."""
    form = inp.get('argform')
    ns = list(inp['ns'])
    grids = [x for x in xxs]
    if inp.get('alias'):             # in.alias[a] = the axis whose grid OBJECT is passed for axis a as well (0-based)
        grids = [grids[j] for j in inp['alias']]
    if form == 'tuple':
        ns, grids = tuple(ns), tuple(grids)
    elif form == 'array':
        ns = np.array(ns)
    return form, ns, grids


def call_from_phi(inp, phi, xxs):
    """Run Spectrum.from_phi exactly as described by the record's 'in' part."""
    from dadi import Spectrum
    form, ns, grids = _arg_forms(inp, xxs)
    kw = {'mask_corners': inp['mc']}
    if inp['admix']:
        if form == 'ints':       # lists of Python ints, as in the docstring's ((1,0,0),(0,1,0),(0,0,1))
            kw['admix_props'] = [[int(common.frac(v)) for v in row] for row in inp['admix']]
        else:
            kw['admix_props'] = tuple(tuple(float(common.frac(v)) for v in row) for row in inp['admix'])
    if inp['het']:
        kw['het_ascertained'] = HET[inp['het']]
    if inp['force']:
        kw['force_direct'] = True
    return Spectrum.from_phi(phi, ns, grids, **kw)


def call_inbreeding(inp, phi, xxs):
    from dadi import Spectrum
    form, ns, grids = _arg_forms(inp, xxs)
    kw = {'mask_corners': inp['mc']}
    if inp['het']:
        kw['het_ascertained'] = HET[inp['het']]
    Fs = [float(common.frac(v)) for v in inp['Fs']]
    pl = list(inp['ploidys'])
    if form == 'tuple':
        Fs, pl = tuple(Fs), tuple(pl)
    elif form == 'array':
        Fs, pl = np.array(Fs), np.array(pl)
    return Spectrum.from_phi_inbreeding(phi, ns, grids, Fs, pl, **kw)


def relayout(phi, layout):
    """The same density values in another memory layout."""
    if layout == 'F':
        return np.asfortranarray(phi)
    if layout == 'T':            # a transposed view of a C-contiguous array
        return np.ascontiguousarray(phi.T).T
    if layout == 'slice':        # every second element of a larger array, along every axis
        big = np.full([2 * n for n in phi.shape], -7.0)
        view = big[tuple(slice(None, None, 2) for _ in phi.shape)]
        view[...] = phi
        return view
    if layout == 'int':          # integer dtype (values are rounded first by the caller)
        return np.asarray(phi).astype(np.int64)
    return phi


def regrid(x, layout):
    if layout == 'slice':
        big = np.full(2 * len(x), -7.0)
        big[::2] = x
        return big[::2]
    return x


def snapshot(watched):
    """Bit-exact encoding of argument objects: container kind, element type, shape and every element as a string
    (floats in C99 hexadecimal notation, which also tells -0.0 from 0.0).  A container of containers / arrays lists
    descriptors of its items and is followed by one entry per item.  Always the same record structure, so that two
    snapshots can be compared for equality by TLC whatever happened to the objects."""
    def item(v):
        if isinstance(v, (bool, np.bool_)):
            return str(bool(v))
        if isinstance(v, (int, np.integer)):
            return str(int(v))
        if isinstance(v, (float, np.floating)):
            return float(v).hex()
        if isinstance(v, np.ndarray):
            return 'ndarray(%s)%s' % (v.dtype, list(v.shape))
        if isinstance(v, (list, tuple)):
            return '%s[%d]' % (type(v).__name__, len(v))
        return repr(v)
    out = []
    for name, o in watched:
        if isinstance(o, np.ndarray):
            out.append({'name': name, 'kind': 'ndarray', 'dtype': str(o.dtype), 'sh': [int(n) for n in o.shape],
                        'v': [item(x) for x in o.ravel().tolist()]})
        elif isinstance(o, (list, tuple)):
            out.append({'name': name, 'kind': type(o).__name__, 'dtype': ','.join(sorted(set(type(x).__name__ for x in o))),
                        'sh': [len(o)], 'v': [item(x) for x in o]})
            out.extend(snapshot([('%s[%d]' % (name, k), x) for k, x in enumerate(o) if isinstance(x, (list, tuple, np.ndarray))]))
        else:
            out.append({'name': name, 'kind': 'scalar', 'dtype': type(o).__name__, 'sh': [], 'v': [item(o)]})
    return out


def _container(values, form):
    return tuple(values) if form == 'tuple' else np.array(values) if form == 'array' else list(values)


def run_reused(op, inp, phi, xxs):
    """The 'out' part of a record of the reuse block: the argument objects (density, grid container and grids,
    admix_props / Fs / ploidys containers) are built ONCE from the values the caller wrote, the function is called for
    the sample sizes in.prior[0], in.prior[1], ... and finally in.ns with these same objects (the sample-size container is
    the same object as long as the sizes stay the same); the record carries the result of the last call and bit-exact
    encodings of the argument objects as written / as they are after the last call."""
    from dadi import Spectrum
    form = inp.get('argform')      # containers: lists (default) | tuples | ndarrays (grid container and admix_props: lists)
    phi_obj = relayout(phi, inp.get('layout'))
    grids = tuple(xxs) if form == 'tuple' else list(xxs)
    kw = {'mask_corners': inp['mc']}
    watched = [('phi', phi_obj), ('xxs', grids)]
    if inp['admix']:
        rows = [[float(common.frac(v)) for v in row] for row in inp['admix']]
        kw['admix_props'] = tuple(tuple(r) for r in rows) if form == 'tuple' else rows
        watched.append(('admix_props', kw['admix_props']))
    if inp['het']:
        kw['het_ascertained'] = HET[inp['het']]
    extra = []
    if op == 'from_phi_inbreeding':
        extra = [_container([float(common.frac(v)) for v in inp['Fs']], form), _container(list(inp['ploidys']), form)]
        watched += [('Fs', extra[0]), ('ploidys', extra[1])]
        fn = Spectrum.from_phi_inbreeding
    else:
        fn = Spectrum.from_phi
        if inp['force']:
            kw['force_direct'] = True
    before = snapshot(watched)
    prev, ns_obj, ns_before, out = None, None, None, None
    for sizes in [list(z) for z in inp.get('prior', [])] + [list(inp['ns'])]:
        if sizes != prev:
            ns_obj = _container(sizes, form)
            ns_before = snapshot([('ns', ns_obj)])
        prev = sizes
        out = observe(lambda: fn(phi_obj, ns_obj, grids, *extra, **kw))
    out['args'] = {'before': before + ns_before, 'after': snapshot(watched + [('ns', ns_obj)])}
    return out


def from_record(inp):
    """Rebuild the numpy inputs from a record (used by --replay)."""
    sh = inp['phi']['sh']
    phi = np.array([float(common.frac(v)) for v in inp['phi']['d']]).reshape(sh)
    xxs = [np.array([float(common.frac(v)) for v in g]) for g in inp['grids']]
    return phi, xxs


# ----------------------------------------------------------------------------
# records
# ----------------------------------------------------------------------------
def records(ctx):
    import logging
    import dadi
    from dadi import Numerics, Spectrum
    logging.getLogger('Spectrum_mod').setLevel(logging.ERROR)    # "different grids" notices of from_phi
    q = ctx.quick
    rng = random.Random(ctx.seed + 5)
    recs = []
    nid = itertools.count()

    def add(op, inp, out, site, cost=1.0):
        recs.append({'id': '%s-%d' % (op, next(nid)), 'op': op, 'site': site, 'in': inp, 'out': out, '_cost': cost})

    def base_in(phi, ns, xxs, mc=True, admix=(), het=0, force=False):
        return {'phi': enc_phi(phi), 'ns': [int(n) for n in ns], 'grids': [rats(x) for x in xxs], 'mc': bool(mc),
                'admix': [[rat(v) for v in row] for row in admix], 'het': int(het), 'force': bool(force)}

    def grids_for(P, L, same=True, kind=None, perturb=None):
        g = make_grid(rng, L, kind, perturb)
        if same:
            return [g.copy() for _ in range(P)]
        return [g.copy() if a < 2 else make_grid(rng, rng.randint(3, L), None, perturb) for a in range(P)]

    # sizes: (max n, max grid points) per dimension and path
    NMAX = {1: 20 if q else 40, 2: 12 if q else 24, 3: 6 if q else 12, 4: 3 if q else 6, 5: 2 if q else 6}
    LMAX = {1: 24 if q else 48, 2: 10 if q else 22, 3: 6 if q else 9, 4: 4 if q else 6, 5: 4 if q else 5}

    def rand_ns(P, hi=None):
        hi = hi or NMAX[P]
        return [rng.randint(1, hi) for _ in range(P)]

    # ---- 1. default (analytic) path, 1-5 D ----
    plan = {1: 8 if q else 40, 2: 6 if q else 30, 3: 4 if q else 20, 4: 2 if q else 10, 5: 1 if q else 5}
    for P, cnt in plan.items():
        for k in range(cnt):
            L = rng.randint(3, LMAX[P])
            # the analytic path handles its own grid per population only for the populations after the second
            xxs = grids_for(P, L, same=(P < 3 or rng.random() < 0.6))
            ns = rand_ns(P)
            if P == 1 and k == 0:
                ns = [NMAX[1]]
            if P == 2 and k == 0:
                ns = [NMAX[2], max(1, NMAX[2] // 2)]
            if P == 2 and not q and k in (1, 2):       # the largest sample size of the statement, in either population
                ns = [40, rng.randint(1, 12)][::(1 if k == 1 else -1)]
            if P == 5 and not q and k == 0:
                ns = [2, 1, 3, 6, 2]
            while P >= 4 and np.prod([n + 1 for n in ns]) > 3000:      # keeps TLC's exact evaluation within the budget
                ns[rng.randrange(P)] = rng.randint(1, 3)
            phi = make_phi(rng, [len(x) for x in xxs], xxs)
            inp = base_in(phi, ns, xxs, mc=rng.random() < 0.6)
            cost = np.prod([n + 1 for n in ns]) * max(len(x) for x in xxs) + sum(n * len(x) for n, x in zip(ns, xxs)) * 3
            add('from_phi', inp, observe(lambda: call_from_phi(inp, phi, xxs)), site_of(P, 'analytic'), cost)
    # two different grids of the same length that share their end points and first interior point, used one after the
    # other with the same sample sizes in one process: the memoised beta differences must belong to the grid in use
    for k in range(2 if q else 6):
        P = 2 + k % 2
        L = rng.randint(5, 7)
        gA = np.linspace(0.0, 1.0, L)
        gB = gA.copy()
        for j in range(2, L - 1):
            gB[j] = gA[j] + (gA[1] - gA[0]) * rng.uniform(-0.35, 0.35)
        ns = rand_ns(P, 5)
        for g in (gA, gB, gA):
            xxs = [g.copy() for _ in range(P)]
            phi = make_phi(rng, [len(x) for x in xxs], xxs)
            inp = base_in(phi, ns, xxs, mc=False)
            add('from_phi', inp, observe(lambda: call_from_phi(inp, phi, xxs)), site_of(P, 'analytic'), 60)
    # grids on a sub-interval of [0,1] (analytic and direct rule)
    for k in range(3 if q else 10):
        P = 1 + k % 3
        xxs = grids_for(P, rng.randint(3, 6), kind='interior')
        phi = make_phi(rng, [len(x) for x in xxs], xxs, 'uniform')
        inp = base_in(phi, rand_ns(P, 5), xxs, mc=False, force=(k % 2 == 1))
        add('from_phi', inp, observe(lambda: call_from_phi(inp, phi, xxs)), site_of(P, 'direct' if k % 2 else 'analytic'), 40)
    # different grids for the first two populations: the analytic path may refuse (documented), never answer wrongly
    for k in range(2 if q else 6):
        P = rng.choice([2, 3])
        xxs = [make_grid(rng, 5, 'uniform', ''), make_grid(rng, 5, 'default', '')] + [make_grid(rng, 4, None, '') for _ in range(P - 2)]
        phi = make_phi(rng, [len(x) for x in xxs], xxs)
        inp = base_in(phi, rand_ns(P, 4), xxs)
        add('from_phi', inp, observe(lambda: call_from_phi(inp, phi, xxs)), site_of(P, 'analytic'), 50)

    # ---- 2. direct path: force_direct and het_ascertained, 1-4 D (5-D: no direct rule exists) ----
    # every (dimension, ascertainment population) pair is covered, then random ones
    combos = [(P, h) for P in (1, 2, 3, 4) for h in range(0, min(P, 3) + 1)] + [(5, 0)]
    extra = {1: 4 if q else 20, 2: 4 if q else 16, 3: 1 if q else 12, 4: 0 if q else 5, 5: 0 if q else 2}
    for P, cnt in extra.items():
        combos += [(P, rng.choice([0, 0] + list(range(1, min(P, 3) + 1))) if P < 5 else 0) for _ in range(cnt)]
    for k, (P, het) in enumerate(combos):
        L = rng.randint(3, LMAX[P])
        xxs = grids_for(P, L, same=rng.random() < 0.5) if P < 5 else grids_for(P, min(L, 3), True)
        if P <= 2 and rng.random() < 0.5:      # any grid per population is fine on this path
            xxs = [make_grid(rng, rng.randint(3, LMAX[P])) for _ in range(P)]
        ns = rand_ns(P)
        phi = make_phi(rng, [len(x) for x in xxs], xxs)
        inp = base_in(phi, ns, xxs, mc=rng.random() < 0.6, het=het, force=(het == 0 or rng.random() < 0.3))
        cost = np.prod([n + 1 for n in ns]) * max(len(x) for x in xxs) + sum(n * len(x) for n, x in zip(ns, xxs))
        add('from_phi', inp, observe(lambda: call_from_phi(inp, phi, xxs)), site_of(P, 'het' if het else 'direct'), cost)

    # ---- 3. admix_props, 2-4 D ----
    ADM_N = {2: 6 if q else 12, 3: 3 if q else 5, 4: 2 if q else 3}
    ADM_L = {2: 7 if q else 12, 3: 4 if q else 6, 4: 3 if q else 4}
    plan = {2: 6 if q else 30, 3: 3 if q else 16, 4: 2 if q else 6}
    for P, cnt in plan.items():
        for k in range(cnt):
            xxs = [make_grid(rng, rng.randint(3, ADM_L[P])) for _ in range(P)] if rng.random() < 0.5 else grids_for(P, rng.randint(3, ADM_L[P]))
            ns = rand_ns(P, ADM_N[P])
            phi = make_phi(rng, [len(x) for x in xxs], xxs)
            A = make_admix(rng, P, 'identity' if k == 0 else None)
            inp = base_in(phi, ns, xxs, mc=rng.random() < 0.6, admix=A, force=rng.random() < 0.3)
            cost = np.prod([n + 1 for n in ns]) * phi.size * (P + 1)
            add('from_phi', inp, observe(lambda: call_from_phi(inp, phi, xxs)), site_of(P, 'admix'), cost)
    # admix_props together with het_ascertained is documented as unsupported
    for P in (2, 3):
        xxs = grids_for(P, 4)
        phi = make_phi(rng, [4] * P, xxs)
        inp = base_in(phi, [2] * P, xxs, admix=make_admix(rng, P, 'dyadic'), het=1)
        add('from_phi', inp, observe(lambda: call_from_phi(inp, phi, xxs)), site_of(P, 'admix+het'), 1)

    # ---- 4. inbreeding, 1-3 D ----
    INB_IND = {1: 6 if q else 10, 2: 3 if q else 5, 3: 2 if q else 2}    # individuals per population
    INB_L = {1: 12 if q else 24, 2: 7 if q else 10, 3: 4 if q else 6}
    plan = {1: 8 if q else 36, 2: 5 if q else 24, 3: 2 if q else 10}

    def rand_F():
        u = rng.random()
        if u < 0.15:
            return 10 ** rng.uniform(-3, -2)
        if u < 0.25:
            return rng.choice([0.999, 1 - 1e-6, 1 - 1e-12])
        return rng.uniform(0.01, 0.98)
    for P, cnt in plan.items():
        for k in range(cnt):
            xxs = grids_for(P, rng.randint(3, INB_L[P]), same=rng.random() < 0.6)
            pl = [rng.choice([2, 2, 3, 4, 6, 8]) if P < 3 else rng.choice([2, 3, 4]) for _ in range(P)]
            if P == 1 and k < 7:
                pl = [2 + k]                    # every ploidy 2..8
            ns = [p * rng.randint(1, max(1, min(INB_IND[P], (24 if P == 1 else 10 if P == 2 else 6) // p))) for p in pl]
            Fs = [rand_F() for _ in range(P)]
            phi = make_phi(rng, [len(x) for x in xxs], xxs)
            het = k if k <= P else rng.choice([0, 0] + list(range(1, P + 1)))    # every ascertainment population once
            inp = base_in(phi, ns, xxs, mc=rng.random() < 0.6, het=het)
            inp.update({'Fs': rats(Fs), 'ploidys': pl})
            cost = sum(len(x) * n * n * p / 2.0 for x, n, p in zip(xxs, ns, pl)) + np.prod([n + 1 for n in ns]) * max(len(x) for x in xxs)
            add('from_phi_inbreeding', inp, observe(lambda: call_inbreeding(inp, phi, xxs)), 'Spectrum.from_phi_inbreeding[%dD]' % P, cost)
    # F = 0 in every population (documented shortcut to from_phi), F = 0 in some populations only,
    # and a sample size that is not a multiple of the ploidy
    for k in range(3 if q else 8):
        P = rng.choice([1, 2, 2, 3])
        xxs = grids_for(P, rng.randint(3, 5))
        pl = [rng.choice([2, 4]) for _ in range(P)]
        ns = [p * rng.randint(1, 2) for p in pl]
        phi = make_phi(rng, [len(x) for x in xxs], xxs)
        inp = base_in(phi, ns, xxs, mc=True)
        inp.update({'Fs': ['0'] * P, 'ploidys': pl})
        add('from_phi_inbreeding', inp, observe(lambda: call_inbreeding(inp, phi, xxs)), 'Spectrum.from_phi_inbreeding[F=0]', 30)
        if P >= 2:
            inp2 = dict(inp)
            Fs = [0.0] * P
            Fs[rng.randrange(P)] = rng.uniform(0.05, 0.9)
            inp2['Fs'] = rats(Fs)
            add('from_phi_inbreeding', inp2, observe(lambda: call_inbreeding(inp2, phi, xxs)), 'Spectrum.from_phi_inbreeding[F=0 in some populations]', 60)
        inp3 = dict(inp)
        inp3['ns'] = [n + 1 for n in ns]
        inp3['Fs'] = rats([0.25] * P)
        add('from_phi_inbreeding', inp3, observe(lambda: call_inbreeding(inp3, phi, xxs)), 'Spectrum.from_phi_inbreeding[n not a multiple of ploidy]', 1)

    # ---- 5. Numerics.BetaBinomConvolution: whole rows ----
    for k in range(12 if q else 80):
        p = rng.choice([2, 2, 3, 4, 5, 6, 8]) if k >= 7 else 2 + k
        m = rng.randint(1, max(1, (16 if q else 30) // p))
        if rng.random() < 0.5:
            F, x = rand_F(), rng.choice([rng.random(), 10 ** rng.uniform(-6, -1)])
            alpha, beta = x * ((1.0 - F) / F), (1.0 - x) * ((1.0 - F) / F)
        else:
            alpha, beta = 10 ** rng.uniform(-3, 2.5), 10 ** rng.uniform(-3, 2.5)

        def row():
            try:
                return {'row': rats([Numerics.BetaBinomConvolution(i, m, alpha, beta, ploidy=p) for i in range(m * p + 1)])}
            except Exception as e:
                return {'raised': type(e).__name__}
        add('betabinom', {'m': m, 'ploidy': p, 'alpha': rat(alpha), 'beta': rat(beta)}, row(), 'Numerics.BetaBinomConvolution', m * m * p * p)

    # ---- 6. linearity, observed on the implementation ----
    for k in range(8 if q else 40):
        kind = ['analytic', 'direct', 'admix', 'inbreeding'][k % 4]
        P = rng.choice([1, 2, 3]) if kind != 'admix' else rng.choice([2, 3])
        xxs = grids_for(P, rng.randint(3, 8 if P < 3 else 5))
        sh = [len(x) for x in xxs]
        phi1, phi2 = make_phi(rng, sh, xxs), make_phi(rng, sh, xxs)
        # linear, not merely additive for non-negative weights: every second pair has a negative coefficient (signed densities)
        a, b = rng.uniform(0.1, 3), rng.uniform(0.1, 3) * (-1 if k % 2 else 1)
        pl = [rng.choice([2, 3, 4]) for _ in range(P)]
        ns = [p * rng.randint(1, 2) for p in pl]
        inp = base_in(phi1, ns, xxs, mc=False, admix=make_admix(rng, P) if kind == 'admix' else (), force=(kind == 'direct'))
        inp.update({'Fs': rats([rng.uniform(0.05, 0.9) for _ in range(P)]), 'ploidys': pl})
        call = call_inbreeding if kind == 'inbreeding' else call_from_phi

        def three():
            try:
                s12 = call(inp, a * phi1 + b * phi2, xxs)
                s1, s2 = call(inp, phi1, xxs), call(inp, phi2, xxs)
            except Exception as e:
                return {'raised': type(e).__name__}
            return {'s12': enc(s12), 's1': enc(s1), 's2': enc(s2)}
        out = three()
        add('linear', {'kind': kind, 'a': rat(a), 'b': rat(b), 'ns': ns, 'sh': sh}, out, 'Spectrum.from_phi[linear,%s]' % kind, 5)

    # ---- 7. sample then project / marginalize = sample the smaller thing ----
    for k in range(10 if q else 50):
        kind = ['analytic', 'direct', 'admix', 'inbreeding', 'analytic'][k % 5]
        P = rng.choice([1, 2, 3]) if kind != 'admix' else rng.choice([2, 3])
        hiL = {1: 12, 2: 7, 3: 4}[P]
        xxs = grids_for(P, rng.randint(3, hiL))
        phi = make_phi(rng, [len(x) for x in xxs], xxs)
        pl = [rng.choice([2, 3]) for _ in range(P)]
        if kind == 'inbreeding':
            ns = [p * rng.randint(1, 3 if P < 3 else 2) for p in pl]
            ms = [p * rng.randint(1, n // p) for n, p in zip(ns, pl)]     # sizes the inbreeding model is defined for
        else:
            ns = rand_ns(P, {1: 16, 2: 8, 3: 4}[P] if kind != 'admix' else 4)
            ms = [rng.randint(1, n) for n in ns]
        inp = base_in(phi, ns, xxs, mc=False, admix=make_admix(rng, P) if kind == 'admix' else (), force=(kind == 'direct'))
        inp.update({'kind': kind, 'ms': ms, 'Fs': rats([rng.uniform(0.05, 0.9) for _ in range(P)]), 'ploidys': pl})
        call = call_inbreeding if kind == 'inbreeding' else call_from_phi
        cost = np.prod([n + 1 for n in ms]) * phi.size * (P + 1 if kind == 'admix' else 1)
        if kind != 'inbreeding':      # projecting an inbred sample is not a sample of fewer inbred individuals
            add('sample_project', inp, observe(lambda: call(inp, phi, xxs).project(ms)), 'Spectrum.from_phi[%s]+project' % kind, cost)
        if P >= 2 and kind != 'admix':
            a = rng.randrange(P)
            inp2 = dict(inp)
            inp2['over'] = a + 1
            add('sample_marginalize', inp2, observe(lambda: call(inp2, phi, xxs).marginalize([a], mask_corners=False)),
                'Spectrum.from_phi[%s]+marginalize' % kind, cost)

    # ---- 8. analytic and direct paths converge to each other under grid refinement (smooth densities) ----
    for k in range(3 if q else 10):
        P = 1 if k % 3 else 2
        n = rng.randint(2, 6)
        c = [rng.uniform(0.5, 2), rng.uniform(0.5, 2), rng.uniform(0.5, 2)]
        L1 = rng.choice([9, 11, 13]) if P == 1 else 9

        def both(L):
            xx = np.linspace(0, 1, L)
            f = c[0] + c[1] * xx + c[2] * xx * (1 - xx)
            phi = f if P == 1 else f[:, None] * f[None, :]
            an = Spectrum.from_phi(phi, [n] * P, [xx] * P, mask_corners=False)
            di = Spectrum.from_phi(phi, [n] * P, [xx] * P, mask_corners=False, force_direct=True)
            return rats(np.asarray(an.data).ravel()), rats(np.asarray(di.data).ravel())
        try:
            a1, d1 = both(L1)
            a2, d2 = both(2 * L1 - 1)
            out = {'a1': a1, 'd1': d1, 'a2': a2, 'd2': d2}
        except Exception as e:
            out = {'raised': type(e).__name__}
        add('refine', {'P': P, 'n': n, 'L': L1, 'coef': rats(c)}, out, 'Spectrum.from_phi[analytic vs direct]', 1)
    # ---- 9. the inbreeding path approaches the direct path as F -> 0 (observed on the implementation) ----
    for k in range(3 if q else 12):
        P = 1 + k % 3
        xxs = grids_for(P, rng.randint(4, {1: 12, 2: 7, 3: 5}[P]))
        phi = make_phi(rng, [len(x) for x in xxs], xxs)
        pl = [rng.choice([2, 3, 4]) for _ in range(P)]
        ns = [p * rng.randint(1, 2) for p in pl]
        F1 = rng.choice([0.1, 0.03, 0.01])
        F2 = F1 / 10

        def limit():
            try:
                s1 = Spectrum.from_phi_inbreeding(phi, ns, xxs, [F1] * P, pl, mask_corners=False)
                s2 = Spectrum.from_phi_inbreeding(phi, ns, xxs, [F2] * P, pl, mask_corners=False)
                t = Spectrum.from_phi(phi, ns, xxs, mask_corners=False, force_direct=True)
            except Exception as e:
                return {'raised': type(e).__name__}
            return {'s1': enc(s1), 's2': enc(s2), 't': enc(t)}
        add('inb_limit', {'phi': enc_phi(phi), 'grids': [rats(x) for x in xxs], 'ns': ns, 'ploidys': pl, 'F1': rat(F1), 'F2': rat(F2)},
            limit(), 'Spectrum.from_phi_inbreeding[F->0]', 5)
    boundary_records(ctx, add, base_in)
    reuse_records(ctx, add, base_in)
    alias_records(ctx, add, base_in)
    marginal_order_records(ctx, add, base_in)
    return balance(recs)


def boundary_records(ctx, add, base_in):
    """Deterministic coverage of the end points and named options of the property's domain (quantifier audit):
    sample sizes 1 and 40 in every argument position, two-point grids, every grid family, every end-point
    perturbation on every path, vertex / permutation / identity / float admixture matrices, F at both ends of [0,1),
    every ploidy, memory layouts and container types of the arguments, zero density, project to m = n and m = 1,
    marginalise every population."""
    from dadi import Numerics
    q = ctx.quick
    rng = random.Random(ctx.seed + 505)

    def grids(P, L, kind='uniform', perturb='', lens=None):
        if lens:
            return [make_grid(rng, l, kind, perturb) for l in lens]
        g = make_grid(rng, L, kind, perturb)
        return [g.copy() for _ in range(P)]

    def emit(path, ns, xxs, phi=None, mc=True, admix=(), het=0, layout=None, argform=None, tag=None, cost=30):
        P = len(ns)
        if phi is None:
            phi = make_phi(rng, [len(x) for x in xxs], xxs, rng.choice(['uniform', 'smooth', 'wide']))
        if layout == 'int':
            phi = np.round(phi * 3)
        phi_call = relayout(phi, layout)
        xxs_call = [regrid(x, layout) for x in xxs]
        inp = base_in(phi, ns, xxs, mc=mc, admix=admix, het=het, force=(path == 'direct' and het == 0))
        if layout:
            inp['layout'] = layout
        if argform:
            inp['argform'] = argform
        add('from_phi', inp, observe(lambda: call_from_phi(inp, phi_call, xxs_call)), site_of(P, tag or path), cost)

    def emit_inb(ns, pl, Fs, xxs, phi=None, mc=True, het=0, layout=None, argform=None, tag=None, cost=40):
        P = len(ns)
        if phi is None:
            phi = make_phi(rng, [len(x) for x in xxs], xxs, rng.choice(['uniform', 'smooth']))
        inp = base_in(phi, ns, xxs, mc=mc, het=het)
        inp.update({'Fs': rats(Fs), 'ploidys': list(pl)})
        if layout:
            inp['layout'] = layout
        if argform:
            inp['argform'] = argform
        phi_call = relayout(phi, layout)
        xxs_call = [regrid(x, layout) for x in xxs]
        add('from_phi_inbreeding', inp, observe(lambda: call_inbreeding(inp, phi_call, xxs_call)),
            tag or 'Spectrum.from_phi_inbreeding[%dD]' % P, cost)

    # -- sample sizes: 1 everywhere; 40 (the largest of the statement) in every argument position
    for P in (1, 2, 3, 4, 5):
        emit('analytic', [1] * P, grids(P, 3 if P > 3 else 4, 'default'), mc=False)
        if P < 5:
            emit('direct', [1] * P, grids(P, 3 if P > 3 else 4, 'default'), mc=True)
        positions = range(P) if not q else [(ctx.seed + P) % P]
        for a in (range(P) if P <= 2 else positions):
            ns = [1 + (j + a) % 2 for j in range(P)]
            ns[a] = 40
            # quick: grid points with short binary expansions in 3-5 D keep the exact arithmetic small
            kind40 = 'uniform' if (q and P >= 3) else 'default'
            emit('analytic', ns, grids(P, {1: 9, 2: 5, 3: 3 if q else 4, 4: 3, 5: 3}[P], kind40), mc=bool(a % 2), cost=400)
            if P <= 3:
                emit('direct', ns, grids(P, {1: 9, 2: 5, 3: 3}[P], lens=None if P == 1 else [3 + (j + a) % 2 for j in range(P)]), cost=300)
    emit('direct', [40], grids(1, 6, 'exp'), het=1, tag='het', cost=200)
    emit('admix', [40, 1], grids(2, 3), admix=((0.75, 0.25), (0.5, 0.5)), cost=300)
    emit('admix', [2, 40], grids(2, 3), admix=((0.75, 0.25), (0.5, 0.5)), cost=300)
    # -- grids: two points (the smallest grid), every grid family, different lengths per population
    for P in (1, 2, 3):
        emit('analytic', [3, 2, 1][:P], grids(P, 2), mc=False)
        emit('direct', [3, 2, 1][:P], grids(P, 2), het=P, tag='het')
    emit('admix', [2, 3], grids(2, 2), admix=((0.5, 0.5), (0.25, 0.75)))
    for kind, L in (('uniform', 7), ('default', 7), ('exp', 7), ('random', 7), ('quadratic', 21)):
        emit('analytic', [5], grids(1, L, kind))
        emit('direct', [4], grids(1, L, kind))
    emit('direct', [2, 4], grids(2, 0, lens=[3, 6]))
    emit('direct', [3, 1, 2], grids(3, 0, lens=[4, 2, 3]), het=3, tag='het')
    emit('direct', [1, 2, 1, 2], grids(4, 0, lens=[2, 3, 4, 3]), het=2, tag='het')
    emit('admix', [2, 1, 2], grids(3, 0, lens=[3, 4, 2]), admix=((0.5, 0.25, 0.25), (0.0, 1.0, 0.0), (0.125, 0.125, 0.75)))
    emit('admix', [1, 2, 1, 1], grids(4, 0, lens=[2, 3, 2, 3]), admix=((0.5, 0.0, 0.25, 0.25), (0.0, 1.0, 0.0, 0.0), (0.125, 0.125, 0.5, 0.25), (0.25, 0.25, 0.25, 0.25)), cost=200)
    # the analytic rule takes its own grid for every population after the second
    g2 = make_grid(rng, 4, 'default', '')
    emit('analytic', [2, 3, 4], [g2.copy(), g2.copy(), make_grid(rng, 6, 'exp', '')])
    emit('analytic', [2, 1, 3, 2], [g2.copy(), g2.copy(), make_grid(rng, 3, 'uniform', ''), make_grid(rng, 5, 'random', '')], cost=100)
    emit('analytic', [1, 2, 1, 2, 3], [g2.copy(), g2.copy(), make_grid(rng, 3, 'uniform', ''), make_grid(rng, 2, 'uniform', ''), make_grid(rng, 5, 'exp', '')], cost=200)
    # -- end points moved by ~1e-16, every variant on every path
    perts = ['lo-', 'lo+', 'hi+', 'hi-', 'both']
    for j, pert in enumerate(perts):
        emit('analytic', [6], grids(1, 5, 'default', pert), mc=False)
        emit('analytic', [3, 2], grids(2, 4, 'default', pert))
        emit('direct', [5], grids(1, 5, 'default', pert))
        emit('direct', [2, 3], grids(2, 4, 'uniform', pert), het=1 + j % 2, tag='het')
        emit('admix', [2, 2], grids(2, 3, 'default', pert), admix=((0.5, 0.5), (0.0, 1.0)))
        emit_inb([4], [2], [0.3], grids(1, 5, 'default', pert), het=j % 2)
        if not q or pert == 'both':
            emit('analytic', [2, 1, 2], grids(3, 3, 'default', pert))
            emit('analytic', [1, 2, 1, 2], grids(4, 3, 'default', pert), cost=100)
            emit('analytic', [1, 1, 2, 1, 1], grids(5, 3, 'default', pert), cost=200)
            emit('direct', [2, 1, 2], grids(3, 3, 'default', pert))
            emit('direct', [1, 1, 2, 1], grids(4, 3, 'default', pert), cost=100)
            emit('admix', [1, 2, 1], grids(3, 3, 'default', pert), admix=((0.5, 0.5, 0.0), (0.0, 0.5, 0.5), (0.25, 0.25, 0.5)))
            emit_inb([2, 3], [2, 3], [0.2, 0.6], grids(2, 4, 'default', pert))
            emit_inb([2, 2, 3], [2, 2, 3], [0.2, 0.6, 0.4], grids(3, 3, 'default', pert), cost=100)
    # -- admixture matrices: identity (floats / Python ints in lists), permutations, all rows on one vertex, rounded float rows
    for P in (2, 3, 4):
        L = {2: 4, 3: 3, 4: 3}[P]
        ns = [2, 1, 2, 1][:P]
        ident = tuple(tuple(1.0 if k == d else 0.0 for k in range(P)) for d in range(P))
        emit('admix', ns, grids(P, L, 'default'), admix=ident, argform='ints')
        emit('admix', ns, grids(P, L, 'default'), admix=tuple(ident[(d + 1) % P] for d in range(P)))          # cyclic permutation
        emit('admix', ns, grids(P, L, 'default'), admix=tuple(ident[P - 1] for d in range(P)), mc=False)        # everyone from the last population
        w = [[rng.random() for _ in range(P)] for _ in range(P)]
        rows = []
        for r in w:
            r = [v / sum(r) for v in r]
            r[0] = 1.0 - sum(r[1:])
            rows.append(tuple(r))
        emit('admix', ns, grids(P, L, 'default'), admix=tuple(rows))
    # -- memory layouts and container types of the arguments
    for layout in ('F', 'T', 'slice', 'int'):
        emit('analytic', [3, 2], grids(2, 4, 'default'), layout=layout)
        emit('direct', [2, 3], grids(2, 0, lens=[3, 4]), layout=layout, het=2 if layout == 'T' else 0, tag='het' if layout == 'T' else None)
        emit('analytic', [2, 1, 2], grids(3, 3, 'default'), layout=layout)
        if layout != 'int':
            emit('admix', [2, 1, 2], grids(3, 0, lens=[3, 2, 4]), layout=layout, admix=((0.5, 0.5, 0.0), (0.0, 0.5, 0.5), (0.25, 0.25, 0.5)))
            emit_inb([2, 3], [2, 3], [0.3, 0.5], grids(2, 0, lens=[3, 4]), layout=layout)
        if not q:
            emit('analytic', [1, 2, 1, 2], grids(4, 3, 'default'), layout=layout, cost=100)
            emit('analytic', [1, 1, 2, 1, 2], grids(5, 3, 'default'), layout=layout, cost=200)
            emit('direct', [1, 2, 1, 2], grids(4, 3, 'default'), layout=layout, cost=100)
    emit('analytic', [4], grids(1, 5, 'default'), layout='slice')
    emit('direct', [4], grids(1, 5, 'default'), layout='slice', het=1, tag='het')
    for form in ('tuple', 'array'):
        emit('analytic', [2, 3], grids(2, 4), argform=form)
        emit('direct', [2, 3, 1], grids(3, 3), argform=form)
        emit_inb([4, 3], [2, 3], [0.25, 0.5], grids(2, 3), argform=form)
    # -- the zero density, and a density concentrated on one face
    emit('analytic', [3, 2], grids(2, 4), phi=np.zeros((4, 4)))
    emit('direct', [3], grids(1, 4), phi=np.zeros(4))
    face = np.zeros((4, 4)); face[0, :] = [1.0, 2.0, 0.5, 0.25]
    emit('analytic', [3, 3], grids(2, 4, 'default'), phi=face, mc=False)
    emit('direct', [3, 3], grids(2, 4, 'default'), phi=face.T.copy(), mc=False)
    # -- inbreeding: F at both ends of [0,1) and in between, every ploidy, one individual, n = 40, distinct ploidy / F per population
    for F in (1e-3, 0.5, 0.999, 1 - 1e-12, float(np.nextafter(1.0, 0.0))):
        emit_inb([4], [2], [F], grids(1, 5, 'default'), mc=False)
        emit_inb([3, 2], [3, 2], [F, 0.4], grids(2, 3, 'default'))
    for p in range(2, 9):
        emit_inb([p], [p], [0.35], grids(1, 4, 'default'), het=p % 2)          # one individual
        if not q:
            emit_inb([2, p], [2, p], [0.6, 0.2], grids(2, 3, 'default'))
    emit_inb([40], [2], [0.3125 if q else 0.3], grids(1, 3 if q else 4, 'uniform' if q else 'default'), cost=600)
    emit_inb([40], [8], [0.625 if q else 0.6], grids(1, 3 if q else 4, 'uniform' if q else 'default'), cost=300)
    if not q:
        emit_inb([40], [5], [0.1], grids(1, 4, 'default'), cost=400)
        emit_inb([40, 2], [4, 2], [0.2, 0.7], grids(2, 3, 'default'), cost=600)
        emit_inb([2, 40], [2, 4], [0.2, 0.7], grids(2, 3, 'default'), cost=600)
    emit_inb([4, 6], [2, 3], [0.15, 0.7], grids(2, 0, lens=[3, 5]), het=2)
    emit_inb([2, 3, 4], [2, 3, 4], [0.1, 0.5, 0.8], grids(3, 0, lens=[3, 2, 4]), het=3, cost=100)
    emit_inb([2, 2, 2, 2], [2, 2, 2, 2], [0.1, 0.5, 0.8, 0.3], grids(4, 2), cost=1)      # only 1-3 populations are provided for
    emit_inb([4], [2], [0.0], grids(1, 4), tag='Spectrum.from_phi_inbreeding[F=0]')
    emit_inb([2, 4, 3], [2, 4, 3], [0.0, 0.0, 0.0], grids(3, 3), het=2, tag='Spectrum.from_phi_inbreeding[F=0]')
    # -- BetaBinomConvolution at the parameters the sampling code uses at the end points of the grid, float / int counts
    for p, m, F in ((2, 3, 0.3), (8, 1, 0.9), (3, 2.0, 1e-3)):
        c = (1.0 - F) / F
        for alpha, beta in ((1.0e-20 * c, (1.0 - 1.0e-20) * c), ((1.0 - 1.0e-20) * c, 1.0e-20 * c)):
            try:
                out = {'row': rats([Numerics.BetaBinomConvolution(i, m, alpha, beta, ploidy=p) for i in range(int(m) * p + 1)])}
            except Exception as e:
                out = {'raised': type(e).__name__}
            add('betabinom', {'m': int(m), 'ploidy': p, 'alpha': rat(alpha), 'beta': rat(beta)}, out, 'Numerics.BetaBinomConvolution', 10)
    # -- sample then project to m = n (nothing to do) and to m = 1; marginalise every population in turn
    for kind in ('analytic', 'direct', 'admix'):
        P = 2 if kind == 'admix' else 3
        xxs = grids(P, 3, 'default')
        phi = make_phi(rng, [3] * P, xxs, 'uniform')
        ns = [3, 2, 4][:P]
        A = ((0.75, 0.25), (0.5, 0.5)) if kind == 'admix' else ()
        for ms in (list(ns), [1] * P):
            inp = base_in(phi, ns, xxs, mc=False, admix=A, force=(kind == 'direct'))
            inp.update({'kind': kind, 'ms': ms, 'Fs': ['0'] * P, 'ploidys': [1] * P})
            add('sample_project', inp, observe(lambda: call_from_phi(inp, phi, xxs).project(ms)), 'Spectrum.from_phi[%s]+project' % kind, 30)
        if kind != 'admix':
            for a in range(P):
                inp = base_in(phi, ns, xxs, mc=False, force=(kind == 'direct'))
                inp.update({'kind': kind, 'ms': ns, 'over': a + 1, 'Fs': ['0'] * P, 'ploidys': [1] * P})
                add('sample_marginalize', inp, observe(lambda: call_from_phi(inp, phi, xxs).marginalize([a], mask_corners=False)),
                    'Spectrum.from_phi[%s]+marginalize' % kind, 30)
    xxs = grids(3, 3, 'default')
    phi = make_phi(rng, [3] * 3, xxs, 'uniform')
    for a in range(3):
        inp = base_in(phi, [2, 3, 4], xxs, mc=False)
        inp.update({'kind': 'inbreeding', 'ms': [2, 3, 4], 'over': a + 1, 'Fs': rats([0.2, 0.5, 0.7]), 'ploidys': [2, 3, 2]})
        add('sample_marginalize', inp, observe(lambda: call_inbreeding(inp, phi, xxs).marginalize([a], mask_corners=False)),
            'Spectrum.from_phi[inbreeding]+marginalize', 60)


REUSED = 'arguments reused'


def reuse_records(ctx, add, base_in):
    """State / aliasing (deterministic, both tiers): sampling is a function of the VALUES of its arguments.  For every
    sampling path (analytic 1-5 D, force_direct 1-5 D, het_ascertained for every population 1-4 D, admix_props 2-4 D with
    force_direct on and off, inbreeding 1-3 D with and without ascertainment, the F = 0 shortcut) ONE density object, one
    grid container and one set of option containers is used for three calls in a row: sample sizes ns, ns again, then
    different sizes ms.  Every call is a record judged by the ordinary clauses against the density AS THE CALLER WROTE
    IT, and carries bit-exact encodings of all argument objects before the first and after this call (clause
    ArgumentsUnchangedBySampling[<argument>])."""
    rng = random.Random(ctx.seed + 1505)
    turn = itertools.count()

    def series(path, ns, ms, lens, het=0, admix=(), force=False, inb=None, kind='default', cost=30, tag=None):
        P = len(ns)
        k = next(turn)
        g = {}
        xxs = [g.setdefault(L, make_grid(rng, L, kind if L > 2 else 'uniform', '')) for L in lens]   # equal lengths: one grid OBJECT
        phi = make_phi(rng, [len(x) for x in xxs], xxs, ('uniform', 'smooth', 'wide', 'neutral')[k % 4])
        op = 'from_phi_inbreeding' if inb else 'from_phi'
        site = tag or ('Spectrum.from_phi_inbreeding[%dD,%s]' % (P, REUSED) if inb else site_of(P, path + ',' + REUSED))
        prior = []
        for nth, sizes in enumerate((ns, ns, ms), 1):
            inp = base_in(phi, sizes, xxs, mc=bool((k + nth) % 2), admix=admix, het=het, force=force)
            if inb:
                inp.update({'Fs': rats(inb[0]), 'ploidys': list(inb[1])})
            inp.update({'nth': nth, 'prior': [list(z) for z in prior]})
            for key, val in (('argform', (None, 'tuple', 'array')[k % 3]), ('layout', (None, 'F', None, 'slice', 'T')[k % 5])):
                if val:
                    inp[key] = val
            add(op, inp, run_reused(op, inp, phi, xxs), site, cost * (1 if nth < 3 else 0.5))
            prior.append(sizes)
    NS = {1: ([5], [3]), 2: ([3, 2], [2, 4]), 3: ([2, 1, 2], [1, 2, 1]), 4: ([1, 2, 1, 2], [2, 1, 1, 1]), 5: ([1, 1, 2, 1, 2], [2, 1, 1, 1, 1])}
    LEN = {1: [6], 2: [4, 4], 3: [3, 3, 4], 4: [3, 3, 2, 3], 5: [3, 3, 2, 3, 3]}
    COST = {1: 20, 2: 30, 3: 40, 4: 100, 5: 250}
    for P in (1, 2, 3, 4, 5):
        series('analytic', NS[P][0], NS[P][1], LEN[P], cost=COST[P])
        # force_direct (five populations: no direct rule exists, a refusal is accepted - the arguments still stay as they were)
        series('direct', NS[P][0], NS[P][1], LEN[P] if P < 5 else [2] * 5, force=True, cost=COST[P] if P < 5 else 1)
    series('analytic', [1, 2, 1, 1, 2], [1, 1, 1, 1, 3], [4, 4, 2, 2, 3], kind='uniform', cost=300)     # 5-D, the last axis the longest but one
    for P in (1, 2, 3, 4):
        for het in range(1, min(P, 3) + 1):       # every ascertainment population; force_direct on and off
            series('het', NS[P][0], NS[P][1], LEN[P][::-1], het=het, force=bool((P + het) % 2), cost=COST[P])
    for P in (2, 3, 4):
        for force in (False, True):
            A = make_admix(rng, P, 'dyadic' if force else 'float')
            series('admix', [2, 1, 2, 1][:P], [1, 2, 1, 2][:P], [3, 4, 3, 2][:P] if force else [3] * P, admix=A, force=force, cost=COST[P] * 2)
    for P in (1, 2, 3):
        pl = [2, 3, 2][:P]
        for het in (0, P):
            Fs = [rng.choice([0.1, 0.25, 0.5, 0.7]) for _ in range(P)]
            series('inbreeding', [p * (2 if a == 0 else 1) for a, p in enumerate(pl)], [p * (1 if a == 0 else 2) for a, p in enumerate(pl)],
                   LEN[P], het=het, inb=(Fs, pl), cost=COST[P] * 2)
    series('inbreeding', [4, 2], [2, 4], [4, 3], inb=([0.0, 0.0], [2, 2]), tag='Spectrum.from_phi_inbreeding[F=0,%s]' % REUSED)


ALIASED = 'one grid object for several axes'


def alias_records(ctx, add, base_in):
    """Aliasing between arguments (deterministic, both tiers): the SAME grid object is passed for several axes
    (xxs = (xx, xx), (xx, xx, xx), (xx, yy, xx) ...) together with EQUAL sample sizes (ploidies) on those axes, on every
    sampling path in 2-5 D: analytic, force_direct, het_ascertained for every population with force_direct on and off,
    admix_props with force_direct on and off, inbreeding with every ascertainment choice.  in.alias[a] names the axis
    whose grid object axis a shares (call_from_phi / call_inbreeding build the argument list from it, also on replay).
    Judged by the ordinary clauses of the path: sampling is a function of the values of its arguments."""
    rng = random.Random(ctx.seed + 1506)
    turn = itertools.count()

    def setup(P, alias, L, n, analytic=False):
        k = next(turn)
        kind = ('default', 'uniform', 'exp', 'random')[k % 4] if P < 4 else 'uniform'
        g0 = make_grid(rng, L, kind, '')
        xxs = []
        for a in range(P):
            if alias[a] != a:
                xxs.append(xxs[alias[a]])
            elif a == 1 and analytic:
                xxs.append(g0.copy())          # the analytic rule needs equal values for the first two populations
            else:
                xxs.append(g0 if a == 0 else make_grid(rng, L, ('uniform', 'default')[(k + a) % 2], ''))
        # equal sizes on axes that share a grid object; an axis with a grid of its own gets another size
        ns = [n if alias[a] == 0 else n + 1 + (a + k) % 2 for a in range(P)]
        phi = make_phi(rng, [len(x) for x in xxs], xxs, ('uniform', 'smooth', 'wide')[k % 3])
        return k, xxs, ns, phi

    def emit(path, P, alias, L, n, het=0, force=False, admix=None, cost=30):
        k, xxs, ns, phi = setup(P, alias, L, n, analytic=(path == 'analytic'))
        A = make_admix(rng, P, 'dyadic') if admix else ()
        inp = base_in(phi, ns, xxs, mc=bool(k % 2), admix=A, het=het, force=force)
        inp['alias'] = list(alias)
        if k % 3 == 1:
            inp['argform'] = 'tuple'
        add('from_phi', inp, observe(lambda: call_from_phi(inp, phi, xxs)), site_of(P, path + ',' + ALIASED), cost)

    def emit_inb(P, alias, L, het=0, sameF=True, cost=60):
        k, xxs, ns, phi = setup(P, alias, L, 2)
        pl = [2 if alias[a] == 0 else 3 for a in range(P)]
        ns = [p * (2 if alias[a] == 0 else 1) for a, p in enumerate(pl)]
        F0 = rng.choice([0.125, 0.25, 0.5])
        Fs = [F0 if (sameF and alias[a] == 0) else rng.choice([0.1, 0.3, 0.7]) for a in range(P)]
        inp = base_in(phi, ns, xxs, mc=bool(k % 2), het=het)
        inp.update({'Fs': rats(Fs), 'ploidys': pl, 'alias': list(alias)})
        if k % 3 == 1:
            inp['argform'] = 'tuple'
        add('from_phi_inbreeding', inp, observe(lambda: call_inbreeding(inp, phi, xxs)),
            'Spectrum.from_phi_inbreeding[%dD,%s]' % (P, ALIASED), cost)

    SIZE = {2: (4, 3), 3: (3, 2), 4: (3, 1), 5: (3, 1)}          # grid points, sample size on the aliased axes
    COST = {2: 30, 3: 40, 4: 100, 5: 250}
    PATTERNS = {2: [[0, 0]], 3: [[0, 0, 0], [0, 1, 0], [0, 0, 2]], 4: [[0, 0, 0, 0], [0, 1, 0, 1]], 5: [[0, 0, 0, 0, 0], [0, 0, 2, 0, 0]]}
    for P in (2, 3, 4, 5):
        L, n = SIZE[P]
        for pi, alias in enumerate(PATTERNS[P]):
            whole = pi == 0
            if alias[1] == 0 or P == 2:
                emit('analytic', P, alias, L, n, cost=COST[P])
            if P == 5:
                continue                       # five populations: only the analytic rule exists
            emit('direct', P, alias, L, n, force=True, cost=COST[P])
            for het in range(1, min(P, 3) + 1):
                for force in ((False, True) if whole else (bool((het + pi) % 2),)):
                    emit('het', P, alias, L, n, het=het, force=force, cost=COST[P])
            for force in ((False, True) if whole else (bool(pi % 2),)):
                emit('admix', P, alias, L, min(n, 2), force=force, admix=True, cost=COST[P] * 2)
            if P <= 3:
                for het in range(0, P + 1):
                    if whole or het in (0, 1 + [a for a in range(P) if alias[a] == 0 and a > 0][0]):
                        emit_inb(P, alias, L, het=het, sameF=bool(het % 2 == 0), cost=COST[P] * 2)


def call_marginalize_many(inp, phi, xxs):
    """sample, then marginalize the populations in.overs (1-based, IN THE ORDER LISTED, in the container in.overform)."""
    call = call_inbreeding if inp['kind'] == 'inbreeding' else call_from_phi
    axes = [a - 1 for a in inp['overs']]
    form = inp.get('overform')
    over = tuple(axes) if form == 'tuple' else np.array(axes) if form == 'array' else list(axes)
    return call(inp, phi, xxs).marginalize(over, mask_corners=False)


def marginal_order_records(ctx, add, base_in):
    """Marginalising SEVERAL populations after sampling equals sampling the density with those populations integrated
    out, whatever the order in which the caller lists them (deterministic, both tiers, 3-5 populations): every set of
    populations is listed ascending, descending and rotated, as list / tuple / ndarray."""
    rng = random.Random(ctx.seed + 1705)
    turn = itertools.count()
    plans = [('analytic', 3, [2, 1, 3], [3, 3, 4], [{1, 2}, {1, 3}, {2, 3}]),
             ('direct', 3, [1, 3, 2], [4, 3, 3], [{1, 2}, {2, 3}]),
             ('inbreeding', 3, [2, 3, 4], [3, 3, 3], [{1, 3}, {1, 2}]),
             ('analytic', 4, [1, 2, 1, 2], [3, 3, 2, 3], [{1, 2}, {2, 4}, {1, 2, 3}, {1, 3, 4}]),
             ('direct', 4, [2, 1, 1, 2], [3, 2, 3, 3], [{1, 4}, {2, 3, 4}]),
             ('analytic', 5, [1, 1, 2, 1, 2], [3, 3, 2, 3, 2], [{1, 2}, {4, 5}, {1, 3, 5}, {1, 2, 3, 4}, {2, 3, 4, 5}])]
    for kind, P, ns, lens, sets in plans:
        g = {}
        xxs = [g.setdefault(L, make_grid(rng, L, 'default' if L > 2 else 'uniform', '')) for L in lens]
        phi = make_phi(rng, lens, xxs, 'uniform')
        for S in sets:
            asc = sorted(S)
            orders = [asc, asc[::-1], asc[1:] + asc[:1]]
            if len(asc) >= 3:
                orders.append([asc[1], asc[0]] + asc[2:])          # neither monotone nor a rotation
            for overs in orders:
                k = next(turn)
                inp = base_in(phi, ns, xxs, mc=False, force=(kind == 'direct'))
                inp.update({'kind': kind, 'ms': ns, 'overs': overs, 'Fs': rats([0.2, 0.5, 0.7][:P]) if kind == 'inbreeding' else ['0'] * P,
                            'ploidys': [2, 3, 2][:P] if kind == 'inbreeding' else [1] * P})
                form = (None, 'tuple', 'array')[k % 3]
                if form:
                    inp['overform'] = form
                left = [n + 1 for a, n in enumerate(ns, 1) if a not in S]
                add('sample_marginalize', inp, observe(lambda: call_marginalize_many(inp, phi, xxs)),
                    'Spectrum.from_phi[%s]+marginalize[%dD, several populations]' % (kind, P), 20 + 10 * int(np.prod(left)) * len(phi.ravel()) // 50)


def balance(recs, bins=8):
    """Order the records so that the pipeline's contiguous batches carry similar estimated work."""
    order = sorted(range(len(recs)), key=lambda j: -float(recs[j]['_cost']))
    out = []
    for b in range(bins):
        # cheapest first inside a batch: the pipeline's binding demonstration mutates the first records of every operation
        out.extend(recs[j] for j in reversed(order[b::bins]))
    for r in out:
        r.pop('_cost', None)
    return out


# ----------------------------------------------------------------------------
def nontrivial(r):
    i = r['in']
    if r['op'] == 'betabinom':
        return ('bb', i['m'], i['ploidy'], i['alpha'], i['beta'])
    if r['op'] in ('linear', 'refine', 'inb_limit'):
        return (r['op'], r['site'], str(i.get('ns', i.get('n'))), str(i.get('sh', i.get('L', i.get('F1')))))
    if 'raised' in r['out']:
        return (r['op'], r['site'], 'raised')
    perturbed = any(g[0] != '0' or g[-1] != '1' for g in i['grids'])
    return (r['op'], r['site'], tuple(i['ns']), tuple(i['phi']['sh']), i['het'], bool(i['admix']), perturbed,
            tuple(i.get('ploidys', ())) if r['op'] == 'from_phi_inbreeding' else (), i.get('nth'),
            tuple(i.get('alias', ())))


_mut_turn = itertools.count()


def mutate_args(rec):
    import math
    cand = [e for e in rec['out']['args']['after'] if e['v']]
    t = next(_mut_turn)
    e = cand[t % len(cand)]
    j = t % len(e['v'])
    try:
        e['v'][j] = str(int(e['v'][j]) - 1)
    except ValueError:
        try:
            e['v'][j] = math.nextafter(float.fromhex(e['v'][j]), math.inf).hex()
        except ValueError:
            e['v'][j] = e['v'][j] + '*'          # an item descriptor of a container
    return rec


def mutate(rec):
    """Corrupt one observed value by a relative 1e-6 (far above the tolerance, far below anything a plot would show)."""
    from fractions import Fraction
    out = rec['out']
    if 'args' in out:
        # reuse block: the state clause is demonstrated on the cheapest record of every series (one element of one
        # argument differs after the call by one unit in the last place / by 1); the value clauses of the same
        # operations are demonstrated on the records of the other blocks
        return mutate_args(rec) if rec['in']['nth'] == 3 else None
    if 'raised' in out:
        return None
    bump = Fraction(1000001, 1000000)

    def bump_max(d):
        cand = [k for k in range(len(d)) if d[k] not in ('nan', 'inf', '-inf')]
        if not cand:
            return False
        k = max(cand, key=lambda j: abs(Fraction(d[j])))
        if Fraction(d[k]) == 0:
            return False
        d[k] = rat(Fraction(d[k]) * bump)
        return True
    if rec['op'] == 'betabinom':
        return rec if bump_max(out['row']) else None
    if rec['op'] == 'linear':
        return rec if bump_max(out['s12']['d']) else None
    if rec['op'] == 'inb_limit':      # the smaller F must be the closer one
        out['s1'], out['s2'] = out['s2'], out['s1']
        return rec
    if rec['op'] == 'refine':
        out['a2'], out['d2'] = list(out['a1']), list(out['d1'])
        return rec
    # from_phi-type records: relative 1e-6 on the largest entry plus 1e-7 of the density scale (an output that is
    # zero in the specification is judged against an absolute floor of 1e-13 of the density's mass)
    d = out['s']['d']
    cand = [k for k in range(len(d)) if d[k] not in ('nan', 'inf', '-inf')]
    if not cand or 'phi' not in rec['in']:
        return None
    k = max(cand, key=lambda j: abs(Fraction(d[j])))
    scale = max(abs(Fraction(v)) for v in rec['in']['phi']['d'])
    if scale == 0:
        return None
    d[k] = rat(Fraction(d[k]) * bump + scale / 10 ** 7)
    return rec


def what_of(rec, clause):
    """Description only (the verdict is TLC's)."""
    i = rec['in']
    txt = 'record %s (%s): clause %s violated' % (rec['id'], rec.get('site', rec['op']), clause)
    if 'alias' in i:
        txt += '; the SAME grid object is passed for the axes %s (in.alias = %s), ns=%s, het_ascertained=%s, force_direct=%s%s' % (
            [a for a in range(len(i['alias'])) if i['alias'].count(i['alias'][a]) > 1], i['alias'], i['ns'], HET[i['het']], i['force'],
            ', admix_props' if i['admix'] else '')
    if 'overs' in i:
        return txt + '; from_phi(ns=%s).marginalize(%s as %s) on a density of shape %s' % (i['ns'], [a - 1 for a in i['overs']], i.get('overform', 'list'), i['phi']['sh'])
    if 'nth' not in i:
        return txt
    calls = ', then '.join('ns=%s' % z for z in list(i['prior']) + [i['ns']])
    txt += '; call no. %d on the SAME density / grid / option objects (%s; density shape %s%s%s), judged against the density as the caller wrote it' % (
        i['nth'], calls, i['phi']['sh'], ', containers: %s' % i['argform'] if 'argform' in i else '', ', layout %s' % i['layout'] if 'layout' in i else '')
    if clause.startswith('ArgumentsUnchangedBySampling'):
        a = rec['out'].get('args', {})
        for b, c in zip(a.get('before', []), a.get('after', [])):
            if b != c:
                d = [k for k in range(min(len(b['v']), len(c['v']))) if b['v'][k] != c['v'][k]]
                txt += '; %s %s(%s) %s' % (b['name'], b['kind'], b['dtype'],
                                           '%d of %d elements changed, e.g. [%d] was %s, is %s' % (len(d), len(b['v']), d[0], float.fromhex(b['v'][d[0]]) if 'x' in b['v'][d[0]] else b['v'][d[0]],
                                                                                               float.fromhex(c['v'][d[0]]) if 'x' in c['v'][d[0]] else c['v'][d[0]])
                                           if d else 'type / shape changed')
    return txt


def rerun(rec):
    """Re-execute a replayed from_phi / from_phi_inbreeding record on the current tree."""
    inp = rec['in']
    phi, xxs = from_record(inp)
    if 'nth' in inp:
        return dict(rec, out=run_reused(rec['op'], inp, phi, xxs))
    if rec['op'] == 'sample_marginalize' and 'overs' in inp:
        return dict(rec, out=observe(lambda: call_marginalize_many(inp, phi, xxs)))
    if rec['op'] == 'from_phi':
        rec = dict(rec, out=observe(lambda: call_from_phi(inp, phi, xxs)))
    elif rec['op'] == 'from_phi_inbreeding':
        rec = dict(rec, out=observe(lambda: call_inbreeding(inp, phi, xxs)))
    return rec


def run(ctx):
    if ctx.replay:
        recs = [rerun(ctx.replay_payload['payload']['record'])]
        ctx.no_mc = True
    else:
        recs = records(ctx)
    return common.pipeline(
        ctx, [('SamplingMC', 'SamplingMC_%s.cfg' % ctx.tier)], 'Trace_Sampling', recs,
        nontrivial_of=nontrivial, mutator=mutate, what_of=what_of, timeout=3000,
        rule='from_phi / from_phi_inbreeding: random non-negative densities (uniform, sparse, wide-range, 1/x-like, smooth) in 1-5 D on '
             'uniform / default (exponential) / other exponential / random grids, end points exact or moved by ~1e-16; distinct by '
             '(operation, path and dimension, sample sizes, grid shape, ascertainment, admixture, perturbed grid, ploidies); '
             'BetaBinomConvolution: whole rows, distinct by (individuals, ploidy, alpha, beta); plus linearity, project/marginalize-after-sample '
             'and analytic-vs-direct refinement records; reuse block (sites "...,arguments reused"): every path (analytic / force_direct 1-5 D, '
             'het_ascertained per population 1-4 D, admix_props 2-4 D, inbreeding 1-3 D, F = 0) called three times on ONE density / grid / option '
             'object set (ns, ns again, other sizes), each call judged against the density as written plus bit-exact before / after encodings of '
             'all argument objects (clause ArgumentsUnchangedBySampling[argument]); aliasing block (sites "...,one grid object for several '
             'axes"): every path in 2-5 D with the SAME grid object passed for several / all axes and equal sample sizes on those axes '
             '(analytic, force_direct, every het_ascertained choice with force_direct on and off, admix_props, inbreeding)',
        assumptions=['BigInteger rational arithmetic of the Rat and Sampling overrides (self-tested against the TLA+ definitions)',
                     'tolerance 1e-10 (inbreeding path, evaluated through lgamma/exp: 1e-9) relative to the largest exact entry of the output',
                     'grids whose end points overshoot [0,1] by ~1e-16 denote the grid with the end points at 0 and 1',
                     'inbreeding coefficients sampled in [1e-3, 1) and exactly 0; below 1e-3 the float evaluation of the beta-binomial '
                     'through lgamma loses more than the 1e-9 tolerance and is not judged',
                     'a refusal (exception) is accepted where dadi documents one: admix_props with het_ascertained, unequal grids for the '
                     'first two populations on the analytic path, options other than the default in 5-D, sample size not a multiple of the ploidy'])
