CONSTANTS
  Cases <- CasesThorough
SPECIFICATION Spec
CHECK_DEADLOCK FALSE
INVARIANT TypeOK
INVARIANT L_HatMass
INVARIANT L_HatProject
INVARIANT L_HatIsInterpolant
INVARIANT L_HatPartition
INVARIANT L_AnalyticSeparable
INVARIANT L_AnalyticMass
INVARIANT L_AnalyticProject
INVARIANT L_AnalyticMarg
INVARIANT L_AnalyticLinear
INVARIANT L_DirectSeparable
INVARIANT L_DirectIdentityAdmix
INVARIANT L_DirectMass
INVARIANT L_DirectProject
INVARIANT L_DirectMarg
INVARIANT L_DirectLinear
INVARIANT L_ProbSum
INVARIANT L_AdmixProbSum
INVARIANT L_InbreedingMass
INVARIANT L_InbreedingZero
INVARIANT L_InbreedingLimit
INVARIANT L_InbreedingLinear
INVARIANT L_BetaBinomConv
