------------------------------- MODULE Rat -------------------------------
(***************************************************************************)
(* Exact rational numbers for numeric specifications.                      *)
(*                                                                         *)
(* A rational is a canonical string "n/d" (gcd-reduced, d > 0, written "n" *)
(* when d = 1), so TLA+ equality, set membership and function application  *)
(* work on rationals unchanged.  The operators below are DEFINED in TLA+   *)
(* over <<n,d>> pairs of integers (the *Def operators) and lifted to       *)
(* strings through the two primitive conversions RFromPair / RToPair.      *)
(* TLC evaluates them through the Java class Rat (same name, on the        *)
(* classpath), which uses BigInteger and therefore is not limited to       *)
(* 32-bit integers.  RatSelfTest.tla checks override = definition on a     *)
(* lattice.                                                                *)
(***************************************************************************)
EXTENDS Integers, Sequences

LOCAL Abs(i) == IF i < 0 THEN -i ELSE i
RECURSIVE GCD(_, _)
GCD(a, b) == IF b = 0 THEN Abs(a) ELSE GCD(b, a % b)

\* ---- definitions over pairs <<n, d>>, d # 0 ----
NormDef(p)   == LET s == IF p[2] < 0 THEN -1 ELSE 1
                    g == GCD(Abs(p[1]), Abs(p[2]))
                IN  IF p[1] = 0 THEN <<0, 1>> ELSE <<(s * p[1]) \div g, (s * p[2]) \div g>>
AddDef(p, q) == NormDef(<<p[1] * q[2] + q[1] * p[2], p[2] * q[2]>>)
NegDef(p)    == NormDef(<<-p[1], p[2]>>)
SubDef(p, q) == AddDef(p, NegDef(q))
MulDef(p, q) == NormDef(<<p[1] * q[1], p[2] * q[2]>>)
DivDef(p, q) == NormDef(<<p[1] * q[2], p[2] * q[1]>>)
AbsDef(p)    == NormDef(<<Abs(p[1]), Abs(p[2])>>)
LeqDef(p, q) == LET a == NormDef(p) b == NormDef(q) IN a[1] * b[2] <= b[1] * a[2]
LtDef(p, q)  == LET a == NormDef(p) b == NormDef(q) IN a[1] * b[2] < b[1] * a[2]
SignDef(p)   == LET a == NormDef(p) IN IF a[1] > 0 THEN 1 ELSE IF a[1] < 0 THEN -1 ELSE 0

\* ---- primitive conversions (evaluated by the Java override only) ----
RFromPair(p) == CHOOSE s \in STRING : TRUE    \* canonical string of NormDef(p)
RToPair(a)   == CHOOSE p \in Int \X Int : RFromPair(p) = a /\ NormDef(p) = p

\* ---- operators on rationals ----
RAdd(a, b) == RFromPair(AddDef(RToPair(a), RToPair(b)))
RSub(a, b) == RFromPair(SubDef(RToPair(a), RToPair(b)))
RMul(a, b) == RFromPair(MulDef(RToPair(a), RToPair(b)))
RDiv(a, b) == RFromPair(DivDef(RToPair(a), RToPair(b)))
RNeg(a)    == RFromPair(NegDef(RToPair(a)))
RAbs(a)    == RFromPair(AbsDef(RToPair(a)))
RLeq(a, b) == LeqDef(RToPair(a), RToPair(b))
RLt(a, b)  == LtDef(RToPair(a), RToPair(b))
REq(a, b)  == RLeq(a, b) /\ RLeq(b, a)
RMin(a, b) == IF RLeq(a, b) THEN a ELSE b
RMax(a, b) == IF RLeq(b, a) THEN a ELSE b
RSign(a)   == SignDef(RToPair(a))
RInt(i)    == RFromPair(<<i, 1>>)
RNorm(a)   == RFromPair(NormDef(RToPair(a)))      \* canonicalise a string such as "2/4" or an Int
RIsInt(a)  == RToPair(a)[2] = 1
RFloor(a)  == LET p == RToPair(a) IN
              IF p[1] >= 0 THEN p[1] \div p[2] ELSE -((-p[1] + p[2] - 1) \div p[2])
RECURSIVE RPow(_, _)
RPow(a, k) == IF k = 0 THEN "1" ELSE IF k > 0 THEN RMul(a, RPow(a, k - 1)) ELSE RDiv("1", RPow(a, -k))
\* sum of the values of a function with finite domain (in particular a sequence)
RSum(f)    == LET RECURSIVE go(_)
                  go(D) == IF D = {} THEN "0" ELSE LET x == CHOOSE y \in D : TRUE IN RAdd(f[x], go(D \ {x}))
              IN go(DOMAIN f)
RDot(s, t) == RSum([i \in DOMAIN s |-> RMul(s[i], t[i])])
\* binomial coefficient C(n,k) as a rational (0 outside 0 <= k <= n)
RECURSIVE RBinom(_, _)
RBinom(n, k) == IF k < 0 \/ k > n \/ n < 0 THEN "0" ELSE IF k = 0 THEN "1"
                ELSE RDiv(RMul(RBinom(n, k - 1), RInt(n - k + 1)), RInt(k))
RShow(a)   == a                                    \* decimal rendering for messages (override only)

\* ---- derived, pure TLA+ ----
RGeq(a, b) == RLeq(b, a)
RGt(a, b)  == RLt(b, a)
RIsZero(a) == RSign(a) = 0
RNonNeg(a) == RSign(a) >= 0
RPos(a)    == RSign(a) > 0
RSq(a)     == RMul(a, a)
RHalf(a)   == RDiv(a, "2")
\* |a - b| <= tol * scale
RClose(a, b, tol, scale) == RLeq(RAbs(RSub(a, b)), RMul(tol, scale))
\* the identity on functions and sequences; the Java override returns the explicitly evaluated value (TLC keeps
\* [x \in S |-> e] as a lazy closure and re-evaluates e at every application): use it to tabulate once
RForce(f) == f
\* tokens a recorder may write for non-finite floats
IsNum(a)   == a \notin {"nan", "inf", "-inf"}
\* |got - exact| <= tau * |exact| + floor   (got must be a finite number)
RCloseRel(got, exact, tau, floor) == IsNum(got) /\ RLeq(RAbs(RSub(got, exact)), RAdd(RMul(tau, RAbs(exact)), floor))
RSeqSum(s)    == RSum(s)
RSeqMaxAbs(s) == LET RECURSIVE go(_, _)
                     go(i, m) == IF i > Len(s) THEN m ELSE go(i + 1, RMax(m, RAbs(s[i])))
                 IN go(1, "0")
RScaleSeq(c, s) == [i \in DOMAIN s |-> RMul(c, s[i])]
RAddSeq(s, t)   == [i \in DOMAIN s |-> RAdd(s[i], t[i])]
RSubSeq(s, t)   == [i \in DOMAIN s |-> RSub(s[i], t[i])]
=============================================================================
