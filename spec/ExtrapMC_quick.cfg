CONSTANTS
  XSet <- XFive
  LatticeK = 1
  FailMags = {1, 10}
SPECIFICATION Spec
CHECK_DEADLOCK FALSE
INVARIANT TypeOK
INVARIANT L_Exact
INVARIANT L_Moments
INVARIANT L_Order
INVARIANT L_ClosedForms
INVARIANT L_DegreeKNotExact
INVARIANT L_Fallback
INVARIANT L_FallbackHappens
INVARIANT L_SingleGrid
INVARIANT L_NoExtrap
INVARIANT L_Range
INVARIANT L_InRange
INVARIANT L_MissingX
INVARIANT L_Labels
INVARIANT L_EvalOrder
