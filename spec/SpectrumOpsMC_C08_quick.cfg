CONSTANTS
  MaxDepth = 1
  Shapes <- ShapesQuick
  FullMaskSize = 4
SPECIFICATION Spec
CHECK_DEADLOCK FALSE
INVARIANT TypeOK
INVARIANT L_ProjTotal
INVARIANT L_ProjFoldedTotal
INVARIANT L_ProjTwoStage
INVARIANT L_ProjAxisOrder
INVARIANT L_MaskSupport
INVARIANT L_ProjKeepsIds
