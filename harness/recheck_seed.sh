#!/bin/sh
# usage: recheck_seed.sh <prop> [prefix]  - re-run only the check part of eval_seed3.sh (after a check was strengthened), keeping the confirmation lines
P="$1"; PRE="${2:-seed3}"; L=/tmp/$PRE-eval-$P.log
grep -E "^$P/[0-9] demo_clean_exit" $L > $L.new
for k in 1 2 3; do
  [ -f /tmp/$PRE-$P-out/$k/patch.diff ] || continue
  echo "== $P/$k check" >> $L.new
  /verif/harness/try_seed.sh /tmp/$PRE-$P-out/$k/patch.diff $P quick >> $L.new 2>&1
  echo "== $P/$k rc=$?" >> $L.new
done
mv $L.new $L
echo "recheck $P done"
