---------------------------- MODULE TriSpectrumMC ----------------------------
(***************************************************************************)
(* Exhaustive exploration of module TriSpectrum.                           *)
(*  kind = "obj": the state is one triallelic spectrum; each public        *)
(*     operation of TriSpectrum / numerics.project / misidentification is  *)
(*     an action; the laws are invariants of every reachable state.  Data  *)
(*     are unit vectors on the feasible entries and one generic (prime)    *)
(*     vector: all laws are linear in the data.                            *)
(*  kind = "num": the state is a scenario (grid size, sample size) of the  *)
(*     triangular-domain numerics; the laws are evaluated on it.           *)
(***************************************************************************)
EXTENDS TriSpectrum
CONSTANTS Kinds, Ns, MaxDepth, UserMasks, NumPts, NumNs

VARIABLES kind, s, g, depth
vars == <<kind, s, g, depth>>

Primes == <<"2", "3", "5", "7", "11", "13", "17", "19", "23", "29", "31", "37", "41", "43", "47", "53", "59", "61", "67", "71",
            "73", "79", "83", "89", "97", "101", "103", "107", "109", "113", "127", "131", "137", "139", "149", "151", "157",
            "163", "167", "173", "179", "181", "191", "193", "197", "199", "211", "223", "227", "229", "233", "239", "241",
            "251", "257", "263", "269", "271", "277", "281", "283", "293", "307", "311", "313", "317", "331", "337", "347",
            "349", "353", "359", "367", "373", "379", "383", "389", "397", "401", "409", "419", "421", "431", "433", "439">>
FeasK(n) == {k \in 1..Size(n) : ~Infeasible(n)[k]}
DataChoices(n) == {[k \in 1..Size(n) |-> IF k = u THEN "1" ELSE "0"] : u \in FeasK(n)}
                  \cup {[k \in 1..Size(n) |-> Primes[k]]}
Base(n, d) == New(n, d, NoMask(n), TRUE, FALSE, FALSE, "1/8", "None")
Dummy == Base(0, <<"0">>)
NoScenario == [pts |-> 0, ns |-> 0]

Init == \/ /\ "obj" \in Kinds /\ kind = "obj" /\ depth = -1 /\ g = NoScenario
           /\ \E n \in Ns : \E d \in DataChoices(n) : s = Base(n, d)
        \/ /\ "num" \in Kinds /\ kind = "num" /\ depth = 0 /\ s = Dummy
           /\ \E p \in NumPts : \E n \in NumNs : g = [pts |-> p, ns |-> n]
\* first step of an "obj" behaviour: optionally mask one more feasible entry (a user mask)
Choose == /\ kind = "obj" /\ depth = -1 /\ depth' = 0
          /\ \/ s' = s
             \/ UserMasks /\ \E u \in FeasK(s.n) : s' = [s EXCEPT !.m[u] = TRUE]
          /\ UNCHANGED <<kind, g>>

DoFoldMajor == ~s.fm /\ s' = FoldMajor(s)
DoFoldAnc   == ~s.fa /\ s' = FoldAncestral(s)
DoUnfold    == s.fm /\ s' = Unfold(s)
DoTranspose == ~s.fm /\ s' = Transpose(s)
DoProject   == ~s.fa /\ \E n \in 3..(s.n - 1) : s' = Project(s, n)
DoMisid     == s.fm /\ ~s.fa /\ s' = Misid(s, "1/3")
DoScale     == s' = ArithScalar("mul", s, "3/2", FALSE)
Next == \/ Choose
        \/ /\ kind = "obj" /\ depth >= 0 /\ depth < MaxDepth /\ depth' = depth + 1
           /\ (DoFoldMajor \/ DoFoldAnc \/ DoUnfold \/ DoTranspose \/ DoProject \/ DoMisid \/ DoScale)
           /\ UNCHANGED <<kind, g>>
Spec == Init /\ [][Next]_vars

Obj == kind = "obj"
Num == kind = "num"
TypeOK == WellFormed(s) /\ kind \in {"obj", "num"}

\* the mask a spectrum has by construction in each folding state
StdMask(n, fm, fa) == Mat(n, LAMBDA i, j : IF fa THEN ~Feasible(n, i, j) \/ AncOut(n, i, j)
                                            ELSE IF fm THEN FoldOutM(n, i, j) ELSE ~Feasible(n, i, j))
Std(t) == t.m = StdMask(t.n, t.fm, t.fa)
SameDM(a, b) == a.n = b.n /\ a.m = b.m /\ \A k \in Unmasked(a) : a.d[k] = b.d[k]
Same(a, b) == SameDM(a, b) /\ a.fm = b.fm /\ a.fa = b.fa /\ a.ex = b.ex /\ a.et = b.et
NonNeg(t) == \A k \in 1..Size(t.n) : RNonNeg(t.d[k])

\* ---------------- construction ----------------
L_Simplex == Obj => LET t == New(s.n, s.d, NoMask(s.n), TRUE, FALSE, FALSE, "None", "None") IN
                 /\ Cardinality(Unmasked(t)) = NumFeasible(s.n)
                 /\ \A i, j \in 0..s.n : ~MaskedAt(t, i, j) <=> (i >= 1 /\ j >= 1 /\ s.n - i - j >= 1)
                 /\ New(s.n, s.d, s.m, FALSE, s.fm, s.fa, s.ex, s.et) = s
                 /\ New(s.n, s.d, s.m, TRUE, s.fm, s.fa, s.ex, s.et) = s             \* masking is idempotent
\* ---------------- fold_major ----------------
L_FoldMajorTotal  == (Obj /\ ~s.fm /\ Std(s)) => Total(FoldMajor(s)) = Total(s)
L_FoldMajorSym    == (Obj /\ ~s.fm) => SameDM(FoldMajor(Transpose(s)), FoldMajor(s))
L_FoldMajorRegion == (Obj /\ ~s.fm) => LET t == FoldMajor(s) IN
                        /\ WellFormed(t) /\ t.fm /\ t.fa = s.fa /\ t.ex = s.ex /\ t.et = s.et
                        /\ \A i, j \in 0..s.n : ~MaskedAt(t, i, j) => (i >= j /\ Feasible(s.n, i, j))
                        /\ (Std(s) /\ ~s.fa) => Std(t)
L_FoldUnfoldFold  == (Obj /\ ~s.fm /\ Std(s)) => SameDM(FoldMajor(Unfold(FoldMajor(s))), FoldMajor(s))
L_UnfoldTotal     == (Obj /\ ~s.fm /\ Std(s)) => /\ Total(Unfold(FoldMajor(s))) = Total(s)
                                                 /\ Std(Unfold(FoldMajor(s)))
\* ---------------- fold_ancestral ----------------
L_FoldAncTotal    == (Obj /\ ~s.fa /\ Std(s)) => Total(FoldAncestral(s)) = Total(s)
L_FoldAncAbsorbs  == (Obj /\ ~s.fm /\ ~s.fa /\ Std(s)) => SameDM(FoldAncestral(FoldMajor(s)), FoldAncestral(s))
\* the result does not depend on which allele was called ancestral / first / second (S3 is generated by two exchanges)
L_FoldAncPerm     == (Obj /\ ~s.fm /\ ~s.fa /\ Std(s)) => /\ SameDM(FoldAncestral(Transpose(s)), FoldAncestral(s))
                                                          /\ SameDM(FoldAncestral(SwapAnc(s)), FoldAncestral(s))
L_FoldAncRegion   == (Obj /\ ~s.fa) => LET t == FoldAncestral(s) n == s.n IN
                        /\ WellFormed(t) /\ t.fm /\ t.fa /\ t.ex = s.ex /\ t.et = s.et
                        /\ \A i, j \in 0..n : ~MaskedAt(t, i, j) => (n - i - j >= i /\ i >= j /\ j >= 1)
                        /\ Std(s) => Std(t)
\* ---------------- project ----------------
Targets(t) == 3..(t.n - 1)
L_ProjCompose     == (Obj /\ ~s.fa) => \A n1 \in Targets(s) : \A n2 \in 3..(n1 - 1) :
                        SameDM(Project(Project(s, n1), n2), Project(s, n2))
L_ProjFoldCommute == (Obj /\ ~s.fm /\ ~s.fa /\ Std(s)) => \A n1 \in Targets(s) :
                        /\ SameDM(Project(FoldMajor(s), n1), Project(s, n1))
                        /\ SameDM(Project(Transpose(s), n1), Project(s, n1))
L_ProjShape       == (Obj /\ ~s.fa) => \A n1 \in Targets(s) : LET t == Project(s, n1) IN
                        /\ WellFormed(t) /\ t.n = n1 /\ t.fm /\ ~t.fa /\ Std(t)
                        /\ (NonNeg(s) => RLeq(Total(t), Total(s)))
                        /\ Project(s, s.n) = s
\* ---------------- misidentification ----------------
L_Misid           == (Obj /\ s.fm /\ ~s.fa /\ Std(s)) =>
                        /\ Total(Misid(s, "1/3")) = Total(s)
                        /\ SameDM(Misid(s, "0"), s)
                        /\ SameDM(FoldAncestral(Misid(s, "1/3")), FoldAncestral(s))
                        /\ Std(Misid(s, "1/3")) /\ Misid(s, "1/3").ex = s.ex
\* ---------------- arithmetic, file ----------------
L_Arith == Obj => LET two == Arith("add", s, s)
                      t == IF s.fm THEN s ELSE Transpose(s)
                      u == Arith("mul", s, [t EXCEPT !.ex = "1/4"]) IN
              /\ two.m = s.m /\ two.fm = s.fm /\ two.fa = s.fa /\ two.ex = s.ex
              /\ Total(two) = RMul("2", Total(s))
              /\ Total(ArithScalar("mul", s, "3", TRUE)) = RMul("3", Total(s))
              /\ \A k \in 1..Size(s.n) : u.m[k] = (s.m[k] \/ t.m[k])
              /\ u.ex = "None" /\ u.et = s.et /\ CanOperate(s, t)
              /\ ~CanOperate(s, [s EXCEPT !.fm = ~s.fm])
L_File  == Obj => /\ ReadFile(WriteFile(s), FALSE) = s
                  /\ ReadFile(WriteFile(s), TRUE) = s
                  /\ ReadFile(WriteFile([s EXCEPT !.ex = "0"]), FALSE).ex = "None"

\* ---------------- numerics ----------------
X == Uniform(g.pts)
LL == g.pts + 1
Unit(L, u) == [k \in 1..(L * L) |-> IF k = u THEN "1" ELSE "0"]
InDomain(L) == {k \in 1..(L * L) : (k - 1) \div L + Mod(k - 1, L) <= L - 1}
L_Grid == Num => LET dx == GridDx(X) DXX == GridDx2d(X, dx) U == Domain(X) IN
            /\ RSum(dx) = "1"
            /\ \A a \in 1..LL : dx[a] = (IF a = 1 \/ a = LL THEN RDiv("1", RInt(2 * g.pts)) ELSE RDiv("1", RInt(g.pts)))
            /\ \A k \in 1..(LL * LL) : (U[k] = 1) <=> (k \in InDomain(LL))
            /\ Int2(DXX, [k \in 1..(LL * LL) |-> RInt(U[k])]) = "1/2"                              \* area of the triangle (the rule is exact for constants)
\* sampling: subsampling the sample of size N gives the (folded) sample of size n, for every density;
\* exchanging the axes of the density transposes the sample; the mass of a point density is the
\* probability that all three alleles are seen
L_Sample == Num => \A u \in InDomain(LL) :
            LET phi == Unit(LL, u)
                a == (u - 1) \div LL + 1
                b == Mod(u - 1, LL) + 1
                big == Sample(phi, g.ns, X)
                z == RSub("1", RAdd(X[a], X[b]))
                n == g.ns
                seen == RAdd(RSub(RSub(RSub("1", RPow(RSub("1", X[a]), n)), RPow(RSub("1", X[b]), n)), RPow(RAdd(X[a], X[b]), n)),
                             RAdd(RAdd(RPow(X[a], n), RPow(X[b], n)), RPow(z, n)))
            IN  /\ WellFormed(big) /\ Std(big) /\ big.ex = X[2]
                /\ \A n1 \in 3..(n - 1) : SameDM(Project(big, n1), FoldMajor(Sample(phi, n1, X)))
                /\ SameDM(Sample(Unit(LL, P2(LL, b, a)), n, X), Transpose(big))
                /\ Total(big) = RMul(GridDx2d(X, GridDx(X))[u], seen)
L_Neutral == Num => LET phi == EquilNeutral(X) IN
            \A a, b \in 1..LL : /\ phi[P2(LL, a, b)] = phi[P2(LL, b, a)]
                                /\ (phi[P2(LL, a, b)] # "0") <=> (a >= 2 /\ b >= 2 /\ a + b <= LL)
                                /\ (phi[P2(LL, a, b)] # "0") => phi[P2(LL, a, b)] = RDiv(RInt(g.pts * g.pts), RInt((a - 1) * (b - 1)))
\* the one-dimensional operators conserve mass (x = 0 and x = 1 absorb) and PV is an M-matrix
L_Trans1D == Num => LET dx == GridDx(X) V == T1DV(X, dx) M == T1DM(X, dx, "1") IN
            /\ \A b \in 1..LL : ColSums(LL, dx, V)[b] = "0" /\ ColSums(LL, dx, M)[b] = "0"
            /\ \A a, b \in 1..LL : IF a = b THEN RNonNeg(V[P2(LL, a, b)]) ELSE RLeq(V[P2(LL, a, b)], "0")
            /\ \A a \in 1..LL : V[P2(LL, a, 1)] = "0" /\ V[P2(LL, a, LL)] = "0" /\ M[P2(LL, a, 1)] = "0" /\ M[P2(LL, a, LL)] = "0"
            /\ \A a, b \in 1..LL : T1DM(X, dx, "-5/2")[P2(LL, a, b)] = RMul("-5/2", M[P2(LL, a, b)])
\* the two-dimensional operators: each active column conserves its mass (weights of the triangle rule), the
\* variance part is an M-matrix, and the mixed-derivative operator conserves the integral over the triangle
L_Trans2D == (Num /\ g.pts >= 2) =>
    LET dx == GridDx(X) U == Domain(X) DXX == GridDx2d(X, dx)
        act == {b \in 1..LL : Cardinality(ColDom(LL, U, b)) > 1}
        zero(E(_, _, _)) == \A b \in act : LET w == ColWeights(X, dx, U, b) IN
                               \A a2 \in 1..LL : RSum([a \in 1..LL |-> RMul(w[a], E(b, a, a2))]) = "0"
        C == Trans12(X, dx, U)
        LL2 == LL * LL
    IN  /\ zero(LAMBDA b, a, a2 : T1VEntry(X, dx, U, b, a, a2))
        /\ zero(LAMBDA b, a, a2 : T1MEntry(X, dx, U, b, a, a2, "1", "0"))
        /\ zero(LAMBDA b, a, a2 : T1MEntry(X, dx, U, b, a, a2, "0", "1"))
        /\ \A b \in act : \A a, a2 \in 1..LL : LET v == T1VEntry(X, dx, U, b, a, a2) IN IF a = a2 THEN RNonNeg(v) ELSE RLeq(v, "0")
        /\ \A b \in 1..LL : \A a, a2 \in 1..LL : (a \notin ColDom(LL, U, b) \/ a2 \notin ColDom(LL, U, b)) =>
                 (T1VEntry(X, dx, U, b, a, a2) = "0" /\ (b \in act => T1MEntry(X, dx, U, b, a, a2, "3/2", "-2") = "0"))
        /\ Trans2V(X, dx, U) = Trans1V(X, dx, U)                       \* the triangle is symmetric
        /\ Trans2M(X, dx, U, "1/2", "-3") = Trans1M(X, dx, U, "-3", "1/2")
        /\ \A col \in 1..LL2 : RSum([row \in 1..LL2 |-> RMul(IF U[row] = 1 THEN DXX[row] ELSE "0", C[(row - 1) * LL2 + col])]) = "0"
\* moving density to the diagonal keeps the integral, and with P = 1 empties the interior cells it is applied to
Movable(L) == {q \in (1..(L - 2)) \X (1..(L - 2)) : q[1] + q[2] < L - 1}
L_Move == Num => LET dx == GridDx(X) DXX == GridDx2d(X, dx)
                     phi == [k \in 1..(LL * LL) |-> IF k \in InDomain(LL) THEN Primes[Mod(k, 85) + 1] ELSE "0"]
                     Pof(S, v) == [k \in 1..(LL * LL) |-> IF <<(k - 1) \div LL, Mod(k - 1, LL)>> \in S THEN v ELSE "0"]
                 IN /\ \A q \in Movable(LL) : /\ MoveOK(LL, Pof({q}, "1/3"))
                                             /\ Int2(DXX, Move(LL, phi, Pof({q}, "1/3"))) = Int2(DXX, phi)
                                             /\ \A t \in MoveTargets(LL, q[1], q[2]) : t[1] + t[2] = LL - 1 \/ t[1] = 0 \/ t[2] = 0
                    /\ Int2(DXX, Move(LL, phi, Pof(Movable(LL), "2/7"))) = Int2(DXX, phi)
                    /\ \A q \in Movable(LL) : Move(LL, phi, Pof(Movable(LL), "1"))[P2(LL, q[1] + 1, q[2] + 1)] = "0"
L_Inject == Num => LET dx == GridDx(X)
                       phi == [k \in 1..(LL * LL) |-> "0"]
                       y == [a \in 1..LL |-> Primes[a]]
                       p1 == Inject1(phi, "1/100", X, dx, y, "3")
                       p2 == Inject2(phi, "1/100", X, dx, y, "3") IN
            /\ \A a, b \in 1..LL : p1[P2(LL, a, b)] = p2[P2(LL, b, a)]
            /\ \A a, b \in 1..LL : (p1[P2(LL, a, b)] # "0") => (a = 2 /\ b >= 2 /\ b <= LL - 1)

\* ---------------- facts that do not depend on a state ----------------
\* the hypergeometric weights are a distribution over all compositions of the subsample
ASSUME \A N \in 1..8 : \A n \in 0..N : \A X1 \in 0..N : \A X2 \in 0..(N - X1) :
          RSum([p \in {q \in (0..n) \X (0..n) : q[1] + q[2] <= n} |-> HypW(N, n, X1, X2, p[1], p[2])]) = "1"
\* the canonical representative is feasible, canonical and a fixed point
ASSUME \A n \in 3..14 : \A i, j \in 1..n : Feasible(n, i, j) =>
          LET c == Canon(n, i, j) IN Feasible(n, c[1], c[2]) /\ ~AncOut(n, c[1], c[2]) /\ Canon(n, c[1], c[2]) = c
\* Jenkins' sampling formula is a distribution and consistent under subsampling (up to the probability of staying triallelic)
JSpec(n) == [n |-> n, d |-> Jenkins(n), m |-> Infeasible(n), fm |-> FALSE, fa |-> FALSE, ex |-> "None", et |-> "None"]
ASSUME \A n \in 3..12 : Total(JSpec(n)) = "1"
ASSUME \A N \in 4..9 : \A n \in 3..(N - 1) :
          LET a == Project(JSpec(N), n)
              b == FoldMajor(JSpec(n))
              c == RDiv(a.d[K(n, 1, 1)], b.d[K(n, 1, 1)])
          IN  a.m = b.m /\ \A k \in Unmasked(b) : a.d[k] = RMul(c, b.d[k])
=============================================================================
