------------------------------ MODULE DFECache ------------------------------
(***************************************************************************)
(* C17, part A.  Generation of a DFE cache by a pool of worker processes   *)
(* fed through a bounded queue (dadi.DFE.Cache1D/Cache2D._multiple_       *)
(* processes and _worker_sfs), restricted to the jobs of one split         *)
(* (split_jobs / this_job_id), and the merge of split pieces               *)
(* (Cache2D.merge).                                                        *)
(*                                                                         *)
(* The protocol is written as a transition FUNCTION on one state record    *)
(* (En / Apply) so that the same definitions serve the exhaustive model    *)
(* (DFECacheMC: Next == \E a : En(st,a) /\ st' = Apply(st,a)) and the      *)
(* judgement of schedules executed by the real code (Trace_DFECache folds  *)
(* Apply over the recorded steps).                                         *)
(*                                                                         *)
(* A configuration c is a record                                           *)
(*   nw    number of worker processes (cpus + gpus)                        *)
(*   nj    number of jobs of the whole cache (jobs are 0..nj-1: the        *)
(*         evaluation counter of the code: ii for 1-D, ii*n+jj for 2-D)    *)
(*   cap   capacity of the work queue (the code uses cap = nw)             *)
(*   split, this   split_jobs and this_job_id (job j belongs to this       *)
(*         piece iff j % split = this)                                     *)
(*   fail  the set of jobs on which the model function raises              *)
(*   die   TRUE iff workers may be killed while computing (outside the     *)
(*         property's quantifier; used for an observation only)            *)
(* Actors: 0 = the parent process, 1..nw = the workers.                    *)
(***************************************************************************)
EXTENDS Naturals, Integers, Sequences, FiniteSets

Stop  == -1                      \* the sentinel ("None" on the queue)
Empty == -1                      \* "no value" in a table over ints (MC); traces use their own token

WorkersOf(c) == 1..c.nw
JobsOf(c)    == 0..(c.nj - 1)
MyJobs(c)    == {j \in JobsOf(c) : j % c.split = c.this}
\* the jobs of this piece in the order the parent puts them on the queue
MyJobSeq(c)  == LET S == MyJobs(c) IN
                [k \in 1..Cardinality(S) |-> CHOOSE j \in S : Cardinality({i \in S : i < j}) = k - 1]
SeqRange(q)  == {q[k] : k \in DOMAIN q}

InitState(c) ==
  [c       |-> c,
   queue   |-> <<>>,                              \* items: job or Stop
   results |-> <<>>,                              \* entries <<job, "ok">> or <<job, "err">>
   nstart  |-> 0,                                 \* workers started so far (pool order)
   todo    |-> MyJobSeq(c),                       \* jobs still to be put
   sent    |-> 0,                                 \* sentinels put
   njoin   |-> 0,                                 \* workers joined (pool order)
   wpc     |-> [w \in WorkersOf(c) |-> "unstarted"],   \* unstarted | get | append | exited | dead
   item    |-> [w \in WorkersOf(c) |-> Stop],     \* job held by a worker between get and append
   outcome |-> "running",                         \* running | ok | error
   table   |-> [j \in JobsOf(c) |-> FALSE],       \* TRUE: entry j of the cache was filled with F(j)
   ncomp   |-> [j \in JobsOf(c) |-> 0],           \* history: how often job j was taken by a worker
   nsent   |-> [w \in WorkersOf(c) |-> 0]]        \* history: sentinels consumed by worker w

\* what the parent is about to do (its program counter is a function of its counters)
MPc(s) == IF s.nstart < s.c.nw THEN "start"
          ELSE IF s.todo # <<>> THEN "put"
          ELSE IF s.sent < s.c.nw THEN "stop"
          ELSE IF s.njoin < s.c.nw THEN "join"
          ELSE IF s.outcome = "running" THEN "collect"
          ELSE "done"

\* ---- enabledness: queue.put blocks when full, queue.get when empty, join until exit ----
EnMain(s) == CASE MPc(s) = "start"   -> TRUE
               [] MPc(s) \in {"put", "stop"} -> Len(s.queue) < s.c.cap
               [] MPc(s) = "join"    -> s.wpc[s.njoin + 1] \in {"exited", "dead"}
               [] MPc(s) = "collect" -> TRUE
               [] OTHER -> FALSE
EnWorker(s, w) == CASE s.wpc[w] = "get"    -> s.queue # <<>>
                    [] s.wpc[w] = "append" -> TRUE
                    [] OTHER -> FALSE
En(s, a) == IF a = 0 THEN EnMain(s) ELSE a \in WorkersOf(s.c) /\ EnWorker(s, a)

\* ---- effect ----
HasErr(s) == \E k \in DOMAIN s.results : s.results[k][2] = "err"
ApplyMain(s) ==
  CASE MPc(s) = "start"   -> [s EXCEPT !.nstart = @ + 1, !.wpc[s.nstart + 1] = "get"]
    [] MPc(s) = "put"     -> [s EXCEPT !.queue = Append(@, Head(s.todo)), !.todo = Tail(@)]
    [] MPc(s) = "stop"    -> [s EXCEPT !.queue = Append(@, Stop), !.sent = @ + 1]
    [] MPc(s) = "join"    -> [s EXCEPT !.njoin = @ + 1]
    [] MPc(s) = "collect" ->
          \* "for ii, sfs in results: spectra[ii] = sfs": an error object in the list cannot be
          \* unpacked, the parent raises; otherwise every listed entry is stored
          IF HasErr(s) THEN [s EXCEPT !.outcome = "error"]
          ELSE [s EXCEPT !.outcome = "ok",
                         !.table = [j \in JobsOf(s.c) |-> \E k \in DOMAIN s.results : s.results[k][1] = j]]
    [] OTHER -> s
ApplyWorker(s, w) ==
  IF s.wpc[w] = "get"
  THEN LET it == Head(s.queue) IN
       IF it = Stop
       THEN [s EXCEPT !.queue = Tail(@), !.wpc[w] = "exited", !.nsent[w] = @ + 1]
       ELSE [s EXCEPT !.queue = Tail(@), !.wpc[w] = "append", !.item[w] = it, !.ncomp[it] = @ + 1]
  ELSE \* append: the result, or the exception object when the model function raised; then loop
       [s EXCEPT !.results = Append(@, <<s.item[w], IF s.item[w] \in s.c.fail THEN "err" ELSE "ok">>),
                 !.wpc[w] = "get", !.item[w] = Stop]
Apply(s, a) == IF a = 0 THEN ApplyMain(s) ELSE ApplyWorker(s, a)

\* a worker killed while computing (not raising): outside the property's quantifier
EnDie(s, w) == s.c.die /\ w \in WorkersOf(s.c) /\ s.wpc[w] = "append"
ApplyDie(s, w) == [s EXCEPT !.wpc[w] = "dead", !.item[w] = Stop]

Terminated(s) == s.outcome # "running"

\* ---- what can be observed from outside after each step (the projection compared in replay) ----
MPend(s) == CASE MPc(s) = "start" -> <<"start", s.nstart + 1>>
              [] MPc(s) = "put"   -> <<"put", Head(s.todo)>>
              [] MPc(s) = "stop"  -> <<"put", Stop>>
              [] MPc(s) = "join"  -> <<"join", s.njoin + 1>>
              [] MPc(s) = "collect" -> <<"iter", 0>>
              [] OTHER -> IF s.outcome = "ok" THEN <<"done", 0>> ELSE <<"raised", 0>>
WPend(s, w) == IF s.wpc[w] = "append" THEN <<"append", s.item[w]>> ELSE <<s.wpc[w], Stop>>
Proj(s) == [q |-> s.queue, res |-> s.results, m |-> MPend(s), w |-> [w \in WorkersOf(s.c) |-> WPend(s, w)]]

\* ---- the laws (evaluated in every reachable state by DFECacheMC) ----
QueueBounded(s)   == Len(s.queue) <= s.c.cap
AtMostOnce(s)     == \A j \in JobsOf(s.c) : s.ncomp[j] <= 1
OnlyMyJobs(s)     == \A j \in JobsOf(s.c) : s.ncomp[j] > 0 => j \in MyJobs(s.c)
SentinelAtMostOne(s) == \A w \in WorkersOf(s.c) : s.nsent[w] <= 1
\* at termination: every job of this piece computed exactly once, each worker took exactly one sentinel,
\* nothing is left on the queue
ExactlyOnce(s)    == Terminated(s) => /\ \A j \in JobsOf(s.c) : s.ncomp[j] = (IF j \in MyJobs(s.c) THEN 1 ELSE 0)
                                      /\ \A w \in WorkersOf(s.c) : s.nsent[w] = 1
                                      /\ s.queue = <<>>
\* the final table is F on the jobs of this piece (and empty elsewhere) iff no job of the piece fails;
\* otherwise the run ends in an error: a failure is never silently absorbed
OutcomeLaw(s)     == Terminated(s) =>
                       /\ (s.outcome = "ok") <=> (s.c.fail \cap MyJobs(s.c) = {})
                       /\ s.outcome = "ok" => \A j \in JobsOf(s.c) : s.table[j] <=> (j \in MyJobs(s.c))
NoSilentHole(s)   == s.outcome = "ok" => \A j \in MyJobs(s.c) : s.table[j]

\* ---- merge of split pieces (Cache2D.merge) ----
\* a piece is a function over jobs (or a sequence over 1..nj) with value none where it has no entry
MergeConflict(pieces, D, none) == \E p, q \in DOMAIN pieces : \E j \in D :
                                     pieces[p][j] # none /\ pieces[q][j] # none /\ pieces[p][j] # pieces[q][j]
MergeHole(pieces, D, none)     == \E j \in D : \A p \in DOMAIN pieces : pieces[p][j] = none
MergeUnion(pieces, D, none)    == [j \in D |-> IF \E p \in DOMAIN pieces : pieces[p][j] # none
                                               THEN pieces[CHOOSE p \in DOMAIN pieces : pieces[p][j] # none][j]
                                               ELSE none]
\* declarative outcome: "error" iff a conflict or a hole, else the union
Merge(pieces, D, none) == IF MergeConflict(pieces, D, none) \/ MergeHole(pieces, D, none)
                          THEN [err |-> TRUE, table |-> [j \in D |-> none]]
                          ELSE [err |-> FALSE, table |-> MergeUnion(pieces, D, none)]
\* operational form (what the code does: start from the first piece, fold the others in, then look for holes)
RECURSIVE MergeFold(_, _, _, _, _)
MergeFold(acc, pieces, k, D, none) ==
  IF k > Len(pieces) THEN [err |-> (\E j \in D : acc[j] = none), table |-> acc]
  ELSE IF \E j \in D : pieces[k][j] # none /\ acc[j] # none /\ acc[j] # pieces[k][j]
       THEN [err |-> TRUE, table |-> acc]
       ELSE MergeFold([j \in D |-> IF pieces[k][j] # none THEN pieces[k][j] ELSE acc[j]], pieces, k + 1, D, none)
MergeOp(pieces, D, none) == LET r == MergeFold(pieces[1], pieces, 2, D, none) IN
                            IF r.err THEN [err |-> TRUE, table |-> [j \in D |-> none]] ELSE r
=============================================================================
