------------------------------- MODULE SchemeX -------------------------------
(***************************************************************************)
(* Extension module: the X-chromosome / sex-biased variant of the          *)
(* one-population machinery (Integration.one_pop_X,                        *)
(* _one_pop_const_params_X, _Vfunc_X, _Mfunc1D_X, _inject_mutations_1D_X,  *)
(* PhiManip.phi_1D_X), over exact rationals.  dadi has no compiled X       *)
(* kernel: the scheme is assembled in Python and solved by tridiag.        *)
(*                                                                         *)
(* Parameters  p = [nu, gamma, h, beta, alpha]:                            *)
(*   beta  = Nf/Nm, the breeding ratio,                                    *)
(*   alpha = the mutation-rate ratio parameter of the injection,           *)
(* and, exactly as the code documents them,                                *)
(*   V_X(x) = x(1-x)/nu * (2 beta + 4)(beta + 1)/(9 beta)                  *)
(*   M_X(x) = gamma * 4/3 * (1/2 + h + x(1-2h)) * x(1-x)   (no beta)       *)
(*   influx = dt/x_1 * theta0/2 * 2/(1+2 beta) * (1/(alpha+1) + beta)      *)
(*            deposited at the first interior grid point                   *)
(*   absorbing-boundary rate (1/(2 nu) -+ M)*2/dx, with the NOMINAL nu     *)
(*   (no variance factor), as in the autosomal scheme.                     *)
(* The line system has the structure of Scheme!LineABC with V and M        *)
(* replaced: LineFromVM is that structure with V and M as arguments.       *)
(***************************************************************************)
EXTENDS Scheme

KvX(beta)  == RDiv(RMul(RAdd(RMul("2", beta), "4"), RAdd(beta, "1")), RMul("9", beta))
VfX(x, p)  == RMul(RDiv(RMul(x, RSub("1", x)), p.nu), KvX(p.beta))
MfX(x, p)  == RMul(RMul(RMul(p.gamma, "4/3"), RAdd(RAdd("1/2", p.h), RMul(x, RSub("1", RMul("2", p.h))))),
                   RMul(x, RSub("1", x)))
MutFacX(beta, alpha) == RMul(RDiv("2", RAdd("1", RMul("2", beta))), RAdd(RDiv("1", RAdd(alpha, "1")), beta))

(***************************************************************************)
(* The structure of Scheme!LineABC for one line whose two end nodes are    *)
(* both absorbing corners (always the case in one dimension), with the     *)
(* variance V at the grid points, the drift MI at the interval midpoints,  *)
(* the drift M1 / MN at the end nodes and half = 1/(2 nu) as arguments.    *)
(* As in Scheme, b is WITHOUT the 1/dt of the implicit step.               *)
(***************************************************************************)
LineFromVM(g, V, MI, M1, MN, half, delj) ==
    LET N    == Len(g)
        dx   == Dx(g)
        df   == DFactor(g)
        at(i) == RAdd(RMul(MI[i], delj[i]), RDiv(V[i], RMul("2", dx[i])))
        ct(i) == RAdd(RNeg(RMul(MI[i], RSub("1", delj[i]))), RDiv(V[i + 1], RMul("2", dx[i])))
        bc0  == IF RLeq(M1, "0") THEN RMul(RSub(half, M1), RDiv("2", dx[1])) ELSE "0"
        bc1  == IF RLeq("0", MN) THEN RMul(RAdd(half, MN), RDiv("2", dx[N - 1])) ELSE "0"
    IN  [a |-> [i \in 1..N |-> IF i = 1 THEN "0" ELSE RNeg(RMul(df[i], at(i - 1)))],
         c |-> [i \in 1..N |-> IF i = N THEN "0" ELSE RNeg(RMul(df[i], ct(i)))],
         b |-> [i \in 1..N |-> RAdd(RAdd(IF i < N THEN RMul(df[i], at(i)) ELSE "0",
                                         IF i > 1 THEN RMul(df[i], ct(i - 1)) ELSE "0"),
                                    RAdd(IF i = 1 THEN bc0 ELSE "0", IF i = N THEN bc1 ELSE "0"))],
         out0 |-> bc0, out1 |-> bc1]

\* the X-chromosome line system
LineABCX(g, p, delj) ==
    LET N == Len(g) xI == XInt(g) IN
    LineFromVM(g, [i \in 1..N |-> VfX(g[i], p)], [i \in 1..(N - 1) |-> MfX(xI[i], p)],
               MfX(g[1], p), MfX(g[N], p), RDiv("1", RMul("2", p.nu)), delj)

\* the autosomal one-population line system written through the same structure (law: equals Scheme!LineABC)
AutoP(p) == [nu |-> p.nu, gamma |-> p.gamma, h |-> p.h, beta |-> p.beta, mig |-> <<"0">>]
LineABCAuto(g, p, delj) ==
    LET N == Len(g) xI == XInt(g) q == AutoP(p) IN
    LineFromVM(g, [i \in 1..N |-> Vf(g[i], q)], [i \in 1..(N - 1) |-> Mf(xI[i], 1, <<"0">>, q)],
               Mf(g[1], 1, <<"0">>, q), Mf(g[N], 1, <<"0">>, q), RDiv("1", RMul("2", p.nu)), delj)

\* a second, independent transcription: the array formulas of Integration._one_pop_const_params_X
LineABCXPy(g, p, delj) ==
    LET N    == Len(g)
        dx   == Dx(g)
        df   == DFactor(g)
        xI   == XInt(g)
        MI   == [i \in 1..(N - 1) |-> MfX(xI[i], p)]
        V    == [i \in 1..N |-> VfX(g[i], p)]
        lo(i) == RSub(RNeg(RMul(MI[i], delj[i])), RDiv(V[i], RMul("2", dx[i])))            \* -MInt*delj - V[:-1]/(2dx)
        hi(i) == RAdd(RNeg(RMul(MI[i], RSub("1", delj[i]))), RDiv(V[i + 1], RMul("2", dx[i])))  \* -MInt*(1-delj) + V[1:]/(2dx)
        M1   == MfX(g[1], p)
        MN   == MfX(g[N], p)
        half == RDiv("1/2", p.nu)
    IN  [a |-> [i \in 1..N |-> IF i = 1 THEN "0" ELSE RMul(df[i], lo(i - 1))],
         c |-> [i \in 1..N |-> IF i = N THEN "0" ELSE RNeg(RMul(df[i], hi(i)))],
         b |-> [i \in 1..N |->
                  RAdd(RAdd(IF i < N THEN RNeg(RMul(df[i], lo(i))) ELSE "0", IF i > 1 THEN RMul(df[i], hi(i - 1)) ELSE "0"),
                       RAdd(IF i = 1 /\ RLeq(M1, "0") THEN RMul(RSub(half, M1), RDiv("2", dx[1])) ELSE "0",
                            IF i = N /\ RLeq("0", MN) THEN RNeg(RMul(RSub(RNeg(half), MN), RDiv("2", dx[N - 1]))) ELSE "0"))]]

(***************************************************************************)
(* What the code's formulas give relative to the autosomal scheme:         *)
(*   V_X(nu, beta)  = V(nu', beta' = 1)    nu'    = nu / KvX(beta)         *)
(*   M_X(gamma, h)  = M(gamma', h')        gamma' = 4 gamma / 3,           *)
(*                                         h'     = (1 + 2h)/4             *)
(* so the interior of the X system IS the autosomal system of the          *)
(* effective parameters; only the absorbing-boundary rate differs, because *)
(* it is built from the nominal nu: out_X = out_auto(EffP) / KvX(beta).    *)
(* For beta = 1, h = 1/2: KvX = 4/3 and M_X = 4/3 M, i.e. the interior of  *)
(* the X system is 4/3 times the autosomal system of the SAME nu, gamma,   *)
(* and the boundary rates are equal (not scaled).                          *)
(***************************************************************************)
EffP(p) == [nu |-> RDiv(p.nu, KvX(p.beta)), gamma |-> RMul("4/3", p.gamma), h |-> RDiv(RAdd("1", RMul("2", p.h)), "4"),
            beta |-> "1", mig |-> <<"0">>]

(***************************************************************************)
(* Injection                                                               *)
(***************************************************************************)
InjectMassX(g, dt, theta0, p)   == RMul(RMul(RDiv(dt, g[2]), RHalf(theta0)), MutFacX(p.beta, p.alpha))
InjectAmountX(g, dt, theta0, p) == RMul(InjectMassX(g, dt, theta0, p), RDiv("2", RSub(g[3], g[1])))
InjectedX(phi, g, dt, theta0, p) == [q \in 1..Len(phi) |-> IF q = 2 THEN RAdd(phi[q], InjectAmountX(g, dt, theta0, p)) ELSE phi[q]]

(***************************************************************************)
(* One implicit step, reference-size rescaling                             *)
(***************************************************************************)
SeqOver(phi, dt) == [v \in 1..Len(phi) |-> RDiv(phi[v], dt)]
ExactStepX(phi, g, p, delj, dt) == Thomas(LineABCX(g, p, delj), RDiv("1", dt), SeqOver(phi, dt))
\* re-expressing relative to a reference size cc times smaller: nu -> cc nu, gamma -> gamma/cc (beta, alpha, h unchanged);
\* times are multiplied by cc and theta0 divided by cc
RescalePX(cc, p) == [p EXCEPT !.nu = RMul(cc, p.nu), !.gamma = RDiv(p.gamma, cc)]
\* the time-step rule of the driver: the autosomal bound (no X factors), as the code has it
MaxVMX(p) == MaxVM(1, AutoP(p))

TrapMass(phi, g) == RDot(TrapW(g), phi)
\* probability leaving through the two absorbing end nodes during a step that produced y
OutflowX(sys, g, y, dt) == LET w == TrapW(g) N == Len(g) IN
    RMul(dt, RAdd(RMul(RMul(w[1], sys.out0), y[1]), RMul(RMul(w[N], sys.out1), y[N])))

(***************************************************************************)
(* Conditioning allowance of the double-precision Chang-Cooper weights     *)
(* (see Scheme!DeljErr / DeljMidErr), with the X variance and drift.       *)
(***************************************************************************)
DeljIntervalErrX(g, p, j) ==
    LET xI == XInt(g) dx == Dx(g)
        m == MfX(xI[j], p)
        z == RDiv(RMul(RMul("2", m), dx[j]), VfX(xI[j], p))
    IN  RMul(RAbs(m), RAdd(DeljErr(z), DeljMidErr(z, xI[j])))
DeljCoefSlackX(g, p, v) ==
    LET N == Len(g) df == DFactor(g) IN
    RMul(df[v], RAdd(IF v > 1 THEN DeljIntervalErrX(g, p, v - 1) ELSE "0", IF v < N THEN DeljIntervalErrX(g, p, v) ELSE "0"))
DeljResidualSlackX(g, p, y, v) ==
    LET N == Len(g) df == DFactor(g) IN
    RMul(df[v], RAdd(IF v > 1 THEN RMul(DeljIntervalErrX(g, p, v - 1), RAdd(RAbs(y[v - 1]), RAbs(y[v]))) ELSE "0",
                     IF v < N THEN RMul(DeljIntervalErrX(g, p, v), RAdd(RAbs(y[v]), RAbs(y[v + 1]))) ELSE "0"))
\* y is the result of one implicit X step of phi with time step dt (delj = the weights; on = Chang-Cooper switch)
IsStepX(phi, y, g, p, dt, tau, delj, on) ==
    LET sys == LineABCX(g, p, delj) invdt == RDiv("1", dt) r == SeqOver(phi, dt) IN
    /\ Len(y) = Len(g)
    /\ \A v \in 1..Len(y) : IsNum(y[v])
    /\ \A v \in 1..Len(y) :
          RLeq(RAbs(RSub(r[v], RowApply(sys, invdt, y, v))),
               RAdd(RMul(tau, RowScale(sys, invdt, y, r, v)), IF on THEN DeljResidualSlackX(g, p, y, v) ELSE "0"))

(***************************************************************************)
(* The drift-selection-mutation equilibrium of the X scheme (phi_1D_X):    *)
(*   phi(x) = theta0 * nu * MutFacX / KvX * D(x) / (x(1-x)),               *)
(*   D(x)   = e^{Q(x)} INT_x^1 e^{-Q} / INT_0^1 e^{-Q},                    *)
(*   Q(x)   = INT_0^x 2 M_X / (x(1-x) V_X-coefficient)                     *)
(*          = nu (2 g1 x + g2 x^2),  g1 = 4/3 gamma (1/2+h)/KvX,           *)
(*                                    g2 = 4/3 gamma (1-2h)/KvX            *)
(* i.e. Equilibrium!D of the effective autosomal parameters:               *)
(*   Q(x) = 4 G H x + 2 G (1-2H) x^2,  G = EffP.gamma*EffP.nu, H = EffP.h. *)
(* Selection acts relative to drift in THIS population (size nu * Nref).   *)
(***************************************************************************)
EquilScaleX(p, theta0) == RDiv(RMul(RMul(theta0, p.nu), MutFacX(p.beta, p.alpha)), KvX(p.beta))
EquilGX(p) == RMul(EffP(p).gamma, EffP(p).nu)
EquilHX(p) == EffP(p).h
\* linear and quadratic coefficient of Q, both ways
Q1X(p) == RMul(RMul("2", p.nu), RDiv(RMul(RMul("4/3", p.gamma), RAdd("1/2", p.h)), KvX(p.beta)))
Q2X(p) == RMul(p.nu, RDiv(RMul(RMul("4/3", p.gamma), RSub("1", RMul("2", p.h))), KvX(p.beta)))
=============================================================================
