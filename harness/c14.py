"""C14 - spectra survive file and pickle round trips (spec/SpectrumIO.tla,
spec/SpectrumIOMC.tla, spec/Trace_SpectrumIO.tla).

The driver writes real spectra with Spectrum.to_file (plain and ".gz" names,
precision 16..20, comments, current and pre-1.3 format), records the lines found
on disk and what Spectrum.from_file returns; the same for
Numerics.array_to_file / array_from_file and their cross uses, hand-written
files, and pickle / copy.  Two deterministic blocks with their own seeds follow:
labels that are adversarial for the header parser (label_cases) and several
arrays written into / read back from ONE open handle (stream_cases).
TLC (Trace_SpectrumIO) decides every record.
"""
import copy, gzip, itertools, os, pickle, random, shutil, tempfile
from fractions import Fraction
import numpy as np
from . import common
from .common import rat, rats

PROP = 'C14'
LABELS = ['YRI', 'pop 1', ' lead', 'trail ', 'a  b', '', 'folded', 'not unfolded x', '3', 'CEU-2', 'a#b', "it's", ' ', 'unfolded']
# adversarial labels (own deterministic block, see label_cases): the header keywords as separate blank-delimited words,
# number tokens (what the dimensions look like), leading / trailing / multiple blanks, tabs
ADV_LABELS = ['not folded yet', ' folded ', 'was folded', 'folded again', 'folded  twice', 'un folded', 'unfolded now', ' unfolded', 'is unfolded ',
              'not unfolded', 'folded unfolded', 'unfolded folded', '2 3', '7', ' 4 ', '10 20 30', '2  folded', 'folded 2 3', '3 unfolded 3', '0 folded 0',
              '  ', 'a   b', '\tfolded', 'folded\t', 'x\tunfolded\ty', ' 5', '6 ', 'Folded', 'foldedx unfolded', 'folded', 'unfolded']
ADV_WORDS = ['folded', 'unfolded', '2', '3', '10', '0', 'x', 'pop', 'un', 'Folded', 'nan', '#', '1e3', '-1']
ADV_SEPS = [' ', ' ', ' ', '  ', '   ', '\t']
COMMENTS = ['hello', '  padded  ', '', '# double hash', '3 folded "x"', 'tab\tinside', 'two  blanks', 'trailing tab\t', '2 2', 'nan inf']


# --------------------------------------------------------------------------
# encoding
# --------------------------------------------------------------------------
def chars(s):
    return list(s)


def enc(fs):
    """dadi.Spectrum -> abstract spectrum of SpectrumIO.tla (labels as character sequences)."""
    ids = getattr(fs, 'pop_ids', None)
    return {'sh': [int(x) for x in fs.shape],
            'd': rats(np.asarray(fs.data, dtype=float).ravel()),
            'm': [bool(x) for x in np.ma.getmaskarray(fs).ravel()],
            'f': bool(fs.folded),
            'ids': [chars(str(x)) for x in ids] if ids else []}


def tok(t):
    """a whitespace-separated token of a number line -> exact value of its decimal text"""
    try:
        return rat(Fraction(t))
    except (ValueError, ZeroDivisionError):
        low = t.lower()
        if low in ('nan', '+nan', '-nan'):
            return 'nan'
        if low in ('inf', '+inf', 'infinity'):
            return 'inf'
        if low in ('-inf', '-infinity'):
            return '-inf'
        return '?' + t


def file_record(text, npre):
    """the text of a file -> [pre, body]: the first npre lines as characters, the others as tokens"""
    lines = text.split('\n')
    if lines and lines[-1] == '':
        lines = lines[:-1]
    return {'pre': [chars(l) for l in lines[:npre]], 'body': [[tok(t) for t in l.split()] for l in lines[npre:]]}


def text_lines(text):
    """the text of (a part of) a file -> its lines, each with its characters and its whitespace-separated tokens"""
    lines = text.split('\n')
    if lines and lines[-1] == '':
        lines = lines[:-1]
    return [{'c': chars(l), 't': [tok(t) for t in l.split()]} for l in lines]


def read_text(path):
    try:
        if path.endswith('.gz'):
            with gzip.open(path, 'rt') as f:
                return f.read()
        with open(path, 'r') as f:
            return f.read()
    except Exception as e:
        raise WrittenFileUnreadable('%s: %s' % (type(e).__name__, e))


LAYOUTS = ['c', 'fortran', 'transpose', 'reorder', 'slice']


def _val(x):
    return float(Fraction(x)) if x not in ('nan', 'inf', '-inf') else float(x)


def _perm_for(sh, key):
    """a deterministic non-identity axis permutation for this shape"""
    n = len(sh)
    perm = list(range(n))
    r = random.Random(key * 7919 + n)
    while perm == list(range(n)):
        r.shuffle(perm)
    return perm


def lay_out(arr, layout, key, filler):
    """an array with the same logical content as arr (C-order reading) but, where the layout allows it, a
    memory order that is NOT C-contiguous: Fortran order, a transposed view, or a strided slice of a larger array"""
    arr = np.ascontiguousarray(arr)
    if layout == 'fortran':
        return np.asfortranarray(arr)
    if layout in ('transpose', 'reorder') and arr.ndim >= 2:
        perm = _perm_for(arr.shape, key)
        inv = [perm.index(j) for j in range(arr.ndim)]
        base = np.ascontiguousarray(arr.transpose(inv))      # base.transpose(perm) == arr
        return base.transpose(perm)
    if layout == 'slice':
        ax = key % arr.ndim
        shape = list(arr.shape)
        shape[ax] = 2 * shape[ax]
        big = np.full(shape, filler, dtype=arr.dtype)
        idx = [slice(None)] * arr.ndim
        idx[ax] = slice(0, None, 2)
        big[tuple(idx)] = arr
        return big[tuple(idx)]
    return arr


def build(s, layout='c', key=0):
    """abstract spectrum -> dadi.Spectrum with exactly these (logical) data, mask, flag, labels.  layout chooses how
    the object is obtained, hence its memory order: 'c' plain constructor; 'fortran' constructor on Fortran-ordered
    arrays; 'transpose' fs.transpose(axes); 'reorder' fs.reorder_pops(order); 'slice' fs[::2] of a larger Spectrum."""
    import dadi
    sh = list(s['sh'])
    data = np.array([_val(x) for x in s['d']], dtype=float).reshape(sh)
    mask = np.array(s['m'], dtype=bool).reshape(sh)
    ids = [''.join(l) for l in s['ids']] or None
    kw = dict(mask_corners=False, data_folded=bool(s['f']), check_folding=False)
    nd = len(sh)
    if layout == 'fortran':
        return dadi.Spectrum(np.asfortranarray(data), mask=np.asfortranarray(mask), pop_ids=ids, **kw)
    if layout in ('transpose', 'reorder') and nd >= 2:
        perm = _perm_for(sh, key)
        inv = [perm.index(j) for j in range(nd)]
        base_ids = [ids[j] for j in inv] if ids else None
        base = dadi.Spectrum(np.ascontiguousarray(data.transpose(inv)), mask=np.ascontiguousarray(mask.transpose(inv)), pop_ids=base_ids, **kw)
        if layout == 'reorder':
            return base.reorder_pops([j + 1 for j in perm])
        fs = base.transpose(perm)
        fs.pop_ids = ids            # transpose does not move the labels
        return fs
    if layout == 'slice':
        ax = key % nd
        big_sh = list(sh)
        big_sh[ax] = 2 * sh[ax]
        idx = [slice(None)] * nd
        idx[ax] = slice(0, None, 2)
        bd = np.full(big_sh, 777.25)
        bm = np.ones(big_sh, dtype=bool)
        bd[tuple(idx)] = data
        bm[tuple(idx)] = mask
        big = dadi.Spectrum(bd, mask=bm, pop_ids=ids, **kw)
        return big[tuple(idx)]
    return dadi.Spectrum(data, mask=mask, pop_ids=ids, **kw)


def describe_layout(a):
    d = np.asarray(getattr(a, 'data', a))
    return {'c_contiguous': bool(d.flags['C_CONTIGUOUS']), 'f_contiguous': bool(d.flags['F_CONTIGUOUS'])}


# --------------------------------------------------------------------------
# executing one case on the real dadi
# --------------------------------------------------------------------------
class WrittenFileUnreadable(Exception):
    pass


def execute(op, inp, rid, tmpd):
    """Run one case; a file written by dadi that cannot even be read back as text (e.g. a corrupt gzip stream) is an
    observation about the writer, not a failure of the harness."""
    try:
        return _execute(op, inp, rid, tmpd)
    except WrittenFileUnreadable as e:
        gz = bool(inp.get('gz'))
        site = {'roundtrip': 'Spectrum.to_file/from_file', 'array_roundtrip': 'Numerics.array_to_file/array_from_file'}.get(op, op)
        return {'id': rid, 'op': op, 'in': inp, 'site': site + ('[gzip]' if gz else ''),
                'out': {'raised': 'WrittenFileUnreadable', 'stage': 'to_file', 'msg': str(e)[:100]}}


def _execute(op, inp, rid, tmpd):
    import dadi
    from dadi import Numerics
    rec = {'id': rid, 'op': op, 'in': inp}
    gz = bool(inp.get('gz'))
    suffix = '.fs.gz' if gz else '.fs'
    path = os.path.join(tmpd, rid.replace('/', '_') + suffix)
    comments = [''.join(c) for c in inp.get('comments', [])]
    if op == 'roundtrip':
        rec['site'] = 'Spectrum.to_file/from_file' + ('[gzip]' if gz else '')
        fs = build(inp['s'], inp.get('layout', 'c'), inp.get('lkey', 0))
        inp['s'] = enc(fs)                      # the logical array of the object actually written
        inp['mem'] = describe_layout(fs)
        how = inp.get('how', 'keywords')
        try:
            if how == 'defaults':          # every optional argument left at its default (precision 16, no comments, foldmaskinfo, mask_corners)
                fs.to_file(path)
            elif how == 'alias':           # the documented aliases tofile / fromfile, positional arguments
                fs.tofile(path, inp['p'], comments, inp['fmi'])
            elif how == 'numpy-types':     # numpy integer precision, tuple of comment lines, numpy bools
                fs.to_file(path, precision=np.int64(inp['p']), comment_lines=tuple(comments), foldmaskinfo=np.bool_(inp['fmi']))
            else:
                fs.to_file(path, precision=inp['p'], comment_lines=comments, foldmaskinfo=inp['fmi'])
        except Exception as e:
            rec['out'] = {'raised': type(e).__name__, 'stage': 'to_file', 'msg': str(e)[:100]}
            return rec
        out = {'file': file_record(read_text(path), len(comments) + 1)}
        try:
            if how == 'defaults':
                back, bc = dadi.Spectrum.from_file(path), []
            elif how == 'alias':
                back, bc = dadi.Spectrum.fromfile(path, inp['mc'], True)
            else:
                back, bc = dadi.Spectrum.from_file(path, mask_corners=inp['mc'], return_comments=True)
        except Exception as e:
            rec['out'] = {'raised': type(e).__name__, 'stage': 'from_file', 'msg': str(e)[:100], 'file': out['file']}
            return rec
        out['back'] = {'s': enc(back), 'comments': [chars(c) for c in bc]}
        rec['out'] = out
    elif op == 'from_file':
        rec['site'] = 'Spectrum.from_file' + ('[gzip]' if gz else '')
        if gz:
            with gzip.open(path, 'wt') as f:
                f.write(inp['text'])
        else:
            with open(path, 'w') as f:
                f.write(inp['text'])
        try:
            back, bc = dadi.Spectrum.from_file(path, mask_corners=inp['mc'], return_comments=True)
            rec['out'] = {'s': enc(back), 'comments': [chars(c) for c in bc]}
        except Exception as e:
            rec['out'] = {'raised': type(e).__name__, 'msg': str(e)[:100]}
    elif op == 'array_roundtrip':
        rec['site'] = 'Numerics.array_to_file/array_from_file'
        a = inp['a']
        lay, lkey = inp.get('layout', 'c'), inp.get('lkey', 0)
        data = lay_out(np.array([_val(x) for x in a['d']], dtype=float).reshape(a['sh']), lay, lkey, 777.25)
        if any(a['m']):
            data = np.ma.masked_array(data, mask=lay_out(np.array(a['m'], dtype=bool).reshape(a['sh']), lay, lkey, True), fill_value=np.nan)
            a['d'] = rats(np.asarray(data.data, dtype=float).ravel())      # the logical array actually passed
            a['m'] = [bool(b) for b in np.ma.getmaskarray(data).ravel()]
        else:
            a['d'] = rats(np.asarray(data, dtype=float).ravel())
        inp['mem'] = describe_layout(data)
        dt = inp.get('dtype', 'float64')
        if dt != 'float64':
            data = data.astype(dt)
            a['d'] = rats(np.asarray(getattr(data, 'data', data), dtype=float).ravel())      # the values the array really holds
        how = inp.get('how', 'keywords')
        try:
            if how == 'defaults':
                Numerics.array_to_file(data, path)
            elif how == 'fileobj':          # an open file object instead of a name
                with open(path, 'w') as fid:
                    Numerics.array_to_file(data, fid, precision=inp['p'], comment_lines=comments)
            else:
                Numerics.array_to_file(data, path, precision=inp['p'], comment_lines=comments)
        except Exception as e:
            rec['out'] = {'raised': type(e).__name__, 'stage': 'to_file', 'msg': str(e)[:100]}
            return rec
        out = {'file': file_record(read_text(path), len(comments) + 1)}
        try:
            if how == 'defaults':
                back, bc = Numerics.array_from_file(path), []
            elif how == 'fileobj':
                with open(path, 'r') as fid:
                    back, bc = Numerics.array_from_file(fid, return_comments=True)
            else:
                back, bc = Numerics.array_from_file(path, return_comments=True)
        except Exception as e:
            rec['out'] = {'raised': type(e).__name__, 'stage': 'from_file', 'msg': str(e)[:100], 'file': out['file']}
            return rec
        out['back'] = {'a': {'sh': [int(x) for x in back.shape], 'd': rats(np.asarray(back, dtype=float).ravel())}, 'comments': [chars(c) for c in bc]}
        rec['out'] = out
    elif op == 'array_from_file':
        rec['site'] = 'Numerics.array_from_file'
        with open(path, 'w') as f:
            f.write(inp['text'])
        try:
            back, bc = Numerics.array_from_file(path, return_comments=True)
            rec['out'] = {'a': {'sh': [int(x) for x in back.shape], 'd': rats(np.asarray(back, dtype=float).ravel())}, 'comments': [chars(c) for c in bc]}
        except Exception as e:
            rec['out'] = {'raised': type(e).__name__, 'msg': str(e)[:100]}
    elif op == 'array_stream':
        # several arrays written one after another into ONE file through open handles, read back one after another from ONE handle
        rec['site'] = 'Numerics.array_to_file/array_from_file[stream]'
        mode = inp['mode']
        datas = []
        for it in inp['items']:
            a = it['a']
            data = np.array([_val(x) for x in a['d']], dtype=float).reshape(a['sh'])
            if any(a['m']):
                data = np.ma.masked_array(data, mask=np.array(a['m'], dtype=bool).reshape(a['sh']), fill_value=np.nan)
            datas.append((data, it['p'], [''.join(c) for c in it['comments']]))
        path = os.path.join(tmpd, rid.replace('/', '_') + '.arrays')
        reads, rest, at = [], None, 0

        def read_some(fid):
            nonlocal at
            got = []
            for at in range(inp['nread']):
                back, bc = Numerics.array_from_file(fid, return_comments=True)
                got.append({'a': {'sh': [int(x) for x in back.shape], 'd': rats(np.asarray(back, dtype=float).ravel())}, 'comments': [chars(c) for c in bc]})
            return got, fid.read()
        stage = 'write'
        try:
            if mode == 'append':           # a new handle (opened for appending) for every array
                open(path, 'w').close()
                for at, (data, p_, cm) in enumerate(datas):
                    with open(path, 'a') as fid:
                        Numerics.array_to_file(data, fid, precision=p_, comment_lines=cm)
            elif mode == 'w+':             # one handle for writing and then reading
                with open(path, 'w+') as fid:
                    for at, (data, p_, cm) in enumerate(datas):
                        Numerics.array_to_file(data, fid, precision=p_, comment_lines=cm)
                    fid.seek(0)
                    stage = 'read'
                    reads, rest = read_some(fid)
            else:                          # one handle for all writes, another one for all reads
                with open(path, 'w') as fid:
                    for at, (data, p_, cm) in enumerate(datas):
                        Numerics.array_to_file(data, fid, precision=p_, comment_lines=cm)
            if mode != 'w+':
                stage = 'read'
                with open(path, 'r') as fid:
                    reads, rest = read_some(fid)
        except Exception as e:
            rec['out'] = {'raised': type(e).__name__, 'stage': stage, 'at': at, 'msg': str(e)[:100]}
            return rec
        rec['out'] = {'lines': text_lines(read_text(path)), 'reads': reads, 'rest': text_lines(rest)}
    elif op == 'pickle':
        rec['site'] = 'pickle(Spectrum)'
        fs = build(inp['s'], inp.get('layout', 'c'), inp.get('lkey', 0))
        inp['s'] = enc(fs)
        inp['mem'] = describe_layout(fs)
        fs.extrap_x = None if inp['x'] == 'none' else float(Fraction(inp['x']))
        try:
            import copyreg
            fn, args = copyreg.dispatch_table[type(fs)](fs)
            d_, m_, f_, ids_, x_ = args
            red = {'data': {'sh': [int(v) for v in np.shape(d_)], 'd': rats(np.asarray(d_, dtype=float).ravel())},
                   'mask': {'sh': [int(v) for v in np.shape(m_)], 'm': [bool(v) for v in np.asarray(m_).ravel()]},
                   'folded': bool(f_), 'pop_ids': [chars(str(v)) for v in ids_] if ids_ else [], 'extrap_x': 'none' if x_ is None else rat(x_)}
            if inp['via'] == 'deepcopy':
                back = copy.deepcopy(fs)
            elif inp['via'] == 'copy':
                back = copy.copy(fs)
            else:
                back = pickle.loads(pickle.dumps(fs, protocol=inp['protocol']))
            rec['out'] = {'reduce': red, 's': enc(back), 'x': 'none' if back.extrap_x is None else rat(back.extrap_x), 'type': type(back).__name__}
        except Exception as e:
            rec['out'] = {'raised': type(e).__name__, 'msg': str(e)[:100]}
    else:
        raise common.MachineryError('unknown op %s' % op)
    return rec


# --------------------------------------------------------------------------
# case generation
# --------------------------------------------------------------------------
def rand_value(rng):
    u = rng.random()
    if u < 0.08:
        return 0.0
    if u < 0.13:
        return rng.choice([float('nan'), float('inf'), float('-inf')])
    if u < 0.35:
        return rng.choice([1.0, -1.0]) * 10.0 ** rng.uniform(-300, 300)
    if u < 0.55:
        return float(rng.randint(0, 5000))
    if u < 0.65:
        return rng.choice([1e-300, 1e300, 9.999999999999999e299, 1.0000000000000002, 0.1, 1 / 3.0, 2.0 ** -1022, 123456789012345678.0, 5e-324])
    if u < 0.72:
        return -10.0 ** rng.uniform(-6, 6)
    return 10.0 ** rng.uniform(-6, 6)


def rand_shape(rng, quick):
    ndim = rng.choice([1, 1, 2, 2, 3, 3, 4, 5])
    hi = {1: 12, 2: 5, 3: 4, 4: 3, 5: 3 if not quick else 2}[ndim]
    sh = [rng.randint(1, hi) for _ in range(ndim)]
    if rng.random() < 0.3:
        sh[rng.randrange(ndim)] = 1          # singleton axis
    return sh


def rand_abstract(rng, sh, folded=None):
    n = int(np.prod(sh))
    mstyle = rng.choice(['none', 'corners', 'random', 'all', 'single'])
    m = [False] * n
    if mstyle in ('corners', 'random'):
        m[0] = m[-1] = True
    if mstyle == 'random':
        m = [b or rng.random() < 0.3 for b in m]
    if mstyle == 'all':
        m = [True] * n
    if mstyle == 'single':
        m[rng.randrange(n)] = True
    ids = [chars(rng.choice(LABELS)) for _ in sh] if rng.random() < 0.75 else []
    return {'sh': sh, 'd': rats([rand_value(rng) for _ in range(n)]), 'm': m,
            'f': (rng.random() < 0.35) if folded is None else folded, 'ids': ids}


def rand_comments(rng):
    return [chars(rng.choice(COMMENTS)) for _ in range(rng.choice([0, 0, 1, 2, 3, 4, 5]))]


def old_text(rng, s, p, comments, style):
    """a file in the pre-1.3 format written by hand: comment lines, dimensions, one data line, no mask line"""
    def num(x):
        return x if x in ('nan', 'inf', '-inf') else ('%%.%ig' % p) % float(Fraction(x))
    sep = {'plain': ' ', 'wide': '   ', 'tab': '\t'}[style]
    lines = ['#' + ('' if style == 'wide' else ' ') + ''.join(c) for c in comments]
    lines.append(sep.join(str(v) for v in s['sh']) + (' ' if style != 'tab' else ''))
    lines.append(sep.join(num(x) for x in s['d']))
    return '\n'.join(lines) + '\n'


def new_text(rng, s, p, comments, style):
    """a current-format file written by hand with irregular blanks"""
    def num(x):
        return x if x in ('nan', 'inf', '-inf') else ('%%.%ig' % p) % float(Fraction(x))
    sep = {'plain': ' ', 'wide': '   ', 'tab': '\t'}[style]
    lines = ['#' + ''.join(c) for c in comments]
    hdr = sep.join(str(v) for v in s['sh']) + sep + ('folded' if s['f'] else 'unfolded')
    for l in s['ids']:
        hdr += sep + '"%s"' % ''.join(l)
    lines.append(hdr)
    lines.append(sep.join(num(x) for x in s['d']))
    lines.append(sep.join('1' if b else '0' for b in s['m']))
    return '\n'.join(lines) + '\n'


def rand_layout(rng, sh):
    """most multi-dimensional objects are NOT C-contiguous (results of reorder_pops / transpose, Fortran-ordered
    input, strided slices); 1-D ones can only be strided"""
    if len(sh) == 1:
        return rng.choice(['c', 'c', 'slice'])
    return rng.choice(['c', 'fortran', 'transpose', 'reorder', 'slice', 'fortran', 'transpose', 'reorder'])


def cases(ctx):
    rng = random.Random(ctx.seed + 14)
    out = []
    n_rt = 140 if ctx.quick else 1400
    for t in range(n_rt):
        sh = rand_shape(rng, ctx.quick)
        s = rand_abstract(rng, sh)
        inp = {'s': s, 'p': rng.choice([16, 16, 17, 18, 19, 20]), 'comments': rand_comments(rng),
               'fmi': rng.random() < 0.8, 'gz': rng.random() < 0.35, 'mc': rng.random() < 0.5,
               'layout': rand_layout(rng, sh), 'lkey': rng.randrange(1000)}
        out.append(('roundtrip', inp))
    # the abstract spectra of the exhaustive model (small shapes incl. singleton axes, every mask), plain and gzip
    for sh in ([1], [3], [1, 2], [2, 1], [2, 2], [1, 2, 1]):
        n = int(np.prod(sh))
        for mbits in range(2 ** n):
            s = rand_abstract(rng, sh)
            s['m'] = [bool(mbits >> k & 1) for k in range(n)]
            out.append(('roundtrip', {'s': s, 'p': rng.choice([16, 17, 20]), 'comments': rand_comments(rng), 'fmi': True,
                                      'gz': mbits % 3 == 0, 'mc': False, 'layout': LAYOUTS[mbits % len(LAYOUTS)], 'lkey': mbits}))
    # hand-written files: pre-1.3 format and irregular blanks, plain and gzip
    n_hand = 40 if ctx.quick else 400
    for t in range(n_hand):
        sh = rand_shape(rng, True)
        s = rand_abstract(rng, sh)
        comments = rand_comments(rng)
        p = rng.choice([16, 17, 20])
        style = rng.choice(['plain', 'wide', 'tab'])
        old = rng.random() < 0.6
        text = (old_text if old else new_text)(rng, s, p, comments, style)
        inp = {'file': file_record(text, len(comments) + 1), 'text': text, 'mc': rng.random() < 0.5, 'gz': rng.random() < 0.25,
               'origin': ('pre-1.3 ' if old else 'current ') + style}
        out.append(('from_file', inp))
        if old and rng.random() < 0.5:
            out.append(('array_from_file', {'file': inp['file'], 'text': text, 'origin': inp['origin']}))
    # generic array writer / reader, and cross uses
    n_arr = 40 if ctx.quick else 400
    for t in range(n_arr):
        sh = rand_shape(rng, True)
        s = rand_abstract(rng, sh)
        masked = rng.random() < 0.4
        a = {'sh': sh, 'd': s['d'], 'm': s['m'] if masked else [False] * len(s['d'])}
        out.append(('array_roundtrip', {'a': a, 'p': rng.choice([16, 17, 18, 20]), 'comments': rand_comments(rng),
                                        'layout': rand_layout(rng, sh), 'lkey': rng.randrange(1000)}))
    # pickle / copy
    n_p = 36 if ctx.quick else 360
    for t in range(n_p):
        sh = rand_shape(rng, True)
        s = rand_abstract(rng, sh)
        via = ['pickle', 'pickle', 'pickle', 'deepcopy', 'copy'][t % 5]      # with protocol = t % 6: every protocol, deepcopy and copy
        s['f'] = (t // 3) % 2 == 1
        out.append(('pickle', {'s': s, 'x': ['none', rat(1.0 / rng.randint(10, 200))][(t // 6) % 2], 'protocol': t % (pickle.HIGHEST_PROTOCOL + 1), 'via': via,
                               'layout': rand_layout(rng, sh), 'lkey': rng.randrange(1000)}))
    out += boundary_cases(ctx, rng)
    return out


EXTREMES = [1e-300, 1e300, -1e-300, -1e300, 0.0, float('nan'), float('inf'), float('-inf'), 1.0, 1.0000000000000002, 0.9999999999999999,
            0.1, 1 / 3.0, 123456789012345678.0, 9.999999999999999e299, 1.0000000000000002e-300, 2.0 ** -1022, 5e-324]


def boundary_cases(ctx, rng):
    """Deterministic in both tiers: every element of the stated domain occurs at least once (each dimension count,
    all-singleton shapes, two-digit axis, the end points 1e-300 / 1e300 and 0 / nan / inf, every precision, 0..5 comment lines and
    every comment text, every label text, folded / unfolded, plain / gzip, current / pre-1.3 format, both mask_corners settings,
    default arguments, aliases, file objects, array dtypes, every memory layout)."""
    out = []
    shapes = {1: [11], 2: [3, 4], 3: [2, 1, 3], 4: [2, 2, 1, 2], 5: [2, 1, 2, 2, 2]}
    precs = [16, 17, 18, 19, 20, 25] + ([] if ctx.quick else [30, 40])
    lab = itertools.cycle(LABELS)
    com = itertools.cycle(COMMENTS)
    n = itertools.count()

    def spectrum(sh, f, mstyle, labelled=True, values=None):
        size = int(np.prod(sh))
        d = values if values is not None else [rand_value(rng) for _ in range(size)]
        m = [False] * size
        if mstyle in (1, 2):
            m[0] = m[-1] = True
        if mstyle == 2:
            m = [b or j % 3 == 1 for j, b in enumerate(m)]
        if mstyle == 3:
            m = [True] * size
        return {'sh': sh, 'd': rats(d), 'm': m, 'f': f, 'ids': [chars(next(lab)) for _ in sh] if labelled else []}

    def comments(k):
        return [chars(next(com)) for _ in range(k)]
    # each dimension count x plain/gzip x folded/unfolded; comment counts 0..5, precisions, mask styles, layouts cycle
    for d in (1, 2, 3, 4, 5):
        for gz in (False, True):
            for f in (False, True):
                t = next(n)
                out.append(('roundtrip', {'s': spectrum(shapes[d], f, t % 4, labelled=(t % 5 != 4)), 'p': precs[t % len(precs)], 'comments': comments(t % 6),
                                          'fmi': True, 'gz': gz, 'mc': t % 2 == 1, 'layout': LAYOUTS[t % 5], 'lkey': t}))
        # the pre-1.3 format written by to_file(foldmaskinfo=False)
        for gz in (False, True):
            t = next(n)
            out.append(('roundtrip', {'s': spectrum(shapes[d], False, t % 3), 'p': precs[t % len(precs)], 'comments': comments(t % 6),
                                      'fmi': False, 'gz': gz, 'mc': t % 2 == 0, 'layout': LAYOUTS[(t + 1) % 5], 'lkey': t}))
    for sh in ([1, 1, 1], [1, 1], [1, 5, 1]):        # singleton axes only / around one real axis
        t = next(n)
        out.append(('roundtrip', {'s': spectrum(sh, t % 2 == 0, t % 3), 'p': 16, 'comments': comments(4), 'fmi': True, 'gz': t % 2 == 1, 'mc': False,
                                  'layout': 'c', 'lkey': t}))
    # the end points of the value range and the special values, at every precision
    for p in precs:
        for sh, lay in (([len(EXTREMES)], 'slice'), ([3, 6], 'fortran')):
            t = next(n)
            out.append(('roundtrip', {'s': spectrum(sh, False, 0, values=list(EXTREMES)), 'p': p, 'comments': comments(t % 3), 'fmi': True,
                                      'gz': p in (16, 20), 'mc': False, 'layout': lay, 'lkey': t}))
    # genuinely folded spectra: folded-out entries are zero and masked
    for sh in ([6], [3, 4], [2, 2, 3]):
        size = int(np.prod(sh))
        tot = sum(v - 1 for v in sh)
        idx = list(itertools.product(*[range(v) for v in sh]))
        outm = [sum(ix) > tot // 2 for ix in idx]
        d = [0.0 if o else 10.0 ** rng.uniform(-3, 3) for o in outm]
        for gz in (False, True):
            s_ = {'sh': sh, 'd': rats(d), 'm': [o or j in (0, size - 1) for j, o in enumerate(outm)], 'f': True, 'ids': [chars(next(lab)) for _ in sh]}
            out.append(('roundtrip', {'s': s_, 'p': 17, 'comments': comments(1), 'fmi': True, 'gz': gz, 'mc': True, 'layout': 'reorder' if len(sh) > 1 else 'c', 'lkey': next(n)}))
    # call forms: defaults only, aliases with positional arguments, numpy argument types
    for how in ('defaults', 'alias', 'numpy-types'):
        for gz in (False, True):
            t = next(n)
            dflt = how == 'defaults'
            out.append(('roundtrip', {'s': spectrum([3, 3], t % 2 == 0, 0 if dflt else 1), 'p': 16 if dflt else 18, 'comments': [] if dflt else comments(2),
                                      'fmi': True if dflt else t % 2 == 0, 'gz': gz, 'mc': True if dflt else t % 2 == 1, 'layout': 'c', 'lkey': t, 'how': how}))
    # hand-written files: both formats x every blank style x both mask_corners settings, one of each format gzipped
    for old in (True, False):
        for style in ('plain', 'wide', 'tab'):
            for mc in (False, True):
                t = next(n)
                s_ = spectrum(shapes[1 + t % 3], (not old) and t % 2 == 0, t % 3)
                cm = comments(t % 4)
                text = (old_text if old else new_text)(rng, s_, 17, cm, style)
                inp = {'file': file_record(text, len(cm) + 1), 'text': text, 'mc': mc, 'gz': style == 'wide' and mc,
                       'origin': ('pre-1.3 ' if old else 'current ') + style}
                out.append(('from_file', inp))
                if old:
                    out.append(('array_from_file', {'file': inp['file'], 'text': text, 'origin': inp['origin']}))
    # generic array writer / reader: each dimension count, masked and not, every precision, file objects, defaults, dtypes
    for d in (1, 2, 3, 4, 5):
        for masked in (False, True):
            t = next(n)
            s_ = spectrum(shapes[d], False, 2 if masked else 0, labelled=False)
            out.append(('array_roundtrip', {'a': {'sh': s_['sh'], 'd': s_['d'], 'm': s_['m']}, 'p': precs[t % len(precs)], 'comments': comments(t % 6),
                                            'layout': LAYOUTS[t % 5], 'lkey': t, 'how': 'fileobj' if t % 3 == 0 else 'keywords'}))
    t = next(n)
    out.append(('array_roundtrip', {'a': {'sh': [len(EXTREMES)], 'd': rats(list(EXTREMES)), 'm': [False] * len(EXTREMES)}, 'p': 16, 'comments': [],
                                    'layout': 'c', 'lkey': t, 'how': 'defaults'}))
    out.append(('array_roundtrip', {'a': {'sh': [2, 9], 'd': rats(list(EXTREMES)), 'm': [False] * len(EXTREMES)}, 'p': 20, 'comments': comments(5),
                                    'layout': 'transpose', 'lkey': t, 'how': 'fileobj'}))
    for dt in ('float32', 'int64', 'int32'):
        vals = [float(rng.randint(-5000, 5000)) for _ in range(6)]
        out.append(('array_roundtrip', {'a': {'sh': [2, 3], 'd': rats(vals), 'm': [False] * 6}, 'p': 16, 'comments': comments(1),
                                        'layout': 'c', 'lkey': 0, 'dtype': dt}))
    out.append(('array_roundtrip', {'a': {'sh': [5], 'd': rats([0.1, 1 / 3.0, 1e-30, 2.5e30, 7.0]), 'm': [False] * 5}, 'p': 17, 'comments': [],
                                    'layout': 'c', 'lkey': 0, 'dtype': 'float32'}))
    # pickle: every dimension count and layout, folded / labelled / extrap_x present or not
    for d in (1, 2, 3, 4, 5):
        for via in ('pickle', 'deepcopy', 'copy'):
            t = next(n)
            out.append(('pickle', {'s': spectrum(shapes[d], t % 2 == 0, t % 4, labelled=t % 3 != 0), 'x': ['none', rat(0.0125)][t % 2],
                                   'protocol': t % (pickle.HIGHEST_PROTOCOL + 1), 'via': via, 'layout': LAYOUTS[t % 5], 'lkey': t}))
    return out


def adv_label(rng):
    """a label composed of the header keywords, number tokens and other words, separated / surrounded by blanks"""
    words = [rng.choice(ADV_WORDS) for _ in range(rng.choice([1, 2, 2, 3, 3, 4]))]
    if not any(w in ('folded', 'unfolded') or w.isdigit() for w in words):
        words[rng.randrange(len(words))] = rng.choice(['folded', 'unfolded', '2'])
    lab = words[0]
    for w in words[1:]:
        lab += rng.choice(ADV_SEPS) + w
    return rng.choice(['', '', ' ', '  ']) + lab + rng.choice(['', '', ' ', '  '])


def label_cases(ctx):
    """Deterministic block (own RNG, both tiers): labels containing blanks in every adversarial way for the header parser - the keywords
    folded / unfolded as separate words, number tokens, leading / trailing / multiple blanks - on folded and unfolded spectra,
    plain and gzip, 1-3 dimensions, written by to_file and by hand (irregular blanks)."""
    rng = random.Random(ctx.seed + 1400)
    out = []
    shapes = {1: [4], 2: [2, 3], 3: [2, 1, 2]}

    def spectrum(nd, f, labels):
        sh = shapes[nd]
        size = int(np.prod(sh))
        m = [rng.random() < 0.25 for _ in range(size)]
        return {'sh': sh, 'd': rats([float(rng.randint(0, 99)) / rng.choice([1, 4, 7]) for _ in range(size)]), 'm': m, 'f': f, 'ids': [chars(l) for l in labels]}
    # every fixed label on a folded and on an unfolded spectrum, plain and gzip; dimension count and position of the label cycle
    for j, lab in enumerate(ADV_LABELS):
        for gz in (False, True):
            for f in (False, True):
                t = 4 * j + 2 * int(gz) + int(f)
                nd = 1 + t % 3
                labels = [rng.choice(['A', 'pop 1', 'x', '']) for _ in range(nd)]
                labels[(t // 3) % nd] = lab
                out.append(('roundtrip', {'s': spectrum(nd, f, labels), 'p': 16, 'comments': [chars(c) for c in ([] if t % 4 else ['unfolded 2 "folded"'])],
                                          'fmi': True, 'gz': gz, 'mc': t % 5 == 0, 'layout': 'c', 'lkey': 0}))
    # composed labels on every axis
    n_rand = 60 if ctx.quick else 600
    for t in range(n_rand):
        nd = 1 + t % 3
        f = (t // 3) % 2 == 1
        labels = [adv_label(rng) if rng.random() < 0.8 else rng.choice(ADV_LABELS) for _ in range(nd)]
        out.append(('roundtrip', {'s': spectrum(nd, f, labels), 'p': 16, 'comments': [], 'fmi': True, 'gz': (t // 6) % 2 == 1, 'mc': False,
                                  'layout': 'c', 'lkey': 0}))
    # the same kind of labels in hand-written current-format files with irregular blanks
    n_hand = 24 if ctx.quick else 240
    for t in range(n_hand):
        nd = 1 + t % 3
        f = (t // 3) % 2 == 1
        labels = [ADV_LABELS[(7 * t + q) % len(ADV_LABELS)] if q == t % nd else adv_label(rng) for q in range(nd)]
        s_ = spectrum(nd, f, labels)
        style = ['plain', 'wide', 'tab'][(t // 2) % 3]
        text = new_text(rng, s_, 17, [], style)
        out.append(('from_file', {'file': file_record(text, 1), 'text': text, 'mc': False, 'gz': (t // 6) % 2 == 1, 'origin': 'current ' + style + ' adversarial labels'}))
    return out


def stream_cases(ctx):
    """Deterministic block (own RNG, both tiers): 2-3 arrays of different shapes, with comment lines, written with array_to_file into
    ONE file through open handles and read back with successive array_from_file calls on ONE handle."""
    rng = random.Random(ctx.seed + 1401)
    out = []
    n_s = 36 if ctx.quick else 360
    for t in range(n_s):
        k = 2 + t % 2
        shapes = []
        while len(shapes) < k:
            sh = rand_shape(rng, True)
            if sh not in shapes:
                shapes.append(sh)
        items = []
        for j, sh in enumerate(shapes):
            n = int(np.prod(sh))
            masked = rng.random() < 0.3
            m = [masked and rng.random() < 0.4 for _ in range(n)]
            ncom = [0, 1, 2, 3][(t + j) % 4] if t % 5 else 0          # every fifth stream has no comment line at all: number lines only
            items.append({'a': {'sh': sh, 'd': rats([rand_value(rng) for _ in range(n)]), 'm': m}, 'p': rng.choice([16, 17, 20]),
                          'comments': [chars(rng.choice(COMMENTS)) for _ in range(ncom)]})
        out.append(('array_stream', {'items': items, 'nread': k if t % 3 else rng.randint(0, k - 1), 'mode': ['reopen', 'w+', 'append'][(t // 2) % 3]}))
    return out


def cross_cases(recs):
    """files produced by one writer given to the other reader (pre-1.3 consistency): built from recorded files"""
    out = []
    for r in recs:
        if 'file' not in r.get('out', {}):
            continue
        f = r['out']['file']
        text = r['out'].get('text')
        if text is None:
            continue
        if r['op'] == 'array_roundtrip':
            out.append(('from_file', {'file': f, 'text': text, 'mc': len(out) % 2 == 0, 'gz': False, 'origin': 'array_to_file'}))
        elif r['op'] == 'roundtrip' and not r['in']['fmi']:
            out.append(('array_from_file', {'file': f, 'text': text, 'origin': 'to_file(foldmaskinfo=False)'}))
    return out


def records(ctx):
    import logging
    logging.disable(logging.WARNING)
    tmpd = tempfile.mkdtemp(prefix='c14-', dir=common.SCRATCH_ROOT)
    try:
        recs = []
        for n, (op, inp) in enumerate(cases(ctx)):
            r = execute(op, inp, '%s-%d' % (op, n), tmpd)
            # keep the text of written files for the cross-reader cases
            if op in ('roundtrip', 'array_roundtrip') and 'file' in r['out']:
                for suffix in ('.fs', '.fs.gz'):
                    p = os.path.join(tmpd, r['id'] + suffix)
                    if os.path.exists(p):
                        r['out']['text'] = read_text(p)
            recs.append(r)
        base = len(recs)
        for n, (op, inp) in enumerate(cross_cases(recs)):
            recs.append(execute(op, inp, 'x%s-%d' % (op, base + n), tmpd))
        # deterministic blocks with their own seeds, appended so that the records above keep their ids and contents
        for n, (op, inp) in enumerate(label_cases(ctx)):
            recs.append(execute(op, inp, 'lab-%s-%d' % (op, n), tmpd))
        for n, (op, inp) in enumerate(stream_cases(ctx)):
            recs.append(execute(op, inp, 'stream-%d' % n, tmpd))
        return recs
    finally:
        shutil.rmtree(tmpd, ignore_errors=True)
        logging.disable(logging.NOTSET)


def nontrivial(r):
    i = r['in']
    if r['op'] == 'roundtrip':
        s = i['s']
        return ('rt', tuple(s['sh']), s['f'], tuple(''.join(l) for l in s['ids']), i['p'], len(i['comments']), i['fmi'], i['gz'], i['mc'], tuple(s['m']), i.get('layout'), i.get('how'))
    if r['op'] in ('from_file', 'array_from_file'):
        return (r['op'], i['origin'], i.get('gz'), i.get('mc'), len(i['file']['pre']), len(i['file']['body'][0]) if i['file']['body'] else 0)
    if r['op'] == 'array_stream':
        return ('stream', tuple(tuple(it['a']['sh']) for it in i['items']), tuple(len(it['comments']) for it in i['items']),
                tuple(any(it['a']['m']) for it in i['items']), tuple(it['p'] for it in i['items']), i['nread'], i['mode'])
    if r['op'] == 'array_roundtrip':
        return ('arr', tuple(i['a']['sh']), any(i['a']['m']), i['p'], len(i['comments']), i.get('layout'), i.get('how'), i.get('dtype'))
    s = i['s']
    return ('pickle', tuple(s['sh']), s['f'], bool(s['ids']), i['x'] != 'none', i['protocol'], i['via'], i.get('layout'))


def mutate(rec):
    """Corrupt one observed field so that a sound trace spec must reject the record."""
    out = rec['out']
    if 'raised' in out:
        return None

    def bump(d):
        for k, v in enumerate(d):
            if v not in ('nan', 'inf', '-inf') and Fraction(v) != 0:
                d[k] = rat(Fraction(v) * Fraction(1000001, 1000000))
                return True
        return False
    op = rec['op']
    if op == 'roundtrip':
        s = out['back']['s']
        if bump(s['d']):
            return rec
        s['f'] = not s['f']
        return rec
    if op == 'from_file':
        if out['s']['ids']:
            out['s']['ids'][0] = out['s']['ids'][0] + ['x']
            return rec
        if bump(out['s']['d']):
            return rec
        out['s']['m'][0] = not out['s']['m'][0]
        return rec
    if op == 'array_roundtrip':
        if bump(out['back']['a']['d']):
            return rec
        out['back']['comments'] = out['back']['comments'] + [['x']]
        return rec
    if op == 'array_from_file':
        if bump(out['a']['d']):
            return rec
        out['comments'] = out['comments'] + [['x']]
        return rec
    if op == 'array_stream':
        kind = sum(map(ord, rec['id'])) % 3
        if kind == 0 and out['rest']:
            out['rest'] = out['rest'][1:]                       # the handle was left one line too far
            return rec
        if kind == 1 and len(out['reads']) >= 2:
            out['reads'][0], out['reads'][1] = out['reads'][1], out['reads'][0]      # arrays returned in the wrong order
            return rec
        if out['reads'] and bump(out['reads'][-1]['a']['d']):
            return rec
        out['rest'] = out['rest'] + [{'c': ['1', ' '], 't': ['1']}]
        return rec
    if op == 'pickle':
        out['s']['m'][-1] = not out['s']['m'][-1]
        return rec
    return None


def run(ctx):
    if ctx.replay:
        import logging
        logging.disable(logging.WARNING)
        old = ctx.replay_payload['payload']['record']
        tmpd = tempfile.mkdtemp(prefix='c14-', dir=common.SCRATCH_ROOT)
        try:
            recs = [execute(old['op'], dict(old['in']), old['id'], tmpd)]     # re-executed on the current tree from the recorded inputs
        finally:
            shutil.rmtree(tmpd, ignore_errors=True)
        ctx.no_mc = True
    else:
        recs = records(ctx)
    for r in recs:
        r['out'].pop('text', None)
    return common.pipeline(
        ctx, [('SpectrumIOMC', 'SpectrumIOMC_%s.cfg' % ctx.tier)], 'Trace_SpectrumIO', recs,
        nontrivial_of=nontrivial, mutator=mutate,
        rule='to_file/from_file round trips on random 1-5-D spectra (singleton axes, values 1e-300..1e300, 0, negative, nan/inf, random masks, '
             'folded flag, labels with blanks / the words folded, unfolded / empty, 0-5 comments, precision 16-20, plain and .gz names, current and '
             'pre-1.3 format, mask_corners on/off) plus every mask of the small shapes of the exhaustive model; hand-written pre-1.3 and '
             'irregular-blank files; array_to_file/array_from_file incl. masked arrays; files of one writer given to the other reader; '
             'pickle protocols 0-5, copy, deepcopy; a deterministic block of labels adversarial for the header parser (the words folded / unfolded '
             'as separate blank-delimited words, number tokens, leading / trailing / multiple blanks, tabs) on folded and unfolded 1-3-D spectra, '
             'plain and gzip, written by to_file and by hand; streams of 2-3 arrays of different shapes (0-3 comment lines each, masked entries, '
             'nan/inf, own precision) written with array_to_file into ONE file through open handles (one handle, a w+ handle, append handles) '
             'and read back by 0..k successive array_from_file calls on ONE handle, with what is then left in the handle. Most 2-5-D objects written / pickled are NOT C-contiguous in memory (Fortran-ordered input, '
             'fs.transpose, fs.reorder_pops, strided slices of a larger Spectrum); the record holds the logical array. Distinct by the full option tuple incl. layout',
        assumptions=['BigInteger rational arithmetic of the Rat override (self-tested against the TLA+ definitions)',
                     'number tokens of a file are recorded as the exact rational value of their decimal text',
                     'written precision: |token - v| <= 5*10^-p |v|; read back: additionally TauParse = 2.5e-16 relative for the decimal->double conversion',
                     'blanks between header items are not significant (the header is compared after parsing); labels contain no double quote',
                     'streams of arrays use real text-mode file objects (array_to_file / array_from_file go through numpy tofile / fromfile, '
                     'which need an OS-level file); the position of a handle is observed as the text that a following read() returns'])
