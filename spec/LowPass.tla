------------------------------ MODULE LowPass ------------------------------
(***************************************************************************)
(* The low-pass (low coverage) calling model of dadi.LowPass (property     *)
(* C18) over exact rationals.                                              *)
(*                                                                         *)
(* n diploid individuals (n_sequenced = 2n haplotypes) carry x copies of   *)
(* the alternative allele.  A genotype configuration is the triple         *)
(*   c = <<n0, n1, n2>>   (ref-homozygotes, heterozygotes, alt-homozygotes)*)
(* with n0+n1+n2 = n and n1+2*n2 = x; dadi writes it as a sorted list of   *)
(* genotypes ("partition").  A depth-of-coverage distribution is a         *)
(* sequence cov with cov[d+1] = P(depth = d).  Vectors and matrices are    *)
(* 1-based sequences indexed by value+1 (row = true allele count + 1).     *)
(* N-dimensional spectra are the flat C-order sequences of SpectrumOps.    *)
(***************************************************************************)
EXTENDS SpectrumOps, TLC

\* TLC evaluates [k \in 1..N |-> e] lazily and re-evaluates e at every application; Tab turns such a
\* sequence into an explicit tuple (same value), so that nested constructions are computed once
Tab(q)    == SubSeq(q, 1, Len(q))
TabMat(M) == Tab([x \in 1..Len(M) |-> Tab(M[x])])
TabF(f)   == f @@ <<>>                      \* the same for a function on an arbitrary finite set

(***************************************************************************)
(* Genotype configurations ("partitions") and their probabilities          *)
(***************************************************************************)
\* all and only the configurations (law L_Configs: equals the brute-force filter)
Configs(x, n) == {<<n - (x - 2 * m) - m, x - 2 * m, m>> : m \in {k \in 0..(x \div 2) : x - k <= n}}
ConfigsBrute(x, n) == {c \in (0..n) \X (0..n) \X (0..n) : c[1] + c[2] + c[3] = n /\ c[2] + 2 * c[3] = x}
\* sorted genotype lists, the way dadi writes a configuration
SortedLists(x, n) == {s \in [1..n -> 0..2] : ISum(s) = x /\ \A j \in 1..(n - 1) : s[j] <= s[j + 1]}
CountsOf(part) == [g \in 1..3 |-> Cardinality({j \in 1..Len(part) : part[j] = g - 1})]
AltCount(c) == c[2] + 2 * c[3]
NInd(c)     == c[1] + c[2] + c[3]

\* number of ways to deal genotypes to labelled individuals, and haplotypes to the two slots of a heterozygote
Multinom(c) == RMul(RBinom(c[1] + c[2] + c[3], c[1]), RBinom(c[2] + c[3], c[2]))
Ways0(c)    == RMul(Multinom(c), RPow("2", c[2]))
\* random mating (F = 0): n!/(n0! n1! n2!) 2^n1 / C(2n, x)
PartProb0(x, n, c) == RDiv(Ways0(c), RBinom(2 * n, x))

\* inbreeding: the genotype of one individual is beta-binomial(2; alpha, beta) with
\* alpha = p(1-F)/F, beta = (1-p)(1-F)/F, p = x/(2n); beta-binomial probabilities are
\* ratios of rising factorials, hence rational in F and p
RECURSIVE Rise(_, _)
Rise(a, k) == IF k = 0 THEN "1" ELSE RMul(Rise(a, k - 1), RAdd(a, RInt(k - 1)))
BetaBin2(i, a, b) == RDiv(RMul(RBinom(2, i), RMul(Rise(a, i), Rise(b, 2 - i))), Rise(RAdd(a, b), 2))
GenoProbs(x, n, F) ==
    LET p == RDiv(RInt(x), RInt(2 * n))
        s == RDiv(RSub("1", F), F)
        a == RMul(p, s)
        b == RMul(RSub("1", p), s)
    IN  <<BetaBin2(0, a, b), BetaBin2(1, a, b), BetaBin2(2, a, b)>>
\* the same numbers in closed form (law L_GenoHW): Hardy-Weinberg with inbreeding
GenoHW(x, n, F) ==
    LET p == RDiv(RInt(x), RInt(2 * n))
        q == RSub("1", p)
        pqF == RMul(RMul(p, q), F)
    IN  <<RAdd(RSq(q), pqF), RMul(RMul("2", RMul(p, q)), RSub("1", F)), RAdd(RSq(p), pqF)>>
\* unnormalised weight of configuration c under inbreeding F > 0 (a monomorphic site has one configuration)
WaysF(F, c) ==
    LET n == NInd(c)
        x == AltCount(c)
    IN  IF x = 0 \/ x = 2 * n THEN "1"
        ELSE LET g == GenoProbs(x, n, F)
             IN  RMul(Multinom(c), RMul(RPow(g[1], c[1]), RMul(RPow(g[2], c[2]), RPow(g[3], c[3]))))
\* probabilities of all configurations of allele count x: a function on Configs(x, n)
PartProbs(x, n, F) ==
    IF F = "0" THEN TabF([c \in Configs(x, n) |-> PartProb0(x, n, c)])
    ELSE LET w == TabF([c \in Configs(x, n) |-> WaysF(F, c)])
             tot == RSum(w)
         IN  TabF([c \in Configs(x, n) |-> RDiv(w[c], tot)])
\* dadi.LowPass.part_inbreeding_probability on an explicit list of configurations
PartInbList(cs, F) ==
    LET w == Tab([i \in 1..Len(cs) |-> WaysF(F, cs[i])])
        tot == RSum(w)
    IN  [i \in 1..Len(cs) |-> RDiv(w[i], tot)]

(***************************************************************************)
(* Subsampling nsub haplotypes (= nsub/2 individuals) out of nseq          *)
(***************************************************************************)
\* choose k/2 individuals of configuration c without replacement: distribution of their alt-allele count
ProjInb(c, k) ==
    LET h == k \div 2
        den == RBinom(NInd(c), h)
    IN  Tab([j1 \in 1..(k + 1) |->
           LET j == j1 - 1 IN
           RDiv(RSum([t \in 0..(j \div 2) |->
                        LET a2 == t
                            a1 == j - 2 * t
                            a0 == h - a1 - a2
                        IN  IF a0 < 0 THEN "0" ELSE RMul(RBinom(c[1], a0), RMul(RBinom(c[2], a1), RBinom(c[3], a2)))]), den)])
ProjRow(nseq, nsub, F, x) ==
    IF F = "0" THEN Tab([j1 \in 1..(nsub + 1) |-> IF HypSupport(nseq, nsub, x, j1 - 1) THEN Hyp(nseq, nsub, x, j1 - 1) ELSE "0"])
    ELSE LET pp == PartProbs(x, nseq \div 2, F)
             pi == TabF([c \in DOMAIN pp |-> ProjInb(c, nsub)])
         IN  Tab([j1 \in 1..(nsub + 1) |-> RSum([c \in DOMAIN pp |-> RMul(pp[c], pi[c][j1])])])
ProjectionMatrix(nseq, nsub, F) == Tab([x1 \in 1..(nseq + 1) |-> ProjRow(nseq, nsub, F, x1 - 1)])

(***************************************************************************)
(* Calling: heterozygote miscalls, no-call, enough individuals covered     *)
(***************************************************************************)
HalfPow(d) == RDiv("1", RPow("2", d))
MaxDepth(cov) == Len(cov) - 1
Covered(cov)  == RSum([d \in 2..Len(cov) |-> cov[d]])                \* P(depth >= 1)
\* a covered heterozygote shows reads of one allele only: 2 (1/2)^depth, depth drawn from cov given depth >= 1
HetErr(cov) == RDiv(RMul("2", RSum([d \in 2..Len(cov) |-> RMul(cov[d], HalfPow(d - 1))])), Covered(cov))
BinPmf(k, n, p) == RMul(RBinom(n, k), RMul(RPow(p, k), RPow(RSub("1", p), n - k)))
\* row x: distribution of the called allele count among nsub/2 called individuals; each of the n1
\* heterozygotes is miscalled with probability E, as ref- or alt-homozygote with probability 1/2 each
CallingErrorMatrix(cov, nsub, F) ==
    LET E == HetErr(cov)
        n == nsub \div 2
        pe == Tab([n1 \in 1..(n + 1) |-> Tab([e \in 1..n1 |-> BinPmf(e - 1, n1 - 1, E)])])     \* pe[n1 + 1][e + 1]
        pr == Tab([e \in 1..(n + 1) |-> Tab([r \in 1..e |-> RDiv(RBinom(e - 1, r - 1), RPow("2", e - 1))])])
    IN  Tab([x1 \in 1..(nsub + 1) |->
           LET x == x1 - 1
               pp == PartProbs(x, n, F)
           IN  Tab([y1 \in 1..(nsub + 1) |->
                  LET dlt == y1 - x1 IN        \* net change = (e - r) - r
                  RSum([c \in DOMAIN pp |->
                          RMul(pp[c], RSum([e \in 0..c[2] |->
                                  IF (e - dlt) % 2 = 0 /\ e - dlt >= 0 /\ (e - dlt) \div 2 <= e
                                  THEN RMul(pe[c[2] + 1][e + 1], pr[e + 1][(e - dlt) \div 2 + 1]) ELSE "0"]))])])])

\* GATK multi-sample calling needs at least two reads carrying the alternative allele
\* over all individuals; NoCall[x+1] = P(fewer than two alt reads | allele count x)
ZeroAltHet(cov) == RSum([d \in 1..Len(cov) |-> RMul(cov[d], HalfPow(d - 1))])                 \* het shows no alt read
OneAltHet(cov)  == RSum([d \in 1..Len(cov) |-> RMul(RInt(d - 1), RMul(cov[d], HalfPow(d - 1)))])  \* exactly one
NoCallConfig(cov, c) ==
    LET h == ZeroAltHet(cov)
        g == OneAltHet(cov)
        c0 == cov[1]
        c1 == cov[2]
        n1 == c[2]
        n2 == c[3]
        P0  == RMul(RPow(c0, n2), RPow(h, n1))
        P1a == IF n2 = 0 THEN "0" ELSE RMul(RMul(RInt(n2), RMul(c1, RPow(c0, n2 - 1))), RPow(h, n1))
        P1b == IF n1 = 0 THEN "0" ELSE RMul(RMul(RPow(c0, n2), RPow(h, n1 - 1)), RMul(RInt(n1), g))
    IN  RAdd(P0, RAdd(P1a, P1b))
NoCall(cov, nseq, F) ==
    Tab([x1 \in 1..(nseq + 1) |->
       LET pp == PartProbs(x1 - 1, nseq \div 2, F)
       IN  RSum([c \in DOMAIN pp |-> RMul(pp[c], NoCallConfig(cov, c))])])
\* one individual is known to be covered (the site is variant); at least nsub/2 - 1 of the others must be
EnoughCovered(cov, nseq, nsub) ==
    LET N == nseq \div 2 - 1
        c0 == cov[1]
        cc == Covered(cov)
    IN  RSum([k \in (nsub \div 2 - 1)..N |-> RMul(RBinom(N, k), RMul(RPow(c0, N - k), RPow(cc, k)))])

(***************************************************************************)
(* The corrected model                                                     *)
(***************************************************************************)
\* multiply axis a (1-based) of the flat array d of shape sh by the matrix T (rows = old index + 1)
ContractAxis(sh, d, a, T) ==
    LET cols == Len(T[1])
        sh2  == ShWithAxis(sh, a, cols)
    IN  Tab([k \in 1..Size(sh2) |->
           LET ix == Unflat(sh2, k)
           IN  RSum([h \in 0..(sh[a] - 1) |-> RMul(d[Flat(sh, WithAxis(ix, a, h))], T[h + 1][ix[a] + 1])])])
RECURSIVE ContractAll(_, _, _, _)
\* Ts[p] = sequence of matrices applied in order to axis p
ContractAll(sh, d, Ts, a) ==
    IF a > Len(sh) THEN [sh |-> sh, d |-> d]
    ELSE LET RECURSIVE go(_, _, _)
             go(s, dd, j) == IF j > Len(Ts[a]) THEN [sh |-> s, d |-> dd]
                             ELSE go(ShWithAxis(s, a, Len(Ts[a][j][1])), ContractAxis(s, dd, a, Ts[a][j]), j + 1)
             r == go(sh, d, 1)
         IN  ContractAll(r.sh, r.d, Ts, a + 1)
ScaleMat(c, M) == Tab([x \in 1..Len(M) |-> Tab([y \in 1..Len(M[x]) |-> RMul(c, M[x][y])])])
OuterAt(vs, ix) == IProdR([p \in 1..Len(vs) |-> vs[p][ix[p] + 1]])       \* product of per-axis vectors at index ix
ShapeOf(ns) == [p \in 1..Len(ns) |-> ns[p] + 1]
Zeroed(s) == Tab([k \in 1..Size(s.sh) |-> IF s.m[k] THEN "0" ELSE s.d[k]])    \* masked entries carry no sites

\* the components dadi precomputes for P populations
NoCallND(covs, nseq, Fs) ==
    LET v == Tab([p \in 1..Len(nseq) |-> NoCall(covs[p], nseq[p], Fs[p])])
        sh == ShapeOf(nseq)
    IN  Tab([k \in 1..Size(sh) |-> OuterAt(v, Unflat(sh, k))])
\* regime switch: an entry whose no-call probability exceeds the threshold is simulated, the rest is analytic
UseSim(nocall, thr) == [k \in 1..Len(nocall) |-> RLt(thr, nocall[k])]
\* subsampling matrix of one population, scaled by a survival factor lam in [0,1] (sites without enough covered
\* individuals are lost).  dadi uses for every population the probability that enough individuals are covered in
\* all populations; C18 only requires that the factor is a probability, so the laws are stated for any lam.
SubsampleMat(lam, nseq, nsub, F) == ScaleMat(lam, ProjectionMatrix(nseq, nsub, F))
SurvivalAll(covs, nseq, nsub) == IProdR([p \in 1..Len(nseq) |-> EnoughCovered(covs[p], nseq[p], nsub[p])])

\* analytic + simulated composition from given components; sims = sequence of [af |-> index, d |-> flat distribution]
Compose(sh, d0, nocall, usesim, projs, heterrs, sims) ==
    LET a0 == Tab([k \in 1..Size(sh) |-> IF usesim[k] THEN "0" ELSE RMul(d0[k], RSub("1", nocall[k]))])
        an == ContractAll(sh, a0, [p \in 1..Len(sh) |-> <<projs[p], heterrs[p]>>], 1)
        w  == Tab([j \in 1..Len(sims) |-> d0[Flat(sh, sims[j].af)]])
        sm == [k \in 1..Size(an.sh) |-> RSum([j \in 1..Len(sims) |-> RMul(w[j], sims[j].d[k])])]
    IN  [sh |-> an.sh, d |-> Tab([k \in 1..Size(an.sh) |-> RAdd(an.d[k], sm[k])])]
\* the fully analytic corrected model (sim_threshold = 1)
Apply(s, covs, nseq, nsub, Fs) ==
    LET P == Len(nseq)
        nc == NoCallND(covs, nseq, Fs)
        lam == SurvivalAll(covs, nseq, nsub)
    IN  Compose(s.sh, Zeroed(s), nc, [k \in 1..Size(s.sh) |-> FALSE],
                Tab([p \in 1..P |-> SubsampleMat(lam, nseq[p], nsub[p], Fs[p])]),
                Tab([p \in 1..P |-> CallingErrorMatrix(covs[p], nsub[p], Fs[p])]), <<>>)
\* deep-coverage limit: subsampling only
DeepLimit(s, nseq, nsub, Fs) ==
    ContractAll(s.sh, Zeroed(s), Tab([p \in 1..Len(nseq) |-> <<ProjectionMatrix(nseq[p], nsub[p], Fs[p])>>]), 1)

\* closure predicates
IsDist(v)        == (\A j \in 1..Len(v) : RNonNeg(v[j])) /\ RSum(v) = "1"
RowStochastic(M) == \A x \in 1..Len(M) : IsDist(M[x])
IsCov(cov)       == Len(cov) >= 2 /\ IsDist(cov) /\ RPos(Covered(cov))
=============================================================================
