----------------------------- MODULE DFEQuadMC -----------------------------
(***************************************************************************)
(* Exhaustive exploration of DFEQuad on tiny lattices: grids of 1..4       *)
(* gammas, densities with exactly known node values and tail masses        *)
(* (piecewise linear through every assignment of {0,1/2,2} ({0,3/2} in the quick model) to the nodes,   *)
(* and a/(1+ax)^2), generic and selection-blind cached spectra, small      *)
(* lattices of point-mass / mixture parameters.  The laws of C17 part B    *)
(* are invariants:                                                         *)
(*   weights sum as stated (selection-blind model => theta * total weight  *)
(*   * common spectrum, for every operation), linearity in theta, the      *)
(*   trapezoid rule is exact on piecewise-linear densities (so the total   *)
(*   weight is the density's mass: one for a normalised density), the 2-D  *)
(*   weight of a product density is the product of the 1-D weights (this   *)
(*   needs all four corner terms), quadrant / mixture / Vourlaki weights   *)
(*   sum to one.                                                           *)
(* Two-stage Init/Choose so that TLC's workers share the evaluation.       *)
(***************************************************************************)
EXTENDS DFEQuad, TLC, FiniteSets

CONSTANTS Level       \* 1 quick, 2 thorough

VARIABLES ph, x
vars == <<ph, x>>

Grids == IF Level = 1 THEN {<<"-3">>, <<"-4", "-1">>, <<"-8", "-2", "-1/2">>}
         ELSE {<<"-3">>, <<"-4", "-1">>, <<"-8", "-2", "-1/2">>, <<"-9", "-3", "-1", "-1/4">>}
Vals   == IF Level = 1 THEN {"0", "3/2"} ELSE {"0", "1/2", "2"}
Thetas == {"1/2", "3"}
Comps1(xs)   == {<<"pl", v>> : v \in [1..Len(xs) -> Vals]} \cup {<<"invsq", <<a>>>> : a \in {"1", "1/3"}}
CompsFew(xs) == {<<"pl", [i \in 1..Len(xs) |-> IF i = 1 THEN "1/2" ELSE "2"]>>, <<"invsq", <<"1/3">>>>}
Props  == {"0", "1/4", "1/2", "1"}
PropsV == IF Level = 1 THEN {"0", "1/4", "1"} ELSE Props
Roots  == IF Level = 1 THEN {"0", "1/3", "1"} ELSE {"0", "1/3", "1/2", "1"}     \* p1 = a^2, p2 = b^2: sqrt(p1 p2) = a b is rational
Rhos   == IF Level = 1 THEN {"-1/2", "1/3", "1"} ELSE {"-1/2", "0", "1/3", "1"}
M      == 2
C      == <<"3/4", "5/16">>

\* cached spectra
S1(xs, sk) == [i \in 1..Len(xs) |-> IF sk = "blind" THEN C
                                    ELSE <<RDiv(RInt(2 * i + 1), RInt(i + 3)), RDiv(RInt(7), RInt(3 * i + 2))>>]
Neu(sk)    == IF sk = "blind" THEN C ELSE <<"7/5", "1/9">>
Pos(sk, a) == IF sk = "blind" THEN C ELSE <<RDiv(RInt(11 + a), RInt(4)), RDiv(RInt(1), RInt(5 + a))>>
S2(xs, sk) == [i \in 1..Len(xs) |-> [j \in 1..Len(xs) |->
                 IF sk = "blind" THEN C
                 ELSE <<RDiv(RInt(5 * i + 3 * j + 1), RInt(i + 2 * j + 2)), RDiv(RInt(i * i + j + 2), RInt(3 * i + j + 3))>>]]
Row(xs, sk, o) == [j \in 1..Len(xs) |-> IF sk = "blind" THEN C
                                        ELSE <<RDiv(RInt(j + o), RInt(j + 5)), RDiv(RInt(2), RInt(j + o + 1))>>]

Base(fam, g, th, sk, cx) ==
  [fam |-> fam, g |-> g, th |-> th, sk |-> sk, cx |-> cx, cy |-> cx,
   p |-> "0", p2 |-> "0", rho |-> "0", a |-> "0", b |-> "0", p2d |-> "0", pw |-> "0", pc |-> "0", pcp |-> "0"]
Fams == {"1d", "2d", "pp2d", "mix", "vou"}
Init == /\ ph = 0
        /\ \E fam \in Fams : \E g \in Grids : \E th \in Thetas : \E sk \in {"generic", "blind"} :
           \E cx \in (IF fam \in {"1d", "2d"} THEN Comps1(g) ELSE CompsFew(g)) :
              x = Base(fam, g, th, sk, cx)
Refine(y) ==
  CASE y.fam = "1d"   -> {[y EXCEPT !.p = p, !.p2 = q] : <<p, q>> \in {pq \in Props \X Props : RLeq(RAdd(pq[1], pq[2]), "1")}}
    [] y.fam = "2d"   -> {[y EXCEPT !.cy = cy] : cy \in (IF Level = 1 THEN CompsFew(y.g) \cup {y.cx} ELSE Comps1(y.g))}
    [] y.fam = "pp2d" -> {[y EXCEPT !.cy = cy, !.rho = r, !.a = a, !.b = b] :
                             cy \in CompsFew(y.g), r \in Rhos, a \in Roots, b \in Roots}
    [] y.fam = "mix"  -> {[y EXCEPT !.cy = cy, !.p2d = q] : cy \in CompsFew(y.g), q \in Props}
    [] y.fam = "vou"  -> {[y EXCEPT !.cy = cy, !.pw = u, !.pc = v, !.pcp = w] :
                             cy \in CompsFew(y.g), u \in PropsV, v \in PropsV, w \in PropsV}
Choose == ph = 0 /\ ph' = 1 /\ x' \in Refine(x)
Next == Choose
Spec == Init /\ [][Next]_vars

\* ---- derived objects of the current instance ----
P1   == Pdf1(<<<<"1", x.cx[1], x.cx[2]>>>>, x.g)
P1y  == Pdf1(<<<<"1", x.cy[1], x.cy[2]>>>>, x.g)
P2   == Pdf2(<<<<"1", x.cx[1], x.cx[2], x.cy[1], x.cy[2]>>>>, x.g)
I1(th, ext) == Integrate1D(th, x.g, P1.w, S1(x.g, x.sk), Neu(x.sk), P1.tneu, P1.tdel, ext, M)
TW1(ext)    == TotalWeight1D(x.g, P1.w, P1.tneu, P1.tdel, ext)
TW1y(ext)   == TotalWeight1D(x.g, P1y.w, P1y.tneu, P1y.tdel, ext)
I2(th, ext) == Integrate2D(th, x.g, P2.W, S2(x.g, x.sk), P2.e, P2.cn, ext, M)
TW2(ext)    == TotalWeight2D(x.g, P2.W, P2.e, P2.cn, ext)
Blind == x.sk = "blind"
On(f) == ph = 1 /\ x.fam = f

TypeOK == ph \in {0, 1} /\ x.fam \in Fams /\ x.g \in Grids

\* ---- 1-D ----
L_Linear1D == On("1d") => \A ext \in BOOLEAN : \A t2 \in Thetas :
                 I1(RAdd(x.th, t2), ext) = VAdd(I1(x.th, ext), I1(t2, ext))
L_Weights1D == (On("1d") /\ Blind) => \A ext \in BOOLEAN : I1(x.th, ext) = VScale(RMul(x.th, TW1(ext)), C)
\* the exact mass of a piecewise-linear density, interval by interval, plus its two tails
PLMass(xs, v) == LET n == Len(xs) IN
                 RAdd(SumTo(n - 1, LAMBDA i : RMul(RSub(xs[i + 1], xs[i]), RHalf(RAdd(v[i], v[i + 1])))),
                      RAdd(RMul(v[n], RNeg(xs[n])), RMul(v[1], RNeg(xs[1]))))
L_ExactOnPL == (On("1d") /\ x.cx[1] = "pl") => TW1(TRUE) = PLMass(x.g, x.cx[2])
\* a normalised piecewise-linear density has total quadrature weight exactly one
L_UnitMass == (On("1d") /\ x.cx[1] = "pl" /\ RPos(PLMass(x.g, x.cx[2]))) =>
                 LET z == RDiv("1", PLMass(x.g, x.cx[2]))
                     Pn == Pdf1(<<<<z, "pl", x.cx[2]>>>>, x.g)
                 IN  TotalWeight1D(x.g, Pn.w, Pn.tneu, Pn.tdel, TRUE) = "1"
PP1 == <<[p |-> x.p, S |-> Pos(x.sk, 1)], [p |-> x.p2, S |-> Pos(x.sk, 2)]>>
L_PointPos1D == On("1d") =>
                 /\ PointPos1D(RMul("2", x.th), I1("1", TRUE), PP1, M) = VScale("2", PointPos1D(x.th, I1("1", TRUE), PP1, M))
                 /\ Blind => PointPos1D(x.th, I1("1", TRUE), PP1, M)
                               = VScale(RMul(x.th, RAdd(RMul(RSub("1", RAdd(x.p, x.p2)), TW1(TRUE)), RAdd(x.p, x.p2))), C)

\* ---- 2-D ----
L_Linear2D == On("2d") => \A ext \in BOOLEAN : \A t2 \in Thetas :
                 I2(RAdd(x.th, t2), ext) = VAdd(I2(x.th, ext), I2(t2, ext))
L_Weights2D == (On("2d") /\ Blind) => \A ext \in BOOLEAN : I2(x.th, ext) = VScale(RMul(x.th, TW2(ext)), C)
\* product density: the 2-D weight is the product of the 1-D weights - interior, edges and all four corners
L_Product2D == On("2d") => \A ext \in BOOLEAN : TW2(ext) = RMul(TW1(ext), TW1y(ext))
\* equal marginals: the density is symmetric, and so are its edge and corner masses (the code's shortcut)
L_Symmetric == (On("2d") /\ x.cx = x.cy) =>
                 /\ \A i, j \in 1..Len(x.g) : P2.W[i][j] = P2.W[j][i]
                 /\ P2.e.l1 = P2.e.l2 /\ P2.e.h1 = P2.e.h2 /\ P2.cn.LN = P2.cn.NL

\* ---- point masses in two populations ----
Q == Quadrants(x.rho, RMul(x.a, x.a), RMul(x.b, x.b), RMul(x.a, x.b))
L_Quadrants == On("pp2d") => QuadrantSum(Q) = "1"
PP2(th) == PointPos2D(th, Q, Pos(x.sk, 3), PosNeg(x.g, P2.W, Row(x.g, x.sk, 1), M), NegPos(x.g, P2.W, Row(x.g, x.sk, 4), M),
                      I2("1", TRUE), M)
L_PointPos2D == On("pp2d") =>
                 /\ PP2(RMul("2", x.th)) = VScale("2", PP2(x.th))
                 /\ Blind => PP2(x.th) = VScale(RMul(x.th, RAdd(RAdd(Q.pp, RMul(RAdd(Q.pn, Q.np), MargMass(x.g, P2.W))),
                                                                 RMul(Q.nn, TW2(TRUE)))), C)
\* ---- mixtures ----
L_Mixture == On("mix") =>
                 /\ Mixture(x.p2d, I1(RMul("2", x.th), TRUE), I2(RMul("2", x.th), TRUE)) = VScale("2", Mixture(x.p2d, I1(x.th, TRUE), I2(x.th, TRUE)))
                 /\ Blind => Mixture(x.p2d, I1(x.th, TRUE), I2(x.th, TRUE))
                               = VScale(RMul(x.th, RAdd(RMul(RSub("1", x.p2d), TW1(TRUE)), RMul(x.p2d, TW2(TRUE)))), C)
V == VourlakiW(x.pw, x.pc, x.pcp)
MT(o) == MargTails(x.g, P1.w, Row(x.g, x.sk, o), P1.tneu, P1.tdel, M)
L_Vourlaki == On("vou") =>
                 /\ VourlakiWSum(V) = "1"
                 /\ Blind => Vourlaki(x.th, V, I1("1", TRUE), I2("1", TRUE), MT(1), Pos(x.sk, 3), MT(4))
                               = VScale(RMul(x.th, RAdd(RAdd(RMul(V.m5, TW1(TRUE)), RMul(V.m6, TW2(TRUE))),
                                                        RAdd(RMul(RAdd(V.m7, V.m4), TW1(TRUE)), RAdd(V.m2, V.m3)))), C)
=============================================================================
