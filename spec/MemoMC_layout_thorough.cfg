\* C20 exhaustive model: every 2-call history of the full alphabet (without the container variants of calls, which the 1-call graph covers) in every memory layout
CONSTANTS
  MaxDepth = 2
  BaseSel = "all2"
  LaySel = "all"
  ProjKeyMode = "full"
  DbetaKeyMode = "full"
  PartKeyMode = "full"
  EntryMode = "copy_all"
  XXMode = "contig"
  GodMode = "object"
  DemesMode = "pure"
  PerturbMode = "pure"
  HashMode = "ordered"
  SFSMode = "copies"
  VectorMode = "copies"
  MaskMode = "setter"
  KernelMode = "stateless"
  MaxTable = 60
SPECIFICATION Spec
CHECK_DEADLOCK FALSE
CONSTRAINT TableBound
VIEW MCView
INVARIANT TypeOK
INVARIANT AlphabetOK
INVARIANT TablesSound
INVARIANT ResultIndependentOfHistory
INVARIANT ResultIndependentOfHashSeed
INVARIANT LayoutIndependent
INVARIANT ArgumentsUnchanged
INVARIANT ResultIsFresh
