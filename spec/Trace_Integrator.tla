-------------------------- MODULE Trace_Integrator --------------------------
(***************************************************************************)
(* Trace validation of the integrator drivers (Integration.one_pop ...     *)
(* five_pops, constant-parameter and time-dependent paths).  The driver is *)
(* a state machine                                                         *)
(*     Call -> ( Inject ; Sweep(k) for every live axis ) *  -> Return      *)
(* with hidden state (current time, axes swept in this step, the density). *)
(* Events are recorded by proxies placed around the injection functions    *)
(* and the compiled kernels; this spec consumes them, keeps the driver     *)
(* state, and collects the violated clauses of each trace.  A clause that  *)
(* fails does not stop the trace: the state is re-synchronised with what   *)
(* was logged, so the remaining events are still judged.                   *)
(*                                                                         *)
(* What is demanded (C02/C04), and nothing more: per time step every       *)
(* non-frozen axis is swept exactly once and no frozen axis is swept; the  *)
(* logged dt are positive, follow the documented time-step rule (timescale_factor / max(V,M) at the step's start, cut at T) and add up to T - t0; a sweep uses the step's dt *)
(* and the parameters of the step's END time; every sweep solves the       *)
(* documented scheme; the coefficient arrays of the constant-parameter     *)
(* path equal the scheme's; injection deposits dt*theta0/2 per live        *)
(* population and nothing for frozen / nomut ones; the density is handed   *)
(* from event to event unchanged; frozen populations with migration, and   *)
(* T < t0, are rejected.                                                   *)
(***************************************************************************)
EXTENDS Scheme, TLC, Json, IOUtils
CONSTANTS TauSolve, TauLin, TauTime

Trace == JsonDeserialize(IOEnv.TRACE_FILE)
VARIABLES l,        \* number of events consumed
          call,     \* the Call event of the current trace (or <<>>)
          t,        \* current time (exact sum of the logged steps)
          stepdt,   \* dt of the step in progress ("0" between steps)
          swept,    \* axes swept in the step in progress
          cur,      \* current density (flat sequence) as last logged
          bad       \* violated clauses of the current trace
vars == <<l, call, t, stepdt, swept, cur, bad>>

F(name, ok) == IF ok THEN {} ELSE {name}
\* the Chang-Cooper table of an event (<<>> when the switch is off)
DeljOf(ev) == IF "deljtab" \in DOMAIN ev THEN ev.deljtab ELSE <<>>
AllNum(q) == \A j \in 1..Len(q) : IsNum(q[j])
\* a parameter is [c0, c1]: the value c0 + c1 * time (c1 = "0" for constants)
PVal(f, time) == RAdd(f.c0, RMul(f.c1, time))
ParAt(c, k, time) == [nu |-> PVal(c.par[k].nu, time), gamma |-> PVal(c.par[k].gamma, time), h |-> PVal(c.par[k].h, time),
                      beta |-> PVal(c.par[k].beta, time), mig |-> [j \in 1..c.P |-> PVal(c.par[k].mig[j], time)]]
NonFrozen(c) == {k \in 1..c.P : ~c.frozen[k]}
Live(c)      == {k \in 1..c.P : ~c.frozen[k] /\ ~c.nomut[k]}
HasMig(c, k) == \E j \in 1..c.P : j # k /\ (~RIsZero(c.par[k].mig[j].c0) \/ ~RIsZero(c.par[k].mig[j].c1)
                                            \/ ~RIsZero(c.par[j].mig[k].c0) \/ ~RIsZero(c.par[j].mig[k].c1))
MustReject(c) == RLt(c.T, c.t0) \/ (c.P >= 2 /\ \E k \in 1..c.P : c.frozen[k] /\ HasMig(c, k))
Dens(c, d)   == [sh |-> [k \in 1..c.P |-> Len(c.grids[k])], d |-> d]
CloseP(a, b) == RCloseRel(a, b, TauTime, TauTime)        \* logged float parameter vs exact value

e == Trace[l + 1]
\* ---------------------------------------------------------------- events
EvCall ==
    /\ e.op = "call"
    /\ call' = e.in /\ t' = e.in.t0 /\ stepdt' = "0" /\ swept' = {} /\ cur' = e.in.phi /\ bad' = {}

EvInject ==
    /\ e.op = "inject"
    /\ LET c == call
           dt == e.dt
           th == PVal(c.theta0, RAdd(t, dt))
           exp == [q \in 1..Len(cur) |->
                     LET ix == Unflat(Dens(c, cur).sh, q) IN
                     RAdd(cur[q], RSum([k \in 1..c.P |-> IF k \in Live(c) /\ ix = InjectIx(c.P, k)
                                                          THEN InjectAmount(c.grids, k, dt, th) ELSE "0"]))]
           scale == RSeqMaxAbs(exp)
           \* the documented time-step rule: timescale_factor / max(V, M) at the parameters in force at the START of the step, the
           \* smallest over the populations (all of them, or all non-frozen ones: both are covariant under a change of the
           \* reference size and the same on the constant and the time-function path), cut at the horizon T
           ruleOver(S) == LET RECURSIVE go(_, _)
                              go(k, m) == IF k > c.P THEN m
                                          ELSE IF k \notin S THEN go(k + 1, m)
                                          ELSE LET v == RDiv(c.tf, MaxVM(k, ParAt(c, k, t))) IN go(k + 1, IF m = "none" THEN v ELSE RMin(m, v))
                          IN go(1, "none")
           dtOK(S) == S # {} /\ RCloseRel(dt, RMin(ruleOver(S), RSub(c.T, t)), TauTime, RMul(TauTime, RAdd(RAbs(c.T), RAbs(c.t0))))
           f == F("StepStartsAfterAllAxesSwept", stepdt = "0") \cup
                F("DtPositive", RPos(dt)) \cup
                F("StepFollowsTimeStepRule", dtOK(1..c.P) \/ dtOK(NonFrozen(c))) \cup
                F("DtWithinHorizon", RLeq(RAdd(t, dt), RAdd(c.T, RMul(TauTime, RAbs(c.T))))) \cup
                F("DensityHandedOver", e.before = cur) \cup
                F("InjectionIsDocumented", Len(e.after) = Len(cur) /\ AllNum(e.after) /\
                     \A q \in 1..Len(cur) : RCloseRel(e.after[q], exp[q], "0", RMul(TauLin, scale))) \cup
                \* C04: the influx is dt*theta0/2 per live population, nothing for frozen / nomut ones
                F("InfluxIsHalfThetaDtPerLivePopulation", Len(e.after) = Len(cur) /\ AllNum(e.after) /\
                     LET mA == Mass(Dens(c, e.after), c.grids) mB == Mass(Dens(c, cur), c.grids)
                         infl == RSum([k \in 1..c.P |-> IF k \in Live(c) THEN InjectMass(c.grids, k, dt, th) ELSE "0"])
                     IN RCloseRel(RSub(mA, mB), infl, "0", RMul(TauLin, RAdd(RAbs(mA), RAbs(mB)))))
       IN bad' = bad \cup f
    \* with every population frozen there is nothing to sweep: the step is complete with the injection event
    /\ IF NonFrozen(call) = {} THEN stepdt' = "0" /\ t' = RAdd(t, e.dt) ELSE stepdt' = e.dt /\ t' = t
    /\ swept' = {} /\ cur' = e.after
    /\ UNCHANGED call

\* C04: probability leaves only through the two absorbing corners: Mass(after) - Mass(before) = -dt * outflow,
\* the outflow computed from the post-sweep values at the end nodes of the corner lines
MassOK(c, k, par, dt, before, after) ==
    LET A == Dens(c, after) B == Dens(c, before)
        out == RMul(dt, RSum([q \in 1..Size(A.sh) |->
                 LET ix == Unflat(A.sh, q) IN
                 IF ix[k] # 0 \/ ~(AllOthers(c.grids, k, ix, "0") \/ AllOthers(c.grids, k, ix, "1")) THEN "0"
                 ELSE LET sys == SysOf(c.grids, k, ix, par)
                          y == Line(A, k, ix) w == TrapW(c.grids[k]) N == Len(y)
                          ow == PointW(c.grids, ix)     \* includes w[1] of axis k (ix[k] = 0) ...
                      IN RAdd(RMul(RMul(ow, sys.out0), y[1]),
                              RMul(RMul(RMul(RDiv(ow, w[1]), w[N]), sys.out1), y[N]))]))
        mA == Mass(A, c.grids) mB == Mass(B, c.grids)
    IN  AllNum(after) /\ RCloseRel(RSub(mA, mB), RNeg(out), "0", RMul(TauLin, RAdd(RAbs(mA), RAbs(mB))))

\* common part of the three sweep flavours
SweepFrame(k, f) ==
    LET c == call
        done == (swept \cup {k}) = NonFrozen(c)
    IN  /\ bad' = bad \cup f \cup F("FrozenAxisNotSwept", ~c.frozen[k]) \cup F("AxisSweptOncePerStep", k \notin swept)
                      \cup F("SweepInsideAStep", stepdt # "0") \cup F("DensityHandedOver", e.before = cur)
        /\ cur' = e.after
        /\ swept' = IF done THEN {} ELSE swept \cup {k}
        /\ t' = IF done THEN RAdd(t, stepdt) ELSE t
        /\ stepdt' = IF done THEN "0" ELSE stepdt
        /\ UNCHANGED call

EvSweepKernel ==
    /\ e.op = "sweep" /\ e.kind = "kernel"
    /\ LET c == call k == e.k
           want == ParAt(c, k, RAdd(t, stepdt))
           got  == e.par
           parOK == /\ CloseP(got.nu, want.nu) /\ CloseP(got.gamma, want.gamma) /\ CloseP(got.h, want.h)
                    /\ (c.P = 1 => CloseP(got.beta, want.beta))
                    /\ \A j \in 1..c.P : j = k \/ CloseP(got.mig[j], want.mig[j])
           f == F("SweepUsesStepDt", e.dt = stepdt) \cup F("ParametersOfStepEndTime", parOK) \cup
                F("SolvesScheme", Len(e.after) = Len(cur) /\
                      IsStepD(Dens(c, e.before), Dens(c, e.after), c.grids, k, got, e.dt, TauSolve, DeljOf(e))) \cup
                F("MassLeavesOnlyAtCorners", Len(e.after) = Len(cur) /\ MassOK(c, k, got, e.dt, e.before, e.after))
       IN SweepFrame(k, f)

\* coefficient arrays (flat, b WITHOUT 1/dt) against the scheme, and the solve against those arrays
CoeffsOK(c, k, a, b, cc, par, deljtab) ==
    LET sh == Dens(c, cur).sh N == sh[k] on == deljtab # <<>> IN
    \A ix \in LineIxs(sh, k) :
        LET dj == IF on THEN deljtab[ToString(Flat(sh, ix) - 1)] ELSE HalfDelj(c.grids[k])
            sys == SysOfD(c.grids, k, ix, par, dj)
            at(v) == Flat(sh, WithAxis(ix, k, v - 1))
            sc(v) == RAdd(RAdd(RAbs(sys.a[v]), RAbs(sys.b[v])), RAbs(sys.c[v]))
            tol(v) == RAdd(RMul(TauLin, sc(v)), IF on THEN DeljCoefSlack(c.grids, k, ix, par, v) ELSE "0")
        IN \A v \in 1..N : /\ RCloseRel(a[at(v)], sys.a[v], "0", tol(v))
                           /\ RCloseRel(b[at(v)], sys.b[v], "0", tol(v))
                           /\ RCloseRel(cc[at(v)], sys.c[v], "0", tol(v))
SolvesArrays(c, k, a, b, cc, invdt, before, after) ==
    LET sh == Dens(c, cur).sh N == sh[k] IN
    \A ix \in LineIxs(sh, k) :
        LET at(v) == Flat(sh, WithAxis(ix, k, v - 1))
            sys == [a |-> [v \in 1..N |-> a[at(v)]], b |-> [v \in 1..N |-> b[at(v)]], c |-> [v \in 1..N |-> cc[at(v)]]]
            y   == [v \in 1..N |-> after[at(v)]]
            rhs == [v \in 1..N |-> RMul(before[at(v)], invdt)]
        IN AllNum(y) /\ IsSolution(sys, invdt, y, rhs, TauSolve)

EvSweepPrecalc ==
    /\ e.op = "sweep" /\ e.kind = "precalc"
    /\ LET c == call k == e.k
           par == ParAt(c, k, RAdd(t, stepdt))       \* constant-parameter path: any time gives the same value
           f == F("SweepUsesStepDt", e.dt = stepdt) \cup
                F("CoefficientsMatchScheme", CoeffsOK(c, k, e.a, e.b, e.c, par, DeljOf(e))) \cup
                F("SolvesGivenSystem", Len(e.after) = Len(cur) /\ SolvesArrays(c, k, e.a, e.b, e.c, RDiv("1", e.dt), e.before, e.after)) \cup
                F("MassLeavesOnlyAtCorners", Len(e.after) = Len(cur) /\ MassOK(c, k, par, e.dt, e.before, e.after))
       IN SweepFrame(k, f)

\* one-population constant path: tridiag(a, b + 1/dt, c, phi/dt)
EvSweepTridiag ==
    /\ e.op = "sweep" /\ e.kind = "tridiag"
    /\ LET c == call
           par == ParAt(c, 1, RAdd(t, stepdt))
           invdt == RDiv("1", stepdt)
           N == Len(cur)
           on == DeljOf(e) # <<>>
           sys == SysOfD(c.grids, 1, <<0>>, par, IF on THEN e.deljtab["0"] ELSE HalfDelj(c.grids[1]))
           sc(v) == RAdd(RAdd(RAdd(RAbs(sys.a[v]), RAbs(sys.b[v])), RAbs(sys.c[v])), invdt)
           tol(v) == RAdd(RMul(TauLin, sc(v)), IF on THEN DeljCoefSlack(c.grids, 1, <<0>>, par, v) ELSE "0")
           coeffOK == \A v \in 1..N : /\ RCloseRel(e.a[v], sys.a[v], "0", tol(v))
                                      /\ RCloseRel(e.b[v], RAdd(sys.b[v], invdt), "0", tol(v))
                                      /\ RCloseRel(e.c[v], sys.c[v], "0", tol(v))
           rhsOK == \A v \in 1..N : RCloseRel(e.r[v], RMul(cur[v], invdt), TauLin, "0")
           given == [a |-> e.a, b |-> e.b, c |-> e.c]
           f == F("CoefficientsMatchScheme", Len(e.a) = N /\ coeffOK) \cup F("RightHandSideIsPhiOverDt", Len(e.r) = N /\ rhsOK) \cup
                F("SolvesGivenSystem", Len(e.after) = N /\ AllNum(e.after) /\ IsSolution(given, "0", e.after, e.r, TauSolve)) \cup
                F("MassLeavesOnlyAtCorners", Len(e.after) = N /\ stepdt # "0" /\ MassOK(c, 1, par, stepdt, cur, e.after))
       IN SweepFrame(1, f \cup F("SweepInsideAStep", stepdt # "0"))

Verdict(f) == LET all == bad \cup f IN IF all = {} THEN TRUE ELSE PrintT(<<"BAD", e.tid, all>>)
EvReturn ==
    /\ e.op = "return"
    /\ LET c == call
           f == IF MustReject(c) THEN {"MustBeRejected"}
                ELSE F("AllAxesSweptBeforeReturn", stepdt = "0" /\ swept = {}) \cup
                     F("StepsAddUpToT", RCloseRel(t, c.T, TauTime, RMul(TauTime, RAbs(RSub(c.T, c.t0))))) \cup
                     F("ReturnsCurrentDensity", e.out = cur) \cup
                     (IF c.T = c.t0 THEN F("ZeroDurationIsIdentity", e.out = c.phi) ELSE {}) \cup
                     \* C04: a frozen population's marginal density is unchanged at every interior frequency
                     F("FrozenMarginalUnchanged", Len(e.out) = Len(c.phi) /\ AllNum(e.out) /\
                         \A k \in 1..c.P : c.frozen[k] =>
                            LET mo(v) == MarginalAt(Dens(c, e.out), c.grids, {k}, [j \in {k} |-> v])
                                mi(v) == MarginalAt(Dens(c, c.phi), c.grids, {k}, [j \in {k} |-> v])
                                N == Len(c.grids[k])
                                sc == RSeqMaxAbs([v \in 1..N |-> mi(v - 1)])
                            IN \A v \in 1..(N - 2) : RCloseRel(mo(v), mi(v), "0", RMul(TauLin, sc)))
       IN Verdict(f)
    /\ UNCHANGED <<call, t, stepdt, swept, cur, bad>>
EvRaise ==
    /\ e.op = "raise"
    /\ Verdict(F("UnexpectedException:" \o e.exc, MustReject(call) /\ e.exc = "ValueError"))
    /\ UNCHANGED <<call, t, stepdt, swept, cur, bad>>
EvOther ==
    /\ e.op \notin {"call", "inject", "sweep", "return", "raise"}
    /\ PrintT(<<"BAD", "?", {"UnknownEvent"}>>)
    /\ UNCHANGED <<call, t, stepdt, swept, cur, bad>>

Init == l = 0 /\ call = <<>> /\ t = "0" /\ stepdt = "0" /\ swept = {} /\ cur = <<>> /\ bad = {}
Next == /\ l < Len(Trace) /\ l' = l + 1
        /\ (EvCall \/ EvInject \/ EvSweepKernel \/ EvSweepPrecalc \/ EvSweepTridiag \/ EvReturn \/ EvRaise \/ EvOther)
Spec == Init /\ [][Next]_vars
Done == (l = Len(Trace)) => PrintT(<<"DONE", l>>)
AllConsumed == TLCGet("stats").diameter - 1 = Len(Trace)
=============================================================================
