------------------------------ MODULE Godambe ------------------------------
(***************************************************************************)
(* Property C19: the uncertainty machinery of dadi.Godambe.                *)
(*                                                                         *)
(*  1. the documented step rule and the finite-difference stencils of      *)
(*     get_hess / get_grad, applied to an exactly known function;          *)
(*  2. closed forms of Hessian, scores, J, Godambe matrix, uncertainties,  *)
(*     LRT adjustment, Wald and score statistics for a Poisson likelihood  *)
(*     whose mean is linear in the parameters (optionally multiplied by a  *)
(*     fitted theta, the "multinom" augmentation), with explicit O(eps^2)  *)
(*     truncation bounds for the central stencils;                         *)
(*  3. the weighted chi-square mixture tail and its scalar/array rule;     *)
(*  4. the module-level spectrum cache as a state machine.                 *)
(*                                                                         *)
(* Everything is exact rational arithmetic (module Rat).  Vectors are      *)
(* sequences, matrices sequences of rows.                                  *)
(***************************************************************************)
EXTENDS Rat, Integers, Sequences, FiniteSets

(***************************************************************************)
(* small exact linear algebra                                              *)
(***************************************************************************)
VAdd(u, v)   == [i \in 1..Len(u) |-> RAdd(u[i], v[i])]
VSub(u, v)   == [i \in 1..Len(u) |-> RSub(u[i], v[i])]
VScale(c, u) == [i \in 1..Len(u) |-> RMul(c, u[i])]
VAbs(u)      == [i \in 1..Len(u) |-> RAbs(u[i])]
VZero(n)     == [i \in 1..n |-> "0"]
MRows(A)     == Len(A)
MCols(A)     == Len(A[1])
MMul(A, B)   == [i \in 1..Len(A) |-> [j \in 1..Len(B[1]) |-> RSum([k \in 1..Len(B) |-> RMul(A[i][k], B[k][j])])]]
MVec(A, v)   == [i \in 1..Len(A) |-> RDot(A[i], v)]
MAdd(A, B)   == [i \in 1..Len(A) |-> [j \in 1..Len(A[1]) |-> RAdd(A[i][j], B[i][j])]]
MScale(c, A) == [i \in 1..Len(A) |-> [j \in 1..Len(A[1]) |-> RMul(c, A[i][j])]]
MAbs(A)      == [i \in 1..Len(A) |-> [j \in 1..Len(A[1]) |-> RAbs(A[i][j])]]
MT(A)        == [i \in 1..Len(A[1]) |-> [j \in 1..Len(A) |-> A[j][i]]]
MZero(n)     == [i \in 1..n |-> [j \in 1..n |-> "0"]]
MId(n)       == [i \in 1..n |-> [j \in 1..n |-> IF i = j THEN "1" ELSE "0"]]
Outer(u, v)  == [i \in 1..Len(u) |-> [j \in 1..Len(v) |-> RMul(u[i], v[j])]]
MTrace(A)    == RSum([i \in 1..Len(A) |-> A[i][i]])
MSub(A, idx) == [i \in 1..Len(idx) |-> [j \in 1..Len(idx) |-> A[idx[i]][idx[j]]]]       \* principal sub-matrix
VSubIdx(v, idx) == [i \in 1..Len(idx) |-> v[idx[i]]]
Quad(u, A, v) == RDot(u, MVec(A, v))                                                    \* u^T A v
MaxRowSum(A) == LET RECURSIVE go(_, _)
                    go(i, m) == IF i > Len(A) THEN m ELSE go(i + 1, RMax(m, RSum(VAbs(A[i]))))
                IN go(1, "0")
Minor(A, r, c) == [i \in 1..(Len(A) - 1) |-> [j \in 1..(Len(A) - 1) |->
                      A[IF i < r THEN i ELSE i + 1][IF j < c THEN j ELSE j + 1]]]
Sgn(k) == IF k % 2 = 0 THEN "1" ELSE "-1"
RECURSIVE Det(_)
Det(A) == IF Len(A) = 1 THEN A[1][1]
          ELSE RSum([j \in 1..Len(A) |-> RMul(Sgn(1 + j), RMul(A[1][j], Det(Minor(A, 1, j))))])
Invertible(A) == ~RIsZero(Det(A))
MInv(A) == IF Len(A) = 1 THEN <<<<RDiv("1", A[1][1])>>>>
           ELSE LET dt == Det(A) IN
                [i \in 1..Len(A) |-> [j \in 1..Len(A) |-> RDiv(RMul(Sgn(i + j), Det(Minor(A, j, i))), dt)]]
IsSym(A) == \A i, j \in 1..Len(A) : A[i][j] = A[j][i]

(***************************************************************************)
(* 1. step rule and stencils                                               *)
(*                                                                         *)
(* "eps: fractional step size.  If eps*param is < 1e-6, the step size for  *)
(* that parameter will simply be eps."  In that case, and for a parameter  *)
(* equal to zero, one-sided differences are taken.  (Taken literally, as   *)
(* the code does, this includes every negative parameter.)                 *)
(***************************************************************************)
Tiny == "1/1000000"
OneSided(p, eps) == RLt(RMul(p, eps), Tiny) \/ RIsZero(p)
StepLen(p, eps)  == IF OneSided(p, eps) THEN eps ELSE RMul(eps, p)
Steps(p, eps)    == [i \in 1..Len(p) |-> StepLen(p[i], eps)]
Sided(p, eps)    == [i \in 1..Len(p) |-> OneSided(p[i], eps)]

Shift(p, i, d)         == [p EXCEPT ![i] = RAdd(p[i], d)]
Shift2(p, i, di, j, dj) == Shift(Shift(p, i, di), j, dj)

\* element (i,j) of the finite-difference Hessian of F at p
HessElem(F(_), p, h, one, i, j) ==
    IF i = j THEN
        IF ~one[i]
        THEN RDiv(RAdd(RSub(F(Shift(p, i, h[i])), RMul("2", F(p))), F(Shift(p, i, RNeg(h[i])))), RSq(h[i]))
        ELSE RDiv(RAdd(RSub(F(Shift(p, i, RMul("2", h[i]))), RMul("2", F(Shift(p, i, h[i])))), F(p)), RSq(h[i]))
    ELSE
        IF ~one[i] /\ ~one[j]
        THEN RDiv(RAdd(RSub(RSub(F(Shift2(p, i, h[i], j, h[j])), F(Shift2(p, i, h[i], j, RNeg(h[j])))),
                            F(Shift2(p, i, RNeg(h[i]), j, h[j]))), F(Shift2(p, i, RNeg(h[i]), j, RNeg(h[j])))),
                  RMul("4", RMul(h[i], h[j])))
        ELSE RDiv(RAdd(RSub(RSub(F(Shift2(p, i, h[i], j, h[j])), F(Shift(p, i, h[i]))), F(Shift(p, j, h[j]))), F(p)),
                  RMul(h[i], h[j]))
HessFD(F(_), p, eps) == LET h == Steps(p, eps) one == Sided(p, eps) IN
    [i \in 1..Len(p) |-> [j \in 1..Len(p) |-> HessElem(F, p, h, one, i, j)]]
GradElem(F(_), p, h, one, i) ==
    IF ~one[i] THEN RDiv(RSub(F(Shift(p, i, h[i])), F(Shift(p, i, RNeg(h[i])))), RMul("2", h[i]))
    ELSE RDiv(RSub(F(Shift(p, i, h[i])), F(p)), h[i])
GradFD(F(_), p, eps) == LET h == Steps(p, eps) one == Sided(p, eps) IN [i \in 1..Len(p) |-> GradElem(F, p, h, one, i)]

\* the test functions: f(x) = 1/2 x^T Q x + b^T x + c   (Q symmetric)
QEval(f, x)  == RAdd(RAdd(RHalf(Quad(x, f.Q, x)), RDot(f.b, x)), f.c)
QGrad(f, x)  == VAdd(MVec(f.Q, x), f.b)
QIsLinear(f) == \A i, j \in 1..Len(f.Q) : RIsZero(f.Q[i][j])
\* magnitude of the terms of f over the stencil (scale of the float evaluation error)
QMag(f, p, h) == LET z == [i \in 1..Len(p) |-> RAdd(RAbs(p[i]), RMul("2", h[i]))] IN
                 RAdd(RAdd(RHalf(Quad(z, MAbs(f.Q), z)), RDot(VAbs(f.b), z)), RAbs(f.c))

(***************************************************************************)
(* 2. Poisson likelihood with mean linear in the parameters                *)
(*                                                                         *)
(* md = [B |-> <<B_1..B_k>> (basis vectors over the entries), p |-> <<p_1..p_k>>, *)
(*       multinom |-> BOOLEAN, live |-> <<BOOLEAN..>> (entry carries likelihood)] *)
(* mean_i = sum_a p_a B_a[i]; with multinom the parameter vector is        *)
(* q = p \o <<theta>>, mean_i = theta * sum_a p_a B_a[i] and theta is the  *)
(* optimal scaling sum(d)/sum(mean) over the live entries.                 *)
(* ll(q; d, adj) = sum_live  -adj*mean + d ln(adj*mean) - lnGamma(d+1)     *)
(***************************************************************************)
LiveSet(md)   == {i \in 1..Len(md.live) : md.live[i]}
Lin(md, i)    == RSum([a \in 1..Len(md.p) |-> RMul(md.p[a], md.B[a][i])])
ThetaFit(md, d) == RDiv(RSum([i \in LiveSet(md) |-> d[i]]), RSum([i \in LiveSet(md) |-> Lin(md, i)]))
NPar(md)      == Len(md.p) + (IF md.multinom THEN 1 ELSE 0)
\* q: the full parameter vector (theta last when multinom)
ParVec(md, th) == IF md.multinom THEN md.p \o <<th>> ELSE md.p
Mean(md, th, i) == IF md.multinom THEN RMul(th, Lin(md, i)) ELSE Lin(md, i)
D1(md, th, a, i) == IF a <= Len(md.p) THEN (IF md.multinom THEN RMul(th, md.B[a][i]) ELSE md.B[a][i]) ELSE Lin(md, i)
D2(md, a, b, i)  == LET k == Len(md.p) IN
                    IF md.multinom /\ a = k + 1 /\ b <= k THEN md.B[b][i]
                    ELSE IF md.multinom /\ b = k + 1 /\ a <= k THEN md.B[a][i] ELSE "0"
\* gradient of ll with respect to q_a
ScoreCF(md, th, d, adj, a) ==
    RSum([i \in LiveSet(md) |-> RMul(RSub(RDiv(d[i], Mean(md, th, i)), adj), D1(md, th, a, i))])
ScoreVec(md, th, d, adj) == [a \in 1..NPar(md) |-> ScoreCF(md, th, d, adj, a)]
\* observed information: minus the second derivative of ll (adj = 1)
InfoCF(md, th, d, a, b) ==
    RSum([i \in LiveSet(md) |->
            RSub(RMul(RDiv(d[i], RSq(Mean(md, th, i))), RMul(D1(md, th, a, i), D1(md, th, b, i))),
                 RMul(RSub(RDiv(d[i], Mean(md, th, i)), "1"), D2(md, a, b, i)))])
InfoMat(md, th, d) == [a \in 1..NPar(md) |-> [b \in 1..NPar(md) |-> InfoCF(md, th, d, a, b)]]
\* J = mean over bootstraps of score score^T, cU = mean score
MeanOf(seq) == LET n == Len(seq) RECURSIVE go(_, _)
                   go(k, acc) == IF k > n THEN acc ELSE go(k + 1, MAdd(acc, seq[k]))
               IN MScale(RDiv("1", RInt(n)), go(2, seq[1]))
JMat(md, th, boots, adj) == MeanOf([k \in 1..Len(boots) |-> LET g == ScoreVec(md, th, boots[k], adj[k]) IN Outer(g, g)])
CUVec(md, th, boots, adj) == MeanOf([k \in 1..Len(boots) |-> <<ScoreVec(md, th, boots[k], adj[k])>>])[1]
GodambeMat(H, J) == MMul(MMul(H, MInv(J)), H)

\* ---- truncation and round-off bounds of the central stencils (all parameters positive, central) ----
\* positive parts of information and score (every term of the derivative sums, in magnitude)
InfoPos(md, th, d, a, b) ==
    RSum([i \in LiveSet(md) |-> RMul(RDiv(d[i], RSq(Mean(md, th, i))), RAbs(RMul(D1(md, th, a, i), D1(md, th, b, i))))])
ScorePos(md, th, d, a) == RSum([i \in LiveSet(md) |-> RMul(RDiv(d[i], Mean(md, th, i)), RAbs(D1(md, th, a, i)))])
\* rational upper bound of sum |terms of ll|:  |ln x| <= x + 1/x,  |lnGamma(d+1)| <= d + d^2
LLMagBound(md, th, d, adj) ==
    RSum([i \in LiveSet(md) |-> LET m == RMul(adj, Mean(md, th, i)) IN
            RAdd(RAdd(m, RMul(d[i], RAdd(m, RDiv("1", m)))), RAdd(d[i], RSq(d[i])))])
\* |central second difference - second derivative| <= CH eps^2 InfoPos  (fourth derivative, points within (1 +- eps) q)
CH(eps) == RDiv("2", RPow(RSub("1", eps), 4))
\* |central first difference - first derivative|  <= CG eps^2 ScorePos
CG(eps) == RDiv("1/3", RPow(RSub("1", eps), 3))
ErrInfo(md, th, d, eps, tauFD) ==
    LET q == ParVec(md, th) IN
    [a \in 1..NPar(md) |-> [b \in 1..NPar(md) |->
        RAdd(RMul(RMul(CH(eps), RSq(eps)), InfoPos(md, th, d, a, b)),
             RDiv(RMul(tauFD, LLMagBound(md, th, d, "1")), RMul(RMul(eps, q[a]), RMul(eps, q[b]))))]]
ErrScore(md, th, d, adj, eps, tauFD) ==
    LET q == ParVec(md, th) IN
    [a \in 1..NPar(md) |->
        RAdd(RMul(RMul(CG(eps), RSq(eps)), ScorePos(md, th, d, a)),
             RDiv(RMul(tauFD, LLMagBound(md, th, d, adj)), RMul(eps, q[a])))]
\* propagation (entrywise bounds, E_X >= |X_observed - X|)
ErrProd(X, EX, Y, EY) == MAdd(MAdd(MMul(EX, MAbs(Y)), MMul(MAbs(X), EY)), MMul(EX, EY))
\* (X+E)^-1 - X^-1 = -X^-1 E (X+E)^-1 : with rho = ||  |X^-1| E_X ||_inf <= 1/4 the bound 2 |X^-1| E_X |X^-1| holds
InvRho(X, EX) == MaxRowSum(MMul(MAbs(MInv(X)), EX))
InvResolvable(X, EX) == Invertible(X) /\ RLeq(InvRho(X, EX), "1/4")
ErrInv(X, EX) == LET Xi == MAbs(MInv(X)) IN MScale("2", MMul(MMul(Xi, EX), Xi))
ErrJ(gs, egs) == MeanOf([k \in 1..Len(gs) |-> LET g == VAbs(gs[k]) e == egs[k] IN
                            MAdd(MAdd(Outer(g, e), Outer(e, g)), Outer(e, e))])
ErrQuad(u, eu, A, EA) ==      \* bound for u^T A u with errors in both
    LET ua == VAbs(u) w == VAdd(ua, eu) IN
    RAdd(Quad(w, EA, w), RAdd(Quad(eu, MAbs(A), w), Quad(ua, MAbs(A), eu)))

(***************************************************************************)
(* 3. weighted sum of chi-square distributions: tail probability           *)
(*    w = <<w_0, w_1, ...>> weights by degrees of freedom; cdf[d] = chi^2_d cdf at x *)
(***************************************************************************)
Chi2MixTail(x, w, cdf) ==
    RSub("1", RAdd(RSum([d \in 1..(Len(w) - 1) |-> RMul(w[d + 1], cdf[d])]), IF RPos(x) THEN w[1] ELSE "0"))

(***************************************************************************)
(* 4. the spectrum cache                                                   *)
(*                                                                         *)
(* Function objects live at addresses; an address is free for reuse when   *)
(* no live object occupies it.  A cache entry maps a key (function key,    *)
(* parameter point) to the spectrum computed for it, represented by        *)
(* <<model, point>> (what was evaluated).  Specified design: the function  *)
(* key is the function object itself, so the cache keeps the object alive  *)
(* and its address cannot be handed to another function.  KeyHoldsRef =    *)
(* FALSE describes a key that is only a number derived from the address.   *)
(***************************************************************************)
CacheKey(obj, pt)        == <<obj.addr, pt>>
Served(cache, obj, pt)   == IF CacheKey(obj, pt) \in DOMAIN cache THEN cache[CacheKey(obj, pt)] ELSE <<obj.model, pt>>
CachePut(cache, obj, pt) == IF CacheKey(obj, pt) \in DOMAIN cache THEN cache
                            ELSE [k \in DOMAIN cache \cup {CacheKey(obj, pt)} |->
                                     IF k = CacheKey(obj, pt) THEN <<obj.model, pt>> ELSE cache[k]]
Referenced(cache, obj)   == \E k \in DOMAIN cache : k[1] = obj.addr
\* may the object be reclaimed once the caller drops it?
Reclaimable(cache, obj, keyHoldsRef) == ~(keyHoldsRef /\ Referenced(cache, obj))
Coherent(served, obj, pt) == served = <<obj.model, pt>>
=============================================================================
