------------------------------ MODULE SchemeMC ------------------------------
(***************************************************************************)
(* Exhaustive exploration of the integrator on tiny grids with exact       *)
(* arithmetic: the state is (configuration, density, phase); actions are   *)
(* the injection and one implicit sweep per live axis, solved exactly by   *)
(* the Thomas recurrence.  Invariants / action properties are the laws     *)
(* behind C02 (precalc = on-the-fly coefficients, Thomas solves the        *)
(* system), C03 (rescaling the reference size rescales the system and the  *)
(* time-step rule) and C04 (column sums vanish except at the absorbing     *)
(* corners; mass balance; frozen and isolated marginals).                  *)
(***************************************************************************)
EXTENDS Scheme, TLC
CONSTANTS MaxSteps, PSet, Tier

G3 == <<"0", "1/2", "1">>
G4 == <<"0", "1/8", "1/2", "1">>
G5 == <<"0", "1/10", "1/3", "3/4", "1">>
\* thorough: the 5-point grid for one and two populations, 3 points for three (64- and 125-point states are too heavy for exact arithmetic)
GridChoices(P) == IF Tier = "quick" THEN {G3, G4} ELSE IF P >= 3 THEN {G3} ELSE {G3, G4, G5}
Nus    == {"1/2", "3"}
Gammas == {"-2", "0", "3"}
Hs     == IF Tier = "quick" THEN {"1/2", "1"} ELSE {"0", "1/2", "1"}
Migs   == {"0", "2"}
Dts    == {"1/10"}

VARIABLES cf,      \* configuration: [P, grids, par (per axis), frozen, nomut, theta0, dt]
          ph,      \* density
          ph0,     \* initial density (for the frozen-marginal invariant)
          swept,   \* axes swept in the current time step
          phase,   \* "choose" | "inject" | "sweep" | "done"
          steps,
          acct     \* expected mass: initial + injected - outflow
vars == <<cf, ph, ph0, swept, phase, steps, acct>>

UnitData(sh) == {[q \in 1..Size(sh) |-> IF q = u THEN "1" ELSE "0"] : u \in 1..Size(sh)}
GenData(sh)  == [q \in 1..Size(sh) |-> RInt(1 + ((q * q * 7) % 11))]

\* configurations: every axis gets the same parameter "profile" choice independently
ParOf(P, k, nu, gm, h, m) == [nu |-> nu, gamma |-> gm, h |-> h, beta |-> IF P = 1 THEN "2" ELSE "1",
                              mig |-> [j \in 1..P |-> IF j = k THEN "0" ELSE m[j]]]
Init == /\ phase = "choose" /\ swept = {} /\ steps = 0 /\ acct = "0"
        /\ \E P \in PSet : \E g \in GridChoices(P) : \E nu1 \in Nus : \E gm \in Gammas : \E h \in Hs : \E m \in Migs : \E fz \in BOOLEAN :
              /\ (fz => (m = "0" /\ P >= 2))
              /\ cf = [P |-> P, grids |-> [k \in 1..P |-> g],
                       \* axis 1 gets (nu1, gm, h); the other axes a fixed different profile; migration m between all pairs
                       par |-> [k \in 1..P |-> ParOf(P, k, IF k = 1 THEN nu1 ELSE "2", IF k = 1 THEN gm ELSE RNeg(gm), IF k = 1 THEN h ELSE "1/2",
                                                      [j \in 1..P |-> IF m = "0" THEN "0" ELSE RInt(j + k)])],
                       frozen |-> [k \in 1..P |-> fz /\ k = P], nomut |-> [k \in 1..P |-> FALSE],
                       theta0 |-> "3/2", dt |-> "1/10"]
        /\ ph = [sh |-> <<1>>, d |-> <<"0">>] /\ ph0 = ph
Sh(c) == [k \in 1..c.P |-> Len(c.grids[k])]
Choose == /\ phase = "choose" /\ phase' = "inject"
          /\ \E d \in UnitData(Sh(cf)) \cup {GenData(Sh(cf))} : ph' = [sh |-> Sh(cf), d |-> d]
          /\ ph0' = ph' /\ acct' = Mass(ph', cf.grids)
          /\ UNCHANGED <<cf, swept, steps>>
Live(c)    == {k \in 1..c.P : ~c.frozen[k] /\ ~c.nomut[k]}
NonFrozen(c) == {k \in 1..c.P : ~c.frozen[k]}
Injected(c, p) ==
    [p EXCEPT !.d = [q \in 1..Size(p.sh) |->
        LET ix == Unflat(p.sh, q) IN
        RAdd(p.d[q], RSum([k \in 1..c.P |-> IF k \in Live(c) /\ ix = InjectIx(c.P, k) THEN InjectAmount(c.grids, k, c.dt, c.theta0) ELSE "0"]))]]
Inject == /\ phase = "inject" /\ steps < MaxSteps
          /\ ph' = Injected(cf, ph)
          /\ acct' = RAdd(acct, RSum([k \in 1..cf.P |-> IF k \in Live(cf) THEN InjectMass(cf.grids, k, cf.dt, cf.theta0) ELSE "0"]))
          /\ phase' = "sweep" /\ swept' = {}
          /\ UNCHANGED <<cf, ph0, steps>>
\* probability leaving through the absorbing corners during a sweep along k that produced out
Outflow(c, out, k) ==
    RMul(c.dt, RSum([q \in 1..Size(out.sh) |->
        LET ix == Unflat(out.sh, q) IN
        IF ix[k] # 0 THEN "0"
        ELSE LET sys == SysOf(c.grids, k, ix, c.par[k])
                 y   == Line(out, k, ix)
                 w   == TrapW(c.grids[k])
                 N   == Len(y)
                 ow  == LET RECURSIVE go(_, _)
                            go(j, acc) == IF j > c.P THEN acc ELSE go(j + 1, IF j = k THEN acc ELSE RMul(acc, TrapW(c.grids[j])[ix[j] + 1]))
                        IN go(1, "1")
             IN RMul(ow, RAdd(RMul(RMul(w[1], sys.out0), y[1]), RMul(RMul(w[N], sys.out1), y[N])))]))
Sweep(k) == /\ phase = "sweep" /\ k \in NonFrozen(cf) /\ k \notin swept
            /\ ph' = ExactStep(ph, cf.grids, k, cf.par[k], cf.dt)
            /\ acct' = RSub(acct, Outflow(cf, ph', k))
            /\ swept' = swept \cup {k}
            /\ UNCHANGED <<cf, ph0, phase, steps>>
Advance == /\ phase = "sweep" /\ swept = NonFrozen(cf)
           /\ steps' = steps + 1 /\ phase' = (IF steps + 1 = MaxSteps THEN "done" ELSE "inject") /\ swept' = {}
           /\ UNCHANGED <<cf, ph, ph0, acct>>
\* sweeps in index order (as the drivers do); the laws do not depend on the order
Next == Choose \/ Inject \/ (\E k \in 1..cf.P : (\A j \in 1..(k - 1) : j \in swept \/ cf.frozen[j]) /\ Sweep(k)) \/ Advance
Spec == Init /\ [][Next]_vars

\* ------------------------------------------------------------------ laws
Ready == phase # "choose"
\* C04: total mass changes only by the influx and the outflow at the two absorbing corners
MassBalance == Ready => Mass(ph, cf.grids) = acct
\* C04: a frozen population's marginal density is unchanged at interior frequencies
FrozenMarginal == Ready => \A k \in 1..cf.P : cf.frozen[k] =>
    \A v \in 1..(Len(cf.grids[k]) - 2) :
        MarginalAt(ph, cf.grids, {k}, [j \in {k} |-> v]) = MarginalAt(ph0, cf.grids, {k}, [j \in {k} |-> v])
\* structure of every line system of the current configuration
LineLaw(Law(_, _, _, _, _, _, _)) == Ready => \A k \in 1..cf.P : \A ix \in LineIxs(Sh(cf), k) :
    LET g == cf.grids[k] p == cf.par[k]
        c0 == AllOthers(cf.grids, k, ix, "0") c1 == AllOthers(cf.grids, k, ix, "1")
        sys == SysOf(cf.grids, k, ix, p)
    IN  Law(k, ix, g, p, c0, c1, sys)
\* C04: column sums vanish except at the absorbing end nodes of corner lines, where they are the non-negative outflow rates;
\* without migration and selection the interior is decoupled from the end nodes
LinesConservative == LineLaw(LAMBDA k, ix, g, p, c0, c1, sys :
    LET N == Len(g) w == TrapW(g)
        col(i) == RAdd(RAdd(IF i > 1 THEN RMul(w[i - 1], sys.c[i - 1]) ELSE "0", RMul(w[i], sys.b[i])),
                       IF i < N THEN RMul(w[i + 1], sys.a[i + 1]) ELSE "0")
    IN  /\ \A i \in 1..N : col(i) = (IF i = 1 THEN RMul(w[1], sys.out0) ELSE IF i = N THEN RMul(w[N], sys.out1) ELSE "0")
        /\ RNonNeg(sys.out0) /\ RNonNeg(sys.out1)
        /\ (~c0 => sys.out0 = "0") /\ (~c1 => sys.out1 = "0")
        /\ ((p.gamma = "0" /\ \A j \in 1..cf.P : p.mig[j] = "0") => (sys.a[2] = "0" /\ sys.c[N - 1] = "0")))
\* C02: precomputed-coefficient form = on-the-fly form (constant vs time-function parameters)
LinesPrecalc == LineLaw(LAMBDA k, ix, g, p, c0, c1, sys :
    LET py == LineABCPy(g, k, Others(cf.grids, ix), p, HalfDelj(g), c0, c1) IN py.a = sys.a /\ py.b = sys.b /\ py.c = sys.c)
\* C03: re-expressing relative to another reference size rescales the system and the time-step bound
LinesRescale == LineLaw(LAMBDA k, ix, g, p, c0, c1, sys :
    \A cc \in {"1/20", "1/3", "7"} :
        LET s2 == LineABC(g, k, Others(cf.grids, ix), RescaleP(cc, p), HalfDelj(g), c0, c1) IN
        /\ s2.a = ScaleSys(RDiv("1", cc), sys).a /\ s2.b = ScaleSys(RDiv("1", cc), sys).b /\ s2.c = ScaleSys(RDiv("1", cc), sys).c
        /\ MaxVM(k, RescaleP(cc, p)) = RDiv(MaxVM(k, p), cc))
\* C02: the Thomas recurrence solves the line system exactly; the step is linear in the density
StepOK == [][\A k \in 1..cf.P : Sweep(k) => IsStep(ph, ph', cf.grids, k, cf.par[k], cf.dt, "0")]_vars
\* C04: with no migration and no selection, the marginal of population 1 evolves as if integrated alone
\* (interior frequencies), whichever axis is swept
IsolatedMarginal == [][\A k \in 1..cf.P :
      (Sweep(k) /\ cf.P = 2 /\ cf.par[1].gamma = "0" /\ cf.par[2].gamma = "0" /\ cf.par[1].mig[2] = "0" /\ cf.par[2].mig[1] = "0") =>
        LET g == cf.grids[1]
            marg(p) == [sh |-> <<Len(g)>>, d |-> [v \in 1..Len(g) |-> MarginalAt(p, cf.grids, {1}, [j \in {1} |-> v - 1])]]
            alone == IF k = 1 THEN ExactStep(marg(ph), <<g>>, 1, [cf.par[1] EXCEPT !.mig = <<"0">>], cf.dt) ELSE marg(ph)
        IN \A v \in 2..(Len(g) - 1) : marg(ph').d[v] = alone.d[v]]_vars
=============================================================================
