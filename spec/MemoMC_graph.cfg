\* C20 state graph (dumped with -dump dot,actionlabels): all 2-call histories; its (writer, reader, table) triples are the replay coverage goal
CONSTANTS
  MaxDepth = 2
  BaseSel = "graph"
  LaySel = "C"
  ProjKeyMode = "full"
  DbetaKeyMode = "full"
  PartKeyMode = "full"
  EntryMode = "copy_all"
  XXMode = "contig"
  GodMode = "object"
  DemesMode = "pure"
  PerturbMode = "pure"
  HashMode = "ordered"
  SFSMode = "copies"
  VectorMode = "copies"
  MaskMode = "setter"
  KernelMode = "stateless"
  MaxTable = 60
SPECIFICATION Spec
CHECK_DEADLOCK FALSE
CONSTRAINT TableBound
INVARIANT TypeOK
INVARIANT AlphabetOK
INVARIANT TablesSound
INVARIANT ResultIndependentOfHistory
INVARIANT ResultIndependentOfHashSeed
INVARIANT LayoutIndependent
INVARIANT ArgumentsUnchanged
INVARIANT ResultIsFresh
