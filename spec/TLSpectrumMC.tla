---------------------------- MODULE TLSpectrumMC ----------------------------
(***************************************************************************)
(* Exhaustive exploration of the two-locus spectrum as a state machine:    *)
(* the state is one spectrum, every public operation is an action, the     *)
(* laws are invariants evaluated in every reachable state.  Data vectors:  *)
(* the unit vectors of all feasible entries and one generic vector (all    *)
(* laws but L_FoldR2 are linear in the data, so these decide them for      *)
(* every data vector); masks: the constructor's mask, plus one orbit, plus *)
(* one single entry.  Facts about numbers (weights, statistics, grids,     *)
(* sampling, the 1-D step matrix) are ASSUMEd on small lattices, i.e.      *)
(* evaluated by TLC before the exploration.                                *)
(***************************************************************************)
EXTENDS TLSpectrum
CONSTANTS MaxDepth, Sizes, MaskExtra, StaticN, StaticP, GenoN

VARIABLES s, depth
vars == <<s, depth>>

Generic(n)   == [q \in 1..Size3(n) |-> RDiv(RInt(q * q + q + 41), RInt((q % 7) + 1))]
UnitAt(n, u) == [q \in 1..Size3(n) |-> IF q = u THEN "1" ELSE "0"]
DataChoices(n) == {UnitAt(n, Flat3(n, ix)) : ix \in Simplex(n)} \cup {Generic(n)}
WithMasked(n, S) == [q \in 1..Size3(n) |-> DefaultMask(n)[q] \/ Unflat3(n, q) \in S]
MaskChoices(n) == {DefaultMask(n)}
                  \cup (IF MaskExtra THEN {WithMasked(n, Orbit(n, t)) : t \in InfSet(n)} \cup {WithMasked(n, {t}) : t \in InfSet(n)}
                        ELSE {WithMasked(n, Orbit(n, <<1, 0, 0>>)), WithMasked(n, {<<0, 1, 1>>}), WithMasked(n, {<<n - 1, 0, 0>>})})

Init == /\ depth = -1
        /\ \E n \in Sizes : \E d \in DataChoices(n) : s = [n |-> n, d |-> d, m |-> DefaultMask(n), f |-> "unfolded"]
Choose == /\ depth = -1 /\ depth' = 0
          /\ \E m \in MaskChoices(s.n) : s' = [s EXCEPT !.m = m]

Targets(t) == 2..(t.n - 1)
IsU(t) == t.f = "unfolded"
DoFold    == IsU(s) /\ s' = Fold(s)
DoUnfold  == ~IsU(s) /\ s' = Unfold(s)
DoFoldLR  == IsU(s) /\ s' = FoldLR(s)
DoProject == IsU(s) /\ \E mm \in Targets(s) : s' = Project(s, mm)
DoMisid   == IsU(s) /\ s' = Misid(s, "1/3")
DoRelabel == IsU(s) /\ (s' = Relabel(s, SwA) \/ s' = Relabel(s, SwLoci))
DoArith   == s' = Arith("add", s, Relabel(s, SwAB)) \/ s' = ArithC("mul", s, "3/2", FALSE)
Next == Choose \/
        /\ depth >= 0 /\ depth < MaxDepth /\ depth' = depth + 1
        /\ (DoFold \/ DoUnfold \/ DoFoldLR \/ DoProject \/ DoMisid \/ DoRelabel \/ DoArith)
Spec == Init /\ [][Next]_vars

\* ------------------------------------------------------------------ laws of the state machine
TypeOK == WellFormed(s) /\ WellMasked(s)
SwapClosed(t) == \A ix \in Simplex(t.n) : MaskAt(t, ix) = MaskAt(t, SwA(t.n, ix)) /\ MaskAt(t, ix) = MaskAt(t, SwB(t.n, ix))
Odd(n) == n % 2 = 1
Seq0(f, n) == [k \in 1..(n + 1) |-> f[k - 1]]

\* folding keeps the total (when the mask does not separate an entry from its relabellings)
L_FoldTotal == (IsU(s) /\ SwapClosed(s)) => TotalU(Fold(s)) = TotalU(s)
\* what is left unmasked after folding are representatives, and only representatives of unmasked entries are lost
L_FoldCanonical == IsU(s) => \A ix \in Simplex(s.n) :
                      /\ ~MaskAt(Fold(s), ix) => (~FoldedOut(s.n, ix) /\ ~MaskAt(s, ix))
                      /\ (~MaskAt(s, ix) /\ ~FoldedOut(s.n, ix)) => ~MaskAt(Fold(s), ix)
\* folding forgets the labelling: relabelled spectra fold to the same thing (odd n: every orbit has one representative)
L_FoldRelabel == (IsU(s) /\ Odd(s.n) /\ SwapClosed(s)) =>
                    /\ SameU(Fold(Relabel(s, SwA)), Fold(s)) /\ SameU(Fold(Relabel(s, SwB)), Fold(s))
                    /\ SameU(Fold(Relabel(s, SwAB)), Fold(s))
\* fold . unfold . fold = fold
L_FoldUnfoldFold == (IsU(s) /\ s.m = DefaultMask(s.n)) => SameU(Fold(Unfold(Fold(s))), Fold(s))
\* the mean r^2 does not depend on the labelling of the alleles, hence survives folding
L_FoldR2 == (IsU(s) /\ InfMasked(s) /\ SwapClosed(s) /\ TotalU(s) # "0") => MeanR2(Fold(s)) = MeanR2(s)
\* the marginals of the folded spectrum are the folded marginals
Fold1(f, n) == [a \in 0..n |-> IF 2 * a > n THEN "0" ELSE IF 2 * a = n THEN f[a] ELSE RAdd(f[a], f[n - a])]
L_FoldMarg == (IsU(s) /\ SwapClosed(s)) => /\ MargA(Fold(s)) = Fold1(MargA(s), s.n)
                                             /\ MargB(Fold(s)) = Fold1(MargB(s), s.n)
\* left/right folding keeps the total and exchanges nothing else
L_FoldLR == (IsU(s) /\ (\A ix \in Simplex(s.n) : MaskAt(s, ix) = MaskAt(s, SwLoci(s.n, ix)))) =>
               /\ TotalU(FoldLR(s)) = TotalU(s)
               /\ SameU(FoldLR(Relabel(s, SwLoci)), FoldLR(s))
               /\ \A a \in 0..s.n : RAdd(MargA(FoldLR(s))[a], MargB(FoldLR(s))[a]) = RAdd(MargA(s)[a], MargB(s)[a])
\* both marginals carry the whole (informative) spectrum; relabelling reverses / keeps them
L_MargTotal == InfMasked(s) => (RSum(MargA(s)) = TotalU(s) /\ RSum(MargB(s)) = TotalU(s)
                                 /\ MargA(s)[0] = "0" /\ MargA(s)[s.n] = "0" /\ MargB(s)[0] = "0" /\ MargB(s)[s.n] = "0")
L_MargRelabel == IsU(s) => /\ \A a \in 0..s.n : MargA(Relabel(s, SwA))[a] = MargA(s)[s.n - a]
                            /\ MargB(Relabel(s, SwA)) = MargB(s)
                            /\ MargA(Relabel(s, SwB)) = MargA(s)
                            /\ MargA(Relabel(s, SwLoci)) = MargB(s)
\* conditioning on nA partitions the spectrum
L_Condition == \A a \in 0..s.n : RSum([i \in 0..a |-> RSum(Condition(s, a)[i])]) = MargA(s)[a]
\* projection: all the unmasked mass arrives somewhere; two stages equal one; full marginals project hypergeometrically
L_ProjMass == (IsU(s) /\ s.n >= 3) => \A mm \in Targets(s) : TotalAll(Project(s, mm)) = TotalU(s)
L_ProjTwoStage == (IsU(s) /\ InfMasked(s) /\ s.n >= 4) => \A m1 \in Targets(s) : \A m2 \in 2..(m1 - 1) :
                     SameU(Project(Project(s, m1), m2), Project(s, m2))
FullMargA(t) == [a \in 0..t.n |-> SumOver({X \in Simplex(t.n) : NA(X) = a}, LAMBDA X : At(t, X))]
L_ProjMarg == (IsU(s) /\ s.n >= 3) => \A mm \in Targets(s) : \A k \in 0..mm :
                  FullMargA(Project(s, mm))[k] = RSum([h \in 0..s.n |-> RMul(MargA(s)[h], Hyp1(s.n, mm, h, k))])
L_ProjRelabel == (IsU(s) /\ s.n >= 3) => \A mm \in Targets(s) : SameU(Project(Relabel(s, SwA), mm), Relabel(Project(s, mm), SwA))
L_ProjMask == (IsU(s) /\ s.n >= 3) => \A mm \in Targets(s) : Project(s, mm).m = DefaultMask(mm)
\* misidentification
L_Misid == (IsU(s) /\ InfMasked(s)) =>
              /\ TotalU(Misid(s, "1/3")) = TotalU(s)
              /\ \A ix \in InfSet(s.n) : At(Misid(s, "0"), ix) = (IF MaskAt(s, ix) THEN "0" ELSE At(s, ix))
              /\ \A ix \in InfSet(s.n) : At(Misid(s, "1"), ix) = (IF MaskAt(s, SwAB(s.n, ix)) THEN "0" ELSE At(s, SwAB(s.n, ix)))
              /\ Odd(s.n) => SameU(Fold(Misid(s, "1/3")), Fold(Misid(s, "0")))
              /\ SameU(Misid(Misid(s, "1/3"), "1/5"), Misid(Misid(s, "1/5"), "1/3"))
\* arithmetic never unmasks, keeps the folding status, and is linear for the total
L_Arith == LET t == Relabel(s, SwAB) a == Arith("add", s, t) IN
           /\ a.f = s.f /\ \A q \in 1..Size3(s.n) : a.m[q] = (s.m[q] \/ t.m[q])
           /\ SwapClosed(s) => TotalU(a) = RAdd(TotalU(s), TotalU(t))
           /\ TotalU(ArithC("mul", s, "3/2", FALSE)) = RMul("3/2", TotalU(s))
           /\ ArithC("mul", s, "3/2", FALSE).m = s.m /\ ArithC("sub", s, "1", TRUE).m = s.m

\* ------------------------------------------------------------------ facts about numbers (small lattices)
\* the constructor's slices are exactly the non-informative entries
ASSUME A_MaskMeaning == \A n \in 1..(StaticN + 3) : \A ix \in Cube(n) : SliceMasked(n, ix) = ~Informative(n, ix)
\* relabellings: a Klein four-group acting on the feasible / informative entries; Canon picks a representative
ASSUME A_SwapGroup == \A n \in 1..(StaticN + 1) : \A ix \in Simplex(n) :
    /\ SwA(n, SwA(n, ix)) = ix /\ SwB(n, SwB(n, ix)) = ix /\ SwAB(n, SwAB(n, ix)) = ix
    /\ SwA(n, SwB(n, ix)) = SwAB(n, ix) /\ SwB(n, SwA(n, ix)) = SwAB(n, ix)
    /\ \A y \in Orbit(n, ix) : Feasible(n, y) /\ Informative(n, y) = Informative(n, ix)
    /\ NA(SwA(n, ix)) = n - NA(ix) /\ NB(SwA(n, ix)) = NB(ix) /\ NA(SwB(n, ix)) = NA(ix) /\ NB(SwB(n, ix)) = n - NB(ix)
    /\ ~FoldedOut(n, Canon(n, ix)) /\ Canon(n, ix) \in Orbit(n, ix) /\ Canon(n, Canon(n, ix)) = Canon(n, ix)
    /\ (FoldedOut(n, ix) => ix \in Sources(n, Canon(n, ix)))
    /\ SwLoci(n, SwLoci(n, ix)) = ix /\ NA(SwLoci(n, ix)) = NB(ix) /\ Feasible(n, SwLoci(n, ix))
\* D = (nAB nab - nAb naB) / n^2, changes sign under one relabelling; r^2 in [0,1], invariant, 1 exactly in complete LD
ASSUME A_LD == \A n \in 2..(StaticN + 2) : \A ix \in InfSet(n) :
    /\ DStat(n, ix) = RDiv(RInt(ix[1] * Rest(n, ix) - ix[2] * ix[3]), RInt(n * n))
    /\ DStat(n, SwA(n, ix)) = RNeg(DStat(n, ix)) /\ DStat(n, SwB(n, ix)) = RNeg(DStat(n, ix)) /\ DStat(n, SwAB(n, ix)) = DStat(n, ix)
    /\ DStat(n, SwLoci(n, ix)) = DStat(n, ix)
    /\ R2Stat(n, SwA(n, ix)) = R2Stat(n, ix) /\ R2Stat(n, SwB(n, ix)) = R2Stat(n, ix) /\ R2Stat(n, SwLoci(n, ix)) = R2Stat(n, ix)
    /\ RLeq("0", R2Stat(n, ix)) /\ RLeq(R2Stat(n, ix), "1")
    /\ (R2Stat(n, ix) = "1") = ((ix[2] = 0 /\ ix[3] = 0) \/ (ix[1] = 0 /\ Rest(n, ix) = 0))
\* multivariate hypergeometric weights: a probability distribution on the smaller simplex with the stated support
ASSUME A_MVH == \A n \in 2..StaticN : \A mm \in 1..(n - 1) : \A X \in Simplex(n) :
    /\ SumOver({y \in Simplex(mm) : Covers(n, mm, X, y)}, LAMBDA y : MVH(n, mm, X, y)) = "1"
    /\ \A y \in Simplex(mm) : Covers(n, mm, X, y) = RPos(MVH(n, mm, X, y))
\* quadrinomial sampling weights are a probability distribution at every grid point of the domain
ASSUME A_Quad == \A P \in StaticP : \A n \in 1..StaticN : \A g \in Simplex(P) :
    SumOver(Simplex(n), LAMBDA ix : QuadP(n, ix, GridX(P)[g[1] + 1], GridX(P)[g[2] + 1], GridX(P)[g[3] + 1])) = "1"
\* sampling: all the integrated density arrives in the spectrum; sampling n then projecting to m = sampling m
UnitPhi(P, g) == [q \in 1..Size3(P) |-> IF q = Flat3(P, g) THEN "1" ELSE "0"]
ASSUME A_Sample == \A P \in StaticP : \A g \in Simplex(P) : \A n \in 2..StaticN :
    LET x == GridX(P) phi == UnitPhi(P, g) S == Sample(P, x, phi, n) IN
    /\ TotalAll(S) = Int3(P, GridDx(x), phi)
    /\ S.m = DefaultMask(n)
    /\ \A mm \in 2..(n - 1) : SameU(Project(S, mm), Sample(P, x, phi, mm))
\* grids: spacings add up to 1; the oblique face and the rest of the grid are two layouts of the same numbers
ASSUME A_Grid == \A P \in StaticP :
    LET x == GridX(P) dx == GridDx(x) phi == [q \in 1..Size3(P) |-> RInt(q)] surf == [q \in 1..((P + 1) * (P + 1)) |-> RInt(1000 + q)] IN
    /\ RSum(dx) = "1"
    /\ PutSurf(P, SurfOf(P, phi), phi) = phi
    /\ \A i, j \in 0..P : i + j <= P => SurfOf(P, PutSurf(P, surf, phi))[FlatS(P, i, j)] = surf[FlatS(P, i, j)]
    /\ \A g \in Cube(P) : ~OnSurface(P, g) => PutSurf(P, surf, phi)[Flat3(P, g)] = phi[Flat3(P, g)]
    /\ Cardinality(Simplex(P)) * 6 = (P + 1) * (P + 2) * (P + 3)
\* the 1-D step matrix conserves the integral (dx-weighted column sums), absorbs at both ends, is the identity for dt = 0
ASSUME A_T1D == \A P \in StaticP : \A gamma \in {"0", "3/2", "-2"} : \A nu \in {"1", "1/4"} :
    LET x == GridX(P) dx == GridDx(x) M == T1D(x, dx, "1/100", gamma, nu) N == P + 1 IN
    /\ \A j \in 1..N : RSum([i \in 1..N |-> RMul(dx[i], M[i][j])]) = dx[j]
    /\ \A i \in 1..N : M[i][1] = (IF i = 1 THEN "1" ELSE "0") /\ M[i][N] = (IF i = N THEN "1" ELSE "0")
    /\ \A i, j \in 1..N : T1D(x, dx, "0", gamma, nu)[i][j] = (IF i = j THEN "1" ELSE "0")
\* random pairing of the chromosomes into diploids: a probability distribution over the configurations; the expected
\* numbers of AB/AB and AB/Ab individuals are those of drawing two chromosomes without replacement
CountVecs(n) == {<<X[1], X[2], X[3], Rest(n, X)>> : X \in Simplex(n)}
ASSUME A_Geno == \A n \in GenoN : \A c \in CountVecs(n) :
    LET G == GenoConfigs(c) IN
    /\ SumOver(G, LAMBDA g : GenoProb(c, g)) = "1"
    /\ \A g \in G : ISumSeq(g) = n \div 2 /\ ISumSeq(Observed9(g)) = n \div 2
    /\ SumOver(G, LAMBDA g : RMul(RInt(g[1]), GenoProb(c, g))) = RDiv(RInt(c[1] * (c[1] - 1)), RInt(2 * (n - 1)))
    /\ SumOver(G, LAMBDA g : RMul(RInt(g[5]), GenoProb(c, g))) = RDiv(RInt(c[1] * c[2]), RInt(n - 1))
    /\ SumOver(G, LAMBDA g : RMul(RInt(g[10]), GenoProb(c, g))) = RDiv(RInt(c[3] * c[4]), RInt(n - 1))
    /\ Pairings(n) = RProdSeq([k \in 1..(n \div 2) |-> RInt(2 * k - 1)])
\* the observed-genotype spectrum carries the whole spectrum
ASSUME A_GenoTotal == \A n \in GenoN :
    LET gs == [n |-> n, d |-> Generic(n), m |-> DefaultMask(n), f |-> "unfolded"] IN
    SumOver(ObsKeys(gs), LAMBDA o : ObsValue(gs, o)) = TotalU(gs)
\* subsampling individuals: a probability distribution on the genotype counts of the subsample
ASSUME A_GMVH == \A G9 \in {<<1, 0, 0, 0, 1, 0, 0, 0, 1>>, <<0, 1, 0, 1, 0, 0, 0, 1, 0>>, <<2, 0, 0, 0, 1, 0, 0, 0, 0>>, <<0, 0, 1, 0, 2, 0, 1, 0, 0>>} :
    LET nf == ISumSeq(G9) IN \A nt \in 1..(nf - 1) :
    /\ SumOver(GTargets(nt, G9), LAMBDA O : GMVH(nf, nt, G9, O)) = "1"
    /\ \A O \in GTargets(nt, G9) : RPos(GMVH(nf, nt, G9, O))
=============================================================================
