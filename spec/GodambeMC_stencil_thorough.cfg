CONSTANTS
  MaxDepth = 1
  Dims = {1, 2, 3}
  Addrs = {1, 2}
  KeyHoldsRef = TRUE
  FullBoots = FALSE
SPECIFICATION SpecStencil
CHECK_DEADLOCK FALSE
INVARIANT L_StepRule
INVARIANT L_HessExact
INVARIANT L_HessSym
INVARIANT L_GradCentral
INVARIANT L_GradLinear
INVARIANT L_GradOneSided
INVARIANT L_TieChoice
INVARIANT L_TieVisited
