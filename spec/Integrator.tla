----------------------------- MODULE Integrator -----------------------------
(***************************************************************************)
(* The integrator driver (Integration.one_pop ... five_pops) as a state    *)
(* machine, independent of the numerical content of a sweep:               *)
(*                                                                         *)
(*   Start  -> rejected                  T < t0, or frozen with migration  *)
(*          -> done (density unchanged)  T = t0                            *)
(*          -> stepping                                                    *)
(*   stepping:  ChooseDt ; Inject ; Sweep(k) for each live axis ; Advance  *)
(*              until t = T                                                *)
(*                                                                         *)
(* dispatch: all parameters constant -> the precomputed-coefficient path   *)
(* (1-3 populations), otherwise the on-the-fly path; both take the same    *)
(* steps.  The time-step rule may depend on the current time (parameters   *)
(* that are functions of time); it is a constant of the model: DtAt[i] is  *)
(* the rule's value in the i-th step.                                      *)
(***************************************************************************)
EXTENDS Rat, Integers, Sequences, FiniteSets
CONSTANT Cfgs        \* the configurations explored: records [P, T0, T, DtAt, Frozen, MigPairs, AllConst]
\*   P number of populations; T0, T start and end time (rationals); DtAt sequence of rule values, one per
\*   step (the last one repeats); Frozen set of frozen populations; MigPairs set of <<i, j>> with non-zero
\*   migration; AllConst: every parameter passed as a constant

VARIABLES cf, phase, t, step, thisdt, swept, path, injected, sweeps
vars == <<cf, phase, t, step, thisdt, swept, path, injected, sweeps>>
P == cf.P
T0 == cf.T0
T == cf.T
DtAt == cf.DtAt
Frozen == cf.Frozen
MigPairs == cf.MigPairs
AllConst == cf.AllConst

Pops == 1..P
Live == Pops \ Frozen
FrozenWithMigration == \E pr \in MigPairs : pr[1] \in Frozen \/ pr[2] \in Frozen
Rule(i) == IF i <= Len(DtAt) THEN DtAt[i] ELSE DtAt[Len(DtAt)]

Init == /\ cf \in Cfgs
        /\ phase = "idle" /\ t = cf.T0 /\ step = 0 /\ thisdt = "0" /\ swept = {} /\ path = "none"
        /\ injected = 0 /\ sweeps = [k \in Pops |-> 0]
Start == /\ phase = "idle"
         /\ phase' = IF RLt(T, T0) THEN "rejected"
                     ELSE IF T = T0 THEN "done"
                     ELSE IF P >= 2 /\ FrozenWithMigration THEN "rejected"
                     ELSE IF P = 1 /\ 1 \in Frozen THEN "done"       \* freezing one population = not integrating
                     ELSE "choose"
         /\ path' = IF AllConst /\ P <= 3 THEN "precalc" ELSE "onthefly"
         /\ UNCHANGED <<cf, t, step, thisdt, swept, injected, sweeps>>
ChooseDt == /\ phase = "choose"
            /\ thisdt' = RMin(Rule(step + 1), RSub(T, t))
            /\ phase' = "inject"
            /\ UNCHANGED <<cf, t, step, swept, path, injected, sweeps>>
Inject == /\ phase = "inject"
          /\ injected' = injected + 1
          /\ phase' = "sweep" /\ swept' = {}
          /\ UNCHANGED <<cf, t, step, thisdt, path, sweeps>>
Sweep(k) == /\ phase = "sweep" /\ k \in Live /\ k \notin swept
            /\ \A j \in Live : j < k => j \in swept           \* in population order
            /\ swept' = swept \cup {k}
            /\ sweeps' = [sweeps EXCEPT ![k] = @ + 1]
            /\ UNCHANGED <<cf, phase, t, step, thisdt, path, injected>>
Advance == /\ phase = "sweep" /\ swept = Live
           /\ t' = RAdd(t, thisdt) /\ step' = step + 1
           /\ phase' = IF RLt(RAdd(t, thisdt), T) THEN "choose" ELSE "done"
           /\ swept' = {}
           /\ UNCHANGED <<cf, thisdt, path, injected, sweeps>>
Next == Start \/ ChooseDt \/ Inject \/ (\E k \in Pops : Sweep(k)) \/ Advance
Spec == Init /\ [][Next]_vars /\ WF_vars(Next)

\* ---- properties
Terminates == <>(phase \in {"done", "rejected"})
\* the integration lands exactly on T, in the minimal number of steps allowed by the rule
LandsOnT == (phase = "done" /\ ~RLt(T, T0)) => (t = T \/ (P = 1 /\ 1 \in Frozen /\ t = T0))
TimeMonotone == [][RLeq(t, t')]_vars
NeverPastT == RLeq(t, RMax(T, T0))
StepPositive == phase \in {"inject", "sweep"} => RPos(thisdt)
\* every live population is swept once per completed step, a frozen one never; one injection per step
SweptOncePerStep == phase \in {"choose", "done"} => \A k \in Pops : sweeps[k] = (IF k \in Live THEN step ELSE 0)
OneInjectionPerStep == phase \in {"choose", "done"} => injected = step
\* rejected inputs are never integrated
RejectedUntouched == phase = "rejected" => (step = 0 /\ injected = 0)
\* constant and function-of-time parameters take the same steps: the path is not part of the observable behaviour
PathOnlyFromDispatch == path \in {"none", "precalc", "onthefly"} /\ (path = "precalc" => (AllConst /\ P <= 3))
\* the number of steps is the least n with rule(1)+...+rule(n) >= T - t0
StepsMinimal == (phase = "done" /\ step > 0) =>
    LET RECURSIVE acc(_)
        acc(n) == IF n = 0 THEN "0" ELSE RAdd(acc(n - 1), Rule(n))
    IN RLeq(RSub(T, T0), acc(step)) /\ RLt(acc(step - 1), RSub(T, T0))
=============================================================================
