#!/venv/bin/python
"""usage: [SEED_ROUND=4] store_seed3.py <prop> [k=note ...]  - store the confirmed seeds of a round (default 3) of a property
under /verif/seeded/R<round>-<prop>-<k>/ (reads /tmp/seed<round>-eval-<prop>.log and /tmp/seed<round>-<prop>-out/<k>/)"""
import json, os, re, shutil, sys
RND = os.environ.get('SEED_ROUND', '3')
prop = sys.argv[1]
over = dict(a.split('=', 1) for a in sys.argv[2:])
log = open('/tmp/seed%s-eval-%s.log' % (RND, prop)).read()
for k in (1, 2, 3):
    src = '/tmp/seed%s-%s-out/%d' % (RND, prop, k)
    if not os.path.exists(src + '/patch.diff'):
        continue
    m = re.search(r'^%s/%d (demo_clean_exit=0 demo_changed_exit=1 tests: 93 passed.*)$' % (prop, k), log, re.M)
    if not m:
        print('NOT CONFIRMED', prop, k); continue
    sect = log.split('== %s/%d check' % (prop, k))[1].split('== %s/%d rc=' % (prop, k))
    rc = sect[1].strip().split()[0]
    keys = sorted({ln[ln.rindex(' [') + 2:].rstrip()[:-1] for ln in sect[0].split('\n') if ln.startswith('  what:') and ln.rstrip().endswith(']') and ' [' in ln})
    dst = '/verif/seeded/R%s-%s-%d' % (RND, prop, k)
    os.makedirs(dst, exist_ok=True)
    for f in ('patch.diff', 'demo.py'):
        shutil.copy(src + '/' + f, dst + '/' + f)
    meta = json.load(open(src + '/meta.json'))
    meta['round'] = int(RND)
    meta['confirmed_by_me'] = m.group(1)
    meta['ran'] = 'harness/eval_seed3.sh %s seed%s (confirm_seed.sh + try_seed.sh quick)' % (prop, RND)
    note = over.get(str(k))
    if rc == '1' and not note:
        meta['detected_by'] = {'check': prop, 'clauses': ', '.join(keys[:6]), 'missed_at_first': False}
    else:
        chk, clauses, strengthening = note.split('|')
        meta['detected_by'] = {'check': chk, 'clauses': clauses, 'missed_at_first': True, 'strengthening': strengthening}
    json.dump(meta, open(dst + '/meta.json', 'w'), indent=1)
    print(dst, meta['detected_by'])
