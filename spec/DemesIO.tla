------------------------------ MODULE DemesIO ------------------------------
(***************************************************************************)
(* Property C16: dadi programs, demes graphs, and the two translations     *)
(* between them (dadi.Demes.output = Export, dadi.Demes.SFS = Import).     *)
(*                                                                         *)
(* A PROGRAM is a sequence of positional events, exactly the event kinds   *)
(* dadi.Demes.cache records (populations are numbered 1..P, a new          *)
(* population is always appended last):                                    *)
(*   [k |-> "init",    nu]                          PhiManip.phi_1D        *)
(*   [k |-> "int",     T, sizes, mig, frozen]       Integration.*_pop(s)   *)
(*        sizes[i] = [s0, s1, fn]  fn in constant / linear / exponential   *)
(*        mig[i][j] = rate INTO i FROM j  (dadi's m_ij),  frozen[i] BOOLEAN*)
(*   [k |-> "split",   props]     new population = sum_j props[j] * pop j  *)
(*   [k |-> "pulse",   dest, props]   props[dest] = 0                      *)
(*   [k |-> "remove",  i]                                                  *)
(*   [k |-> "reorder", perm]      new population j = old perm[j]           *)
(* Events may carry ids (the deme names dadi.Demes.SFS passes along).      *)
(*                                                                         *)
(* A GRAPH is the value demes.Graph.asdict() describes:                    *)
(*   [time_units, generation_time,                                         *)
(*    demes      : Seq [name, start_time, ancestors, proportions,          *)
(*                      epochs : Seq [end_time, start_size, end_size,      *)
(*                                    size_function]],                     *)
(*    migrations : Seq [source, dest, start_time, end_time, rate],         *)
(*    pulses     : Seq [sources, dest, time, proportions]]                 *)
(* Numbers are rationals of module Rat; the time "inf" is the token Inf.   *)
(***************************************************************************)
EXTENDS Rat, Integers, Sequences, FiniteSets, TLC

Inf == "inf"
NoneV == "none"

\* ------------------------------------------------------------ sequences
Range(s)        == {s[i] : i \in DOMAIN s}
Has(s, x)       == \E i \in 1..Len(s) : s[i] = x
IndexOf(s, x)   == CHOOSE i \in 1..Len(s) : s[i] = x /\ \A j \in 1..(i - 1) : s[j] # x
RemoveAt(s, a)  == [j \in 1..(Len(s) - 1) |-> IF j < a THEN s[j] ELSE s[j + 1]]
MinI(S)         == CHOOSE x \in S : \A y \in S : x <= y
RECURSIVE Flatten(_)
Flatten(ss)     == IF ss = <<>> THEN <<>> ELSE Head(ss) \o Flatten(Tail(ss))
\* the elements of the set S of integers as an increasing sequence
RECURSIVE IncSeq(_)
IncSeq(S)       == IF S = {} THEN <<>> ELSE LET m == MinI(S) IN <<m>> \o IncSeq(S \ {m})
\* sub-sequence of s at the (increasing) positions satisfying Keep(_)
Pick(s, Keep(_)) == LET ix == IncSeq({i \in 1..Len(s) : Keep(i)}) IN [j \in 1..Len(ix) |-> s[ix[j]]]
Unit(P, i)      == [j \in 1..P |-> IF j = i THEN "1" ELSE "0"]
RECURSIVE FoldSeq(_, _, _)
FoldSeq(Op(_, _), acc, s) == IF s = <<>> THEN acc ELSE FoldSeq(Op, Op(acc, Head(s)), Tail(s))

\* ------------------------------------------------------------ times (with Inf)
TLeq(a, b) == b = Inf \/ (a # Inf /\ RLeq(a, b))
TLt(a, b)  == a # b /\ TLeq(a, b)
TSub(a, b) == IF a = Inf THEN Inf ELSE RSub(a, b)
TMul(a, c) == IF a = Inf THEN Inf ELSE RMul(a, c)
TDiv(a, c) == IF a = Inf THEN Inf ELSE RDiv(a, c)
RECURSIVE SortDesc(_)
SortDesc(S) == IF S = {} THEN <<>> ELSE LET m == CHOOSE x \in S : \A y \in S : TLeq(y, x) IN <<m>> \o SortDesc(S \ {m})

(***************************************************************************)
(* Programs                                                                *)
(***************************************************************************)
Dur(e)     == IF e.k = "int" THEN e.T ELSE "0"
PosDur(e)  == e.k = "init" \/ (e.k = "int" /\ RPos(e.T))
\* number of populations after each event
PopsAfter(prog, k) ==
    LET RECURSIVE go(_, _)
        go(j, P) == IF j > k THEN P
                    ELSE go(j + 1, IF prog[j].k = "init" THEN 1 ELSE IF prog[j].k = "split" THEN P + 1
                                   ELSE IF prog[j].k = "remove" THEN P - 1 ELSE P)
    IN go(1, 0)
SumTol == "1/1000000000000"       \* proportions are floats in recorded programs: 1 - f1 - f2 is not exactly the complement
PropsOK(props) == /\ \A j \in 1..Len(props) : RNonNeg(props[j])
                  /\ RLeq(RSum(props), RAdd("1", SumTol))
WellFormedProg(prog) ==
    /\ Len(prog) >= 1 /\ prog[1].k = "init" /\ RPos(prog[1].nu)
    /\ \A k \in 2..Len(prog) :
         LET e == prog[k] P == PopsAfter(prog, k - 1) IN
         CASE e.k = "int"     -> /\ Len(e.sizes) = P /\ Len(e.mig) = P /\ Len(e.frozen) = P /\ RNonNeg(e.T)
                                 /\ \A i \in 1..P : RPos(e.sizes[i].s0) /\ RPos(e.sizes[i].s1) /\ Len(e.mig[i]) = P
                                 /\ \A i, j \in 1..P : RNonNeg(e.mig[i][j]) /\ (i = j => e.mig[i][j] = "0")
                                 /\ \A i, j \in 1..P : (e.frozen[i] \/ e.frozen[j]) => e.mig[i][j] = "0"
           [] e.k = "split"   -> P <= 4 /\ Len(e.props) = P /\ PropsOK(e.props) /\ RLeq(RAbs(RSub(RSum(e.props), "1")), SumTol)
           [] e.k = "pulse"   -> P >= 2 /\ e.dest \in 1..P /\ Len(e.props) = P /\ PropsOK(e.props) /\ e.props[e.dest] = "0"
           [] e.k = "remove"  -> P >= 2 /\ e.i \in 1..P
           [] e.k = "reorder" -> Len(e.perm) = P /\ Range(e.perm) = 1..P
           [] OTHER           -> FALSE

(***************************************************************************)
(* Normal form: what a program MEANS, independent of population order.     *)
(* Populations are labelled by creation order (root = 1); reorders vanish, *)
(* zero-duration integrations vanish, a size that does not change is       *)
(* "constant", adjacent integrations with identical constant descriptors   *)
(* merge, pulses without a source vanish.  Two programs with the same      *)
(* normal form call the integrators and PhiManip with the same arguments   *)
(* up to the order of the axes.                                            *)
(***************************************************************************)
NSize(s, fr) == [s0 |-> s.s0, s1 |-> s.s1, fn |-> IF s.s0 = s.s1 THEN "constant" ELSE s.fn, frozen |-> fr]
NormRaw(prog) ==
    LET step(st, e) ==
          CASE e.k = "init"    -> [lab |-> <<1>>, n |-> 1, out |-> <<[k |-> "init", nu |-> e.nu]>>]
            [] e.k = "int"     -> IF ~RPos(e.T) THEN st ELSE
                                  LET P == Len(st.lab) IN
                                  [st EXCEPT !.out = Append(st.out,
                                      [k |-> "int", T |-> e.T,
                                       pops |-> {<<st.lab[i], NSize(e.sizes[i], e.frozen[i])>> : i \in 1..P},
                                       mig |-> {<<st.lab[i], st.lab[j], e.mig[i][j]>> : i, j \in {a \in 1..P : TRUE}} \
                                               {<<st.lab[i], st.lab[j], "0">> : i, j \in 1..P}])]
            [] e.k = "split"   -> [lab |-> Append(st.lab, st.n + 1), n |-> st.n + 1,
                                   out |-> Append(st.out, [k |-> "new", child |-> st.n + 1,
                                       parents |-> {<<st.lab[j], e.props[j]>> : j \in {a \in 1..Len(st.lab) : e.props[a] # "0"}}])]
            [] e.k = "pulse"   -> LET src == {<<st.lab[j], e.props[j]>> : j \in {a \in 1..Len(st.lab) : e.props[a] # "0"}} IN
                                  IF src = {} THEN st
                                  ELSE [st EXCEPT !.out = Append(st.out, [k |-> "pulse", dest |-> st.lab[e.dest], sources |-> src])]
            [] e.k = "remove"  -> [st EXCEPT !.lab = RemoveAt(st.lab, e.i),
                                             !.out = Append(st.out, [k |-> "remove", who |-> st.lab[e.i]])]
            [] e.k = "reorder" -> [st EXCEPT !.lab = [j \in 1..Len(st.lab) |-> st.lab[e.perm[j]]]]
        fin == FoldSeq(step, [lab |-> <<>>, n |-> 0, out |-> <<>>], prog)
    IN  Append(fin.out, [k |-> "order", lab |-> fin.lab])
ConstInt(e) == e.k = "int" /\ \A p \in e.pops : p[2].fn = "constant"
RECURSIVE MergeInts(_)
MergeInts(s) == IF Len(s) <= 1 THEN s
                ELSE LET a == s[1] b == s[2] IN
                     IF ConstInt(a) /\ ConstInt(b) /\ a.pops = b.pops /\ a.mig = b.mig
                     THEN MergeInts(<<[a EXCEPT !.T = RAdd(a.T, b.T)]>> \o SubSeq(s, 3, Len(s)))
                     ELSE <<a>> \o MergeInts(Tail(s))
Norm(prog) == MergeInts(NormRaw(prog))

\* the same model relative to a reference size c times larger: nu/c, T/c, M*c
RescaleProg(prog, c) ==
    [k \in 1..Len(prog) |->
        LET e == prog[k] IN
        CASE e.k = "init" -> [e EXCEPT !.nu = RDiv(e.nu, c)]
          [] e.k = "int"  -> [e EXCEPT !.T = RDiv(e.T, c),
                                       !.sizes = [i \in 1..Len(e.sizes) |-> [e.sizes[i] EXCEPT !.s0 = RDiv(@, c), !.s1 = RDiv(@, c)]],
                                       !.mig = [i \in 1..Len(e.mig) |-> [j \in 1..Len(e.mig[i]) |-> RMul(e.mig[i][j], c)]]]
          [] OTHER        -> e]

(***************************************************************************)
(* Export(prog, Nref, gt): the graph dadi.Demes.output(Nref, None, gt)     *)
(* must build.  gt = NoneV: time in generations; otherwise years with      *)
(* generation_time gt.  Deme names follow the documented rule d<era>_<i>:  *)
(* a split starts a new era for every population, and so does an           *)
(* integration that directly follows another one.                          *)
(***************************************************************************)
EndT(prog, k)  == RSum([j \in (k + 1)..Len(prog) |-> Dur(prog[j])])     \* genetic time between event k and the present
NameOf(era, i) == "d" \o ToString(era) \o "_" \o ToString(i)
Names(prog) ==
    LET RECURSIVE go(_, _, _)
        go(k, era, acc) ==
            IF k > Len(prog) THEN acc ELSE
            LET e == prog[k] prev == acc[k - 1] IN
            IF e.k = "split"   THEN go(k + 1, era + 1, Append(acc, [i \in 1..(Len(prev) + 1) |-> NameOf(era + 1, i)]))
            ELSE IF e.k = "remove"  THEN go(k + 1, era, Append(acc, RemoveAt(prev, e.i)))
            ELSE IF e.k = "reorder" THEN go(k + 1, era, Append(acc, [j \in 1..Len(prev) |-> prev[e.perm[j]]]))
            ELSE IF PosDur(e) /\ PosDur(prog[k - 1])
                                    THEN go(k + 1, era + 1, Append(acc, [i \in 1..Len(prev) |-> NameOf(era + 1, i)]))
            ELSE go(k + 1, era, Append(acc, prev))
    IN  go(2, 1, << <<NameOf(1, 1)>> >>)
\* all names in order of first appearance
FirstSeen(ids) ==
    LET add(acc, nm) == IF Has(acc, nm) THEN acc ELSE Append(acc, nm) IN
    FoldSeq(LAMBDA acc, row : FoldSeq(add, acc, row), <<>>, ids)

Export(prog, Nref, gt) ==
    LET n    == Len(prog)
        ids  == Names(prog)
        ts   == IF gt = NoneV THEN RMul("2", Nref) ELSE RMul(RMul("2", Nref), gt)
        tEnd(k)   == RMul(EndT(prog, k), ts)
        tStart(k) == RMul(RAdd(EndT(prog, k), Dur(prog[k])), ts)
        demeOf(nm) ==
            LET ks   == {k \in 1..n : Has(ids[k], nm)}
                k0   == MinI(ks)
                pos(k) == IndexOf(ids[k], nm)
                eks  == IncSeq({k \in ks : prog[k].k \in {"init", "int"}})
                ep(k) == LET e == prog[k] IN
                         IF e.k = "init"
                         THEN [end_time |-> tEnd(k), start_size |-> RMul(e.nu, Nref), end_size |-> RMul(e.nu, Nref), size_function |-> "constant"]
                         ELSE LET s == e.sizes[pos(k)] IN
                              [end_time |-> tEnd(k), start_size |-> RMul(s.s0, Nref), end_size |-> RMul(s.s1, Nref),
                               size_function |-> IF s.s0 = s.s1 THEN "constant" ELSE s.fn]
                e0   == prog[k0]
                newp == k0 > 1 /\ e0.k = "split" /\ pos(k0) = Len(ids[k0])      \* the population a split creates
            IN  [name |-> nm,
                 start_time  |-> IF k0 = 1 THEN Inf ELSE IF e0.k = "split" THEN tEnd(k0) ELSE tStart(k0),
                 ancestors   |-> IF k0 = 1 THEN <<>>
                                 ELSE IF newp THEN Pick(ids[k0 - 1], LAMBDA j : e0.props[j] # "0")
                                 ELSE <<ids[k0 - 1][pos(k0)]>>,
                 proportions |-> IF k0 = 1 THEN <<>>
                                 ELSE IF newp THEN Pick(e0.props, LAMBDA j : e0.props[j] # "0")
                                 ELSE <<"1">>,
                 epochs      |-> [j \in 1..Len(eks) |-> ep(eks[j])]]
        all  == FirstSeen(ids)
        migsOf(k) == LET e == prog[k] P == Len(ids[k]) IN
                     IF e.k # "int" THEN <<>>
                     ELSE Flatten([i \in 1..P |-> Flatten([j \in 1..P |->
                             IF i = j \/ e.mig[i][j] = "0" THEN <<>>
                             ELSE <<[source |-> ids[k][j], dest |-> ids[k][i], start_time |-> tStart(k), end_time |-> tEnd(k),
                                     rate |-> RDiv(e.mig[i][j], RMul("2", Nref))]>>])])
        pulseOf(k) == LET e == prog[k] IN
                      IF e.k # "pulse" \/ \A j \in 1..Len(e.props) : e.props[j] = "0" THEN <<>>
                      ELSE <<[sources |-> Pick(ids[k], LAMBDA j : e.props[j] # "0"), dest |-> ids[k][e.dest], time |-> tEnd(k),
                              proportions |-> Pick(e.props, LAMBDA j : e.props[j] # "0")]>>
    IN  [time_units |-> IF gt = NoneV THEN "generations" ELSE "years",
         generation_time |-> IF gt = NoneV THEN "1" ELSE gt,
         demes |-> [j \in 1..Len(all) |-> demeOf(all[j])],
         migrations |-> Flatten([k \in 1..n |-> migsOf(k)]),
         pulses |-> Flatten([k \in 1..n |-> pulseOf(k)])]
\* a program dadi.Demes.output can express as a demes graph: no zero-length demes, no pulse at the birth of its
\* source or the death of its destination, nothing frozen (the log does not record it)
Exportable(prog) ==
    /\ WellFormedProg(prog) /\ Len(prog) >= 2 /\ prog[Len(prog)].k \in {"int", "reorder", "remove"}
    /\ \A k \in 2..Len(prog) : LET e == prog[k] IN
         /\ e.k = "int" => RPos(e.T) /\ \A i \in 1..Len(e.frozen) : ~e.frozen[i]
         /\ e.k = "split" => k < Len(prog) /\ prog[k + 1].k = "int"
         /\ e.k = "pulse" => prog[k - 1].k \in {"int", "pulse"} /\ k < Len(prog) /\ prog[k + 1].k \in {"int", "pulse"}
         /\ e.k = "remove" => prog[k - 1].k \in {"int", "remove"}
         /\ e.k = "reorder" => prog[k - 1].k \in {"int", "remove"}
    /\ prog[2].k = "int"

(***************************************************************************)
(* Graph transformations                                                   *)
(***************************************************************************)
MapGraph(g, FT(_), FS(_), FR(_)) ==
    [g EXCEPT
       !.demes = [i \in 1..Len(g.demes) |->
                    LET d == g.demes[i] IN
                    [d EXCEPT !.start_time = FT(d.start_time),
                              !.epochs = [j \in 1..Len(d.epochs) |->
                                 [d.epochs[j] EXCEPT !.end_time = FT(@), !.start_size = FS(@), !.end_size = FS(@)]]]],
       !.migrations = [i \in 1..Len(g.migrations) |->
                    [g.migrations[i] EXCEPT !.start_time = FT(@), !.end_time = FT(@), !.rate = FR(@)]],
       !.pulses = [i \in 1..Len(g.pulses) |-> [g.pulses[i] EXCEPT !.time = FT(@)]]]
\* the same history relative to a reference size c times larger
ScaleGraph(g, c)   == MapGraph(g, LAMBDA t : TMul(t, c), LAMBDA s : RMul(s, c), LAMBDA r : RDiv(r, c))
\* a graph in generations re-expressed in years with generation time gt
ChangeUnits(g, gt) == [MapGraph(g, LAMBDA t : TMul(t, gt), LAMBDA s : s, LAMBDA r : r)
                          EXCEPT !.time_units = "years", !.generation_time = gt]
InGenerations(g)   == IF g.time_units = "generations" THEN g
                      ELSE [MapGraph(g, LAMBDA t : TDiv(t, g.generation_time), LAMBDA s : s, LAMBDA r : r)
                               EXCEPT !.time_units = "generations"]

(***************************************************************************)
(* Import: the program dadi.Demes.SFS(g, sampled, ..., sample_times, Ne)   *)
(* must execute.                                                           *)
(***************************************************************************)
DemeIx(g, nm)    == CHOOSE i \in 1..Len(g.demes) : g.demes[i].name = nm
Deme(g, nm)      == g.demes[DemeIx(g, nm)]
EpochStart(d, j) == IF j = 1 THEN d.start_time ELSE d.epochs[j - 1].end_time
DEnd(d)          == d.epochs[Len(d.epochs)].end_time

\* pw: table of powers [b, x, v] (v = b^x) supplied with a record; never evaluated here
PowLookup(pw, b, x) == IF x = "0" THEN "1" ELSE IF x = "1" THEN b
                       ELSE IF \E q \in Range(pw) : q.b = b /\ q.x = x THEN (CHOOSE q \in Range(pw) : q.b = b /\ q.x = x).v
                       ELSE "missing-pow-table-entry"
\* size of epoch ep (which starts at ts) at time t
SizeAt(ep, ts, t, pw) ==
    IF ep.size_function = "constant" \/ ep.start_size = ep.end_size THEN ep.start_size
    ELSE IF t = ts THEN ep.start_size ELSE IF t = ep.end_time THEN ep.end_size
    ELSE LET frac == RDiv(RSub(ts, t), RSub(ts, ep.end_time)) IN
         IF ep.size_function = "linear" THEN RAdd(ep.start_size, RMul(frac, RSub(ep.end_size, ep.start_size)))
         ELSE RMul(ep.start_size, PowLookup(pw, RDiv(ep.end_size, ep.start_size), frac))

\* DemesUtil.slice: the part of the history older than t, times shifted by t
SliceDeme(d, t, pw) ==
    LET n   == Len(d.epochs)
        cut == {j \in 1..n : RLeq(d.epochs[j].end_time, t)}
        m   == IF cut = {} THEN n ELSE MinI(cut)
    IN  [d EXCEPT !.start_time = TSub(d.start_time, t),
                  !.epochs = [j \in 1..m |->
                      LET ep == d.epochs[j] IN
                      IF cut # {} /\ j = m
                      THEN [ep EXCEPT !.end_time = "0", !.end_size = SizeAt(ep, EpochStart(d, j), t, pw)]
                      ELSE [ep EXCEPT !.end_time = RSub(ep.end_time, t)]]]
Slice(g, t, pw) ==
    IF t = "0" THEN g ELSE
    LET keepD == Pick(g.demes, LAMBDA i : TLt(t, g.demes[i].start_time))
        keepP == Pick(g.pulses, LAMBDA i : RLt(t, g.pulses[i].time))
        keepM == Pick(g.migrations, LAMBDA i : RLt(t, g.migrations[i].start_time))
    IN  [g EXCEPT !.demes = [i \in 1..Len(keepD) |-> SliceDeme(keepD[i], t, pw)],
                  !.pulses = [i \in 1..Len(keepP) |-> [keepP[i] EXCEPT !.time = RSub(@, t)]],
                  !.migrations = [i \in 1..Len(keepM) |-> [keepM[i] EXCEPT !.start_time = RSub(@, t), !.end_time = RMax("0", RSub(@, t))]]]

RenameDeme(g, old, new) ==
    LET rn(x) == IF x = old THEN new ELSE x IN
    [g EXCEPT !.demes = [i \in 1..Len(g.demes) |->
                           [g.demes[i] EXCEPT !.name = rn(@), !.ancestors = [j \in 1..Len(@) |-> rn(@[j])]]],
              !.migrations = [i \in 1..Len(g.migrations) |-> [g.migrations[i] EXCEPT !.source = rn(@), !.dest = rn(@)]],
              !.pulses = [i \in 1..Len(g.pulses) |->
                           [g.pulses[i] EXCEPT !.sources = [j \in 1..Len(@) |-> rn(@[j])], !.dest = rn(@)]]]
\* ancient samples: slice at the most recent sampling time, then every sample older than that becomes a frozen
\* branch off the sampled deme (its size is irrelevant); fnames[i] is the label of sample i when it needs one
AncientAugment(g, sampled, stimes, fnames, pw) ==
    IF \A i \in 1..Len(stimes) : stimes[i] = "0"      \* (stimes = <<>>: every sample at the end of its deme = the present)
    THEN [g |-> g, sampled |-> sampled, frozen |-> {}]
    ELSE
    LET n   == Len(sampled)
        t   == CHOOSE x \in Range(stimes) : \A y \in Range(stimes) : RLeq(x, y)
        st(i) == RSub(stimes[i], t)
        g1  == Slice(g, t, pw)
        ren == {i \in 1..n : st(i) = "0" /\ RPos(t)}
        g2  == FoldSeq(LAMBDA gg, i : RenameDeme(gg, sampled[i], fnames[i]), g1, IncSeq(ren))
        cur(nm) == IF \E i \in ren : sampled[i] = nm THEN fnames[CHOOSE i \in ren : sampled[i] = nm] ELSE nm
        frz == IncSeq({i \in 1..n : RPos(st(i))})
        newD == [j \in 1..Len(frz) |->
                   [name |-> fnames[frz[j]], start_time |-> st(frz[j]), ancestors |-> <<cur(sampled[frz[j]])>>, proportions |-> <<"1">>,
                    epochs |-> <<[end_time |-> "0", start_size |-> "1", end_size |-> "1", size_function |-> "constant"]>>]]
    IN  [g |-> [g2 EXCEPT !.demes = @ \o newD],
         sampled |-> [i \in 1..n |-> IF RPos(st(i)) \/ RPos(t) THEN fnames[i] ELSE sampled[i]],
         frozen |-> {fnames[i] : i \in {a \in 1..n : RPos(st(a))}}]

\* demes.Graph.discrete_demographic_events (children of a split in graph order)
DiscreteEvents(g) ==
    LET nD == Len(g.demes)
        one(i)  == Len(g.demes[i].ancestors) = 1
        aligned(i) == \A a \in Range(g.demes[i].ancestors) : g.demes[i].start_time = DEnd(Deme(g, a))
        spl(i)  == one(i) /\ aligned(i)
        parents == FirstSeen(<<Pick([i \in 1..nD |-> IF spl(i) THEN g.demes[i].ancestors[1] ELSE ""], LAMBDA i : spl(i))>>)
    IN  [pulses |-> g.pulses,
         branches |-> LET ix == IncSeq({i \in 1..nD : one(i) /\ ~aligned(i)}) IN
                      [j \in 1..Len(ix) |-> [parent |-> g.demes[ix[j]].ancestors[1], child |-> g.demes[ix[j]].name, time |-> g.demes[ix[j]].start_time]],
         mergers |-> LET ix == IncSeq({i \in 1..nD : Len(g.demes[i].ancestors) > 1 /\ aligned(i)}) IN
                      [j \in 1..Len(ix) |-> [parents |-> g.demes[ix[j]].ancestors, proportions |-> g.demes[ix[j]].proportions,
                                             child |-> g.demes[ix[j]].name, time |-> g.demes[ix[j]].start_time]],
         admixtures |-> LET ix == IncSeq({i \in 1..nD : Len(g.demes[i].ancestors) > 1 /\ ~aligned(i)}) IN
                      [j \in 1..Len(ix) |-> [parents |-> g.demes[ix[j]].ancestors, proportions |-> g.demes[ix[j]].proportions,
                                             child |-> g.demes[ix[j]].name, time |-> g.demes[ix[j]].start_time]],
         splits |-> [j \in 1..Len(parents) |->
                      [parent |-> parents[j], time |-> DEnd(Deme(g, parents[j])),
                       children |-> LET ix == IncSeq({i \in 1..nD : spl(i) /\ g.demes[i].ancestors[1] = parents[j]}) IN
                                    [q \in 1..Len(ix) |-> g.demes[ix[q]].name]]]]
\* the library returns the children of a split in an arbitrary order; a recorded order (rec: Seq [parent, children]) is adopted
\* when it lists the same children
AdoptChildOrder(ev, rec) ==
    [ev EXCEPT !.splits = [j \in 1..Len(ev.splits) |->
        LET s == ev.splits[j] IN
        IF \E r \in Range(rec) : r.parent = s.parent /\ Range(r.children) = Range(s.children) /\ Len(r.children) = Len(s.children)
        THEN [s EXCEPT !.children = (CHOOSE r \in Range(rec) : r.parent = s.parent /\ Range(r.children) = Range(s.children)).children]
        ELSE s]]

BreakPoints(g) ==
    UNION {{g.demes[i].start_time} \cup {g.demes[i].epochs[j].end_time : j \in 1..Len(g.demes[i].epochs)} : i \in 1..Len(g.demes)}
    \cup {g.pulses[i].time : i \in 1..Len(g.pulses)}
    \cup UNION {{g.migrations[i].start_time, g.migrations[i].end_time} : i \in 1..Len(g.migrations)}
\* demes alive during the interval iv = <<older, younger>>: oldest first, ties in graph order
Present(g, iv) ==
    LET live == {i \in 1..Len(g.demes) : TLeq(iv[1], g.demes[i].start_time) /\ TLeq(DEnd(g.demes[i]), iv[2])}
        RECURSIVE ord(_)
        ord(S) == IF S = {} THEN <<>>
                  ELSE LET m == CHOOSE x \in S : \A y \in S : TLt(g.demes[y].start_time, g.demes[x].start_time)
                                                            \/ (g.demes[y].start_time = g.demes[x].start_time /\ x <= y)
                       IN <<g.demes[m].name>> \o ord(S \ {m})
    IN  ord(live)
Successors(g, nm) == {i \in 1..Len(g.demes) : Has(g.demes[i].ancestors, nm)}

\* the demographic events at time t, in the order they must be applied:
\* pulses into demes that already exist, then new demes (branches, mergers, admixtures, splits), then pulses into demes
\* born at t, finally unsampled demes that end at t without descendants are integrated out.
\* A parent of a merger / admixture that ends at t and does not live on through a split at t ends with the event.
\* (Not defined here: a pulse into a deme born at t out of a deme that itself ends at t - it would have to act between
\* the two events; the conformance generators do not produce it.)
EventsAt(g, ev, t, sampled) ==
    LET at(s)    == Pick(s, LAMBDA i : s[i].time = t)
        born(p)  == Deme(g, p.dest).start_time = t
        pul(s)   == [i \in 1..Len(s) |-> [e |-> "pulse", sources |-> s[i].sources, dest |-> s[i].dest, props |-> s[i].proportions]]
        early    == Pick(at(ev.pulses), LAMBDA i : ~born(at(ev.pulses)[i]))
        late     == Pick(at(ev.pulses), LAMBDA i : born(at(ev.pulses)[i]))
        splitsT  == at(ev.splits)
        ending(ps) == Pick(ps, LAMBDA i : DEnd(Deme(g, ps[i])) = t /\ ~\E s \in Range(splitsT) : s.parent = ps[i])
        adm(s)   == [i \in 1..Len(s) |-> [e |-> "admix", parents |-> s[i].parents, props |-> s[i].proportions, child |-> s[i].child,
                                         ending |-> ending(s[i].parents)]]
        br       == at(ev.branches)
        margIx   == IncSeq({i \in 1..Len(g.demes) :
                        /\ DEnd(g.demes[i]) = t
                        /\ ~Has(sampled, g.demes[i].name)
                        /\ \A s \in Successors(g, g.demes[i].name) : TLt(t, g.demes[s].start_time)})
    IN  pul(early)
        \o [i \in 1..Len(br) |-> [e |-> "split", parent |-> br[i].parent, children |-> <<br[i].parent, br[i].child>>]]
        \o adm(at(ev.mergers)) \o adm(at(ev.admixtures))
        \o [i \in 1..Len(splitsT) |-> [e |-> "split", parent |-> splitsT[i].parent, children |-> splitsT[i].children]]
        \o pul(late)
        \o [i \in 1..Len(margIx) |-> [e |-> "marg", name |-> g.demes[margIx[i]].name]]

\* applying one event to the current list of population names; emits positional program events
ApplyEv(st, ev) ==
    CASE ev.e = "marg" ->
           LET i == IndexOf(st.ids, ev.name) IN
           [ids |-> RemoveAt(st.ids, i), out |-> Append(st.out, [k |-> "remove", i |-> i])]
      [] ev.e = "split" ->
           LET i == IndexOf(st.ids, ev.parent)
               s0 == [ids |-> [st.ids EXCEPT ![i] = ev.children[1]], out |-> st.out]
               more(s, c) == LET ids2 == Append(s.ids, c) IN
                             [ids |-> ids2, out |-> Append(s.out, [k |-> "split", props |-> Unit(Len(s.ids), i), ids |-> ids2])]
           IN  FoldSeq(more, s0, Tail(ev.children))
      [] ev.e = "admix" ->
           LET P == Len(st.ids)
               ids2 == Append(st.ids, ev.child)
               props == [j \in 1..P |-> IF Has(ev.parents, st.ids[j]) THEN ev.props[IndexOf(ev.parents, st.ids[j])] ELSE "0"]
               s1 == [ids |-> ids2, out |-> Append(st.out, [k |-> "split", props |-> props, ids |-> ids2])]
               rem(s, p) == LET i == IndexOf(s.ids, p) IN [ids |-> RemoveAt(s.ids, i), out |-> Append(s.out, [k |-> "remove", i |-> i])]
           IN  FoldSeq(rem, s1, ev.ending)
      [] ev.e = "pulse" ->
           LET P == Len(st.ids) IN
           [ids |-> st.ids,
            out |-> Append(st.out, [k |-> "pulse", dest |-> IndexOf(st.ids, ev.dest),
                                    props |-> [j \in 1..P |-> IF Has(ev.sources, st.ids[j]) THEN ev.props[IndexOf(ev.sources, st.ids[j])] ELSE "0"]])]

\* sizes (relative to Ne) of deme nm over the interval iv
SizesIn(g, nm, iv, Ne, pw) ==
    LET d  == Deme(g, nm)
        j  == MinI({q \in 1..Len(d.epochs) : TLeq(iv[1], EpochStart(d, q)) /\ TLeq(d.epochs[q].end_time, iv[2])})
        ep == d.epochs[j]
        a  == SizeAt(ep, EpochStart(d, j), iv[1], pw)
        b  == SizeAt(ep, EpochStart(d, j), iv[2], pw)
    IN  [s0 |-> RDiv(a, Ne), s1 |-> RDiv(b, Ne), fn |-> IF a = b THEN "constant" ELSE ep.size_function]
RateIn(g, src, dst, iv) ==
    LET ms == {i \in 1..Len(g.migrations) : /\ g.migrations[i].source = src /\ g.migrations[i].dest = dst
                                            /\ TLeq(iv[1], g.migrations[i].start_time) /\ TLeq(g.migrations[i].end_time, iv[2])}
    IN  IF ms = {} THEN "0" ELSE g.migrations[CHOOSE i \in ms : \A q \in ms : q <= i].rate

RootDeme(g) == g.demes[MinI({i \in 1..Len(g.demes) : g.demes[i].ancestors = <<>>})]

\* stimes = <<>>: every sample is taken at the present (dadi's sample_times=None with sampled demes that reach time 0);
\* otherwise stimes[i] is the sampling time of sampled0[i] in the graph's own time units.
\* NeIn = NoneV: the reference size is the root deme's initial size.  evrec: recorded split orders (or <<>>).
Import(g0, sampled0, stimes, NeIn, fnames, evrec, pw) ==
    LET aug   == AncientAugment(g0, sampled0, stimes, fnames, pw)
        g     == InGenerations(aug.g)
        smp   == aug.sampled
        ev    == AdoptChildOrder(DiscreteEvents(g), evrec)
        bps   == SortDesc(BreakPoints(g))
        nI    == Len(bps) - 1
        iv(q) == <<bps[q], bps[q + 1]>>
        root  == RootDeme(g)
        Ne    == IF NeIn = NoneV THEN root.epochs[1].start_size ELSE NeIn
        first == Present(g, iv(1))
        init  == [ids |-> first,
                  out |-> <<[k |-> "init", nu |-> RDiv(Deme(g, first[1]).epochs[1].start_size, Ne), ids |-> <<first[1]>>]>>]
        intOf(ids, q) ==
            LET P == Len(ids) IN
            [k |-> "int", T |-> RDiv(RSub(iv(q)[1], iv(q)[2]), RMul("2", Ne)), ids |-> ids,
             sizes |-> [i \in 1..P |-> SizesIn(g, ids[i], iv(q), Ne, pw)],
             mig |-> [i \in 1..P |-> [j \in 1..P |-> IF i = j THEN "0" ELSE RMul(RMul("2", Ne), RateIn(g, ids[j], ids[i], iv(q)))]],
             frozen |-> [i \in 1..P |-> ids[i] \in aug.frozen]]
        step(st, q) ==
            LET s1 == IF iv(q)[1] # Inf /\ iv(q)[1] # iv(q)[2] THEN [st EXCEPT !.out = Append(@, intOf(st.ids, q))] ELSE st
                s2 == FoldSeq(ApplyEv, s1, EventsAt(g, ev, iv(q)[2], smp))
            IN  IF q < nI
                THEN LET nxt == Present(g, iv(q + 1)) IN
                     IF s2.ids = nxt THEN s2
                     ELSE [ids |-> nxt, out |-> Append(s2.out, [k |-> "reorder", perm |-> [j \in 1..Len(nxt) |-> IndexOf(s2.ids, nxt[j])]])]
                ELSE s2
        fin   == FoldSeq(step, init, [q \in 1..nI |-> q])
    IN  Append(fin.out, [k |-> "reorder", perm |-> [j \in 1..Len(smp) |-> IndexOf(fin.ids, smp[j])]])
\* the usual call: all samples at the present, reference size = root size
ImportNow(g, sampled) == Import(g, sampled, <<>>, NoneV, <<>>, <<>>, <<>>)

\* sampled demes listed in another order: pi[j] = the old sample that is listed j-th
PermuteSamples(sampled, pi) == [j \in 1..Len(pi) |-> sampled[pi[j]]]
PermuteLastReorder(prog, pi) ==
    LET n == Len(prog) IN [prog EXCEPT ![n] = [@ EXCEPT !.perm = [j \in 1..Len(pi) |-> prog[n].perm[pi[j]]]]]
\* demes alive at the present, oldest first (graph order among equals)
Leaves(g) == LET ix == IncSeq({i \in 1..Len(g.demes) : DEnd(g.demes[i]) = "0"}) IN [j \in 1..Len(ix) |-> g.demes[ix[j]].name]
=============================================================================
