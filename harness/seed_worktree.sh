#!/bin/sh
# usage: seed_worktree.sh <dir>   - create a scratch git worktree of /repo at <dir> that can run the test-suite
# (copies the git-ignored generated C and compiled extensions; writes rebuild_ext.sh for edits to the C kernels)
set -e
D="$1"
git -C /repo worktree add --detach "$D" HEAD >/dev/null 2>&1
cd /repo
for f in $(git status --short --ignored | awk '/^!!/{print $2}' | grep -E '\.(so|c)$'); do
  mkdir -p "$D/$(dirname $f)"; cp -p "$f" "$D/$f"
done
cat > "$D/rebuild_ext.sh" <<'EOS'
#!/bin/sh
# Rebuild the compiled extensions of THIS tree in place after editing dadi/*.c (Cython is not installed:
# the .pyx files cannot be regenerated, the generated integration_c.c / tridiag_cython.c / PDFs_cython.c are reused).
set -e
cd "$(dirname "$0")/dadi"
PYI=$(/venv/bin/python -c "import sysconfig;print(sysconfig.get_paths()['include'])")
NPI=$(/venv/bin/python -c "import numpy;print(numpy.get_include())")
EXT=$(/venv/bin/python -c "import sysconfig;print(sysconfig.get_config_var('EXT_SUFFIX'))")
CF="-O2 -fPIC -w -fno-strict-aliasing -I$PYI -I$NPI -I."
gcc $CF -shared -o integration_c$EXT integration_c.c integration1D.c integration2D.c integration3D.c integration4D.c integration5D.c integration_shared.c tridiag.c -lm
gcc $CF -shared -o tridiag_cython$EXT tridiag_cython.c tridiag.c -lm
gcc $CF -shared -o DFE/PDFs_cython$EXT DFE/PDFs_cython.c -lm
echo rebuilt
EOS
chmod +x "$D/rebuild_ext.sh"
# the fix commits in /repo may have touched C sources after the .so files were built: rebuild once
"$D/rebuild_ext.sh" >/dev/null
echo "$D ready"
