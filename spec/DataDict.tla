------------------------------ MODULE DataDict ------------------------------
(***************************************************************************)
(* Genotype data -> data dictionary -> spectrum and statistics (C13).      *)
(*                                                                         *)
(* A VCF "file" is                                                         *)
(*   [samples |-> <<pop, ...>>      population of each sample column, ""   *)
(*                                  for a sample the popinfo file omits,   *)
(*    lines   |-> <<line, ...>>]                                           *)
(* a line is [kind |-> "meta"] | [kind |-> "header"] |                     *)
(*   [kind |-> "data", chrom, pos, filt, ref, alt, aa, gts]                *)
(* with ref/alt the upper-cased allele strings, aa the upper-cased value   *)
(* of the ancestral-allele INFO field ("absent" when there is none) and    *)
(* gts[j] = <<a, b>> the two allele calls of sample j: 0 = REF, 1 = ALT,   *)
(* 2 = missing (".").                                                      *)
(*                                                                         *)
(* A data dictionary is a function  key |-> [seg, og, calls]  with seg the *)
(* tuple of segregating alleles, og the outgroup allele ("-" = unknown)    *)
(* and calls a function  population |-> <<#allele1, #allele2>>.            *)
(***************************************************************************)
EXTENDS SpectrumOps, TLC

Bases   == {"A", "C", "G", "T"}
Missing == 2
Put(f, k, v) == [x \in (DOMAIN f) \cup {k} |-> IF x = k THEN v ELSE f[x]]
Range(q)     == {q[j] : j \in DOMAIN q}
RECURSIVE SetToSeq(_)
SetToSeq(S) == IF S = {} THEN <<>> ELSE LET x == CHOOSE y \in S : TRUE IN <<x>> \o SetToSeq(S \ {x})
KSubsets(S, m) == {T \in SUBSET S : Cardinality(T) = m}
RECURSIVE TupProd(_)          \* cartesian product of a sequence of sets, as a set of sequences
TupProd(q) == IF q = <<>> THEN {<<>>} ELSE {<<x>> \o t : x \in Head(q), t \in TupProd(Tail(q))}

(***************************************************************************)
(* 1. The VCF line stream (Misc.make_data_dict_vcf)                        *)
(***************************************************************************)
Key(l)     == l.chrom \o "_" \o ToString(l.pos)                \* CHROM_POS
IsSNP(l)   == l.ref \in Bases /\ l.alt \in Bases               \* single-base REF and ALT
SkipReason(l, filter) ==
    IF filter /\ l.filt \notin {"PASS", "."} THEN "filtered"
    ELSE IF ~IsSNP(l) THEN "not_snp" ELSE "stored"
Outgroup(l) == IF l.aa \in Bases THEN l.aa ELSE "-"
NAllele(g, a) == (IF g[1] = a THEN 1 ELSE 0) + (IF g[2] = a THEN 1 ELSE 0)
PopSet(samples)   == Range(samples) \ {""}
IdxOf(samples, p) == {j \in 1..Len(samples) : samples[j] = p}
CallsFull(samples, l, p) ==
    <<ISum([j \in 1..Len(samples) |-> IF samples[j] = p THEN NAllele(l.gts[j], 0) ELSE 0]),
      ISum([j \in 1..Len(samples) |-> IF samples[j] = p THEN NAllele(l.gts[j], 1) ELSE 0])>>
EntryOf(samples, l) == [seg |-> <<l.ref, l.alt>>, og |-> Outgroup(l),
                        calls |-> [p \in PopSet(samples) |-> CallsFull(samples, l, p)]]

\* ---- the reader as a state machine: Meta --header--> Data; data lines are stored or skipped
PInit == [phase |-> "Meta", dd |-> <<>>, log |-> <<>>]
PStep(st, samples, l, filter) ==
    IF st.phase = "Error" THEN st
    ELSE IF l.kind = "meta" THEN [st EXCEPT !.log = Append(@, "meta")]
    ELSE IF l.kind = "header" THEN [st EXCEPT !.phase = "Data", !.log = Append(@, "header")]
    ELSE IF st.phase # "Data" THEN [st EXCEPT !.phase = "Error"]
    ELSE LET why == SkipReason(l, filter) IN
         IF why # "stored" THEN [st EXCEPT !.log = Append(@, why)]
         ELSE [st EXCEPT !.dd = Put(@, Key(l), EntryOf(samples, l)), !.log = Append(@, "stored")]
RECURSIVE ParseFrom(_, _, _, _)
ParseFrom(st, file, i, filter) ==
    IF i > Len(file.lines) THEN st ELSE ParseFrom(PStep(st, file.samples, file.lines[i], filter), file, i + 1, filter)
Parse(file, filter) == ParseFrom(PInit, file, 1, filter)
DDOf(file, filter)  == Parse(file, filter).dd

\* ---- the same dictionary characterised directly: the last stored line of each key
DataIdx(file)         == {i \in 1..Len(file.lines) : file.lines[i].kind = "data"}
StoredIdx(file, filter) == {i \in DataIdx(file) : SkipReason(file.lines[i], filter) = "stored"}
LastOf(file, S) == {i \in S : \A j \in S : j > i => Key(file.lines[j]) # Key(file.lines[i])}
Effective(file, filter) == LastOf(file, StoredIdx(file, filter))

\* ---- subsampling: exactly sub[p] fully called individuals of every requested population
FullyCalled(samples, l, p) == {j \in IdxOf(samples, p) : l.gts[j][1] # Missing /\ l.gts[j][2] # Missing}
SubPops(samples, sub)      == (DOMAIN sub) \cap PopSet(samples)
SubStoredIdx(file, filter, sub) ==
    {i \in StoredIdx(file, filter) : \A p \in SubPops(file.samples, sub) :
          Cardinality(FullyCalled(file.samples, file.lines[i], p)) >= sub[p]}
SubEffective(file, filter, sub) == LastOf(file, SubStoredIdx(file, filter, sub))
CallsOfIndividuals(l, T) == <<ISum([j \in 1..Len(l.gts) |-> IF j \in T THEN NAllele(l.gts[j], 0) ELSE 0]),
                              ISum([j \in 1..Len(l.gts) |-> IF j \in T THEN NAllele(l.gts[j], 1) ELSE 0])>>
\* closed form of "calls are the allele counts of some k fully called individuals of p"
SubCallsOK(samples, l, p, k, c) ==
    LET FC == FullyCalled(samples, l, p)
        nn(t) == Cardinality({j \in FC : NAllele(l.gts[j], 1) = t})
    IN  /\ c[1] + c[2] = 2 * k
        /\ \E a0 \in 0..k : \E a1 \in 0..(k - a0) :
              LET a2 == k - a0 - a1 IN a0 <= nn(0) /\ a1 <= nn(1) /\ a2 <= nn(2) /\ c[2] = a1 + 2 * a2

(***************************************************************************)
(* 2. Counting and the spectrum (Misc.count_data_dict,                     *)
(*    Spectrum.from_data_dict)                                             *)
(***************************************************************************)
Biallelic(e) == Len(e.seg) = 2
Polarized(e) == e.og # "-" /\ e.og \in Range(e.seg)
Called(e, p)  == e.calls[p][1] + e.calls[p][2]
\* derived = the allele that differs from the outgroup; without a usable outgroup the
\* first segregating allele (REF) plays the ancestral role
Derived(e, p) == IF Polarized(e) /\ e.og # e.seg[1] THEN e.calls[p][1] ELSE e.calls[p][2]
CalledVec(e, pops)  == [a \in 1..Len(pops) |-> Called(e, pops[a])]
DerivedVec(e, pops) == [a \in 1..Len(pops) |-> Derived(e, pops[a])]
Counts(dd, pops) ==
    LET B == {k \in DOMAIN dd : Biallelic(dd[k])}
        cfg(k) == <<CalledVec(dd[k], pops), DerivedVec(dd[k], pops), Polarized(dd[k])>>
    IN  [c \in {cfg(k) : k \in B} |-> Cardinality({k \in B : cfg(k) = c})]

UsableE(e, pops, proj, pol) ==
    /\ Biallelic(e) /\ (pol => Polarized(e))
    /\ \A a \in 1..Len(pops) : Called(e, pops[a]) >= proj[a]
UsableKeys(dd, pops, proj, pol) == {k \in DOMAIN dd : UsableE(dd[k], pops, proj, pol)}

\* hypergeometric projection weights of one SNP in one population (proj + 1 entries)
WVec(n, m, h) == [j \in 1..(m + 1) |-> IF HypSupport(n, m, h, j - 1) THEN Hyp(n, m, h, j - 1) ELSE "0"]
PointMul(s, t) == [i \in 1..Len(s) |-> RMul(s[i], t[i])]
Labels(pops)   == [a \in 1..Len(pops) |-> <<pops[a]>>]
ShapeOf(proj)  == [a \in 1..Len(proj) |-> proj[a] + 1]

\* unfolded accumulation: entry ix = sum over usable SNPs of prod_a w_{snp,a}[ix_a]
AccumulateOver(dd, U, pops, proj) ==
    LET P  == Len(pops)
        us == SetToSeq(U)
        N  == Len(us)
        \* V[a][j + 1] = the sequence over usable SNPs of the weight of j derived calls in population a
        V  == TLCEval([a \in 1..P |-> [j1 \in 1..(proj[a] + 1) |->
                  TLCEval([u \in 1..N |-> WVec(Called(dd[us[u]], pops[a]), proj[a], Derived(dd[us[u]], pops[a]))[j1]])]])
        RECURSIVE pp(_, _)
        pp(ix, a) == IF a = 1 THEN V[1][ix[1] + 1] ELSE PointMul(pp(ix, a - 1), V[a][ix[a] + 1])
        term(ix) == IF N = 0 THEN "0"
                    ELSE IF P = 1 THEN RSum(V[1][ix[1] + 1])
                    ELSE RDot(pp(ix, P - 1), V[P][ix[P] + 1])
    IN  Mk(ShapeOf(proj), term, LAMBDA ix : FALSE, FALSE, Labels(pops))
\* (Force: evaluate the entries once; TLC would otherwise re-evaluate an entry at every use)
Force(s) == [s EXCEPT !.d = TLCEval(s.d), !.m = TLCEval(s.m)]
SpectrumOfKeys(dd, K, pops, proj, pol) ==
    LET unf == Force(AccumulateOver(dd, K \cap UsableKeys(dd, pops, proj, pol), pops, proj))
    IN  IF pol THEN unf ELSE Force(Fold(unf))
SpectrumOf(dd, pops, proj, pol) == SpectrumOfKeys(dd, DOMAIN dd, pops, proj, pol)

\* entry-wise sum of spectra of one shape (a sequence of spectra; masks are united)
AddSpectra(q, like) ==
    [like EXCEPT !.d = [k \in 1..Size(like.sh) |-> RSum([j \in 1..Len(q) |-> q[j].d[k]])],
                 !.m = [k \in 1..Size(like.sh) |-> like.m[k] \/ \E j \in 1..Len(q) : q[j].m[k]]]

(***************************************************************************)
(* 3. Chunks and bootstraps (Misc.fragment_data_dict,                      *)
(*    bootstraps_from_dd_chunks)                                           *)
(***************************************************************************)
\* where[k] = [chrom, pos] for every key.  Canonical windows of chunk_size base pairs:
WindowOf(pos, cs) == IF pos <= 0 THEN 0 ELSE (pos - 1) \div cs
ChunkSets(where, cs) ==
    {{k \in DOMAIN where : where[k].chrom = where[k0].chrom /\ WindowOf(where[k].pos, cs) = WindowOf(where[k0].pos, cs)}
        : k0 \in DOMAIN where}
\* implementation-independent description of a legal chunking (q = sequence of key sets)
IsPartition(q, K) == /\ \A k \in K : Cardinality({j \in 1..Len(q) : k \in q[j]}) = 1
                     /\ \A j \in 1..Len(q) : q[j] \subseteq K
OneChrom(q, where) == \A j \in 1..Len(q) : \A x, y \in q[j] : where[x].chrom = where[y].chrom
SpanOK(q, where, cs) == \A j \in 1..Len(q) : \A x, y \in q[j] : where[x].pos - where[y].pos < cs
Contiguous(q, where) == \A j \in 1..Len(q) : \A x, z \in q[j] : \A y \in DOMAIN where :
                           (where[y].chrom = where[x].chrom /\ where[x].pos < where[y].pos /\ where[y].pos < where[z].pos) => y \in q[j]
WhereOfFile(file, idx) == [k \in {Key(file.lines[i]) : i \in idx} |->
                             LET i == CHOOSE i \in idx : Key(file.lines[i]) = k IN [chrom |-> file.lines[i].chrom, pos |-> file.lines[i].pos]]
ChunkSpectra(dd, q, pops, proj, pol) == TLCEval([j \in 1..Len(q) |-> SpectrumOfKeys(dd, q[j], pops, proj, pol)])
\* a bootstrap replicate: draw[i] = index of the i-th drawn chunk
BootSum(cs, draw) == AddSpectra([i \in 1..Len(draw) |-> cs[draw[i]]], cs[1])

(***************************************************************************)
(* 4. Statistics of a spectrum (Spectrum.S, pi, Watterson_theta, theta_L,  *)
(*    Tajima_D, Fst)                                                       *)
(***************************************************************************)
Harm(n)  == RSum([i \in 1..(n - 1) |-> RDiv("1", RInt(i))])               \* a_1
Harm2(n) == RSum([i \in 1..(n - 1) |-> RDiv("1", RInt(i * i))])           \* a_2
SOf(s)   == TotalNC(s)                                                     \* segregating sites
PiOf(s)  == LET n == s.sh[1] - 1 IN                                        \* mean pairwise differences
            RSum([k \in 0..n |-> RMul(s.d[k + 1], RDiv(RInt(k * (n - k)), RBinom(n, 2)))])
WattersonOf(s) == RDiv(SOf(s), Harm(s.sh[1] - 1))
ThetaLOf(s) == LET n == s.sh[1] - 1 IN
               RDiv(RSum([k \in 1..(n - 1) |-> RMul(RInt(k), s.d[k + 1])]), RInt(n - 1))
\* Tajima's D = TajNum / sqrt(TajCsq)   (Tajima 1989)
TajCsqOf(n, S) ==
    LET nn == RInt(n)  a1 == Harm(n)  a2 == Harm2(n)
        b1 == RDiv(RInt(n + 1), RInt(3 * (n - 1)))
        b2 == RDiv(RInt(2 * (n * n + n + 3)), RInt(9 * n * (n - 1)))
        c1 == RSub(b1, RDiv("1", a1))
        c2 == RAdd(RSub(b2, RDiv(RInt(n + 2), RMul(a1, nn))), RDiv(a2, RSq(a1)))
        e1 == RDiv(c1, a1)
        e2 == RDiv(c2, RAdd(RSq(a1), a2))
    IN  RAdd(RMul(e1, S), RMul(e2, RMul(S, RSub(S, "1"))))
TajNumOf(s) == RSub(PiOf(s), WattersonOf(s))
TajCsq(s)   == TajCsqOf(s.sh[1] - 1, SOf(s))
\* Weir & Cockerham (1984) for one SNP with allele counts ix in samples of ns chromosomes,
\* random mating (their b = 0, which fixes the heterozygote frequency hbar): <<a, b + c>>
WC(ns, ix) ==
    LET r    == Len(ns)
        nsum == RInt(ISum(ns))
        nbar == RDiv(nsum, RInt(r))
        nc   == RDiv(RSub(nsum, RDiv(RInt(ISum([j \in 1..r |-> ns[j] * ns[j]])), nsum)), RInt(r - 1))
        pbar == RDiv(RInt(ISum(ix)), nsum)
        s2   == RDiv(RSum([j \in 1..r |-> RMul(RInt(ns[j]), RSq(RSub(RDiv(RInt(ix[j]), RInt(ns[j])), pbar)))]),
                     RMul(RInt(r - 1), nbar))
        X    == RSub(RMul(pbar, RSub("1", pbar)), RMul(RDiv(RInt(r - 1), RInt(r)), s2))
        hbar == RMul(RDiv(RMul("4", nbar), RSub(RMul("2", nbar), "1")), X)       \* from b = 0
        a    == RMul(RDiv(nbar, nc), RSub(s2, RMul(RDiv("1", RSub(nbar, "1")), RSub(X, RDiv(hbar, "4")))))
        c    == RHalf(hbar)
    IN  <<a, c>>
FstDefined(sh) == ISum(NS(sh)) > Len(sh) /\ Len(sh) >= 2        \* nbar > 1
\* <<sum a, sum (b+c), sum |a|, sum |b+c|>> weighted by the spectrum (corner entries have a = c = 0)
FstSums(s) ==
    LET ns == NS(s.sh)
        wc == TLCEval([k \in 1..Size(s.sh) |-> IF RIsZero(s.d[k]) THEN <<"0", "0">> ELSE WC(ns, Unflat(s.sh, k))])
    IN  <<RSum([k \in 1..Size(s.sh) |-> RMul(s.d[k], wc[k][1])]), RSum([k \in 1..Size(s.sh) |-> RMul(s.d[k], wc[k][2])]),
          RSum([k \in 1..Size(s.sh) |-> RMul(s.d[k], RAbs(wc[k][1]))]), RSum([k \in 1..Size(s.sh) |-> RMul(s.d[k], RAbs(wc[k][2]))])>>

(***************************************************************************)
(* 5. The same statistics from the genotype counts of the dictionary       *)
(*    directly (closed forms per SNP; n = called, h = derived, m = proj)   *)
(***************************************************************************)
\* probability that a subsample of m of the n called chromosomes is polymorphic
PSegE(e, pops, proj) ==
    LET P == Len(pops)
        allanc == IProdR([a \in 1..P |-> RDiv(RBinom(Called(e, pops[a]) - Derived(e, pops[a]), proj[a]), RBinom(Called(e, pops[a]), proj[a]))])
        allder == IProdR([a \in 1..P |-> RDiv(RBinom(Derived(e, pops[a]), proj[a]), RBinom(Called(e, pops[a]), proj[a]))])
    IN  RSub("1", RAdd(allanc, allder))
SMat(dd, pops, proj, pol) == RSum([k \in UsableKeys(dd, pops, proj, pol) |-> PSegE(dd[k], pops, proj)])
PiMat(dd, p, m, pol) ==
    RSum([k \in UsableKeys(dd, <<p>>, <<m>>, pol) |->
            LET n == Called(dd[k], p) h == Derived(dd[k], p) IN RDiv(RInt(h * (n - h)), RBinom(n, 2))])
ThetaLMat(dd, p, m) ==
    RDiv(RSum([k \in UsableKeys(dd, <<p>>, <<m>>, TRUE) |->
            LET n == Called(dd[k], p) h == Derived(dd[k], p) IN
            RSub(RDiv(RInt(m * h), RInt(n)), RMul(RInt(m), RDiv(RBinom(h, m), RBinom(n, m))))]), RInt(m - 1))

(***************************************************************************)
(* 6. ... and literally from the genotype matrix (enumeration of           *)
(*    chromosomes, pairs and subsamples; used on small matrices)           *)
(***************************************************************************)
Chroms(samples, l, p) == {x \in IdxOf(samples, p) \X {1, 2} : l.gts[x[1]][x[2]] # Missing}
AlleleAt(l, x)   == l.gts[x[1]][x[2]]
DerivedCode(l)   == IF Outgroup(l) = l.alt /\ l.alt # l.ref THEN 0 ELSE 1      \* which call value is the derived allele
LinePolarized(l) == Outgroup(l) \in {l.ref, l.alt}
LineUsable(samples, l, pops, proj, pol) ==
    /\ (pol => LinePolarized(l))
    /\ \A a \in 1..Len(pops) : Cardinality(Chroms(samples, l, pops[a])) >= proj[a]
\* all subsamples: one set of proj[a] called chromosomes per population
Subsamples(samples, l, pops, proj) == TupProd([a \in 1..Len(pops) |-> KSubsets(Chroms(samples, l, pops[a]), proj[a])])
DerivedIn(l, T) == Cardinality({x \in T : AlleleAt(l, x) = DerivedCode(l)})
\* average of w(derived counts) over all subsamples of one SNP
SubsampleAvg(samples, l, pops, proj, w(_)) ==
    LET SS == Subsamples(samples, l, pops, proj) IN
    RDiv(RSum([t \in SS |-> w([a \in 1..Len(pops) |-> DerivedIn(l, t[a])])]), RInt(Cardinality(SS)))
DiffPairs(samples, l, p) == LET C == Chroms(samples, l, p) IN
    {pr \in KSubsets(C, 2) : \E x, y \in pr : AlleleAt(l, x) # AlleleAt(l, y)}
=============================================================================
