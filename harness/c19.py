"""C19 - uncertainty machinery (spec/Godambe.tla): finite-difference stencils (including parameters on the
thresholds of the stencil choice), closed-form information for linear Poisson models (including masked and
folded spectra), bootstrap order, chi-square mixture, the shared spectrum cache (call histories over two
models, call sequences on one model function object with one argument changed per call).

The driver only generates inputs, calls the real dadi.Godambe functions and records
what came back; every verdict is TLC's (spec/Trace_Godambe.tla)."""
import random, itertools, math, io, contextlib, logging, gc
from fractions import Fraction
import numpy as np
from . import common
from .common import rat, rats

PROP = 'C19'
TAU_FD = 1e-13


# ------------------------------------------------------------------ 1. stencils
def rand_param(rng, eps):
    kind = rng.choice(['ord', 'ord', 'ord', 'zero', 'tiny', 'small', 'neg', 'big'])
    while True:
        if kind == 'zero':
            return 0.0
        if kind == 'tiny':
            p = 10 ** rng.uniform(-12, -8)
        elif kind == 'small':          # around the documented threshold p*eps = 1e-6
            p = rng.choice([0.2, 0.5, 3.0, 20.0]) * 1e-6 / eps
        elif kind == 'neg':
            p = -10 ** rng.uniform(-3, 1)
        elif kind == 'big':
            p = 10 ** rng.uniform(1, 3)
        else:
            p = 10 ** rng.uniform(-2, 1)
        if not (0.9e-6 < p * eps < 1.1e-6):      # keep away from the float/exact tie of the threshold
            return p


def rand_quadratic(rng, n, linear=False):
    Q = np.zeros((n, n))
    if not linear:
        for i in range(n):
            for j in range(i, n):
                Q[i, j] = Q[j, i] = rng.choice([0.0, rng.uniform(-5, 5), rng.uniform(-1, 1), float(rng.randint(-3, 3))])
    b = np.array([rng.choice([0.0, rng.uniform(-5, 5), float(rng.randint(-3, 3))]) for _ in range(n)])
    c = rng.choice([0.0, rng.uniform(-10, 10)])
    return Q, b, c


KINDS = ['zero', 'tiny', 'small', 'neg', 'ord', 'big']


def param_of(rng, eps, kind):
    """a parameter value of the given class (see rand_param)"""
    while True:
        if kind == 'zero':
            return 0.0
        p = {'tiny': lambda: 10 ** rng.uniform(-12, -8),
             'small': lambda: rng.choice([0.2, 0.5, 3.0, 20.0]) * 1e-6 / eps,          # both sides of the 1e-6/eps threshold
             'neg': lambda: -10 ** rng.uniform(-3, 1),
             'big': lambda: 10 ** rng.uniform(1, 3),
             'ord': lambda: 10 ** rng.uniform(-2, 1)}[kind]()
        if not (0.9e-6 < p * eps < 1.1e-6):
            return p


def stencil_pair(nid, Q, b, c, p, eps, pform='list', extra=None):
    """get_hess and get_grad on f(x) = x'Qx/2 + b'x + c at p; pform: how the parameter vector is passed;
    extra: a constant passed through args=(extra,) and added by f (so the recorded constant is c + extra)."""
    from dadi import Godambe
    Q, b = np.asarray(Q, dtype=float), np.asarray(b, dtype=float)

    def f(x, *args):
        x = np.asarray(x, dtype=float)
        return 0.5 * float(x @ Q @ x) + float(b @ x) + c + (args[0] if args else 0.0)
    arg = {'list': lambda: [float(v) for v in p], 'tuple': lambda: tuple(float(v) for v in p), 'array': lambda: np.array(p, dtype=float),
           'intlist': lambda: [int(v) for v in p], 'intarray': lambda: np.array([int(v) for v in p])}[pform]
    args = () if extra is None else (extra,)
    inp = {'Q': rats(Q), 'b': rats(b), 'c': rat(Fraction(c) + Fraction(extra or 0.0)), 'p': rats([float(v) for v in p]), 'eps': rat(eps),
           'pform': pform, 'args': extra is not None}
    recs = []
    try:
        out = {'H': rats(np.asarray(Godambe.get_hess(f, arg(), eps, args=args), dtype=float))}
    except Exception as e:
        out = {'raised': type(e).__name__}
    recs.append({'id': 'hess-%d' % next(nid), 'op': 'hess', 'site': 'Godambe.get_hess', 'in': inp, 'out': out})
    try:
        out = {'g': rats(np.asarray(Godambe.get_grad(f, arg(), eps, args=args), dtype=float).ravel())}
    except Exception as e:
        out = {'raised': type(e).__name__}
    recs.append({'id': 'grad-%d' % next(nid), 'op': 'grad', 'site': 'Godambe.get_grad', 'in': inp, 'out': out})
    return recs


def stencil_records(ctx, rng, nid):
    recs = []
    # ---- deterministic part (every tier): each element of the stated domain is drawn on purpose
    ends = [1e-4, 1e-1]                                  # both end points of the eps range
    j = 0
    for kind in KINDS:                                   # one parameter: every class x quadratic/linear x both eps end points
        for linear in (False, True):
            eps = ends[j % 2]
            j += 1
            Q, b, c = rand_quadratic(rng, 1, linear)
            if not linear and Q[0, 0] == 0:
                Q[0, 0] = 2.5
            recs += stencil_pair(nid, Q, b, c, [param_of(rng, eps, kind)], eps)
    for n in (2, 3, 4, 5):                               # 2-5 parameters, classes mixed within the vector, quadratic and linear
        for linear in (False, True):
            eps = [1e-4, 1e-1, 1e-2, 1e-3][(n + linear) % 4]
            Q, b, c = rand_quadratic(rng, n, linear)
            p = [param_of(rng, eps, KINDS[(n + i + 3 * linear) % 6]) for i in range(n)]
            recs += stencil_pair(nid, Q, b, c, p, eps)
    for p, eps in (([0.0, 0.0, 0.0], 1e-2), ([1e-9, 3e-10], 1e-1), ([-1.5, -0.25], 1e-4)):      # all zero / all tiny / all negative
        Q, b, c = rand_quadratic(rng, len(p), False)
        recs += stencil_pair(nid, Q, b, c, p, eps)
    Q, b, c = rand_quadratic(rng, 3, False)              # the ways a caller passes the parameter vector, and args=
    for pform in ('list', 'tuple', 'array', 'intlist', 'intarray'):
        recs += stencil_pair(nid, Q, b, c, [2, 1, 3], 1e-2, pform=pform)
    recs += stencil_pair(nid, Q, b, 0.0, [0.5, 0.0, 2.0], 1e-2, extra=1.75)
    # ---- random part
    for k in range(45 if ctx.quick else 600):
        n = rng.choice([1, 2, 2, 3, 3, 4, 5])
        eps = 10 ** rng.uniform(-4, -1)
        Q, b, c = rand_quadratic(rng, n, rng.random() < 0.3)
        p = [rand_param(rng, eps) for _ in range(n)]
        recs += stencil_pair(nid, Q, b, c, p, eps, pform=rng.choice(['list', 'list', 'array', 'tuple']))
        if k % 8 == 0:
            recs += stencil_pair(nid, Q, b, c, [rng.randint(1, 4) for _ in range(n)], eps, pform=rng.choice(['intlist', 'intarray']))
    return recs


def tie_param(eps):
    """a double p whose double product p*eps equals the double 1e-6: the value on the internal threshold of the step rule"""
    p = 1e-6 / eps
    cand = [p]
    lo = hi = p
    for _ in range(4):
        lo, hi = float(np.nextafter(lo, 0.0)), float(np.nextafter(hi, np.inf))
        cand += [lo, hi]
    for q in cand:
        if q * eps == 1e-6:
            return q
    return None


TIE_EPS = [1e-4, 1e-3, 2e-3, 1e-2, 3e-2, 1e-1, 2.0 ** -7, 3 * 2.0 ** -8]
# the other threshold of the stencil choice is p == 0: the smallest doubles either side of it, the smallest normal ones, -0.0
ZERO_EDGE = [5e-324, -5e-324, 2.2250738585072014e-308, -2.2250738585072014e-308, -0.0, 1e-300]


def threshold_records(ctx, rng, nid):
    """Deterministic block (every tier): parameters exactly on and one unit in the last place either side of each internal
    threshold of the stencil choice (p*eps == 1e-6 for eight step sizes; p == 0), alone and inside longer vectors, for
    quadratic and linear test functions whose coefficients in the threshold direction are not zero."""
    def nz(lo, hi):
        return rng.choice([-1, 1]) * rng.uniform(lo, hi)

    def fn(n, linear):
        Q = np.zeros((n, n))
        if not linear:
            for i in range(n):
                for j in range(i, n):
                    Q[i, j] = Q[j, i] = nz(0.5, 5)
        return Q, np.array([nz(0.5, 5) for _ in range(n)]), rng.uniform(-10, 10)
    recs = []
    for eps in TIE_EPS:
        pt = tie_param(eps)
        if pt is None:
            continue
        for v in (pt, float(np.nextafter(pt, 0.0)), float(np.nextafter(pt, np.inf))):
            for linear in (True, False):
                Q, b, c = fn(1, linear)
                recs += stencil_pair(nid, Q, b, c, [v], eps)
        Q, b, c = fn(3, False)
        recs += stencil_pair(nid, Q, b, c, [10 ** rng.uniform(-1, 1), pt, 0.0], eps)
        Q, b, c = fn(2, True)
        recs += stencil_pair(nid, Q, b, c, [pt, float(np.nextafter(pt, 0.0))], eps, pform='array')
    for j, v in enumerate(ZERO_EDGE):
        for linear in (True, False):
            Q, b, c = fn(1, linear)
            recs += stencil_pair(nid, Q, b, c, [v], [1e-4, 1e-1, 1e-2][(j + linear) % 3])
    Q, b, c = fn(4, False)
    recs += stencil_pair(nid, Q, b, c, [0.0, 5e-324, tie_param(1e-2), 1.5], 1e-2)
    Q, b, c = fn(4, True)
    recs += stencil_pair(nid, Q, b, c, [tie_param(1e-3), -5e-324, 2.5, tie_param(1e-3)], 1e-3)
    return recs


# ------------------------------------------------------------------ 2. linear Poisson models
# Inputs of the closed-form records are floats with few significant bits (multiples of 1/8, 1/16, ...): the exact
# rational arithmetic of the specification divides by the model means, and short inputs keep its numbers short.
def short(rng, lo, hi, den):
    return rng.randint(int(math.ceil(lo * den)), int(hi * den)) / float(den)


def short_eps(rng, lo=-4.0, hi=-1.0):
    """a step size m * 2^-e (m odd <= 7) log-uniform in [1e-4, 1e-1]"""
    while True:
        x = 10 ** rng.uniform(lo, hi)
        e = int(math.floor(-math.log2(x))) + 2
        m = int(round(x * 2 ** e))
        v = m / float(2 ** e)
        if 1e-4 <= v <= 1e-1:
            return v


class LinModel:
    """mean = B0 + sum_a p[a] * B[a]; a real dadi model function (params, ns, pts) -> Spectrum."""

    def __init__(self, rng, n, k, fixed=False, scale=1):
        import dadi
        self.n, self.k = n, k

        def basis():
            return dadi.Spectrum(np.array([0.0] + [scale * rng.choice([short(rng, 0.25, 3, 4), short(rng, 0.125, 1, 8), float(rng.randint(1, 4))])
                                                    for _ in range(n - 1)] + [0.0]))
        self.B = [basis() for _ in range(k)]
        self.B0 = 4 * basis() if fixed else dadi.Spectrum(np.zeros(n + 1))

    def __call__(self, params, ns, pts):
        out = self.B0 + params[0] * self.B[0]
        for a in range(1, self.k):
            out = out + params[a] * self.B[a]
        return out

    def enc(self, p, multinom, live):
        return {'B0': rats(np.asarray(self.B0.data)), 'B': [rats(np.asarray(b.data)) for b in self.B], 'p': rats(p),
                'multinom': bool(multinom), 'live': [bool(x) for x in live]}


def poisson_like(rng, mean):
    """integer-valued data scattered around the mean (any non-negative data are legitimate inputs)"""
    import dadi
    vals = [0.0]
    for m in mean[1:-1]:
        vals.append(float(max(0, round(m * math.exp(rng.gauss(0, 0.35)) + rng.gauss(0, math.sqrt(max(m, 0.1)))))))
    vals.append(0.0)
    return dadi.Spectrum(np.array(vals))


def fold_by_hand(arr):
    """minor-allele folding of a 1-D spectrum array: mirror entries summed into the lower one, upper half empty"""
    n = len(arr) - 1
    out = np.zeros(n + 1)
    for i in range(n + 1):
        if i < n - i:
            out[i] = arr[i] + arr[n - i]
        elif i == n - i:
            out[i] = arr[i]
    return out


def dress(rng, fs, folded, hide):
    """The spectrum fs as the caller would hold it: folded (by hand, flag set, upper half masked) and / or with the interior
    entries `hide` masked; a masked entry keeps a (large) number underneath, as real masked data do."""
    import dadi
    n = len(fs) - 1
    arr = np.array(np.asarray(fs.data), dtype=float)
    mask = np.zeros(n + 1, dtype=bool)
    if folded:
        arr = fold_by_hand(arr)
        mask[[i for i in range(n + 1) if i > n - i]] = True
    for i in hide:
        mask[i] = True
        arr[i] = float(3 * round(arr[i]) + rng.randint(5, 40))
    return dadi.Spectrum(arr, mask=mask, data_folded=True if folded else None)


def gen_stats_case(rng, eps=None, cfg=None):
    """cfg (all optional) fixes: k, multinom, fixed, nb, eps, adj (bool), nested (0-based list), fullform ('nested' | 'entire'),
    bootform ('spectrum' | 'ndarray'), nestform ('list' | 'array'), plain (scalar-return code paths), n ((lo, hi) sample size),
    tie (indices of the parameters put exactly on the step-rule threshold p*eps == 1e-6), folded (data and bootstraps folded,
    model unfolded), dmask / bmask (number of interior entries masked in the data / in each bootstrap)."""
    cfg = cfg or {}
    n = rng.randint(*cfg.get('n', (5, 10)))
    multinom = cfg.get('multinom', rng.random() < 0.4)
    k = cfg.get('k', rng.choice([1, 2, 2]) if multinom else rng.choice([1, 2, 2, 3]))
    scale = rng.choice([4, 16, 64])
    # with the theta augmentation the model needs a parameter-free component, otherwise (p, theta) is not identifiable
    model = LinModel(rng, n, k, fixed=multinom or cfg.get('fixed', rng.random() < 0.3), scale=1 if multinom else scale)
    p0 = [short(rng, 0.5, 3.0, 8) for _ in range(k)]
    if cfg.get('tie') is not None:
        # the same model in other units: parameter a is tiny (exactly on the threshold of the step rule), its component large
        # (two parameters in the same units stay comparable: the first-order bounds of the specification are not scale invariant)
        pt = tie_param(cfg['eps'])
        for a in cfg['tie']:
            model.B[a] = model.B[a] * float(2.0 ** round(math.log2(p0[a] / pt)))
            p0[a] = pt
    mean = np.asarray(model(p0, [n], [10]).data) * (scale if multinom else 1)
    data = poisson_like(rng, mean)
    nb = cfg.get('nb', k + (1 if multinom else 0) + rng.randint(2, 5))      # J (mean of nb rank-one matrices) needs more bootstraps than parameters
    boots = [poisson_like(rng, mean) for _ in range(nb)]
    eps = eps or cfg.get('eps') or rng.choice([short_eps(rng, -3, -1.5), short_eps(rng, -3, -1.5), short_eps(rng, -4, -3), short_eps(rng, -1.5, -1)])
    folded, dmask, bmask = cfg.get('folded', False), cfg.get('dmask', 0), cfg.get('bmask', 0)
    if folded or dmask or bmask:
        interior = [i for i in range(1, n) if not folded or i <= n - i]
        dhide = sorted(rng.sample(interior, dmask))
        data = dress(rng, data, folded, dhide)
        # bootstraps of masked data carry the mask of the data; every other one (if asked for) a mask of its own
        boots = [dress(rng, b, folded, (dhide if j % 2 == 0 and dmask else sorted(rng.sample(interior, bmask))) if bmask else []) for j, b in enumerate(boots)]
    adj = None
    if not multinom and cfg.get('adj', rng.random() < 0.3):
        adj = [short(rng, 0.8, 1.25, 16) for _ in range(nb)]
    nested = cfg.get('nested', sorted(rng.sample(range(k), rng.randint(1, k))))
    full = [p0[a] + rng.choice([-1, 1]) * short(rng, 0.125, 0.5, 8) * (p0[a] if a in cfg.get('tie', ()) else 1) for a in nested]
    return {'model': model, 'p0': p0, 'multinom': multinom, 'data': data, 'boots': boots, 'eps': eps, 'adj': adj,
            'nested': nested, 'full': full, 'pts': [10], 'fullform': cfg.get('fullform', 'nested'), 'bootform': cfg.get('bootform', 'spectrum'),
            'nestform': cfg.get('nestform', 'list'), 'plain': cfg.get('plain', False), 'cfg': cfg.get('name', ''),
            'dressed': bool(folded or dmask or bmask), 'folded': bool(folded)}


def stats_in(case, op, boots=None, adj=None):
    model, data = case['model'], case['data']
    boots = case['boots'] if boots is None else boots
    adj = case['adj'] if adj is None else adj
    m0 = model(case['p0'], data.sample_sizes, case['pts'])
    live = ~(np.ma.getmaskarray(m0) | np.ma.getmaskarray(data))
    use_boots = op != 'fim'
    use_adj = op in ('gim', 'lrt', 'screen') and adj is not None
    inp = {'md': model.enc(case['p0'], case['multinom'], live), 'd': rats(np.asarray(data.data)), 'eps': rat(case['eps']),
           'boots': [rats(np.asarray(b.data)) for b in boots] if use_boots else [],
           'adj': [rat(a) for a in adj] if use_adj else (['1'] * len(boots) if use_boots else []),
           'nested': [a + 1 for a in case['nested']], 'full': rats(case['full']),
           'forms': [case.get('fullform', 'nested'), case.get('bootform', 'spectrum'), case.get('nestform', 'list'), 'plain' if case.get('plain') else 'full', case.get('cfg', '')]}
    if case.get('dressed'):
        # masked / folded spectra: the numbers under the masks are part of the input ('d', 'boots'), the masks say which entries
        # carry likelihood (a bootstrap has its own), 'folded' that the spectra are folded while the model is not
        inp['folded'] = bool(case.get('folded'))
        inp['dmask'] = [bool(x) for x in np.ma.getmaskarray(data)]
        inp['bmasks'] = [[bool(x) for x in np.ma.getmaskarray(b)] for b in boots] if use_boots else []
        inp['blive'] = [[bool(x) for x in ~(np.ma.getmaskarray(m0) | np.ma.getmaskarray(b))] for b in boots] if use_boots else []
    return inp


def call_stat(case, op, func=None, boots=None, adj=None):
    """One real call, on a fresh cache unless the caller manages the cache (func given).  case['bootform'] / ['nestform'] /
    ['fullform'] select how bootstraps, nested indices and Wald's full_params are passed; with case['plain'] the value that
    the scalar-return code path (return_FIM / return_GIM / adj_and_org = False) gives is the one recorded."""
    from dadi import Godambe
    model = func if func is not None else case['model']
    if func is None:
        Godambe.cache.clear()
    boots = case['boots'] if boots is None else boots
    adj = case['adj'] if adj is None else adj
    if case.get('bootform') == 'ndarray':
        boots = [np.array(np.asarray(b.data)) for b in boots]          # plain arrays: Godambe wraps each bootstrap in a Spectrum
    p0, data, pts, eps, mn = list(case['p0']), case['data'], case['pts'], case['eps'], case['multinom']
    nested = {'array': np.array, 'tuple': tuple}.get(case.get('nestform'), list)(case['nested'])
    full = list(case['full'])
    if case.get('fullform') == 'entire':        # "entire list of parameters from complex model"
        full = list(p0)
        for a, v in zip(case['nested'], case['full']):
            full[a] = v
    plain = case.get('plain', False)
    log = bool(case.get('log', False))
    try:
        if op == 'fim':
            u, H = Godambe.FIM_uncert(model, pts, p0, data, log=log, multinom=mn, eps=eps, return_FIM=True)
            if plain:
                u = Godambe.FIM_uncert(model, pts, p0, data, log=log, multinom=mn, eps=eps)
            return {'u': rats(np.asarray(u, dtype=float)), 'H': rats(np.asarray(H, dtype=float))}
        if op == 'godambe':          # the function the five entry points are built on, called directly
            G, H, J, cU = Godambe.get_godambe(model, pts, boots, p0, data, eps, log=log)
            return {'G': rats(np.asarray(G, dtype=float)), 'H': rats(np.asarray(H, dtype=float)), 'J': rats(np.asarray(J, dtype=float)),
                    'cU': rats(np.asarray(cU, dtype=float).ravel())}
        if op == 'gim':
            kw = dict(log=log, multinom=mn, eps=eps, boot_theta_adjusts=list(adj) if adj is not None else None)
            u, G, H = Godambe.GIM_uncert(model, pts, boots, p0, data, return_GIM=True, **kw)
            if plain:
                u = Godambe.GIM_uncert(model, pts, boots, p0, data, **kw)
            return {'u': rats(np.asarray(u, dtype=float)), 'G': rats(np.asarray(G, dtype=float)), 'H': rats(np.asarray(H, dtype=float))}
        if op == 'lrt':
            v = Godambe.LRT_adjust(model, pts, boots, p0, data, nested, multinom=mn, eps=eps,
                                   boot_theta_adjusts=list(adj) if adj is not None else None)
            return {'v': rat(float(v))}
        if op == 'wald':
            a, o = Godambe.Wald_stat(model, pts, boots, p0, data, nested, full, multinom=mn, eps=eps, adj_and_org=True)
            if plain:
                a = Godambe.Wald_stat(model, pts, boots, p0, data, nested, full, multinom=mn, eps=eps)
            return {'adj': rat(float(a)), 'org': rat(float(o))}
        if op == 'score':
            a, o = Godambe.score_stat(model, pts, boots, p0, data, nested, multinom=mn, eps=eps, adj_and_org=True)
            if plain:
                a = Godambe.score_stat(model, pts, boots, p0, data, nested, multinom=mn, eps=eps)
            return {'adj': rat(float(a)), 'org': rat(float(o))}
    except Exception as e:
        return {'raised': type(e).__name__}
    raise KeyError(op)


def flatten(out):
    res = []

    def walk(v):
        if isinstance(v, (list, tuple)):
            for x in v:
                walk(x)
        elif isinstance(v, dict):
            for key in sorted(v):
                walk(v[key])
        else:
            res.append(v)
    walk(out)
    return res


SITE = {'fim': 'Godambe.FIM_uncert', 'gim': 'Godambe.GIM_uncert', 'lrt': 'Godambe.LRT_adjust', 'wald': 'Godambe.Wald_stat',
        'score': 'Godambe.score_stat', 'godambe': 'Godambe.get_godambe'}
STAT_OPS = ('fim', 'gim', 'lrt', 'wald', 'score')


def screen(cases, ops=STAT_OPS):
    """Ask TLC (Trace_Godambe!FScreen) for which statistics the closed-form comparison can decide each case.
    Returns a list of sets of decidable ops.  A case may name the statistics it is needed for (case['screen_ops'])."""
    if not cases:
        return []
    recs = []
    for ci, case in enumerate(cases):
        inp = stats_in(case, 'screen')
        inp['ops'] = list(case.get('screen_ops', ops))
        recs.append({'id': 'screen-%d' % ci, 'op': 'screen', 'in': inp, 'out': {}})
    verdicts, _ = common.validate_trace('Trace_Godambe', recs, parallel=8)
    out = []
    for ci, case in enumerate(cases):
        bad = {c.split('_', 1)[1] for c in verdicts.get('screen-%d' % ci, [])}
        out.append(set(case.get('screen_ops', ops)) - bad)
    return out


# Named elements of the domain that every tier draws on purpose (a few candidates per configuration are generated and
# TLC's screening picks the first one it can decide; a configuration without a decidable candidate is reported).
STATS_CONFIGS = [
    {'name': 'k1-single-bootstrap', 'k': 1, 'multinom': False, 'nb': 1, 'eps': 2.0 ** -7, 'adj': False, 'nested': [0]},
    {'name': 'k1-eps-lower-end', 'k': 1, 'multinom': False, 'nb': 3, 'eps': 1e-4, 'adj': False, 'nested': [0], 'plain': True},
    {'name': 'k1-eps-upper-end', 'k': 1, 'multinom': False, 'nb': 3, 'eps': 1e-1, 'adj': False, 'nested': [0]},
    {'name': 'k1-theta-augmented', 'k': 1, 'multinom': True, 'nb': 4, 'eps': 2.0 ** -8, 'nested': [0], 'fullform': 'entire'},
    {'name': 'k2-theta-adjusts-nested-first', 'k': 2, 'multinom': False, 'nb': 5, 'eps': 2.0 ** -7, 'adj': True, 'nested': [0], 'nestform': 'array'},
    {'name': 'k2-nested-last-entire-list', 'k': 2, 'multinom': False, 'nb': 5, 'eps': 2.0 ** -6, 'adj': False, 'nested': [1],
     'fullform': 'entire', 'plain': True},
    {'name': 'k2-theta-augmented-all-nested', 'k': 2, 'multinom': True, 'nb': 6, 'eps': 2.0 ** -8, 'nested': [0, 1]},
    {'name': 'k2-theta-augmented-entire-list', 'k': 2, 'multinom': True, 'nb': 6, 'eps': 2.0 ** -7, 'nested': [1], 'fullform': 'entire',
     'plain': True},
    {'name': 'k3-array-bootstraps', 'k': 3, 'multinom': False, 'nb': 7, 'eps': 2.0 ** -7, 'adj': False, 'nested': [0, 2],
     'bootform': 'ndarray', 'fixed': False},
    {'name': 'k3-fixed-component-all-nested', 'k': 3, 'multinom': False, 'nb': 8, 'eps': 2.0 ** -8, 'adj': False, 'nested': [0, 1, 2],
     'fixed': True, 'fullform': 'entire'},
]


def stats_cases(ctx, rng):
    ncand = 3 if ctx.quick else 6
    det = [gen_stats_case(rng, cfg=cfg) for cfg in STATS_CONFIGS for _ in range(ncand)]
    rnd = [gen_stats_case(rng) for _ in range(10 if ctx.quick else 200)]
    return det, rnd


def stats_records(ctx, rng, nid, det, rnd, ok):
    recs = []
    ncand = len(det) // len(STATS_CONFIGS)
    chosen = []                       # (case, op, deterministic permutation or None)
    missing = []
    for ci, cfg in enumerate(STATS_CONFIGS):
        for op in STAT_OPS:
            cands = [j for j in range(ci * ncand, (ci + 1) * ncand) if op in ok[j]
                     and not (op in ('wald', 'score') and det[j]['adj'] is not None)]
            if cfg.get('adj') and op in ('wald', 'score'):
                continue              # Wald_stat / score_stat take no theta adjustments
            if not cands:
                missing.append('%s/%s' % (cfg['name'], op))
                continue
            nb = len(det[cands[0]]['boots'])
            perm = None if nb < 2 else (list(range(nb))[::-1] if ci % 2 == 0 or nb < 3 else list(range(1, nb)) + [0])
            chosen.append((det[cands[0]], op, perm, True))
    undecidable = 0
    for ci, case in enumerate(rnd):
        o = ok[len(det) + ci]
        undecidable += len(STAT_OPS) - len(o)
        for op in STAT_OPS:
            if op in o and not (op in ('wald', 'score') and case['adj'] is not None):
                chosen.append((case, op, 'random' if (ci % 2 == 0 or not ctx.quick) else None, False))
    for case, op, perm, _ in chosen:
        out = call_stat(case, op)
        recs.append({'id': '%s-%d' % (op, next(nid)), 'op': op, 'site': SITE[op], 'in': stats_in(case, op), 'out': out})
        if op == 'fim' or perm is None or 'raised' in out:
            continue
        # the same call with the bootstrap list (and its theta adjustments) in another order
        if perm == 'random':
            perm = list(range(len(case['boots'])))
            while perm == sorted(perm):
                rng.shuffle(perm)
        b2 = [case['boots'][j] for j in perm]
        a2 = [case['adj'][j] for j in perm] if case['adj'] is not None else None
        out2 = call_stat(case, op, boots=b2, adj=a2)
        recs.append({'id': '%s-%d' % (op, next(nid)), 'op': op, 'site': SITE[op], 'in': stats_in(case, op, boots=b2, adj=a2), 'out': out2})
        po = {'raised': out2['raised']} if 'raised' in out2 else {'a': flatten(out), 'b': flatten(out2)}
        recs.append({'id': 'perm-%d' % next(nid), 'op': 'perm', 'site': SITE[op], 'in': {'fn': op, 'perm': [j + 1 for j in perm]}, 'out': po})
    return recs, {'stats_cases_generated': len(rnd) * len(STAT_OPS), 'stats_cases_undecidable_dropped': undecidable,
                  'stats_named_configurations': [c['name'] for c in STATS_CONFIGS],
                  'stats_named_configurations_without_decidable_case': missing}


# ---- deterministic blocks added for values on internal thresholds and for masked / folded spectra (every tier; each block has
# its own generator random.Random(ctx.seed + 1900 + k), so the older parts of the trace do not move)
TIE_CONFIGS = [       # parameters exactly on the threshold p*eps == 1e-6 of the step rule, through the statistics built on get_grad
    {'name': 'k1-threshold-parameter', 'k': 1, 'multinom': False, 'nb': 3, 'eps': 3 * 2.0 ** -8, 'adj': False, 'nested': [0], 'tie': [0],
     'ops': ('fim', 'gim', 'lrt', 'score', 'godambe')},
    {'name': 'k2-threshold-parameter-first', 'k': 2, 'multinom': False, 'nb': 5, 'eps': 2.0 ** -7, 'adj': False, 'nested': [0], 'tie': [0],
     'ops': ('lrt', 'wald', 'score')},
    {'name': 'k2-both-on-threshold', 'k': 2, 'multinom': False, 'nb': 6, 'eps': 2.0 ** -7, 'adj': False, 'nested': [1], 'tie': [0, 1],
     'ops': ('gim', 'godambe', 'wald', 'score')},
    {'name': 'k2-both-on-threshold-theta-adjusts', 'k': 2, 'multinom': False, 'nb': 6, 'eps': 2.0 ** -6, 'adj': True, 'nested': [0, 1], 'tie': [0, 1],
     'ops': ('gim', 'lrt')},
]
MASK_CONFIGS = [      # data / bootstraps with entries masked beyond the corners; folded spectra with an unfolded model function
    {'name': 'k1-data-masked', 'k': 1, 'multinom': False, 'nb': 3, 'eps': 2.0 ** -7, 'adj': False, 'nested': [0], 'n': (8, 12), 'dmask': 1,
     'ops': ('fim', 'gim', 'lrt')},
    {'name': 'k1-bootstraps-masked', 'k': 1, 'multinom': False, 'nb': 4, 'eps': 2.0 ** -7, 'adj': False, 'nested': [0], 'n': (8, 12), 'bmask': 2,
     'ops': ('gim', 'lrt', 'score')},
    {'name': 'k2-data-and-bootstraps-masked', 'k': 2, 'multinom': False, 'nb': 5, 'eps': 2.0 ** -7, 'adj': False, 'nested': [1], 'n': (9, 13),
     'dmask': 2, 'bmask': 2, 'ops': ('fim', 'gim', 'lrt', 'godambe')},
    {'name': 'k1-theta-augmented-masked', 'k': 1, 'multinom': True, 'nb': 4, 'eps': 2.0 ** -8, 'nested': [0], 'n': (9, 13), 'dmask': 1, 'bmask': 1,
     'ops': ('fim', 'gim', 'lrt')},
    {'name': 'k1-folded-even', 'k': 1, 'multinom': False, 'nb': 3, 'eps': 2.0 ** -7, 'adj': False, 'nested': [0], 'n': (10, 10), 'folded': True,
     'ops': ('fim', 'gim', 'lrt')},
    {'name': 'k1-folded-theta-augmented', 'k': 1, 'multinom': True, 'nb': 6, 'eps': 2.0 ** -8, 'nested': [0], 'n': (12, 16), 'folded': True,
     'ops': ('fim', 'gim', 'lrt')},
    {'name': 'k2-folded-odd-masked', 'k': 2, 'multinom': False, 'nb': 7, 'eps': 2.0 ** -7, 'adj': True, 'nested': [0], 'n': (13, 13), 'folded': True,
     'dmask': 1, 'bmask': 1, 'ops': ('fim', 'gim', 'lrt')},
]


# ---- listing order of the nested parameters (deterministic block, every tier, generator random.Random(ctx.seed + 1906)):
# LRT_adjust / Wald_stat / score_stat with nested_indices in every listing order (ascending, descending, a rotation) for two and
# three nested parameters, as list / tuple / ndarray, Wald's full_params as the nested values (listed in the SAME order as
# nested_indices) and as the entire parameter list.  Every call is judged against the closed form for its own listing
# (Trace_Godambe!CF takes the sub-matrices in the order listed and pairs full[a] with parameter nested[a]).
# (Never ALL parameters nested here: full_params of the length of p0 is read by Wald_stat as the entire parameter list in the
# order of p0 - the documented second form - so a short form cannot be told from it when every parameter is nested.)
ORDER_CONFIGS = [
    {'name': 'k3-two-nested', 'k': 3, 'multinom': False, 'nb': 7, 'eps': 2.0 ** -7, 'adj': False, 'nested': [0, 2], 'fixed': False,
     'orders': ([0, 2], [2, 0])},
    {'name': 'k4-three-nested', 'k': 4, 'multinom': False, 'nb': 8, 'eps': 2.0 ** -8, 'adj': False, 'nested': [0, 1, 3], 'fixed': True,
     'n': (8, 10), 'orders': ([0, 1, 3], [3, 1, 0], [1, 3, 0])},
    {'name': 'k3-theta-augmented-two-nested', 'k': 3, 'multinom': True, 'nb': 7, 'eps': 2.0 ** -8, 'nested': [1, 2], 'n': (8, 10),
     'orders': ([1, 2], [2, 1])},
]
ORDER_OPS = ('lrt', 'wald', 'score')
NEST_FORMS = ('list', 'tuple', 'array')


def order_cases(rng, ncand):
    """per configuration and candidate: the same case once per listing order (full_params listed consistently)"""
    out = []
    for cfg in ORDER_CONFIGS:
        for _ in range(ncand):
            base = gen_stats_case(rng, cfg=cfg)
            value = dict(zip(base['nested'], base['full']))
            for order in cfg['orders']:
                c = dict(base)
                c.update({'nested': list(order), 'full': [value[a] for a in order], 'screen_ops': list(ORDER_OPS)})
                out.append(c)
    return out


def order_records(nid, cases, ok, ncand, tag='@nested-order'):
    recs, missing = [], []
    pos = 0
    for cfg in ORDER_CONFIGS:
        no = len(cfg['orders'])
        for op in ORDER_OPS:
            # the first candidate TLC's screening can decide in every listing order
            cands = [c for c in range(ncand) if all(op in ok[pos + c * no + oi] for oi in range(no))]
            if not cands:
                missing.append('%s/%s' % (cfg['name'], op))
                continue
            for oi in range(no):
                base = cases[pos + cands[0] * no + oi]
                variants = [('nested', f) for f in NEST_FORMS] + [('entire', NEST_FORMS[oi % 3])] if op == 'wald' else \
                           [('nested', NEST_FORMS[(oi + (1 if op == 'score' else 0)) % 3])]
                for fullform, nestform in variants:
                    case = dict(base)
                    case.update({'fullform': fullform, 'nestform': nestform})
                    recs.append({'id': '%s-%d' % (op, next(nid)), 'op': op, 'site': SITE[op] + tag, 'in': stats_in(case, op), 'out': call_stat(case, op)})
        pos += ncand * no
    return recs, missing


def named_cases(rng, configs, ncand):
    out = []
    for cfg in configs:
        for _ in range(ncand):
            case = gen_stats_case(rng, cfg=cfg)
            case['screen_ops'] = [o for o in cfg['ops']]
            out.append(case)
    return out


def named_records(nid, configs, cases, ok, ncand, tag):
    """for every named configuration and each of its statistics: the first candidate TLC's screening can decide"""
    recs, missing = [], []
    for ci, cfg in enumerate(configs):
        for op in cfg['ops']:
            cands = [j for j in range(ci * ncand, (ci + 1) * ncand) if op in ok[j]]
            if not cands:
                missing.append('%s/%s' % (cfg['name'], op))
                continue
            case = cases[cands[0]]
            recs.append({'id': '%s-%d' % (op, next(nid)), 'op': op, 'site': SITE[op] + tag, 'in': stats_in(case, op), 'out': call_stat(case, op)})
    return recs, missing


# ---- call sequences on one model function object
class SeqModel:
    """ONE function object (params, ns, pts) -> Spectrum, linear in params for every (ns, pts); table[(n, pts)] = LinModel"""

    def __init__(self, table):
        self.table = table

    def __call__(self, params, ns, pts):
        return self.table[(int(ns[0]), tuple(int(v) for v in pts))](params, ns, pts)

    def enc_table(self):
        return [{'ns': n, 'pts': list(g), 'B0': rats(np.asarray(m.B0.data)), 'B': [rats(np.asarray(b.data)) for b in m.B]}
                for (n, g), m in sorted(self.table.items())]


COMPONENTS = ('grid_pts', 'p0', 'ns', 'data', 'multinom', 'log', 'eps')


def seq_setup(rng, k=2):
    """a model object (k parameters) and two values for every argument of a call"""
    n1 = rng.randint(6, 9)
    n2 = n1 + rng.choice([1, 2])
    g1, g2 = rng.choice([([10], [12]), ([10, 12, 14], [12, 14, 16]), ([12], [12, 14])])
    g1, g2 = tuple(g1), tuple(g2)
    table = {(n, g): LinModel(rng, n, k, fixed=True, scale=16) for n in (n1, n2) for g in (g1, g2)}
    ps = [[short(rng, 0.75, 2.5, 8) for _ in range(k)] for _ in range(2)]
    while ps[1] == ps[0]:
        ps[1] = [short(rng, 0.75, 2.5, 8) for _ in range(k)]
    eps = rng.sample([2.0 ** -7, 2.0 ** -6, 3 * 2.0 ** -8], 2)
    data, boots = {}, {}
    for n in (n1, n2):
        mean = sum(np.asarray(table[(n, g)](p, [n], list(g)).data) for g in (g1, g2) for p in ps) / 4.0
        data[n] = [poisson_like(rng, mean), poisson_like(rng, mean)]
        boots[n] = [poisson_like(rng, mean) for _ in range(6)]
    return {'func': SeqModel(table), 'n': (n1, n2), 'g': (g1, g2), 'p': ps, 'eps': eps, 'data': data, 'boots': boots}


def seq_case(su, state):
    """the arguments of one call: state = set of components that take their second value"""
    n = su['n'][1 if 'ns' in state else 0]
    g = su['g'][1 if 'grid_pts' in state else 0]
    return {'model': su['func'].table[(n, g)], 'func': su['func'], 'p0': list(su['p'][1 if 'p0' in state else 0]),
            'multinom': 'multinom' in state, 'log': 'log' in state, 'data': su['data'][n][1 if 'data' in state else 0],
            'boots': su['boots'][n], 'eps': su['eps'][1 if 'eps' in state else 0], 'adj': None, 'nested': [0], 'full': [0.0],
            'pts': list(g), 'n': n}


def seq_words(rng, quick):
    """words = (name, [(fn, state, varied component)]): base / one argument changed / base again for every argument and the
    functions that hand the model object itself to the cache; walks that change one argument per call and accumulate"""
    words = []
    base = frozenset()
    for fn in ('fim', 'gim', 'godambe'):
        for comp in COMPONENTS:
            if fn == 'godambe' and comp == 'multinom':
                continue              # get_godambe has no such argument
            words.append(('%s:%s' % (fn, comp), [(fn, base, ''), (fn, frozenset([comp]), comp), (fn, base, comp)], comp))
    for fn, length in (('fim', 9), ('gim', 5)) if quick else (('fim', 9), ('gim', 7), ('godambe', 7), ('fim', 12), ('gim', 9)):
        comps = [c for c in COMPONENTS if not (fn == 'godambe' and c == 'multinom')]
        order = []
        while len(order) < length:
            c = rng.choice(comps)
            if not order or c != order[-1]:
                order.append(c)
        st, steps = base, [(fn, base, '')]
        for c in order:
            st = st ^ frozenset([c])
            steps.append((fn, st, c))
        words.append(('%s:walk' % fn, steps, 'walk'))
    # the other entry points wrap the model in a function object of their own: mixed in, they must not disturb anything
    words.append(('mixed', [('fim', base, ''), ('lrt', frozenset(['grid_pts']), 'grid_pts'), ('gim', frozenset(['grid_pts']), ''),
                            ('lrt', base, 'grid_pts'), ('fim', frozenset(['grid_pts']), ''), ('godambe', base, 'grid_pts')], 'mixed'))
    return words


def seq_screen_cases(su, words):
    need = {}
    for _, steps, _ in words:
        for fn, st, _ in steps:
            if 'log' not in st:
                need.setdefault(st, set()).add(fn)
    out = []
    for st in sorted(need, key=sorted):
        case = seq_case(su, st)
        case['screen_ops'] = sorted(need[st])
        case['state'] = st
        out.append(case)
    return out


def run_word(func, cases, fns, fresh_memo=None, memo_keys=None):
    """Execute the calls one after the other on the real module-level cache (cleared before the first call only) and,
    for reference, each of them alone on an empty cache."""
    from dadi import Godambe
    fresh = []
    for j, (case, fn) in enumerate(zip(cases, fns)):
        key = memo_keys[j] if memo_keys else None
        if fresh_memo is not None and key in fresh_memo:
            fresh.append(fresh_memo[key])
            continue
        Godambe.cache.clear()
        r = call_stat(case, fn, func=func)
        if fresh_memo is not None:
            fresh_memo[key] = r
        fresh.append(r)
    Godambe.cache.clear()
    gc.collect()
    res = [call_stat(case, fn, func=func) for case, fn in zip(cases, fns)]
    Godambe.cache.clear()
    if any('raised' in r for r in res + fresh):
        return {'raised': [r.get('raised', '') for r in res + fresh]}
    return {'res': res, 'fresh': fresh, 'flat': [flatten(r) for r in res], 'freshflat': [flatten(r) for r in fresh]}


def seq_step_in(case, fn, varied):
    return {'fn': fn, 'x': stats_in(case, fn), 'log': bool(case.get('log')), 'ns': int(case['n']), 'pts': [int(v) for v in case['pts']],
            # FIM_uncert / GIM_uncert without the theta augmentation and get_godambe itself hand the caller's function object to the cache
            'persistent': fn == 'godambe' or (fn in ('fim', 'gim') and not case['multinom']), 'multinom': bool(case['multinom']), 'varied': varied}


def seq_records(nid, sus, words, okmaps):
    recs, dropped = [], []
    memos = [{} for _ in sus]
    for name, steps, tag in words:
        fit = [j for j in range(len(sus)) if all('log' in st or fn in okmaps[j].get(st, ()) for fn, st, _ in steps)]
        if not fit:
            dropped.append(name)
            continue
        su = sus[fit[0]]
        cases = [seq_case(su, st) for _, st, _ in steps]
        fns = [fn for fn, _, _ in steps]
        out = run_word(su['func'], cases, fns, memos[fit[0]], [(fn, st) for fn, st, _ in steps])
        inp = {'word': name, 'table': su['func'].enc_table(), 'steps': [seq_step_in(c, fn, v) for c, (fn, _, v) in zip(cases, steps)]}
        recs.append({'id': 'callseq-%d' % next(nid), 'op': 'callseq', 'site': 'Godambe.cache@vary-' + tag, 'in': inp, 'out': out})
    return recs, dropped


# ------------------------------------------------------------------ 3. chi-square mixture
def chi2_cdf(x, dof):
    """Regularised lower incomplete gamma P(dof/2, x/2) by its power series (stdlib only)."""
    if x <= 0:
        return 0.0
    a, z = dof / 2.0, x / 2.0
    term = 1.0 / a
    s = term
    nn = 0
    while abs(term) > 1e-18 * abs(s) and nn < 5000:
        nn += 1
        term *= z / (a + nn)
        s += term
    return min(1.0, s * math.exp(-z + a * math.log(z) - math.lgamma(a)))


def chi2_observe(x, w):
    from dadi import Godambe
    try:
        res = Godambe.sum_chi2_ppf(x, weights=w)
        if np.isscalar(res) or getattr(res, 'ndim', 1) == 0:
            return {'kind': 'scalar', 'v': [rat(float(res))]}
        return {'kind': 'array', 'v': rats(np.asarray(res, dtype=float).ravel())}
    except Exception as e:
        return {'raised': type(e).__name__}


def chi2_records(ctx, rng, nid):
    from dadi import Godambe
    recs = []
    weights = [(0, 1), (0.5, 0.5), (0.25, 0.5, 0.25), (0, 0, 1), (0.1, 0.2, 0.3, 0.4), (1.0, 0.0)]
    inputs = []
    for w in weights:
        inputs.append((w, 'pyfloat', rng.choice([0.5, 2.71, 3.84, 10.0])))
        inputs.append((w, 'npfloat', np.float64(rng.uniform(0.01, 12))))
        inputs.append((w, 'pyint', 0))
        inputs.append((w, 'list', [2.0, 3.0, 4.0]))
        inputs.append((w, 'ndarray', np.array([rng.uniform(0, 15) for _ in range(rng.randint(1, 6))])))
        inputs.append((w, 'ndarray0', np.array([0.0, 0.0, rng.uniform(0, 5)])))
    # remaining ways to pass x and the weights (every tier): tuple, 2-D array, integer array, negative values; weights as list / array
    w3 = (0.25, 0.5, 0.25)
    inputs += [(w3, 'tuple', (1.0, 5.0)), (w3, 'ndarray2d', np.array([[0.5, 1.5], [2.5, 9.0]])), (w3, 'intarray', np.array([0, 1, 4])),
               (w3, 'negative', np.array([-1.0, 0.0, 2.0])), (w3, 'npint', np.int64(3)),
               (list(w3), 'pyfloat', 3.84), (np.array(w3), 'ndarray', np.array([0.0, 3.84])), (np.array([0.5, 0.5]), 'pyfloat', 2.71)]
    if not ctx.quick:
        for _ in range(200):
            w = rng.choice(weights)
            if rng.random() < 0.5:
                inputs.append((w, 'pyfloat', rng.uniform(0, 30)))
            else:
                inputs.append((w, 'ndarray', np.array([rng.uniform(0, 30) for _ in range(rng.randint(1, 8))])))
    for w, kind, x in inputs:
        scalar = kind in ('pyfloat', 'npfloat', 'pyint', 'npint')
        xs = [float(x)] if scalar else [float(v) for v in np.asarray(x).ravel()]
        wform = 'array' if isinstance(w, np.ndarray) else type(w).__name__
        tab = {'cdf': [[rat(chi2_cdf(v, d)) for d in range(1, len(w))] for v in xs]}
        out = chi2_observe(x, w)
        recs.append({'id': 'chi2-%d' % next(nid), 'op': 'chi2', 'site': 'Godambe.sum_chi2_ppf',
                     'in': {'x': rats(xs), 'scalar': scalar, 'w': rats([float(v) for v in w]), 'input': kind, 'wform': wform}, 'tab': tab, 'out': out})
    return recs


# ------------------------------------------------------------------ 4. histories over the shared cache
def history_candidates(ctx, rng):
    """per setup: candidate pairs of two-parameter models of different curvature with the same parameters / sample sizes / grid"""
    setups = []
    for s in range(1 if ctx.quick else 5):
        cand = []
        for _ in range(6):
            n = rng.randint(6, 9)
            A, Bm = LinModel(rng, n, 2, scale=16), LinModel(rng, n, 2, scale=16)
            p0 = [short(rng, 0.75, 2.5, 8), short(rng, 0.75, 2.5, 8)]
            mean = 0.5 * (np.asarray(A(p0, [n], [10]).data) + np.asarray(Bm(p0, [n], [10]).data))
            data = poisson_like(rng, mean)
            boots = [poisson_like(rng, mean) for _ in range(5)]
            eps = rng.choice([2.0 ** -7, 2.0 ** -6, 3 * 2.0 ** -8])
            nested = [rng.randrange(2)]
            base = {'p0': p0, 'multinom': False, 'data': data, 'boots': boots, 'eps': eps, 'adj': None, 'nested': nested,
                    'full': [p0[nested[0]] + 0.375], 'pts': [10]}
            cand.append((dict(base, model=A), dict(base, model=Bm)))
        setups.append(cand)
    return setups


def history_records(ctx, rng, nid, setups, oks):
    """Behaviour replay: every word over the call alphabet {A,B} x {fim,lrt} x {named, transient} up to a length bound
    (all actions of the cache machine of spec/GodambeMC.tla are always enabled, so these are its behaviours), plus
    longer random words and words with the other functions that use the cache; driven on the real module-level cache, which is
    cleared only at the start of a history.  Of the candidate setups (screened by TLC) the first is taken for which all five
    statistics of both models can be decided."""
    from dadi import Godambe
    recs = []
    alphabet = [(who, fn, tr) for who in 'AB' for fn in ('fim', 'lrt') for tr in (False, True)]
    for cand, ok in zip(setups, oks):
        both = [ok[2 * j] & ok[2 * j + 1] for j in range(len(cand))]
        usable = [j for j in range(len(cand)) if {'fim', 'lrt'} <= both[j]]
        if not usable:
            raise common.MachineryError('C19 histories: no candidate model pair is decidable for FIM and LRT')
        j = max(usable, key=lambda q: len(both[q]))
        cA, cB = cand[j]
        okfn = [fn for fn in ('gim', 'wald', 'score') if fn in both[j]]
        hist = History(cA, cB)
        words = [w for L in (1, 2) for w in itertools.product(alphabet, repeat=L)]
        if not ctx.quick:
            words += list(itertools.product(alphabet, repeat=3))
        for _ in range(8 if ctx.quick else 60):
            words.append(tuple(rng.choice(alphabet) for _ in range(rng.randint(3, 6))))
        # the other functions that go through the cache (GIM, Wald, score), also mixed with FIM: same stencil points, same keys
        for fn in okfn:
            words += [(('A', fn, False), ('B', fn, False)), (('A', fn, True), ('B', fn, True)),
                      (('A', 'fim', True), ('B', fn, True)), (('B', fn, True), ('A', 'fim', False), ('B', 'lrt', True))]
        if not ctx.quick:
            big = alphabet + [(who, fn, tr) for who in 'AB' for fn in okfn for tr in (False, True)]
            for _ in range(60):
                words.append(tuple(rng.choice(big) for _ in range(rng.randint(2, 5))))
        for word in words:
            recs.append(hist.record('history-%d' % next(nid), word))
        Godambe.cache.clear()
    return recs


class History:
    """Two models with equal (params, ns, pts); replays call words on the real module-level cache."""

    def __init__(self, cA, cB):
        from dadi import Godambe
        self.case = {'A': cA, 'B': cB}
        A, Bm = cA['model'], cB['model']
        self.A, self.Bm = A, Bm

        def modelA(params, ns, pts):
            return A(params, ns, pts)

        def modelB(params, ns, pts):
            return Bm(params, ns, pts)
        self.named = {'A': modelA, 'B': modelB}
        self._fresh = {}

    def fresh(self, who, fn):
        from dadi import Godambe
        if (who, fn) not in self._fresh:
            Godambe.cache.clear()
            self._fresh[(who, fn)] = call_stat(self.case[who], fn, func=self.named[who])
        return self._fresh[(who, fn)]

    def record(self, rid, word):
        from dadi import Godambe
        A, Bm, case = self.A, self.Bm, self.case
        fr = [self.fresh(who, fn) for who, fn, tr in word]
        Godambe.cache.clear()
        gc.collect()
        res = []
        for who, fn, tr in word:
            if tr:
                # a short-lived function object: it dies when the call returns
                if who == 'A':
                    res.append(call_stat(case[who], fn, func=lambda params, ns, pts: A(params, ns, pts)))
                else:
                    res.append(call_stat(case[who], fn, func=lambda params, ns, pts: Bm(params, ns, pts)))
            else:
                res.append(call_stat(case[who], fn, func=self.named[who]))
        inA = stats_in(case['A'], 'lrt')
        inp = {'models': {'A': inA['md'], 'B': stats_in(case['B'], 'lrt')['md']}, 'd': inA['d'], 'eps': inA['eps'], 'boots': inA['boots'],
               'adj': inA['adj'], 'nested': inA['nested'], 'full': inA['full'],
               'steps': [{'who': who, 'fn': fn, 'transient': tr} for who, fn, tr in word]}
        if any('raised' in r for r in res + fr):
            out = {'raised': [r.get('raised', '') for r in res + fr]}
        else:
            out = {'res': res, 'fresh': fr, 'flat': [flatten(r) for r in res], 'freshflat': [flatten(r) for r in fr]}
        return {'id': rid, 'op': 'history', 'site': 'Godambe.cache', 'in': inp, 'out': out}


# ------------------------------------------------------------------ replay: re-execute a recorded case on the current tree
def _f(x):
    return float(Fraction(x))


def case_from(inp, md=None):
    import dadi
    md = md or inp['md']
    mdl = LinModel.__new__(LinModel)
    mdl.k = len(md['B'])
    mdl.n = len(md['B0']) - 1
    mdl.B = [dadi.Spectrum(np.array([_f(x) for x in row])) for row in md['B']]
    mdl.B0 = dadi.Spectrum(np.array([_f(x) for x in md['B0']]))
    adj = [_f(a) for a in inp.get('adj', [])]
    forms = inp.get('forms', ['nested', 'spectrum', 'list', 'full', ''])
    dressed = 'dmask' in inp
    folded = True if inp.get('folded') else None

    def spectrum(vals, mask=None):
        if not dressed:
            return dadi.Spectrum(np.array([_f(x) for x in vals]))
        return dadi.Spectrum(np.array([_f(x) for x in vals]), mask=np.array(mask, dtype=bool), data_folded=folded)
    bm = inp.get('bmasks', [])
    return {'model': mdl, 'p0': [_f(x) for x in md['p']], 'multinom': md['multinom'], 'data': spectrum(inp['d'], inp.get('dmask')),
            'boots': [spectrum(b, bm[j] if dressed else None) for j, b in enumerate(inp.get('boots', []))], 'eps': _f(inp['eps']),
            'adj': adj if any(a != 1.0 for a in adj) else None, 'nested': [a - 1 for a in inp['nested']],
            'full': [_f(x) for x in inp.get('full', [])], 'pts': [10],
            'fullform': forms[0], 'bootform': forms[1], 'nestform': forms[2], 'plain': forms[3] == 'plain', 'cfg': forms[4],
            'dressed': dressed, 'folded': bool(inp.get('folded'))}


def reexecute(rec):
    from dadi import Godambe
    op, inp = rec['op'], rec['in']
    new = dict(rec)
    if op in ('hess', 'grad'):
        # the recorded constant is c + extra when the record passed a constant through args=
        pair = stencil_pair(itertools.count(), [[_f(v) for v in row] for row in inp['Q']], [_f(v) for v in inp['b']],
                            _f(inp['c']) - (1.75 if inp.get('args') else 0.0), [_f(v) for v in inp['p']], _f(inp['eps']),
                            pform=inp.get('pform', 'list'), extra=1.75 if inp.get('args') else None)
        new['out'] = pair[0 if op == 'hess' else 1]['out']
        return new
    if op in SITE:
        new['out'] = call_stat(case_from(inp), op)
        return new
    if op == 'chi2':
        xs = [_f(v) for v in inp['x']]
        kind = inp['input']
        x = {'pyfloat': lambda: float(xs[0]), 'npfloat': lambda: np.float64(xs[0]), 'pyint': lambda: int(xs[0]), 'npint': lambda: np.int64(xs[0]),
             'list': lambda: list(xs), 'ndarray': lambda: np.array(xs), 'ndarray0': lambda: np.array(xs), 'tuple': lambda: tuple(xs),
             'ndarray2d': lambda: np.array(xs).reshape(2, -1), 'intarray': lambda: np.array([int(v) for v in xs]),
             'negative': lambda: np.array(xs)}[kind]()
        w = tuple(_f(v) for v in inp['w'])
        w = {'tuple': w, 'list': list(w), 'array': np.array(w)}[inp.get('wform', 'tuple')]
        new['out'] = chi2_observe(x, w)
        return new
    if op == 'callseq':
        import dadi
        table = {}
        for t in inp['table']:
            m = LinModel.__new__(LinModel)
            m.k, m.n = len(t['B']), len(t['B0']) - 1
            m.B = [dadi.Spectrum(np.array([_f(x) for x in row])) for row in t['B']]
            m.B0 = dadi.Spectrum(np.array([_f(x) for x in t['B0']]))
            table[(t['ns'], tuple(t['pts']))] = m
        func = SeqModel(table)
        cases = []
        for stp in inp['steps']:
            c = case_from(stp['x'])
            c.update({'model': table[(stp['ns'], tuple(stp['pts']))], 'func': func, 'pts': list(stp['pts']), 'log': stp['log'], 'n': stp['ns'],
                      'multinom': stp['multinom']})
            cases.append(c)
        new['out'] = run_word(func, cases, [stp['fn'] for stp in inp['steps']])
        return new
    if op == 'history':
        base = dict(inp)
        cA, cB = case_from(base, inp['models']['A']), case_from(base, inp['models']['B'])
        word = [(s['who'], s['fn'], s['transient']) for s in inp['steps']]
        return History(cA, cB).record(rec['id'], word)
    return rec          # relational records (perm) are re-validated as recorded


# ------------------------------------------------------------------ binding demonstration
def mutate(rec):
    op, out = rec['op'], rec['out']
    if 'raised' in out:
        return None
    if op in ('hess', 'grad'):
        i = rec['in']
        p = [float(Fraction(x)) for x in i['p']]
        eps = float(Fraction(i['eps']))
        h = [eps if (x * eps < 1e-6 or x == 0) else eps * x for x in p]
        z = np.array([abs(x) + 2 * hh for x, hh in zip(p, h)])
        Q = np.array([[abs(float(Fraction(v))) for v in row] for row in i['Q']])
        b = np.array([abs(float(Fraction(v))) for v in i['b']])
        mag = 0.5 * z @ Q @ z + b @ z + abs(float(Fraction(i['c'])))
        if op == 'hess':
            H = out['H']
            tol = TAU_FD * mag / (h[0] * h[0])
            H[0][0] = rat(Fraction(H[0][0]) + Fraction(10 * tol + 1e-3 * (1 + abs(float(Fraction(H[0][0]))))))
        else:
            g = out['g']
            tol = TAU_FD * mag / h[0]
            g[0] = rat(Fraction(g[0]) + Fraction(10 * tol + 1e-3 * (1 + abs(float(Fraction(g[0]))))))
        return rec
    if op in ('fim', 'gim'):
        out['u'][0] = rat(Fraction(out['u'][0]) * 3)
        return rec
    if op == 'godambe':
        out['G'][0][0] = rat(Fraction(out['G'][0][0]) * 3)
        return rec
    if op == 'callseq':
        r0 = out['res'][0]
        r0['H'][0][0] = rat(Fraction(r0['H'][0][0]) * 3)
        out['flat'][0] = flatten(r0)
        return rec
    if op == 'lrt':
        out['v'] = rat(Fraction(out['v']) * 3)
        return rec
    if op in ('wald', 'score'):
        out['adj'] = rat(Fraction(out['adj']) * 10 + 1)
        return rec
    if op == 'perm':
        k = max(range(len(out['a'])), key=lambda j: abs(Fraction(out['a'][j])))
        out['b'][k] = rat(Fraction(out['b'][k]) * Fraction(1001, 1000))
        return rec
    if op == 'chi2':
        out['v'][0] = rat(Fraction(out['v'][0]) + Fraction(1, 100))
        return rec
    if op == 'history':
        r0 = out['res'][0]
        if 'H' in r0:
            r0['H'][0][0] = rat(Fraction(r0['H'][0][0]) * 3)
        elif 'v' in r0:
            r0['v'] = rat(Fraction(r0['v']) * 3)
        else:
            r0['adj'] = rat(Fraction(r0['adj']) * 10 + 1)
        out['flat'][0] = flatten(r0)
        return rec
    return None


def nontrivial(r):
    i, op = r['in'], r['op']
    if op in ('hess', 'grad'):
        p = [Fraction(x) for x in i['p']]
        eps = Fraction(i['eps'])
        tie = Fraction(1, 10 ** 6)
        kinds = tuple(sorted({'zero' if x == 0 else 'neg' if x < 0 else 'threshold' if abs(x * eps - tie) <= tie / 10 ** 15 else
                              'onesided' if x * eps < tie else 'central' for x in p}))
        lin = all(Fraction(v) == 0 for row in i['Q'] for v in row)
        return (op, len(p), kinds, lin, int(math.floor(math.log10(float(eps)))), i.get('pform'), i.get('args'))
    if op in SITE:
        md = i['md']
        return (op, len(md['p']), md['multinom'], len(i['boots']), tuple(i['nested']) if op in ('lrt', 'wald', 'score') else (),
                any(a != '1' for a in i['adj']), int(math.floor(math.log10(float(Fraction(i['eps']))))), tuple(i.get('forms', ())),
                i.get('folded', False), sum(i.get('dmask', [])), tuple(sum(b) for b in i.get('bmasks', [])))
    if op == 'callseq':
        return (op, i['word'], tuple((st['fn'], st['varied']) for st in i['steps']))
    if op == 'perm':
        return (op, i['fn'], tuple(i['perm']))
    if op == 'chi2':
        return (op, i['input'], tuple(i['w']), len(i['x']), i.get('wform'))
    if op == 'history':
        return (op, tuple((s['who'], s['fn'], s['transient']) for s in i['steps']))
    return None


def key_of(rec, clause):
    return '%s/%s' % (rec.get('site', rec['op']), clause)


def what_of(rec, clause):
    if rec['op'] == 'history':
        steps = ' '.join('%s:%s%s' % (s['who'], s['fn'], '~' if s['transient'] else '') for s in rec['in']['steps'])
        return 'call history [%s] on the shared Godambe.cache (~ = transient lambda): clause %s violated (record %s)' % (steps, clause, rec['id'])
    if rec['op'] == 'callseq':
        steps = ' -> '.join('%s%s' % (st['fn'], ('[' + st['varied'] + ' changed]') if st['varied'] else '') for st in rec['in']['steps'])
        return 'calls on one model function object sharing Godambe.cache (%s): clause %s violated (record %s)' % (steps, clause, rec['id'])
    if rec['op'] == 'chi2':
        return 'sum_chi2_ppf(%s input, weights %s): clause %s violated, observed %s (record %s)' % (
            rec['in']['input'], [float(Fraction(w)) for w in rec['in']['w']], clause, rec['out'].get('raised', rec['out'].get('kind')), rec['id'])
    txt = 'record %s (%s): clause %s violated' % (rec['id'], rec.get('site', rec['op']), clause)
    if rec['op'] in ('lrt', 'wald', 'score') and 'forms' in rec['in']:
        f = rec['in']['forms']
        txt += '; nested_indices=%s (0-based, as %s)%s' % ([a - 1 for a in rec['in']['nested']], f[2],
                                                          (', full_params = %s' % ('the nested values in the same order' if f[0] == 'nested' else 'entire parameter list'))
                                                          if rec['op'] == 'wald' else '')
    return txt


def records(ctx):
    logging.getLogger('Inference').setLevel(logging.CRITICAL)
    logging.getLogger('Spectrum_mod').setLevel(logging.CRITICAL)
    nid = itertools.count()
    recs = stencil_records(ctx, random.Random(ctx.seed + 191), nid)
    rs, rh = random.Random(ctx.seed + 192), random.Random(ctx.seed + 194)
    det, rnd = stats_cases(ctx, rs)
    setups = history_candidates(ctx, rh)
    flat = [c for cand in setups for pair in cand for c in pair]
    # deterministic blocks with their own generators: thresholds of the step rule (1), call sequences on one function object (2),
    # masked / folded spectra (3)
    r1, r2, r3 = (random.Random(ctx.seed + 1900 + k) for k in (1, 2, 3))
    thr = threshold_records(ctx, r1, nid)
    ncand = 4 if ctx.quick else 8
    tie_cases = named_cases(r1, TIE_CONFIGS, ncand)
    mask_cases = named_cases(r3, MASK_CONFIGS, ncand)
    words = seq_words(r2, ctx.quick)
    # (with the theta augmentation the first-order bounds rarely decide GIM for two parameters: one-parameter setups follow)
    seq_sus = [seq_setup(r2, k) for k in ((2, 1, 1) if ctx.quick else (2, 1, 2, 1, 1))]
    seq_sc = [seq_screen_cases(su, words) for su in seq_sus]
    ocand = 3 if ctx.quick else 6
    ord_cases = order_cases(random.Random(ctx.seed + 1906), ocand)
    groups = [det + rnd, flat, tie_cases, mask_cases] + seq_sc + [ord_cases]
    ok = screen([c for g in groups for c in g])        # one TLC pass decides which closed-form comparisons are decidable
    oks, pos = [], 0
    for g in groups:
        oks.append(ok[pos:pos + len(g)])
        pos += len(g)
    st, extra = stats_records(ctx, rs, nid, det, rnd, oks[0])
    recs += st
    recs += chi2_records(ctx, random.Random(ctx.seed + 193), nid)
    hoks, pos = [], 0
    for cand in setups:
        hoks.append(oks[1][pos:pos + 2 * len(cand)])
        pos += 2 * len(cand)
    recs += history_records(ctx, rh, nid, setups, hoks)
    recs += thr
    t_recs, t_missing = named_records(nid, TIE_CONFIGS, tie_cases, oks[2], ncand, '@threshold')
    m_recs, m_missing = named_records(nid, MASK_CONFIGS, mask_cases, oks[3], ncand, '@masked')
    recs += t_recs + m_recs
    # call sequences: every word on the first candidate setup for which TLC can decide all of its steps
    okmaps = [{c['state']: o for c, o in zip(seq_sc[j], oks[4 + j])} for j in range(len(seq_sus))]
    s_recs, s_dropped = seq_records(nid, seq_sus, words, okmaps)
    if 2 * len(s_dropped) > len(words):
        raise common.MachineryError('C19 call sequences: no candidate setup is decidable for more than half of the words')
    recs += s_recs
    o_recs, o_missing = order_records(nid, ord_cases, oks[4 + len(seq_sus)], ocand)
    recs += o_recs
    extra.update({'nested_order_configurations': [c['name'] for c in ORDER_CONFIGS],
                  'nested_order_configurations_without_decidable_case': o_missing})
    extra.update({'threshold_and_masked_configurations': [c['name'] for c in TIE_CONFIGS + MASK_CONFIGS],
                  'threshold_and_masked_configurations_without_decidable_case': t_missing + m_missing,
                  'call_sequence_words': [w[0] for w in words], 'call_sequence_words_dropped_undecidable': s_dropped})
    return recs, extra


def run(ctx):
    extra = {}
    extra_viol = []
    if ctx.replay:
        logging.getLogger('Inference').setLevel(logging.CRITICAL)
        recs = [reexecute(ctx.replay_payload['payload']['record'])]
        ctx.no_mc = True
    else:
        recs, extra = records(ctx)
        if not getattr(ctx, 'no_mc', False):
            # the cache machine with a key that does not keep the function object alive must be rejected by TLC
            # (demonstrates that the coherence law of the specification is not vacuous)
            # ... and so must a key that leaves out a component of the point (grid points / sample sizes / parameters)
            from concurrent.futures import ThreadPoolExecutor
            names = ('hashkey', 'dropgrid', 'dropns', 'dropparams')
            with ThreadPoolExecutor(4) as ex:
                res = list(ex.map(lambda nm: common.tlc('GodambeMC', 'GodambeMC_cache_%s.cfg' % nm, workers=2), names))
            for name, r in zip(names, res):
                if r.ok or 'L_CacheCoherent' not in (r.violation or ''):
                    raise common.MachineryError('GodambeMC_cache_%s.cfg: the defective cache model was not rejected (%s)' % (name, r.violation))
            extra['negative_model'] = 'GodambeMC_cache_hashkey.cfg (key = number derived from the address): TLC finds the incoherent history in %d states' % res[0].states
            for name, r in zip(names[1:], res[1:]):
                extra['negative_model_' + name] = 'GodambeMC_cache_%s.cfg (key without that component of <<params, ns, grid_pts>>): TLC finds the incoherent history in %d states' % (name, r.states)
    mcs = [('GodambeMC', 'GodambeMC_%s_%s.cfg' % (m, ctx.tier)) for m in ('stencil', 'stats', 'cache')]
    return common.pipeline(
        ctx, mcs, 'Trace_Godambe', recs, key_of=key_of, what_of=what_of, nontrivial_of=nontrivial, mutator=mutate, extra_cov=extra,
        rule='every tier draws on purpose: get_hess/get_grad for 1-5 parameters x quadratic/linear, every parameter class (0, tiny, either '
             'side of 1e-6/eps, negative, ordinary, large) with one parameter at both end points eps = 1e-4 and 1e-1, all-zero / all-tiny / '
             'all-negative vectors, parameter vector as list / tuple / float array / int list / int array, a constant passed through args=; '
             'ten named linear-Poisson configurations (single bootstrap, eps end points, theta augmentation, theta adjustments, nested first / '
             'last / all, Wald full_params as nested values or entire list, bootstraps as plain arrays, nested indices as array, scalar-return '
             'code paths), each with a reversed or rotated bootstrap list; sum_chi2_ppf for float / numpy float / int / numpy int / list / tuple / '
             '1-D / 2-D / integer / negative arrays and weights as tuple / list / array; every call word of length <= 2 (3 thorough) over '
             '{A,B}x{FIM,LRT}x{named,transient} and fixed words with GIM / Wald / score; parameters exactly on and one unit in the last '
             'place either side of the thresholds of the stencil choice (p*eps == 1e-6 for eight step sizes, p == 0: smallest subnormal / '
             'normal doubles of both signs, -0.0), alone and inside longer vectors, in get_hess / get_grad and - with the model rescaled so '
             'that one or both parameters sit on the threshold - through FIM / GIM / LRT / Wald / score / get_godambe; data and bootstraps '
             'with interior entries masked (numbers left under the masks; a mask of its own per bootstrap) and folded spectra with an '
             'unfolded model function, multinom False and True; call sequences on ONE model function object (base / one argument changed / '
             'base, for each of grid_pts, p0, ns, data, multinom, log, eps and each of FIM_uncert, GIM_uncert, get_godambe; walks changing '
             'one argument per call; a word mixed with LRT_adjust), every call judged against the closed form of its own arguments and '
             'against the same call on an empty cache; LRT_adjust / Wald_stat / score_stat with nested_indices in every listing order '
             '(ascending, descending, rotated) for two and three nested parameters, as list / tuple / ndarray, Wald full_params as nested '
             'values in the same order and as entire list (sites "...@nested-order").  Plus random cases of each kind (more in thorough); distinct by the tuples of nontrivial()',
        assumptions=['stencil records: |observed - stencil(exact f)| <= 1e-13 * |f|_terms / (h_i h_j)  (float evaluation of f at the stencil points)',
                     'closed-form records: parameters positive and central differences (p*eps >= 1e-6); truncation bound '
                     '2 eps^2/(1-eps)^4 * (positive part of the information), eps^2/(3(1-eps)^3) * (positive part of the score), plus '
                     'round-off 1e-13 * sum|ll terms| / (h_a h_b), propagated to first order (factor 2) through products and inverses; '
                     'cases whose perturbation is too large for the first-order bounds (rho > 1/4) are screened out by TLC before the run',
                     'log=True (derivatives in log parameters) has no closed form here: such calls occur only inside call sequences and are '
                     'judged by history independence (same result as the same call on an empty cache) alone',
                     'a parameter whose exact product p*eps lies within 1e-15 (relative) of 1e-6 is on the threshold of the step rule as far as '
                     'double precision can tell: get_hess / get_grad may use either stencil there (one choice per parameter, points and divisor '
                     'of the same stencil); the closed-form records demand the O(eps^2) agreement of the statement there as everywhere',
                     'nested_indices is documented as a list of positions; given as a TUPLE numpy reads it as a multi-dimensional index and '
                     'dadi refuses (IndexError): a refusal is accepted for tuples, a returned value must be the closed form',
                     'folded spectra: one population, minor-allele folding (entry i and n-i summed into the lower one)',
                     'chi-square cdf table from a stdlib power series of the incomplete gamma function, tolerance 1e-10',
                     'bootstrap order: outputs of the two orders agree to 1e-8 of the largest output (summation round-off only)'])
