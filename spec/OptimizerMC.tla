----------------------------- MODULE OptimizerMC -----------------------------
(***************************************************************************)
(* Exhaustive exploration of the optimiser protocol (C12).                 *)
(*                                                                         *)
(* The design that is checked: a wrapper that projects start point and     *)
(* bounds down to the free parameters, maps them into the inner            *)
(* optimiser's coordinates (the parameters themselves, or their            *)
(* logarithms), lets an ARBITRARY inner optimiser evaluate points of its   *)
(* box (the first one being the start point if it is a local optimiser),   *)
(* maps every point back, substitutes the fixed values, and returns a      *)
(* point the inner optimiser evaluated together with that point's          *)
(* likelihood.  TLC shows that every behaviour of this design satisfies    *)
(* the requirements of module Optimizer, for every mask of fixed           *)
(* parameters over <= MaxN parameters and every combination of present /   *)
(* absent bounds.  Constant Bug selects a defective wrapper; each one must *)
(* violate the requirement it is aimed at (cfgs OptimizerMC_bug_*.cfg).    *)
(*                                                                         *)
(* Inner coordinates are the integers 0..3.  The parameter value of inner  *)
(* coordinate z is z - 1 in the natural parameterisation (so bounds and    *)
(* values of either sign occur) and 2^(z-1) in the "log" parameterisation  *)
(* (base 2 stands for e: TLC has no transcendental functions).             *)
(***************************************************************************)
EXTENDS Optimizer, TLC
CONSTANTS MaxN,       \* parameters per model: 1..MaxN
          MaxEvals,   \* model evaluations per call
          FullBoxN,   \* up to this many parameters the inner optimiser may jump to ANY point of its box;
                      \* above, it moves one coordinate of an already evaluated point at a time
          Bug         \* "none" | "ret_start" | "wrong_start" | "eval_oob" | "fixed_lost" | "ret_worst"

Z == 0..3
Ext(z, lg) == IF lg THEN RPow("2", z - 1) ELSE RInt(z - 1)
IntOf(v, lg) == CHOOSE z \in Z : Ext(z, lg) = v
\* abstract log-likelihood: strictly concave, maximum at an interior non-lattice point
LL(p) == RNeg(RSum([i \in 1..Len(p) |-> RMul(RInt(i), RSq(RSub(p[i], "5/4")))]))

\* one slot per parameter: U unbounded, L lower bound only, H upper bound only, B both, X fixed (and bounded)
Slots == {"U", "L", "H", "B", "X"}
LoZ == 1
HiZ == 2
SlotLb(s, lg) == IF s \in {"L", "B", "X"} THEN Ext(LoZ, lg) ELSE None
SlotUb(s, lg) == IF s \in {"H", "B", "X"} THEN Ext(HiZ, lg) ELSE None
SlotFixed(s, lg) == IF s = "X" THEN Ext(HiZ, lg) ELSE None
\* start coordinates: the extreme in-bounds lattice values (a fixed slot's entry of p0 is ignored by
\* the wrapper; it deliberately differs from the fixed value)
SlotStarts(s) == CASE s = "U" -> {0, 3} [] s = "L" -> {1, 3} [] s = "H" -> {0, 2} [] s = "B" -> {1, 2} [] s = "X" -> {1}

\* The obligations of a kind depend only on IsLocal / IsPrimary / ReturnsBest / AlwaysLog / NeverLog: one
\* representative per class (optimize: the natural-parameter scipy wrappers, optimize_log: the log ones)
MCKinds == {"opt", "optimize", "optimize_log", "optimize_grid"}
ASSUME \A k \in Kinds : \E r \in MCKinds : /\ IsLocal(k) = IsLocal(r) /\ IsPrimary(k) = IsPrimary(r) /\ ReturnsBest(k) = ReturnsBest(r)
                                            /\ AlwaysLog(k) = AlwaysLog(r) /\ NeverLog(k) = NeverLog(r)
KindLog == {<<k, lg>> \in MCKinds \X BOOLEAN : (AlwaysLog(k) => lg) /\ (NeverLog(k) => ~lg)}

MCStart ==
    /\ phase = "idle"
    /\ \E n \in 1..MaxN : \E kl \in KindLog : \E sl \in [1..n -> Slots] : \E z0 \in [1..n -> Z] :
          LET k  == kl[1]
              lg == kl[2]
              fx == [i \in 1..n |-> SlotFixed(sl[i], lg)]
              p  == [i \in 1..n |-> IF IsLocal(k) THEN Ext(z0[i], lg) ELSE None]
              sp == [i \in 1..n |-> IF fx[i] = None THEN p[i] ELSE fx[i]]
          IN  /\ \A i \in 1..n : z0[i] \in SlotStarts(sl[i])
              \* no start point: one representative
              /\ (~IsLocal(k) => \A i \in 1..n : \A z \in SlotStarts(sl[i]) : z0[i] <= z)
              /\ Start(k, p, [i \in 1..n |-> SlotLb(sl[i], lg)], [i \in 1..n |-> SlotUb(sl[i], lg)], fx, lg,
                       IF IsLocal(k) THEN LL(sp) ELSE None)

\* ---- the wrapper: down-projection, inner coordinates ----
lbr == Down(lb, fixed)
ubr == Down(ub, fixed)
NF  == NFree(fixed)
InBox(zr) == \A j \in 1..NF : /\ (lbr[j] = None \/ IntOf(lbr[j], log) <= zr[j])
                              /\ (ubr[j] = None \/ zr[j] <= IntOf(ubr[j], log))
StartZ == LET p0r == Down(p0, fixed) IN [j \in 1..NF |-> IntOf(p0r[j], log)]
\* a defective wrapper that converts the start point with the wrong map (cf. log(p0) in natural mode)
WrongStartZ == [j \in 1..NF |-> IF StartZ[j] = HiZ THEN LoZ ELSE HiZ]
InnerOf(e) == LET r == Down(e.p, fixed) IN [j \in 1..NF |-> IntOf(r[j], log)]
\* up-projection of an inner point; the defective variant forgets the last fixed entry
FullOf(zr) ==
    LET x == [j \in 1..NF |-> Ext(zr[j], log)]
        y == Up(x, fixed)
        lastX == IF \E i \in 1..N : fixed[i] # None THEN CHOOSE i \in 1..N : fixed[i] # None /\ \A i2 \in (i + 1)..N : fixed[i2] = None ELSE 0
    IN  IF Bug = "fixed_lost" /\ lastX > 0 THEN [y EXCEPT ![lastX] = Ext(LoZ, log)] ELSE y
OneMove(a, b) == Cardinality({j \in 1..NF : a[j] # b[j]}) = 1
Candidates ==
    LET all == [1..NF -> Z]
        box == IF Bug = "eval_oob" THEN all ELSE {zr \in all : InBox(zr)}
    IN  IF evals = <<>> /\ IsLocal(kind) THEN {IF Bug = "wrong_start" THEN WrongStartZ ELSE StartZ}
        ELSE IF N <= FullBoxN \/ evals = <<>> THEN box
        ELSE {zr \in box : \E k \in 1..Len(evals) : OneMove(zr, InnerOf(evals[k]))}

MCEval == /\ phase = "running" /\ Len(evals) < MaxEvals
          /\ \E zr \in Candidates : LET p == FullOf(zr) IN Eval(p, LL(p))

Best(k)  == \A j \in 1..Len(evals) : RLeq(evals[j].f, evals[k].f)
Worst(k) == \A j \in 1..Len(evals) : RLeq(evals[k].f, evals[j].f)
MCReturn ==
    /\ phase = "running" /\ evals # <<>>
    /\ \E k \in 1..Len(evals) : \E rep \in BOOLEAN :
          /\ (IsPrimary(kind) => rep)                      \* opt always reports the optimum value
          /\ (IsPrimary(kind) \/ ReturnsBest(kind)) => (IF Bug = "ret_worst" THEN Worst(k) ELSE Best(k))
          /\ Return(IF Bug = "ret_start" THEN evals[1].p ELSE evals[k].p, IF rep THEN evals[k].f ELSE None)
MCProbe == phase = "done" /\ Probe(ret.p, LL(ret.p))

Init == OInit
Next == MCStart \/ MCEval \/ MCReturn \/ MCProbe \/ Finish
Spec == Init /\ [][Next]_ovars

TypeOK == /\ phase \in {"idle", "running", "done", "probed"}
          /\ Len(p0) = N /\ Len(lb) = N /\ Len(ub) = N /\ N <= MaxN
          /\ Len(evals) <= MaxEvals
          /\ (phase = "probed" => probe.p = ret.p)
\* the projection laws for the mask of the current call
UpDownHere == (phase = "running" /\ evals = <<>>) => UpDownInverse(fixed, {"0", "1", "2"})

(***************************************************************************)
(* Static laws (evaluated once, before exploration)                        *)
(***************************************************************************)
Masks(n) == [1..n -> {None, "1", "2"}]
ASSUME \A n \in 0..4 : \A m \in Masks(n) : UpDownInverse(m, {"0", "1", "2"})
\* no mask at all (fixed_params = None) is the all-free mask: both maps are the identity
ASSUME \A n \in 0..4 : \A y \in [1..n -> {"0", "1"}] : LET m == [i \in 1..n |-> None] IN Up(y, m) = y /\ Down(y, m) = y

PVals == {"-2", "-1", "-1/2", "0", "1/2", "1", "100/101", "2"}
PBounds == PVals \cup {None}
Ordered(l, u) == l = None \/ u = None \/ RLeq(l, u)
\* the reference perturbation stays within any ordered pair of bounds, whatever their sign or distance
ASSUME \A x \in PVals : \A e \in -2..2 : \A l \in PBounds : \A u \in PBounds :
          Ordered(l, u) => PerturbInBounds(PerturbRef(<<x>>, <<e>>, <<l>>, <<u>>), <<l>>, <<u>>)
\* the shipped rule agrees with the reference for non-negative bounds at least 2% apart ...
ASSUME \A x \in PVals : \A e \in -2..2 : \A l \in PBounds : \A u \in PBounds :
          (Ordered(l, u) /\ (l = None \/ RNonNeg(l)) /\ (u = None \/ RNonNeg(u))
            /\ (l = None \/ u = None \/ RLeq(RMul("101/100", l), RMul("99/100", u))))
          => PerturbShipped(<<x>>, <<e>>, <<l>>, <<u>>) = PerturbRef(<<x>>, <<e>>, <<l>>, <<u>>)
\* ... and leaves the bounds for a negative bound (the clause is not vacuous)
ASSUME ~PerturbInBounds(PerturbShipped(<<"-2">>, <<1>>, <<"-1">>, <<None>>), <<"-1">>, <<None>>)
ASSUME ~PerturbInBounds(PerturbShipped(<<"-1/2">>, <<-2>>, <<None>>, <<"-1">>), <<None>>, <<"-1">>)
=============================================================================
