CONSTANTS
  TauFD = "1/10000000000000"
  TauRel = "1/1000000000"
  TauChi = "1/10000000000"
SPECIFICATION Spec
CHECK_DEADLOCK FALSE
INVARIANT Done
POSTCONDITION AllConsumed
