CONSTANTS
  MaxSteps = 2
  PSet = {1, 2, 3}
  Tier = "thorough"
SPECIFICATION Spec
CHECK_DEADLOCK FALSE
INVARIANT LinesPrecalc
PROPERTY StepOK
