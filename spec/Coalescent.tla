----------------------------- MODULE Coalescent -----------------------------
(***************************************************************************)
(* Independent theory for property C01: the exact expected site frequency  *)
(* spectrum of a sample of n chromosomes from one population whose size is *)
(* piecewise constant, by the coalescent (Tavare 1984 for the number of    *)
(* ancestral lineages; Fu 1995 for the descendant-count distribution).     *)
(*                                                                         *)
(* Time is in units of 2*Nref generations, sizes relative to Nref, theta = *)
(* 4*Nref*mu, exactly dadi's conventions.  A history is a sequence of      *)
(* epochs [nu, T] listed BACKWARDS from the present, followed by an        *)
(* ancestral population of relative size nuanc for ever.                   *)
(* The only transcendental quantities are E[e][j] = exp(-C(j,2)*T_e/nu_e); *)
(* they are supplied as a table (exact rationals of a high-precision       *)
(* evaluation) - this module never evaluates exp.                          *)
(***************************************************************************)
EXTENDS Rat, Integers, Sequences

RisingR(a, m)  == LET RECURSIVE go(_, _)
                      go(q, acc) == IF q >= m THEN acc ELSE go(q + 1, RMul(acc, RInt(a + q)))
                  IN go(0, "1")
FallingR(a, m) == LET RECURSIVE go(_, _)
                      go(q, acc) == IF q >= m THEN acc ELSE go(q + 1, RMul(acc, RInt(a - q)))
                  IN go(0, "1")
FactR(k) == RisingR(1, k)
Pairs(j) == RInt((j * (j - 1)) \div 2)          \* C(j,2), the coalescence rate of j lineages at size 1

\* P(number of ancestors of n at time t = k) = SUM_j Coef(n,j,k) * exp(-C(j,2)*Lambda(t))
Coef(n, j, k) == RMul(IF (j - k) % 2 = 0 THEN "1" ELSE "-1",
                      RDiv(RMul(RMul(RInt(2 * j - 1), RisingR(k, j - 1)), FallingR(n, j)),
                           RMul(RMul(FactR(k), FactR(j - k)), RisingR(n, j))))

\* exp(-C(j,2) * Lambda) at the START (present side) of epoch e: product of the table entries of the earlier epochs
Pref(E, e, j) == LET RECURSIVE go(_, _)
                     go(q, acc) == IF q >= e THEN acc ELSE go(q + 1, RMul(acc, E[q][j]))
                 IN go(1, "1")
\* I_j = INTEGRAL_0^inf exp(-C(j,2)*Lambda(t)) dt
IJ(hist, nuanc, E, j) ==
    RAdd(RSum([e \in 1..Len(hist) |-> RMul(Pref(E, e, j), RMul(RDiv(hist[e].nu, Pairs(j)), RSub("1", E[e][j])))]),
         RMul(Pref(E, Len(hist) + 1, j), RDiv(nuanc, Pairs(j))))
\* expected time (units of 2*Nref generations) during which the sample has k ancestors
ETkFrom(n, IJt, k) == RSum([j \in k..n |-> RMul(Coef(n, j, k), IJt[j])])
ETk(n, hist, nuanc, E, k) == ETkFrom(n, [j \in 2..n |-> IJ(hist, nuanc, E, j)], k)
\* probability that a lineage present when there are k ancestors has b descendants in the sample
Desc(n, k, b) == RDiv(RBinom(n - b - 1, k - 2), RBinom(n - 1, k - 1))
\* expected number of sites at which the derived allele is carried by b of the n chromosomes.
\* The tables of I_j and of E[T_k] are tabulated once.  TLC evaluates LET definitions lazily and may re-evaluate them at every
\* reference; a variable bound by a set constructor holds an evaluated value, hence the idiom Only({G(x) : x \in {e}}) = G(e).
Only(S) == CHOOSE v \in S : TRUE
ExpectedSFS(n, hist, nuanc, E, theta) ==
    Only({ Only({ RForce([b \in 1..(n - 1) |-> RMul(RHalf(theta), RSum([k \in 2..n |-> RMul(RMul(RInt(k), ET[k]), Desc(n, k, b))]))])
                  : ET \in {RForce([k \in 2..n |-> ETkFrom(n, IJt, k)])} })
           : IJt \in {RForce([j \in 2..n |-> IJ(hist, nuanc, E, j)])} })
\* table for a history when only rational "exponentials" are wanted (model checking): E[e][j] given
TableOK(n, hist, E) == /\ Len(E) = Len(hist)
                       /\ \A e \in 1..Len(hist) : \A j \in 2..n : RPos(E[e][j]) /\ RLeq(E[e][j], "1")
=============================================================================
