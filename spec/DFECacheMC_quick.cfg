CONSTANTS
  MaxW = 3
  MaxJ = 3
  MaxSplit = 3
  MaxPieces = 3
  AllowDie = FALSE
  PathSet = 0
SPECIFICATION Spec
CHECK_DEADLOCK FALSE
INVARIANT TypeOK
INVARIANT L_QueueBounded
INVARIANT L_AtMostOnce
INVARIANT L_SentinelAtMostOne
INVARIANT L_ExactlyOnce
INVARIANT L_Outcome
INVARIANT L_NoSilentHole
INVARIANT L_JoinAfterExit
INVARIANT L_ResultsAreTaken
INVARIANT L_MergeAgree
INVARIANT L_MergeComplete
INVARIANT L_MergeExact
INVARIANT L_MergeConflict
PROPERTY Termination
