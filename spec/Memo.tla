------------------------------- MODULE Memo -------------------------------
(***************************************************************************)
(* C20 - results are independent of the call history; inputs are never     *)
(* modified in place.                                                      *)
(*                                                                         *)
(* The process-wide state of dadi is a family of memo tables               *)
(*   proj      Numerics._projection_cache      key (to, from, hits)        *)
(*   dbeta     Spectrum_mod._dbeta_cache       key (n, grid)               *)
(*   part      Numerics._part_cache            key (x, n, min, max)        *)
(*   precalc   Numerics._part_precalc_cache    key (x, n, min, max)        *)
(*   multinom  Numerics._multinomln_cache      key (c0, c1, c2)            *)
(*   bb        Numerics._BetaBinomln_cache     key (i, n, (alpha, beta))   *)
(*   godambe   Godambe.cache                   key (function, stencil)     *)
(* plus Inference._counter / _theta_store and the demes event log          *)
(* (Demes.cache).  A public call of the fixed alphabet below is ONE action *)
(* of this machine.  Every call declares its FOOTPRINT Needs(b): the full  *)
(* keys (all the components the memoised value depends on) it looks up in  *)
(* each table.  A table maps STORED keys (what the code puts into the      *)
(* dictionary, Key(t, fk)) to the full key whose value was stored there    *)
(* (its provenance) and the call that stored it.  A lookup that finds the  *)
(* stored key uses the stored value, whatever its provenance.              *)
(*                                                                         *)
(* The property is the refinement  Memo => MemoFree  (hide the tables):    *)
(* at every step every memoised value the call used is the value of the    *)
(* full key it was looked up for (res.used), and the returned value        *)
(* res.value equals ResultSpec(call), a function of the call's base (= its *)
(* arguments' VALUES: not of the tables, not of the memory layout of the   *)
(* arguments, not of the container - list, tuple, array - of a vector);    *)
(* the argument objects of the call keep their version (not written,       *)
(* unless documented as in-place), and an integrator's result is a new     *)
(* heap object, for an epoch of zero duration too: in-place work on the    *)
(* result leaves every argument at its version.                            *)
(*                                                                         *)
(* The design constants select the documented design ("full" keys, every   *)
(* integrator normalises its arrays on entry, the uncertainty cache is     *)
(* keyed on the function object, Demes.output does not store mapped names) *)
(* or one of the defective variants; the *_bug_* configs show that TLC     *)
(* refutes the refinement for each of them (the check is not vacuous).     *)
(***************************************************************************)
EXTENDS Naturals, Sequences, FiniteSets, TLC

CONSTANTS
    MaxDepth,     \* histories of at most this many calls
    BaseSel,      \* "memo" | "graph" | "core" | "quickcore" | "all" | "all2" | "god" | "godall" : which bases the model explores
    LaySel,       \* "C" | "all"      : which memory layouts
    ProjKeyMode,  \* "full" | "no_from"      : _projection_cache key
    DbetaKeyMode, \* "full" | "len_only"     : _dbeta_cache key
    PartKeyMode,  \* "full" | "no_n"         : _part_cache key
    EntryMode,    \* "copy_all" | "raw45" | "late_copy": every integrator copies its density on entry; four_pops/five_pops do
                  \*                                      not; or the copy is taken only after the zero-duration early return
    XXMode,       \* "contig" | "raw_td"     : is the grid made contiguous before it reaches a compiled kernel
    GodMode,      \* "object" | "address"    : Godambe.cache keyed on the function object or on its address
    DemesMode,    \* "pure" | "storeback"    : Demes.output stores mapped names into the event log
    PerturbMode,  \* "pure" | "rewrites_none": Misc.perturb_params replaces None entries of the caller's bound lists
    HashMode,     \* "ordered" | "set_order" : LowPass.compute_cov_dist builds its dict in pop_ids order or in set (string-hash) order
    SFSMode,      \* "copies" | "callers_list": Demes.SFS renames ancient samples in a copy of / in the caller's sampled_demes list
    VectorMode,   \* "copies" | "callers_array": the closures over the nested parameters (LRT_adjust, score_stat, Wald_stat) put the
                  \*                              trial values into a copy of p0, or into p0 itself when it already is a float64 array
    MaskMode,     \* "setter" | "rebind": Spectrum.S puts the saved mask back through the mask setter (copied into the mask memory the
                  \*                     argument shares with its owner) or by rebinding _mask (a view is detached; the owner keeps the corners)
    KernelMode,   \* "stateless" | "static_by_size": a compiled kernel recomputes the grid-derived arrays in every call, or
                  \*                                 keeps them in static storage and rebuilds them only when the grid SIZE changes
    MaxTable      \* state constraint: at most this many stored keys per table

Tables == {"proj", "dbeta", "part", "precalc", "multinom", "bb", "godambe"}
Z == [t \in Tables |-> {}]

\* ------------------------------------------------------------------ alphabet
ProjectB == {"project_1d_8_4", "project_1d_8_6", "project_1d_6_4", "project_2d_64_43", "project_2d_64_44", "project_1d_6_4_folded"}
Stat1B   == {"S_1d", "pi_1d", "watterson_1d", "tajima_1d"}
StatNB   == {"S_2d", "fst_2d", "fold_2d", "unfold_2d", "marginalize_2d", "marginalize_3d", "combine_3d", "filter_3d",
             "reorder_fs_3d", "log_2d"}
DataDictB == {"from_data_dict_1d_4", "from_data_dict_2d_43", "from_data_dict_1d_4_unpol"}
FromPhi1B == {"from_phi_1d_6"}
FromPhiNB == {"from_phi_2d_43_A", "from_phi_2d_34_A", "from_phi_2d_43_B", "from_phi_3d_432_A", "from_phi_2d_22_A6",
              "from_phi_4d_2222", "from_phi_5d_22222"}
Inb1B    == {"from_phi_inb_1d_4", "from_phi_inb_1d_6"}
InbNB    == {"from_phi_inb_2d_42"}
NumB     == {"cached_part_4_3", "cached_part_3_3", "part_4_3", "cached_part_precalc_4_3", "multinomln_121", "betabinomln",
             "betabinomconv_4_3", "cached_projection_4_6_3"}
LowPassB == {"lowpass_projmat_6_4", "lowpass_projmat_6_4_F", "lowpass_partprob_af_6_4", "lowpass_partprob_af_6_3_F",
             "lowpass_partprob_geno_6", "lowpass_calling_error_4", "lowpass_prob_enough_6_4"}
Int1B    == {"one_pop_c", "one_pop_td"}
IntNB    == {"two_pops_c", "two_pops_td", "three_pops_c", "three_pops_td", "four_pops_c", "four_pops_td",
             "five_pops_c", "five_pops_td", "two_pops_frozen"}
\* the time-dependent drivers again, on a second grid with the SAME number of points but other spacings (contiguous only)
IntKB    == {"one_pop_td_B", "two_pops_td_B", "three_pops_td_B", "four_pops_td_B", "five_pops_td_B"}
IntB     == Int1B \cup IntNB \cup IntKB
PhiXB    == {"phi_1D", "phi_1D_genic"}
Phim1B   == {"phi_1D_to_2D"}
PhimNB   == {"phi_2D_to_3D_split_1", "phi_2D_to_3D_admix", "phi_2D_admix_1_into_2", "phi_3D_admix_1_and_2_into_3",
             "phi_3D_to_4D", "phi_4D_to_5D", "remove_pop_3d_2", "reorder_pops_3d"}
LikeB    == {"ll_2d", "ll_multinom_2d", "optimal_sfs_scaling_2d", "ll_per_bin_2d", "anscombe_2d", "ll_3d"}
ObjB     == {"object_func_A", "object_func_B_store", "optimize_grid_A"}
PerturbB == {"perturb_params_none_bounds"}
PerturbVB == {"perturb_params_array"}
GodTransB == {"fim_A", "fim_B", "gim_A", "gim_B", "lrt_A", "lrt_B"}
GodNamedB == {"fim_A_named", "fim_B_named"}
GodB0    == GodTransB \cup GodNamedB
DemesFullB  == {"demes_output_X", "demes_output_Y", "demes_output_none"}
DemesAgainB == {"demes_output_again_X", "demes_output_again_Y", "demes_output_again_none"}
DemesB   == DemesFullB \cup DemesAgainB
LowPassFuncB == {"lowpass_func_2d", "lowpass_cov_dist_2pop"}       \* per-population coverage dict -> corrected 2-D model spectrum
DemesSFSB == {"demes_sfs_ancient", "demes_sfs_present", "from_demes_ancient"}   \* demes graph -> spectrum (ancient: sample_times with a non-zero entry)

\* ------------------------------------------------------------------ alphabet extension (quantifier audit)
\* The remaining public functions of dadi.Spectrum / Numerics / Inference / Misc / PhiManip / Integration / Godambe / LowPass /
\* DFE.PDFs that take array or list arguments or touch module-level state.  One row per base:
\*   <<base, dadi function, layout class, effect on the demes event log, bit-for-bit under layout changes>>
\* layout classes: "n" contiguous only; "a3" array in {C, F, N}; "v3" vector in {C, S, N}; "x3" grid in {C, S, N};
\*                 "ax" array in {C, F, N} x grid in {C, S}; "vv" two vectors, each in {C, S, N}
ExtraTab0 == {
    <<"zengs_E_1d", "Spectrum.Zengs_E", "v3", "none", FALSE>>,
    <<"theta_L_1d", "Spectrum.theta_L", "v3", "none", FALSE>>,
    <<"combine_two_pops_3d", "Spectrum.combine_two_pops", "a3", "none", FALSE>>,
    <<"scramble_2d", "Spectrum.scramble_pop_ids", "a3", "none", FALSE>>,
    <<"sample_2d", "Spectrum.sample", "a3", "none", TRUE>>,
    <<"fixed_size_sample_1d", "Spectrum.fixed_size_sample", "v3", "none", FALSE>>,
    <<"apply_anc_state_misid_2d", "Numerics.apply_anc_state_misid", "a3", "none", TRUE>>,
    <<"misc_combine_pops_3d", "Misc.combine_pops", "a3", "none", FALSE>>,
    <<"ll_multinom_per_bin_2d", "Inference.ll_multinom_per_bin", "a3", "none", FALSE>>,
    <<"optimally_scaled_sfs_2d", "Inference.optimally_scaled_sfs", "a3", "none", FALSE>>,
    <<"linear_residual_2d", "Inference.linear_Poisson_residual", "a3", "none", TRUE>>,
    <<"fs_add_2d", "Spectrum.__add__", "a3", "none", TRUE>>,
    <<"to_file_2d", "Spectrum.to_file", "a3", "none", TRUE>>,
    <<"intersect_masks_2d", "Numerics.intersect_masks", "a3", "none", TRUE>>,
    <<"reverse_array_3d", "Numerics.reverse_array", "a3", "none", TRUE>>,
    <<"trapz_2d", "Numerics.trapz", "ax", "none", FALSE>>,
    <<"end_point_first_derivs", "Numerics.end_point_first_derivs", "x3", "none", TRUE>>,
    <<"quadratic_extrap", "Numerics.quadratic_extrap", "n", "none", TRUE>>,
    <<"extrap_func_A", "Numerics.make_extrap_func", "n", "reset2", TRUE>>,
    <<"from_phi_1d_direct", "Spectrum.from_phi", "vv", "none", FALSE>>,
    <<"from_phi_2d_direct", "Spectrum.from_phi", "ax", "none", FALSE>>,
    <<"from_phi_3d_direct", "Spectrum.from_phi", "ax", "none", FALSE>>,
    <<"from_phi_2d_admix_props", "Spectrum.from_phi", "ax", "none", FALSE>>,
    <<"from_phi_2d_het_xx", "Spectrum.from_phi", "ax", "none", FALSE>>,
    <<"from_phi_inb_3d_422", "Spectrum.from_phi_inbreeding", "ax", "none", FALSE>>,
    <<"from_phi_2d_43_A_containers", "Spectrum.from_phi", "n", "none", TRUE>>,
    <<"project_2d_64_43_nsarray", "Spectrum.project", "n", "none", TRUE>>,
    <<"ms_command", "Misc.ms_command", "n", "none", TRUE>>,
    <<"count_data_dict", "Misc.count_data_dict", "n", "none", TRUE>>,
    <<"zero_diag", "Misc.zero_diag", "a3", "none", TRUE>>,
    <<"total_instantaneous_rate", "Misc.total_instantaneous_rate", "a3", "none", FALSE>>,
    <<"phi_1D_snm", "PhiManip.phi_1D_snm", "x3", "none", TRUE>>,
    <<"phi_1D_X", "PhiManip.phi_1D_X", "x3", "none", TRUE>>,
    <<"phi_2D_to_3D_split_2", "PhiManip.phi_2D_to_3D_split_2", "ax", "append1", TRUE>>,
    <<"phi_2D_admix_2_into_1", "PhiManip.phi_2D_admix_2_into_1", "ax", "append1", FALSE>>,
    <<"phi_3D_admix_1_and_3_into_2", "PhiManip.phi_3D_admix_1_and_3_into_2", "ax", "append1", FALSE>>,
    <<"phi_3D_admix_2_and_3_into_1", "PhiManip.phi_3D_admix_2_and_3_into_1", "ax", "append1", FALSE>>,
    <<"phi_4D_admix_into_1", "PhiManip.phi_4D_admix_into_1", "ax", "append1", FALSE>>,
    <<"phi_4D_admix_into_2", "PhiManip.phi_4D_admix_into_2", "ax", "append1", FALSE>>,
    <<"phi_4D_admix_into_3", "PhiManip.phi_4D_admix_into_3", "ax", "append1", FALSE>>,
    <<"phi_4D_admix_into_4", "PhiManip.phi_4D_admix_into_4", "ax", "append1", FALSE>>,
    <<"phi_5D_admix_into_1", "PhiManip.phi_5D_admix_into_1", "ax", "append1", FALSE>>,
    <<"phi_5D_admix_into_2", "PhiManip.phi_5D_admix_into_2", "ax", "append1", FALSE>>,
    <<"phi_5D_admix_into_3", "PhiManip.phi_5D_admix_into_3", "ax", "append1", FALSE>>,
    <<"phi_5D_admix_into_4", "PhiManip.phi_5D_admix_into_4", "ax", "append1", FALSE>>,
    <<"phi_5D_admix_into_5", "PhiManip.phi_5D_admix_into_5", "ax", "append1", FALSE>>,
    <<"filter_pops_3d", "PhiManip.filter_pops", "ax", "append1", FALSE>>,
    <<"one_pop_X_c", "Integration.one_pop_X", "vv", "none", TRUE>>,
    <<"optimize_log_A", "Inference.optimize_log", "n", "reset2", TRUE>>,
    <<"optimize_A", "Inference.optimize", "n", "reset2", TRUE>>,
    <<"optimize_log_fmin_A", "Inference.optimize_log_fmin", "n", "reset2", TRUE>>,
    <<"optimize_log_lbfgsb_A", "Inference.optimize_log_lbfgsb", "n", "reset2", TRUE>>,
    <<"optimize_lbfgsb_A", "Inference.optimize_lbfgsb", "n", "reset2", TRUE>>,
    <<"opt_nlopt_A", "Inference.opt", "n", "reset2", TRUE>>,
    <<"lrt_A", "Godambe.LRT_adjust", "n", "reset2", TRUE>>,
    <<"lrt_B", "Godambe.LRT_adjust", "n", "reset2", TRUE>>,
    <<"get_hess_quadratic", "Godambe.get_hess", "n", "none", TRUE>>,
    <<"get_grad_quadratic", "Godambe.get_grad", "n", "none", TRUE>>,
    <<"sum_chi2_ppf", "Godambe.sum_chi2_ppf", "v3", "none", TRUE>>,
    <<"lowpass_part_inbreeding_prob", "LowPass.part_inbreeding_probability", "n", "none", TRUE>>,
    <<"lowpass_projection_inbreeding", "LowPass.projection_inbreeding", "n", "none", TRUE>>,
    <<"lowpass_split_list", "LowPass.split_list_by_lengths", "n", "none", TRUE>>,
    <<"lowpass_flatten_nested", "LowPass.flatten_nested_list", "n", "none", TRUE>>,
    <<"lowpass_no_call_6", "LowPass.probability_of_no_call_1D_GATK_multisample", "n", "none", TRUE>>,
    <<"lowpass_subsample_genotypes", "LowPass.subsample_genotypes_1D", "n", "none", TRUE>>,
    <<"pdf_gamma", "DFE.PDFs.gamma", "v3", "none", TRUE>>,
    <<"pdf_lognormal", "DFE.PDFs.lognormal", "v3", "none", TRUE>>,
    <<"pdf_exponential", "DFE.PDFs.exponential", "v3", "none", TRUE>>,
    <<"pdf_beta", "DFE.PDFs.beta", "v3", "none", TRUE>>,
    <<"pdf_biv_lognormal", "DFE.PDFs.biv_lognormal", "vv", "none", TRUE>>,
    <<"pdf_biv_ind_gamma", "DFE.PDFs.biv_ind_gamma", "vv", "none", TRUE>>,
    <<"pdf_biv_lognormal_py", "DFE.PDFs.biv_lognormal_py", "vv", "none", TRUE>> }

\* ------------------------------------------------------------------ alphabet extension (round 5)
\* (1) The paths that return WITHOUT doing the work.  Every integrator with an epoch of zero duration:
\*       z0_c  T = 0, constant parameters          z0_td  T = 0, a function-valued size
\*       zi_c  T = initial_t = 0.3, constant       zi_td  T = initial_t = 0.3, function-valued
\*       z0_fr T = 0, first population frozen      allfr  T > 0, every population frozen (nothing is swept)
\*     The property does not exempt them: the result is a fresh array, the arguments are unchanged, and in-place
\*     work on the result leaves the arguments unchanged.
IntFuncs  == <<"one_pop", "two_pops", "three_pops", "four_pops", "five_pops">>
ZeroKinds == {"z0_c", "z0_td", "zi_c", "zi_td", "z0_fr"}
ZeroDurB  == {IntFuncs[P] \o "_" \o k : P \in 1..5, k \in ZeroKinds} \cup {"one_pop_X_z0_c"}
ZeroTab   == {<<IntFuncs[P] \o "_" \o k, "Integration." \o IntFuncs[P], IF P = 1 THEN "v3" ELSE "a3", "none", TRUE>> : P \in 1..5, k \in ZeroKinds}
             \cup {<<IntFuncs[P] \o "_allfr", "Integration." \o IntFuncs[P], IF P = 1 THEN "v3" ELSE "a3",
                     IF P = 1 THEN "none" ELSE "append1", TRUE>> : P \in 1..5}        \* (a frozen one_pop returns before it logs the epoch)
             \cup {<<"one_pop_X_z0_c", "Integration.one_pop_X", "v3", "none", TRUE>>, <<"one_pop_X_allfr", "Integration.one_pop_X", "v3", "none", TRUE>>}
IntZB     == {e[1] : e \in ZeroTab}
\*     Degenerate arguments of the other functions: admixture proportions 0 / 1, projection to the same sizes, marginalising
\*     over nothing, keeping every population, identity reorderings, folding a folded spectrum (refused), fold = 0.
TrivTab == {
    <<"phi_2D_to_3D_admix_f0", "PhiManip.phi_2D_to_3D_admix", "ax", "append1", FALSE>>,
    <<"phi_2D_to_3D_admix_f1", "PhiManip.phi_2D_to_3D_admix", "ax", "append1", FALSE>>,
    <<"phi_3D_to_4D_f0", "PhiManip.phi_3D_to_4D", "ax", "append1", FALSE>>,
    <<"phi_2D_admix_1_into_2_f0", "PhiManip.phi_2D_admix_1_into_2", "ax", "append1", FALSE>>,
    <<"reorder_pops_3d_identity", "PhiManip.reorder_pops", "ax", "append1", TRUE>>,
    <<"filter_pops_3d_all", "PhiManip.filter_pops", "ax", "none", TRUE>>,
    <<"project_2d_64_64_same", "Spectrum.project", "a3", "none", TRUE>>,
    <<"fold_folded_2d", "Spectrum.fold", "a3", "none", TRUE>>,
    <<"unfold_unfolded_2d", "Spectrum.unfold", "a3", "none", TRUE>>,
    <<"marginalize_2d_none", "Spectrum.marginalize", "a3", "none", TRUE>>,
    <<"reorder_fs_3d_identity", "Spectrum.reorder_pops", "a3", "none", TRUE>>,
    <<"filter_3d_all", "Spectrum.filter_pops", "a3", "none", TRUE>>,
    <<"apply_anc_state_misid_2d_p0", "Numerics.apply_anc_state_misid", "a3", "none", TRUE>>,
    <<"perturb_params_fold0", "Misc.perturb_params", "n", "none", TRUE>> }
\* (2) The CONTAINER of the vector arguments (parameter vector, bounds, index lists, grid-size list): the caller's
\*     object may be a list, a tuple, a float64 array or an integer array; none of them may be written.
Containers == {"list", "tuple", "f64", "i64"}
NewC       == {"tuple", "f64", "i64"}             \* (the list variant of these calls is in the alphabet already)
OptSites == {<<"optimize_log_A", "Inference.optimize_log">>, <<"optimize_A", "Inference.optimize">>,
             <<"optimize_log_fmin_A", "Inference.optimize_log_fmin">>, <<"optimize_log_lbfgsb_A", "Inference.optimize_log_lbfgsb">>,
             <<"optimize_lbfgsb_A", "Inference.optimize_lbfgsb">>, <<"opt_nlopt_A", "Inference.opt">>}
OptCB  == {o[1] \o "_" \o c : o \in OptSites, c \in NewC}
ObjCB  == {"object_func_A_" \o c : c \in NewC}
ContTab == {<<o[1] \o "_" \o c, o[2], "n", "reset2", TRUE>> : o \in OptSites, c \in NewC}
           \cup {<<"object_func_A_" \o c, "Inference._object_func", "n", "reset2", TRUE>> : c \in NewC}
           \cup {<<"get_hess_quadratic_" \o c, "Godambe.get_hess", "n", "none", TRUE>> : c \in NewC}
           \cup {<<"get_grad_quadratic_" \o c, "Godambe.get_grad", "n", "none", TRUE>> : c \in NewC}
           \cup {<<"perturb_params_" \o c, "Misc.perturb_params", "n", "none", TRUE>> : c \in {"tuple", "i64"}}
           \cup {<<"extrap_func_A_" \o c, "Numerics.make_extrap_func", "n", "reset2", TRUE>> : c \in NewC}
           \cup {<<"project_2d_64_43_nstuple", "Spectrum.project", "n", "none", TRUE>>,
                  <<"from_phi_2d_43_A_tuples", "Spectrum.from_phi", "n", "none", TRUE>>,
                  <<"from_phi_inb_2d_42_arrays", "Spectrum.from_phi_inbreeding", "n", "none", TRUE>>,
                  <<"from_data_dict_2d_43_tuples", "Spectrum.from_data_dict", "n", "none", TRUE>>,
                  <<"demes_sfs_present_containers", "Demes.SFS", "n", "reset5", TRUE>>,
                  <<"ms_command_containers", "Misc.ms_command", "n", "none", TRUE>>}
\*     The uncertainty entry points: <<base, dadi function, the function object the memo key holds>>.
\*       mn: multinom=True (the model has no theta parameter; the entry point wraps it in a closure made in the call)
\*       th: multinom=False (theta is the explicit last parameter; FIM/GIM/get_godambe differentiate the caller's function
\*           itself, LRT_adjust/score_stat/Wald_stat a closure over the nested parameters made in the call)
\*       lin / log: derivatives in the parameters or in their logarithms
GodCTab ==
    {<<e[1] \o "_" \o th \o "_" \o sc \o "_" \o c, e[2], IF th = "th" THEN "named" ELSE "t">> :
        e \in {<<"cfim", "Godambe.FIM_uncert">>, <<"cgim", "Godambe.GIM_uncert">>}, th \in {"mn", "th"}, sc \in {"lin", "log"}, c \in Containers}
    \cup {<<"cgod_th_" \o sc \o "_" \o c, "Godambe.get_godambe", "named">> : sc \in {"lin", "log"}, c \in Containers}
    \cup {<<e[1] \o "_" \o th \o "_lin_" \o c, e[2], "t">> :
        e \in {<<"clrt", "Godambe.LRT_adjust">>, <<"cscore", "Godambe.score_stat">>, <<"cwald", "Godambe.Wald_stat">>}, th \in {"mn", "th"}, c \in Containers}
GodCB == {e[1] : e \in GodCTab}
\* (with multinom=True p0 is rebuilt as a list before the closure sees it; a list, tuple or integer array is converted)
NestedThF64 == {e \o "_th_lin_f64" : e \in {"clrt", "cscore", "cwald"}}
GodCRow(b) == CHOOSE e \in GodCTab : e[1] = b
\* calls that only vary the container of another call of the alphabet: left out of the exhaustive 2-call graph (their
\* footprint and bookkeeping duplicate the list variant); they are in the 1-call graph, the cover and the random histories

\* (3) round 6: Spectrum arguments whose corner entries are present and NOT masked (a call that masks the corners temporarily
\*     really writes), and the layout "V" for EVERY Spectrum argument: the argument is a view (fs[1:-1]; S: fs[::2]; N: fs[::-1]) of
\*     an owning Spectrum.  An argument's value includes the buffers it shares: data and mask of the owner are unchanged, too.
OpenTab == {
    <<"watterson_1d_open", "Spectrum.Watterson_theta", "v3", "none", FALSE>>,
    <<"pi_1d_open", "Spectrum.pi", "v3", "none", FALSE>>,
    <<"tajima_1d_open", "Spectrum.Tajima_D", "v3", "none", FALSE>>,
    <<"zengs_E_1d_open", "Spectrum.Zengs_E", "v3", "none", FALSE>>,
    <<"theta_L_1d_open", "Spectrum.theta_L", "v3", "none", FALSE>>,
    <<"fst_2d_open", "Spectrum.Fst", "a3", "none", FALSE>>,
    <<"fold_2d_open", "Spectrum.fold", "a3", "none", TRUE>>,
    <<"marginalize_2d_open", "Spectrum.marginalize", "a3", "none", FALSE>>,
    <<"project_1d_8_4_open", "Spectrum.project", "v3", "none", TRUE>>,
    <<"log_2d_open", "Spectrum.log", "a3", "none", TRUE>>,
    <<"ll_2d_open", "Inference.ll", "a3", "none", FALSE>>,
    <<"ll_multinom_2d_open", "Inference.ll_multinom", "a3", "none", FALSE>>,
    <<"ll_data_view_2d_open", "Inference.ll", "a3", "none", FALSE>> }
OpenB == {e[1] : e \in OpenTab}
\* the calls that mask the corners of their argument temporarily (Spectrum.S and its callers), on an argument with open corners
MasksCornersB == {"S_1d", "S_2d", "watterson_1d_open", "tajima_1d_open", "zengs_E_1d_open"}

\* (4) round 7: data dictionaries over five chromosomes / scaffolds (the fragments and the seeded bootstraps are LISTS: their order
\*     is part of the value and must not follow the string-hash order of the names); boundary VALUES of array arguments that a
\*     call clips or sanitises (inbreeding coefficients exactly 1 and 0, ploidies, admixture proportions 0 / 1 as ndarrays)
Round7Tab == {
    <<"fragment_data_dict_5chr", "Misc.fragment_data_dict", "n", "none", TRUE>>,
    <<"bootstraps_from_dd_chunks_5chr", "Misc.bootstraps_from_dd_chunks", "n", "none", TRUE>>,
    <<"make_data_dict_vcf_5chr", "Misc.make_data_dict_vcf", "n", "none", TRUE>>,
    <<"bootstraps_subsample_vcf_5chr", "Misc.bootstraps_subsample_vcf", "n", "none", TRUE>>,
    <<"from_phi_inb_1d_4_F1", "Spectrum.from_phi_inbreeding", "n", "none", TRUE>>,
    <<"from_phi_inb_2d_42_F1_03", "Spectrum.from_phi_inbreeding", "n", "none", TRUE>>,
    <<"from_phi_inb_1d_4_F0", "Spectrum.from_phi_inbreeding", "n", "none", TRUE>>,
    <<"from_phi_inb_2d_42_F00", "Spectrum.from_phi_inbreeding", "n", "none", TRUE>>,
    <<"from_phi_2d_admix_props_array01", "Spectrum.from_phi", "n", "none", TRUE>> }
Round7B == {e[1] : e \in Round7Tab}

ContainerB == GodCB \cup {e[1] : e \in ContTab} \cup {"project_1d_8_4_open"} \cup Round7B
ExtraTab == ExtraTab0 \cup ZeroTab \cup TrivTab \cup ContTab \cup OpenTab \cup Round7Tab
ExtraB == {e[1] : e \in ExtraTab}
GodB   == GodB0 \cup GodCB
ExtraRow(b) == CHOOSE e \in ExtraTab : e[1] = b
ExtraLay(b) == IF b \in ExtraB THEN ExtraRow(b)[3] ELSE ""
OptB == {"optimize_log_A", "optimize_A", "optimize_log_fmin_A", "optimize_log_lbfgsb_A", "optimize_lbfgsb_A", "opt_nlopt_A"} \cup OptCB   \* (an optimiser run evaluates the objective at least once)
LrtB == {"lrt_A", "lrt_B"}         \* differentiate an internal closure over the model: a new function object in every call

AllBases == ExtraB \cup GodCB \cup ProjectB \cup Stat1B \cup StatNB \cup DataDictB \cup FromPhi1B \cup FromPhiNB \cup Inb1B \cup InbNB \cup NumB
            \cup LowPassB \cup IntB \cup PhiXB \cup Phim1B \cup PhimNB \cup LikeB \cup ObjB \cup PerturbB \cup PerturbVB
            \cup GodB \cup DemesB \cup LowPassFuncB \cup DemesSFSB

\* the dadi function a base call enters (violation keys are "<site>/<clause>")
Site(b) ==
    CASE b \in ProjectB -> "Spectrum.project"
      [] b \in {"S_1d", "S_2d"} -> "Spectrum.S"
      [] b = "pi_1d" -> "Spectrum.pi"
      [] b = "watterson_1d" -> "Spectrum.Watterson_theta"
      [] b = "tajima_1d" -> "Spectrum.Tajima_D"
      [] b = "fst_2d" -> "Spectrum.Fst"
      [] b = "fold_2d" -> "Spectrum.fold"
      [] b = "unfold_2d" -> "Spectrum.unfold"
      [] b \in {"marginalize_2d", "marginalize_3d"} -> "Spectrum.marginalize"
      [] b = "combine_3d" -> "Spectrum.combine_pops"
      [] b = "filter_3d" -> "Spectrum.filter_pops"
      [] b = "reorder_fs_3d" -> "Spectrum.reorder_pops"
      [] b = "log_2d" -> "Spectrum.log"
      [] b \in DataDictB -> "Spectrum.from_data_dict"
      [] b \in FromPhi1B \cup FromPhiNB -> "Spectrum.from_phi"
      [] b \in Inb1B \cup InbNB -> "Spectrum.from_phi_inbreeding"
      [] b \in {"cached_part_4_3", "cached_part_3_3"} -> "Numerics.cached_part"
      [] b = "part_4_3" -> "Numerics.part"
      [] b = "cached_part_precalc_4_3" -> "Numerics.cached_part_precalc"
      [] b = "multinomln_121" -> "Numerics.multinomln"
      [] b = "betabinomln" -> "Numerics.BetaBinomln"
      [] b = "betabinomconv_4_3" -> "Numerics.BetaBinomConvolution"
      [] b = "cached_projection_4_6_3" -> "Numerics._cached_projection"
      [] b \in {"lowpass_projmat_6_4", "lowpass_projmat_6_4_F"} -> "LowPass.projection_matrix"
      [] b \in {"lowpass_partprob_af_6_4", "lowpass_partprob_af_6_3_F", "lowpass_partprob_geno_6"} -> "LowPass.partitions_and_probabilities"
      [] b = "lowpass_calling_error_4" -> "LowPass.calling_error_matrix"
      [] b = "lowpass_prob_enough_6_4" -> "LowPass.probability_enough_individuals_covered"
      [] b \in {"one_pop_c", "one_pop_td", "one_pop_td_B"} -> "Integration.one_pop"
      [] b \in {"two_pops_c", "two_pops_td", "two_pops_frozen", "two_pops_td_B"} -> "Integration.two_pops"
      [] b \in {"three_pops_c", "three_pops_td", "three_pops_td_B"} -> "Integration.three_pops"
      [] b \in {"four_pops_c", "four_pops_td", "four_pops_td_B"} -> "Integration.four_pops"
      [] b \in {"five_pops_c", "five_pops_td", "five_pops_td_B"} -> "Integration.five_pops"
      [] b \in PhiXB -> "PhiManip.phi_1D"
      [] b \in Phim1B \cup PhimNB ->
            (CASE b = "remove_pop_3d_2" -> "PhiManip.remove_pop" [] b = "reorder_pops_3d" -> "PhiManip.reorder_pops"
               [] OTHER -> "PhiManip." \o b)
      [] b \in {"ll_2d", "ll_3d"} -> "Inference.ll"
      [] b = "ll_multinom_2d" -> "Inference.ll_multinom"
      [] b = "optimal_sfs_scaling_2d" -> "Inference.optimal_sfs_scaling"
      [] b = "ll_per_bin_2d" -> "Inference.ll_per_bin"
      [] b = "anscombe_2d" -> "Inference.Anscombe_Poisson_residual"
      [] b \in {"object_func_A", "object_func_B_store"} -> "Inference._object_func"
      [] b = "optimize_grid_A" -> "Inference.optimize_grid"
      [] b \in PerturbB \cup PerturbVB -> "Misc.perturb_params"
      [] b \in {"fim_A", "fim_B", "fim_A_named", "fim_B_named"} -> "Godambe.FIM_uncert"
      [] b \in {"gim_A", "gim_B"} -> "Godambe.GIM_uncert"
      [] b \in DemesB -> "Demes.output"
      [] b = "lowpass_func_2d" -> "LowPass.make_low_pass_func_GATK_multisample"
      [] b = "lowpass_cov_dist_2pop" -> "LowPass.compute_cov_dist"
      [] b \in {"demes_sfs_ancient", "demes_sfs_present"} -> "Demes.SFS"
      [] b = "from_demes_ancient" -> "Spectrum.from_demes"
      [] b \in ExtraB -> ExtraRow(b)[2]
      [] b \in GodCB -> GodCRow(b)[2]
      [] OTHER -> "?"

IsIntegrator(b) == b \in IntB \cup IntZB \cup {"one_pop_X_c"}

\* array arguments: which memory layouts the alphabet offers for a base
\*   lay = layout of the density / spectrum / vector, xl = layout of the grid
LayC == {"C"}
Lay1 == {"C", "S", "N"}                 \* 1-D arrays
LayN == {"C", "F", "T", "S", "N"}       \* arrays of 2-5 dimensions
PhiLays0(b) == IF ExtraLay(b) \in {"a3", "ax"} THEN {"C", "F", "N"} ELSE IF ExtraLay(b) \in {"v3", "vv"} THEN Lay1 ELSE
              IF b \in FromPhiNB \cup InbNB \cup IntNB \cup PhimNB \cup StatNB \cup LikeB \cup {"project_2d_64_43", "project_2d_64_44"} THEN LayN
              ELSE IF b \in FromPhi1B \cup Inb1B \cup Int1B \cup Phim1B \cup Stat1B \cup PerturbVB
                         \cup {"project_1d_8_4", "project_1d_8_6", "project_1d_6_4", "project_1d_6_4_folded"} THEN Lay1
              ELSE LayC
\* the calls whose first argument is a Spectrum: offered as a view of an owning Spectrum, too
SpecArgB == ProjectB \cup Stat1B \cup StatNB \cup LikeB \cup OpenB
            \cup {"zengs_E_1d", "theta_L_1d", "combine_two_pops_3d", "scramble_2d", "sample_2d", "fixed_size_sample_1d", "apply_anc_state_misid_2d",
                  "misc_combine_pops_3d", "ll_multinom_per_bin_2d", "optimally_scaled_sfs_2d", "linear_residual_2d", "fs_add_2d", "to_file_2d",
                  "project_2d_64_64_same", "fold_folded_2d", "unfold_unfolded_2d", "marginalize_2d_none", "reorder_fs_3d_identity", "filter_3d_all",
                  "apply_anc_state_misid_2d_p0"}
PhiLays(b) == (IF b \in SpecArgB THEN {"V"} ELSE {}) \cup PhiLays0(b)
XLays(b)   == IF ExtraLay(b) \in {"x3", "vv"} THEN Lay1 ELSE IF ExtraLay(b) = "ax" THEN {"C", "S"} ELSE
              IF b \in FromPhi1B \cup FromPhiNB \cup Inb1B \cup InbNB \cup Int1B \cup IntNB \cup PhiXB \cup Phim1B \cup PhimNB THEN Lay1 ELSE LayC
HasArrays(b) == PhiLays(b) # LayC \/ XLays(b) # LayC

\* is the result of a non-contiguous argument bit-for-bit the result of its contiguous copy ("exact"), or may the
\* order of a floating-point reduction over the argument's memory legitimately differ ("tol": 1e-13 relative)?
\*   exact: integrators (they work on a C-ordered private copy), elementwise operations, projection (accumulates in
\*          the fixed order of the source entries)
\*   tol:   numpy reductions (sum / dot / trapz) over the argument: statistics, likelihood sums, sampling from phi,
\*          marginalisation, population removal, admixture (trapz inside)
\*   (anscombe_2d is "tol" since round 6: numpy's power loop for a negatively strided VIEW of a Spectrum is the scalar one and
\*    differs from the vectorised contiguous loop by one unit in the last place in single entries - observed 4.4e-16 - not a dadi matter)
LayoutExact(b) == b \in {e[1] : e \in {x \in ExtraTab : x[5]}} \cup IntB \cup ProjectB \cup PhiXB \cup Phim1B \cup PerturbVB \cup PerturbB
                         \cup {"fold_2d", "unfold_2d", "log_2d", "reorder_fs_3d", "filter_3d", "ll_per_bin_2d",
                               "phi_2D_to_3D_split_1", "reorder_pops_3d"}

\* ------------------------------------------------------------------ footprints (full keys), read from the code
ProjK(to, from, hs) == {<<to, from, h>> : h \in hs}
PartK(xs, n)        == {<<x, n, 0, 2>> : x \in xs}
\* count vectors (number of 0s, 1s, 2s) of the partitions of x into n entries from {0,1,2}, x in xs
MultK(xs, n)        == {c \in (0..n) \X (0..n) \X (0..n) : c[1] + c[2] + c[3] = n /\ (c[2] + 2 * c[3]) \in xs}
\* BetaBinomln(i, 2, alpha, beta) for i = 0..2 and every (alpha, beta) of a tag set
BBK(tags)           == {<<i, 2, tg>> : i \in 0..2, tg \in tags}
GridTags(g, F, n)   == {<<"G", g, F, j>> : j \in 1..n}           \* (alpha, beta) at grid point j of grid g, inbreeding F
\* the SNP table of the data-dictionary fixture: (called, derived) per population
DDA == {<<6, 5>>, <<6, 2>>, <<6, 3>>, <<6, 4>>, <<6, 0>>, <<5, 3>>, <<5, 2>>}
DDB == {<<4, 3>>, <<4, 2>>, <<4, 0>>, <<4, 1>>}
DDK(to, snps) == {<<to, s[1], s[2]>> : s \in snps}

Needs(b) ==
    CASE b \in {"project_1d_8_4", "project_1d_8_4_open"} -> [Z EXCEPT !.proj = ProjK(4, 8, 0..8)]
      [] b = "project_1d_8_6" -> [Z EXCEPT !.proj = ProjK(6, 8, 0..8)]
      [] b \in {"project_1d_6_4", "project_1d_6_4_folded", "project_2d_64_44", "lowpass_projmat_6_4"} -> [Z EXCEPT !.proj = ProjK(4, 6, 0..6)]
      [] b = "project_2d_64_43" -> [Z EXCEPT !.proj = ProjK(4, 6, 0..6) \cup ProjK(3, 4, 0..4)]
      [] b \in {"from_data_dict_1d_4", "from_data_dict_1d_4_unpol"} -> [Z EXCEPT !.proj = DDK(4, DDA)]
      [] b \in {"from_data_dict_2d_43", "from_data_dict_2d_43_tuples", "bootstraps_from_dd_chunks_5chr"} -> [Z EXCEPT !.proj = DDK(4, DDA) \cup DDK(3, DDB)]
      [] b = "cached_projection_4_6_3" -> [Z EXCEPT !.proj = {<<4, 6, 3>>}]
      [] b \in {"from_phi_2d_43_A", "from_phi_2d_34_A"} -> [Z EXCEPT !.dbeta = {<<4, "A8">>, <<3, "A8">>}]
      [] b = "from_phi_2d_43_B" -> [Z EXCEPT !.dbeta = {<<4, "B8">>, <<3, "B8">>}]
      [] b = "from_phi_3d_432_A" -> [Z EXCEPT !.dbeta = {<<4, "A8">>, <<3, "A8">>, <<2, "A8">>}]
      [] b \in {"from_phi_2d_22_A6", "from_phi_4d_2222", "from_phi_5d_22222"} -> [Z EXCEPT !.dbeta = {<<2, "A6">>}]
      [] b = "from_phi_inb_1d_4" -> [Z EXCEPT !.precalc = PartK(0..4, 2), !.bb = BBK(GridTags("A7", "3/10", 7))]
      [] b = "bootstraps_subsample_vcf_5chr" -> [Z EXCEPT !.proj = ProjK(2, 2, 0..2)]     \* (one diploid individual per population: every SNP projects 2 -> 2)
      [] b = "from_phi_inb_1d_4_F1" -> [Z EXCEPT !.precalc = PartK(0..4, 2), !.bb = BBK(GridTags("A7", "1m", 7))]      \* ("1m": F = 1, used as 1 - 1e-10)
      [] b = "from_phi_inb_2d_42_F1_03" -> [Z EXCEPT !.precalc = PartK(0..4, 2) \cup PartK(0..2, 1),
                                                     !.bb = BBK(GridTags("A7", "1m", 7)) \cup BBK(GridTags("A7", "3/10", 7))]
      [] b = "from_phi_inb_1d_6" -> [Z EXCEPT !.precalc = PartK(0..6, 3), !.bb = BBK(GridTags("A7", "3/10", 7))]
      [] b \in {"from_phi_inb_2d_42", "from_phi_inb_2d_42_arrays"} -> [Z EXCEPT !.precalc = PartK(0..4, 2) \cup PartK(0..2, 1), !.bb = BBK(GridTags("A7", "3/10", 7))]
      [] b = "cached_part_4_3" -> [Z EXCEPT !.part = PartK({4}, 3)]
      [] b = "cached_part_3_3" -> [Z EXCEPT !.part = PartK({3}, 3)]
      [] b = "cached_part_precalc_4_3" -> [Z EXCEPT !.precalc = PartK({4}, 3)]
      [] b = "multinomln_121" -> [Z EXCEPT !.multinom = {<<1, 2, 1>>}]
      [] b = "betabinomln" -> [Z EXCEPT !.bb = {<<1, 2, <<"raw", "3/4", "5/4", 0>>>>}]
      [] b = "betabinomconv_4_3" -> [Z EXCEPT !.precalc = PartK({4}, 3), !.bb = BBK({<<"raw", "3/4", "5/4", 0>>})]
      \* (part_inbreeding_probability uses closed-form inbred Hardy-Weinberg probabilities: no BetaBinomln lookups)
      [] b = "lowpass_projmat_6_4_F" -> [Z EXCEPT !.part = PartK(0..6, 3)]
      [] b = "lowpass_partprob_af_6_4" -> [Z EXCEPT !.part = PartK({4}, 3), !.multinom = MultK({4}, 3)]
      [] b = "lowpass_partprob_af_6_3_F" -> [Z EXCEPT !.part = PartK({3}, 3)]
      [] b = "lowpass_partprob_geno_6" -> [Z EXCEPT !.part = PartK(0..6, 3), !.multinom = MultK(0..6, 3)]
      [] b = "lowpass_calling_error_4" -> [Z EXCEPT !.part = PartK(0..4, 2), !.multinom = MultK(0..4, 2)]
      [] b = "lowpass_prob_enough_6_4" -> Z
      \* low-pass correction of a 2-D model, nseq = (6,6), nsub = (4,4), analytic path: no-call probabilities (genotype
      \* partitions of 6), projection matrices 6 -> 4, calling-error matrices (genotype partitions of 4); model sampled with ns = nseq
      [] b = "lowpass_func_2d" -> [Z EXCEPT !.proj = ProjK(4, 6, 0..6), !.dbeta = {<<6, "A8">>},
                                            !.part = PartK(0..6, 3) \cup PartK(0..4, 2), !.multinom = MultK(0..6, 3) \cup MultK(0..4, 2)]
      [] b \in {"demes_sfs_ancient", "demes_sfs_present", "demes_sfs_present_containers"} -> [Z EXCEPT !.dbeta = {<<4, "A8">>, <<2, "A8">>}]
      [] b = "from_demes_ancient" -> [Z EXCEPT !.dbeta = {<<n, g>> : n \in {4, 2}, g \in {"A5", "A6", "A8"}}]
      [] b = "from_phi_inb_3d_422" -> [Z EXCEPT !.precalc = PartK(0..4, 2) \cup PartK(0..2, 1), !.bb = BBK(GridTags("A7", "3/10", 7))]
      [] b \in {"from_phi_2d_43_A_containers", "from_phi_2d_43_A_tuples"} -> [Z EXCEPT !.dbeta = {<<4, "A8">>, <<3, "A8">>}]
      [] b \in {"project_2d_64_43_nsarray", "project_2d_64_43_nstuple"} -> [Z EXCEPT !.proj = ProjK(4, 6, 0..6) \cup ProjK(3, 4, 0..4)]
      [] b = "lowpass_no_call_6" -> [Z EXCEPT !.part = PartK(0..6, 3), !.multinom = MultK(0..6, 3)]
      [] OTHER -> Z

\* Two footprints depend on the state:
\*  * cached_part_precalc looks a partition up in _part_cache, and its count vectors in _multinomln_cache, only when
\*    its own table misses (nested memo);
\*  * Godambe.cache: the full key of a model spectrum is (function object, stencil point).  A model function written
\*    as a lambda at the call site is a NEW function object in every call ("t<k>" for the k-th call of the
\*    history); a module-level function is the same object in every call ("named").
ModelOf(b) == IF b \in {"fim_A", "gim_A", "fim_A_named", "lrt_A"} \cup GodCB THEN "A" ELSE "B"
GodTransient(b) == b \in {"fim_A", "fim_B", "gim_A", "gim_B", "lrt_A", "lrt_B"} \/ (b \in GodCB /\ GodCRow(b)[3] = "t")
GodNeed(b, k) == IF GodTransient(b) THEN {<<ModelOf(b), "t" \o ToString(k)>>}
                 ELSE IF b \in {"fim_A_named", "fim_B_named"} \cup GodCB THEN {<<ModelOf(b), "named">>} ELSE {}
\* the effective footprint of base b as k-th call, given the stored keys of the precalc table
NeedEff(b, k, prePresent(_)) ==
    LET n0 == Needs(b)
        missing == {q \in n0.precalc : ~prePresent(q)}
    IN [n0 EXCEPT !.godambe = GodNeed(b, k),
                  !.part = @ \cup missing,
                  !.multinom = @ \cup UNION {MultK({q[1]}, q[2]) : q \in missing}]
\* the functions documented as "Alters phi in place": their density argument is exempt from ArgumentsUnchanged
DocumentedInPlace == {"phi_2D_admix_1_into_2", "phi_2D_admix_1_into_2_f0", "phi_3D_admix_1_and_2_into_3", "phi_2D_admix_2_into_1", "phi_3D_admix_1_and_3_into_2",
                      "phi_3D_admix_2_and_3_into_1", "phi_4D_admix_into_1", "phi_4D_admix_into_2", "phi_4D_admix_into_3", "phi_4D_admix_into_4",
                      "phi_5D_admix_into_1", "phi_5D_admix_into_2", "phi_5D_admix_into_3", "phi_5D_admix_into_4", "phi_5D_admix_into_5"}

\* Inference._counter: objective evaluations of the call;  Inference._theta_store: keys it holds after the call
\* (for the optimisers OptB the number is "at least 1": the model uses 1, the trace spec demands >= 1)
Evals(b) == CASE b \in {"object_func_A", "object_func_B_store"} \cup ObjCB \cup OptB -> 1 [] b = "optimize_grid_A" -> 6 [] OTHER -> 0
ThetaAfter(b, th) == CASE b = "object_func_B_store" -> th \cup {"B:p0"}
                       [] b = "optimize_grid_A" -> {"A:g1", "A:g2", "A:g3", "A:g4", "A:g5", "A:g6"}    \* the table is replaced
                       [] OTHER -> th

\* the demes event log: <<"append", k>>, <<"reset", k>> (phi_1D starts a new log; k events afterwards), <<"model", k>>, <<"none">>
LogEffect(b) ==
    IF b \in ExtraB THEN (CASE ExtraRow(b)[4] = "append1" -> <<"append", 1>> [] ExtraRow(b)[4] = "reset2" -> <<"reset", 2>>
                            [] ExtraRow(b)[4] = "reset5" -> <<"reset", 5>> [] OTHER -> <<"none">>) ELSE
    CASE b \in IntB \cup Phim1B \cup PhimNB -> <<"append", 1>>
      [] b \in PhiXB -> <<"reset", 1>>
      [] b \in ObjB \cup GodB -> <<"reset", 2>>          \* the model function: phi_1D ; one_pop
      [] b \in DemesB -> <<"model", 4>>                  \* phi_1D ; one_pop ; phi_1D_to_2D ; two_pops
      [] b = "lowpass_func_2d" -> <<"reset", 3>>         \* the model: phi_1D ; phi_1D_to_2D ; two_pops
      [] b \in {"demes_sfs_ancient", "from_demes_ancient"} -> <<"reset", 8>>    \* (the events Demes._compute_sfs logs for the fixture graph)
      [] b = "demes_sfs_present" -> <<"reset", 5>>
      [] OTHER -> <<"none">>
MapOf(b) == CASE b \in {"demes_output_X", "demes_output_again_X"} -> "X"
              [] b \in {"demes_output_Y", "demes_output_again_Y"} -> "Y"
              [] OTHER -> "none"

\* Compiled kernels hold NO state between calls: the integrators have an empty table footprint and their result is a
\* function of their arguments.  Which drivers hand the grid to a compiled kernel (the time-dependent ones, and
\* four/five_pops always), which kernel family (number of populations), and on which grid:
KernelGrid(b) == b \in {"one_pop_td", "two_pops_td", "three_pops_td", "four_pops_c", "four_pops_td", "five_pops_c", "five_pops_td"} \cup IntKB
KernelOf(b) == CASE b \in {"one_pop_td", "one_pop_td_B"} -> 1 [] b \in {"two_pops_td", "two_pops_td_B"} -> 2
                 [] b \in {"three_pops_td", "three_pops_td_B"} -> 3 [] b \in {"four_pops_c", "four_pops_td", "four_pops_td_B"} -> 4
                 [] OTHER -> 5
GridSize(b) == CASE KernelOf(b) = 1 -> 10 [] KernelOf(b) = 2 -> 8 [] KernelOf(b) = 3 -> 6 [] KernelOf(b) = 4 -> 5 [] OTHER -> 4
GridKind(b) == IF b \in IntKB THEN "B" ELSE "A"
KernelBases == {b \in AllBases : KernelGrid(b)}

\* constant-level tables (TLC evaluates them once)
NeedsF == [b \in AllBases |-> Needs(b)]
SiteF  == [b \in AllBases |-> Site(b)]
AttrF  == [b \in AllBases |-> [evals |-> Evals(b), log |-> LogEffect(b), integ |-> IsIntegrator(b),
                                args |-> (IF PhiLays(b) # LayC \/ b \in IntB \cup PerturbB \cup LowPassFuncB \cup DemesSFSB \cup ExtraB \cup GodCB THEN {1} ELSE {}) \cup (IF XLays(b) # LayC THEN {2} ELSE {}),
                                god |-> b \in GodB]]

\* (left to the 2-call graph: calls whose footprint / bookkeeping duplicates another memo-relevant base)
MemoSkip == ((OptB \ {"optimize_log_A"}) \cup {"from_phi_2d_43_A_containers", "project_2d_64_43_nsarray"}) \ ContainerB
MemoBases == ({b \in AllBases : Needs(b) # Z \/ b \in GodB \/ Evals(b) > 0 \/ b \in DemesB} \ (MemoSkip \cup ContainerB)) \cup {"part_4_3", "four_pops_c", "one_pop_td", "phi_1D", "perturb_params_none_bounds", "lowpass_cov_dist_2pop",
                  "one_pop_td_B", "two_pops_td", "two_pops_td_B"}
\* one representative of every kind of table interaction (for the deeper exhaustive run)
CoreBases == {"project_1d_8_4", "project_1d_6_4", "project_2d_64_43", "from_data_dict_1d_4", "lowpass_projmat_6_4", "cached_projection_4_6_3",
              "from_phi_2d_43_A", "from_phi_2d_43_B", "from_phi_3d_432_A", "from_phi_4d_2222", "from_phi_2d_22_A6",
              "from_phi_inb_1d_4", "from_phi_inb_2d_42", "cached_part_4_3", "cached_part_precalc_4_3", "betabinomconv_4_3",
              "lowpass_projmat_6_4_F", "lowpass_partprob_af_6_4", "lowpass_calling_error_4",
              "fim_A", "fim_B", "fim_A_named", "gim_B", "object_func_B_store", "optimize_grid_A",
              "demes_output_X", "demes_output_again_Y", "demes_output_again_none", "four_pops_c", "phi_1D",
              "lowpass_func_2d", "demes_sfs_ancient", "one_pop_td", "one_pop_td_B"}
\* the quick tier's depth-3 run: one call per mechanism (table family / bookkeeping / kernel / hash order)
QuickCoreBases == {"project_1d_6_4", "from_data_dict_1d_4", "lowpass_projmat_6_4", "from_phi_2d_43_A", "from_phi_2d_43_B", "from_phi_3d_432_A",
                   "from_phi_inb_1d_4", "cached_part_precalc_4_3", "betabinomconv_4_3", "lowpass_partprob_af_6_4",
                   "fim_A", "fim_B", "fim_A_named", "object_func_B_store", "optimize_grid_A", "demes_output_X", "demes_output_again_Y",
                   "one_pop_td", "one_pop_td_B", "lowpass_func_2d", "demes_sfs_ancient"}
Bases == CASE BaseSel = "memo" -> MemoBases
           [] BaseSel = "quickcore" -> QuickCoreBases
           [] BaseSel = "graph" -> MemoBases \cup KernelBases \cup MemoSkip
           [] BaseSel = "core" -> CoreBases
           [] BaseSel = "god" -> {"fim_A", "fim_B", "fim_A_named"}
           [] BaseSel = "godall" -> GodB0
           [] BaseSel = "all2" -> AllBases \ ContainerB      \* (the 2-call graph over every layout: container variants are left to the 1-call graph)
           [] OTHER -> AllBases
CallOK(c) == /\ c.lay \in PhiLays(c.b) /\ c.xl \in XLays(c.b)
             /\ (LaySel = "C" => c.lay = "C" /\ c.xl = "C")
Alphabet == {c \in {[b |-> b, lay |-> l, xl |-> x] : b \in Bases, l \in LayN \cup {"V"}, x \in Lay1} : CallOK(c)}
CallId(c) == c.b \o "|" \o c.lay \o "|" \o c.xl

\* ------------------------------------------------------------------ the implementation model
\* what the code uses as dictionary key for a full key
Addr == {"a1", "a2"}        \* addresses a transient function object can be allocated at
Key(t, fk, adr) ==
    CASE t = "proj"  /\ ProjKeyMode = "no_from"   -> <<fk[1], fk[3]>>
      [] t = "dbeta" /\ DbetaKeyMode = "len_only" -> <<fk[1], IF fk[2] \in {"A8", "B8"} THEN "len8" ELSE fk[2]>>
      [] t = "part"  /\ PartKeyMode = "no_n"      -> <<fk[1], fk[3], fk[4]>>
      [] t = "godambe" /\ GodMode = "address" /\ fk[2] # "named" -> <<adr, "lambda">>
      [] OTHER -> fk

VARIABLES tabs,     \* [table -> [stored key -> [fk |-> provenance, by |-> base that stored it]]]
          counter,  \* Inference._counter
          theta,    \* keys of Inference._theta_store
          dlog,     \* the demes event log: [len, owner ("none" | "m1"), names ("raw" | "X" | "Y"), by (base that built it)]
          hist,     \* the calls made so far (call ids)
          kern,     \* per kernel family: the grid the last call handed to it, [kind, n, by]  (history bookkeeping; it is
                    \* implementation state only in the defective design KernelMode = "static_by_size")
          heap,     \* the array objects of the last call: [id -> [role, layout, version]]
          res       \* what the last call returned / did (the observation the refinement is about)
vars == <<tabs, counter, theta, dlog, hist, kern, heap, res>>

NoRes == [call |-> "", b |-> "", used |-> {}, value |-> <<>>, result |-> 0, args |-> {}, pairs |-> {}]

\* lookups of one call in one table: every needed full key whose stored key is present uses the stored value;
\* the others are computed and stored (if two needed full keys share a stored key, one of them is stored first
\* and serves the other)
Present(t, fk, adr) == Key(t, fk, adr) \in DOMAIN tabs[t]
GroupOf(t, fk, need, adr) == {g \in need : Key(t, g, adr) = Key(t, fk, adr)}
First(t, fk, need, adr) == CHOOSE g \in GroupOf(t, fk, need, adr) : TRUE
UsedProv(t, fk, need, adr) == IF Present(t, fk, adr) THEN tabs[t][Key(t, fk, adr)].fk ELSE First(t, fk, need, adr)
NewEntries(t, need, adr, b) == {k \in {Key(t, fk, adr) : fk \in need} : k \notin DOMAIN tabs[t]}
TableAfter(t, need, adr, b) ==
    LET new == NewEntries(t, need, adr, b) IN
    [k \in DOMAIN tabs[t] \cup new |->
        IF k \in DOMAIN tabs[t] THEN tabs[t][k]
        ELSE [fk |-> First(t, CHOOSE fk \in need : Key(t, fk, adr) = k, need, adr), by |-> b]]

Normalises(b) == EntryMode # "raw45" \/ SiteF[b] \notin {"Integration.four_pops", "Integration.five_pops"}
\* an epoch of zero duration returns before any work: with the copy taken late, what it returns is the caller's array
ReturnsInput(b) == EntryMode = "late_copy" /\ b \in ZeroDurB
KernelSeesC(c) == /\ (Normalises(c.b) \/ c.lay = "C")
                  /\ (XXMode = "contig" \/ ~KernelGrid(c.b) \/ c.xl = "C")

NoGrid == [kind |-> "", n |-> 0, by |-> ""]
SameSizeOtherGrid(b) == KernelGrid(b) /\ kern[KernelOf(b)].n = GridSize(b) /\ kern[KernelOf(b)].kind # GridKind(b)

DemesValue(b) ==   \* the names the exported graph carries
    LET want == MapOf(b)
        stale == DemesMode = "storeback" /\ b \in DemesAgainB /\ dlog.owner = "m1" /\ dlog.names # "raw"
    IN  <<"graph", "m1", IF stale THEN dlog.names ELSE want>>

Call(c) ==
    LET b == c.b
        PrePresent(q) == Present("precalc", q, "named")
        n0 == NeedsF[b]
        need == IF n0.precalc = {} /\ ~AttrF[b].god THEN n0 ELSE NeedEff(b, Len(hist) + 1, PrePresent)
        touched == {t \in Tables : need[t] # {}}
    IN
    /\ Len(hist) < MaxDepth
    /\ \E adr \in (IF b \in GodTransB /\ GodMode = "address" THEN Addr ELSE {"named"}) :
      \* the interpreter's string-hash order of the two population labels (matters only if some result follows set order)
      \E hs \in (IF b = "lowpass_func_2d" /\ HashMode = "set_order" THEN {"labels_in_order", "labels_swapped"} ELSE {"labels_in_order"}) :
        /\ tabs' = [t \in Tables |-> IF t \in touched THEN TableAfter(t, need[t], adr, b) ELSE tabs[t]]
        /\ LET used == UNION {{<<t, fk, UsedProv(t, fk, need[t], adr)>> : fk \in need[t]} : t \in touched}
               pairs == UNION {{<<tabs[t][Key(t, fk, adr)].by, b, t>> : fk \in {f \in need[t] : Present(t, f, adr)}} : t \in touched}
                        \cup (IF b \in DemesAgainB /\ dlog.owner = "m1" THEN {<<dlog.by, b, "demeslog">>} ELSE {})
                        \* a kernel that is handed a grid of the size, but not the spacings, of its previous call
                        \cup (IF SameSizeOtherGrid(b) THEN {<<kern[KernelOf(b)].by, b, "kernel">>} ELSE {})
               inplace == \/ (AttrF[b].integ /\ ~Normalises(b)) \/ (b \in PerturbB /\ PerturbMode = "rewrites_none")
                          \/ b \in DocumentedInPlace
                          \/ (b \in {"demes_sfs_ancient", "from_demes_ancient"} /\ SFSMode = "callers_list")
                          \/ (b \in NestedThF64 /\ VectorMode = "callers_array")
               ownerwrite == MaskMode = "rebind" /\ b \in MasksCornersB /\ c.lay \in {"S", "N", "V"}
               args == AttrF[b].args
               value == IF b \in DemesB THEN DemesValue(b)
                        ELSE IF AttrF[b].integ /\ ~KernelSeesC(c) THEN <<"garbage", b, c.lay, c.xl>>
                        ELSE IF hs = "labels_swapped" THEN <<"coverage_of_the_other_population", b>>
                        ELSE IF KernelMode = "static_by_size" /\ SameSizeOtherGrid(b) THEN <<"stale_grid_spacings", b>>
                        ELSE <<"F", b>>
               result == IF (inplace /\ AttrF[b].integ) \/ ReturnsInput(b) THEN 1 ELSE 3
               \* version: writes made by the call;  wversion: after the caller's follow-up, in-place work on the RESULT object
           IN /\ heap' = [id \in args \cup {3} |->
                            LET w == IF id = result THEN 1 ELSE 0 IN
                            IF id = 1 THEN [role |-> "array", layout |-> c.lay, version |-> IF inplace THEN 1 ELSE 0, wversion |-> (IF inplace THEN 1 ELSE 0) + w,
                                                 oversion |-> IF inplace \/ ownerwrite THEN 1 ELSE 0]      \* (oversion: the buffers the argument is a view of)
                            ELSE IF id = 2 THEN [role |-> "grid", layout |-> c.xl, version |-> 0, wversion |-> w, oversion |-> 0]
                            ELSE [role |-> "result", layout |-> "C", version |-> 0, wversion |-> w, oversion |-> 0]]
              /\ res' = [call |-> CallId(c), b |-> b, used |-> used, value |-> value,
                         result |-> result, args |-> args, pairs |-> pairs]
    /\ counter' = counter + AttrF[b].evals
    /\ theta' = ThetaAfter(b, theta)
    /\ dlog' = LET allhit == AttrF[b].god /\ \A fk \in GodNeed(b, Len(hist) + 1) : \E adr \in Addr \cup {"named"} : Present("godambe", fk, adr)
                   \* a model function whose spectra are all served from Godambe.cache is never called: the log is untouched
                   e == IF allhit /\ GodMode = "object" THEN <<"none">> ELSE AttrF[b].log IN
               CASE e[1] = "append" -> [len |-> dlog.len + e[2], owner |-> "none", names |-> "raw", by |-> b]
                 [] e[1] = "reset"  -> [len |-> e[2], owner |-> "none", names |-> "raw", by |-> b]
                 [] e[1] = "model"  ->
                      LET rebuilt == ~(b \in DemesAgainB /\ dlog.owner = "m1")
                          applied == DemesValue(b)[3]
                      IN [len |-> IF rebuilt THEN e[2] ELSE dlog.len, owner |-> "m1", by |-> b,
                          names |-> IF DemesMode = "storeback" /\ applied # "none" THEN applied
                                    ELSE IF rebuilt THEN "raw" ELSE dlog.names]
                 [] OTHER -> dlog
    /\ kern' = IF KernelGrid(b) THEN [kern EXCEPT ![KernelOf(b)] = [kind |-> GridKind(b), n |-> GridSize(b), by |-> b]] ELSE kern
    /\ hist' = Append(hist, CallId(c))

Init == /\ tabs = [t \in Tables |-> <<>>] /\ counter = 0 /\ theta = {} /\ hist = <<>>
        /\ dlog = [len |-> 0, owner |-> "none", names |-> "raw", by |-> ""]
        /\ heap = <<>> /\ res = NoRes /\ kern = [k \in 1..5 |-> NoGrid]
Next == \E c \in Alphabet : Call(c)
Spec == Init /\ [][Next]_vars

\* exhaustive runs identify histories that lead to the same tables / bookkeeping and end in the same call
MCView == <<tabs, counter, theta, dlog, kern, heap, res, Len(hist)>>
TableBound == \A t \in Tables : Cardinality(DOMAIN tabs[t]) <= MaxTable

\* behaviour generation (tlc -simulate): print every complete random history
EmitHist == (Len(hist) = MaxDepth) => PrintT(<<"HIST", hist>>)

\* ------------------------------------------------------------------ MemoFree: the result as a function of the call only
ResultSpecF == [b \in AllBases |-> [value |-> IF b \in DemesB THEN <<"graph", "m1", MapOf(b)>> ELSE <<"F", b>>]]
ResultSpec(b) == ResultSpecF[b]

\* the refinement Memo => MemoFree, step by step
\* (every memoised value the call used is the value of the full key it was looked up for)
ResultIndependentOfHistory ==
    res.b # "" => /\ \A u \in res.used : u[3] = u[2]
                  /\ res.b \in DemesB => res.value = ResultSpec(res.b).value
                  /\ res.value[1] # "stale_grid_spacings"
ResultIndependentOfHashSeed == res.b # "" => res.value[1] # "coverage_of_the_other_population"
LayoutIndependent          == (res.b # "" /\ res.b \notin DemesB /\ res.value[1] \notin {"coverage_of_the_other_population", "stale_grid_spacings"})
                                 => res.value = ResultSpec(res.b).value
ArgumentsUnchanged         == res.b # "" => \A id \in res.args : (heap[id].version = 0 /\ heap[id].oversion = 0) \/ (id = 1 /\ res.b \in DocumentedInPlace)
ResultIsFresh              == (res.b # "" /\ AttrF[res.b].integ) => /\ res.result \notin res.args
                                                                        /\ \A id \in res.args : heap[id].wversion = heap[id].version
\* the inductive reason: every stored value is the value of its own stored key's full key
TablesSound == \A t \in Tables : \A k \in DOMAIN tabs[t] : \A adr \in Addr \cup {"named"} :
                   (t # "godambe" \/ GodMode = "object") => Key(t, tabs[t][k].fk, adr) = k
TypeOK == /\ counter \in Nat /\ dlog.len \in Nat /\ Len(hist) <= MaxDepth
          /\ \A t \in Tables : \A k \in DOMAIN tabs[t] : tabs[t][k].by \in AllBases
\* every call of the alphabet is named by the evaluator's vocabulary exactly once
AlphabetOK == \A b \in AllBases : Site(b) # "?"
=============================================================================
