CONSTANTS
  MaxSeq = 8
  CovDen = 3
  Lip = "2"
  Fs <- FsQuick
  Thresholds <- ThrQuick
SPECIFICATION Spec
CHECK_DEADLOCK FALSE
INVARIANT TypeOK
INVARIANT L_Partitions
INVARIANT L_PartProbs
INVARIANT L_GenoHW
INVARIANT L_ProjInb
INVARIANT L_ProjMatrix
INVARIANT L_ProjRandomMating
INVARIANT L_CallErr
INVARIANT L_NoCallSemantics
INVARIANT L_NoCall
INVARIANT L_Enough
INVARIANT L_Continuity
INVARIANT L_Total
INVARIANT L_StageTotals
INVARIANT L_Corrected
INVARIANT L_TwoPops
INVARIANT L_DeepIsProjection
INVARIANT L_PointMass
