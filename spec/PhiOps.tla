------------------------------- MODULE PhiOps -------------------------------
(***************************************************************************)
(* Property C06.  The density phi of dadi as an abstract value and the     *)
(* operations of dadi/PhiManip.py that create, ad-mix, remove and reorder  *)
(* populations.                                                            *)
(*                                                                         *)
(* A density is a record [sh |-> <<n1,...,nP>>, d |-> flat C-order         *)
(* sequence of rationals]; population k lives on the grid gs[k], a         *)
(* strictly increasing sequence of n_k rationals from 0 to 1.  Index       *)
(* tuples are 0-based (module SpectrumOps: Size, Stride, Unflat, Flat,     *)
(* InsertAt, RemoveAt); grids are 1-based sequences, so the frequency of   *)
(* 0-based grid index i is g[i + 1].                                       *)
(*                                                                         *)
(* Integrals are trapezoid sums; "exactly unchanged" in the property is    *)
(* meant with respect to them.                                             *)
(***************************************************************************)
EXTENDS SpectrumOps

\* TLC builds [k \in S |-> e] lazily and re-evaluates e at every application; Force evaluates the
\* entries once (Rat!RForce is the identity as far as the meaning is concerned)
Force(f) == RForce(f)

(***************************************************************************)
(* Grid helpers (prefix PG_: private copies, to be unified with Grid.tla)  *)
(***************************************************************************)
PG_IsGrid(g) == Len(g) >= 2 /\ \A i \in 1..(Len(g) - 1) : RLt(g[i], g[i + 1])
PG_X(g, i)   == g[i + 1]                                   \* frequency of 0-based point i
PG_Dx(g, i)  == RSub(g[i + 2], g[i + 1])                   \* spacing between 0-based points i, i+1
\* trapezoid weight of 0-based point i: half the distance between its neighbours (one-sided at the ends)
PG_W(g, i)   == RHalf(RAdd(IF i > 0 THEN PG_Dx(g, i - 1) ELSE "0",
                           IF i < Len(g) - 1 THEN PG_Dx(g, i) ELSE "0"))
PG_Weights(g) == Force([v \in 1..Len(g) |-> PG_W(g, v - 1)])

\* index arithmetic with the strides computed once per array
PStrides(sh)   == Force([j \in 1..Len(sh) |-> Stride(sh, j)])
PUnflat(sh, st, k) == [j \in 1..Len(sh) |-> ((k - 1) \div st[j]) % sh[j]]
PFlat(sh, ix)  == LET RECURSIVE go(_, _)
                      go(j, acc) == IF j > Len(sh) THEN acc + 1 ELSE go(j + 1, acc * sh[j] + ix[j])
                  IN go(1, 0)
PhiAt(phi, ix)  == phi.d[PFlat(phi.sh, ix)]
PhiMk(sh, D(_)) == LET st == PStrides(sh) IN [sh |-> sh, d |-> Force([k \in 1..Size(sh) |-> D(PUnflat(sh, st, k))])]
PhiWellFormed(phi, gs) == /\ Len(phi.d) = Size(phi.sh) /\ Len(gs) = Len(phi.sh)
                          /\ \A k \in 1..Len(gs) : Len(gs[k]) = phi.sh[k] /\ PG_IsGrid(gs[k])

\* integrate axis a (1-based) of phi out, with arbitrary per-point weights wt (1-based sequence):
\* result[ix] = sum_v wt[v] * phi[InsertAt(ix, a, v - 1)]
PG_WSum(phi, wt, a) ==
    LET n     == phi.sh[a]
        inner == Stride(phi.sh, a)                       \* flat distance between neighbours on axis a
        sh2   == RemoveAt(phi.sh, a)
        base(k2) == ((k2 - 1) \div inner) * n * inner + ((k2 - 1) % inner) + 1
    IN  [sh |-> sh2,
         d  |-> Force([k2 \in 1..Size(sh2) |-> RSum([v \in 1..n |-> RMul(wt[v], phi.d[base(k2) + (v - 1) * inner])])])]
\* trapezoid integral over the population on axis a, which lives on grid g   (Numerics.trapz)
PG_Trapz(phi, g, a)   == PG_WSum(phi, PG_Weights(g), a)
\* first moment  int x phi dx  along axis a
PG_Moment1(phi, g, a) == PG_WSum(phi, Force([v \in 1..Len(g) |-> RMul(PG_W(g, v - 1), g[v])]), a)

(***************************************************************************)
(* Deposition of a frequency z onto the grid g of a new axis               *)
(***************************************************************************)
\* 0-based index of the upper bracketing point: numpy.searchsorted(g, z) (= number of grid
\* points strictly below z), clamped to 1 .. n-1.  The lower point is the one before it.
PhiBracket(z, g) ==
    LET c == Cardinality({i \in 1..Len(g) : RLt(g[i], z)})
        u == IF c < 1 THEN 1 ELSE c
    IN  IF u > Len(g) - 1 THEN Len(g) - 1 ELSE u

\* A unit of density at frequency z is shared linearly between the two bracketing points
\* (fractions fl, fu = 1 - fl) and normalised so that the trapezoid integral along g is 1.
PhiDeposit(z, g) ==
    LET u  == PhiBracket(z, g)
        l  == u - 1
        zu == PG_X(g, u)
        zl == PG_X(g, l)
        fl == RDiv(RSub(zu, z), RSub(zu, zl))
        fu == RDiv(RSub(z, zl), RSub(zu, zl))
        nrm == RAdd(RMul(fl, PG_W(g, l)), RMul(fu, PG_W(g, u)))
    IN  [l |-> l, u |-> u, vl |-> RDiv(fl, nrm), vu |-> RDiv(fu, nrm)]
NoDeposit == [l |-> -1, u |-> -1, vl |-> "0", vu |-> "0"]
DepositAt(dep, k) == IF k = dep.l THEN dep.vl ELSE IF k = dep.u THEN dep.vu ELSE "0"

\* independent characterisation used by the laws: hat (linear interpolation) function of point k
PhiHat(g, k, z) ==
    LET x == PG_X(g, k) IN
    IF z = x THEN "1"
    ELSE IF k > 0 /\ RLt(PG_X(g, k - 1), z) /\ RLt(z, x) THEN RDiv(RSub(z, PG_X(g, k - 1)), RSub(x, PG_X(g, k - 1)))
    ELSE IF k < Len(g) - 1 /\ RLt(x, z) /\ RLt(z, PG_X(g, k + 1)) THEN RDiv(RSub(PG_X(g, k + 1), z), RSub(PG_X(g, k + 1), x))
    ELSE "0"

(***************************************************************************)
(* Creating a population                                                   *)
(***************************************************************************)
UnitVec(P, k) == [j \in 1..P |-> IF j = k THEN "1" ELSE "0"]
\* frequency in a population composed of fractions props[k] of the existing populations
MixFreq(props, gs, ix) == RSum([k \in 1..Len(props) |-> RMul(props[k], gs[k][ix[k] + 1])])

\* new last axis on grid gnew; props = composition of the new population (one entry per
\* existing population, summing to 1)
PhiAdmixNew(phi, gs, props, gnew) ==
    LET n   == Len(gnew)
        st  == PStrides(phi.sh)
        dep == Force([j \in 1..Size(phi.sh) |->
                  IF phi.d[j] = "0" THEN NoDeposit ELSE PhiDeposit(MixFreq(props, gs, PUnflat(phi.sh, st, j)), gnew)])
    IN  [sh |-> Append(phi.sh, n),
         d  |-> Force([k2 \in 1..(Size(phi.sh) * n) |->
                   LET j == ((k2 - 1) \div n) + 1
                       k == (k2 - 1) % n
                   IN  IF phi.d[j] = "0" THEN "0" ELSE RMul(phi.d[j], DepositAt(dep[j], k))])]

\* N-D split: the new population is a copy of population k
PhiSplit(phi, gs, k, gnew) == PhiAdmixNew(phi, gs, UnitVec(Len(gs), k), gnew)

\* 1-D -> 2-D split as dadi does it: diagonal density, the two end points of the grid are dropped
PhiSplit1D(phi, g) ==
    LET n == Len(g) IN
    [sh |-> <<n, n>>,
     d  |-> Force([k2 \in 1..(n * n) |->
               LET i == (k2 - 1) \div n
                   j == (k2 - 1) % n
               IN  IF i = j /\ i > 0 /\ i < n - 1 THEN RDiv(phi.d[i + 1], PG_W(g, i)) ELSE "0"])]

(***************************************************************************)
(* Removing, filtering, reordering                                         *)
(***************************************************************************)
PhiRemove(phi, g, a) == PG_Trapz(phi, g, a)
\* keep = set of 1-based axes; the others are integrated out (all on grid g), highest first
RECURSIVE PhiRemoveAll(_, _, _)
PhiRemoveAll(phi, g, over) ==
    IF over = {} THEN phi
    ELSE LET a == CHOOSE x \in over : \A y \in over : y <= x IN PhiRemoveAll(PhiRemove(phi, g, a), g, over \ {a})
PhiFilter(phi, g, keep) == PhiRemoveAll(phi, g, (1..Len(phi.sh)) \ keep)

IsPerm(perm, P) == Len(perm) = P /\ \A o \in 1..P : \E j \in 1..P : perm[j] = o
\* perm[j] = the old axis (1-based) that becomes new axis j
PhiReorder(phi, perm) ==
    LET sh2 == [j \in 1..Len(perm) |-> phi.sh[perm[j]]]
        st2 == PStrides(sh2)
        sto == PStrides(phi.sh)
        old(k) == LET ix == PUnflat(sh2, st2, k) IN 1 + ISum([j \in 1..Len(perm) |-> ix[j] * sto[perm[j]]])
    IN  [sh |-> sh2, d |-> Force([k \in 1..Size(sh2) |-> phi.d[old(k)]])]
ReorderSeq(q, perm) == [j \in 1..Len(perm) |-> q[perm[j]]]
\* the permutation that moves the last of P axes to position a
MoveLastTo(P, a) == [j \in 1..P |-> IF j < a THEN j ELSE IF j = a THEN P ELSE j - 1]
\* the permutation that moves axis a to the last position
MoveToLast(P, a) == [j \in 1..P |-> IF j < a THEN j ELSE IF j = P THEN a ELSE j + 1]

(***************************************************************************)
(* Pulse of admixture into the existing population dest                    *)
(* props = composition of population dest after the pulse (props[dest] is  *)
(* the fraction it keeps).  As in dadi: create the ad-mixed population on  *)
(* a temporary axis with dest's grid, integrate the old dest out, and put  *)
(* the new axis in its place.                                              *)
(***************************************************************************)
PhiPulse(phi, gs, dest, props) ==
    LET T == PhiAdmixNew(phi, gs, props, gs[dest])
        M == PG_Trapz(T, gs[dest], dest)
    IN  PhiReorder(M, MoveLastTo(Len(gs), dest))

\* total mass: all axes integrated out
RECURSIVE PhiMass(_, _)
PhiMass(phi, gs) == IF Len(gs) = 0 THEN phi.d[1]
                    ELSE PhiMass(PG_Trapz(phi, gs[Len(gs)], Len(gs)), SubSeq(gs, 1, Len(gs) - 1))

\* ---- proportion vectors as dadi's functions take them ----
\* dadi passes the proportions fs of the source populations src (increasing population
\* numbers); the remaining population dest receives the complement
FullProps(P, src, fs, dest) ==
    [j \in 1..P |-> IF j = dest THEN RSub("1", RSum(fs))
                    ELSE LET m == CHOOSE q \in 1..Len(src) : src[q] = j IN fs[m]]
InSimplex(fs) == (\A m \in 1..Len(fs) : RNonNeg(fs[m])) /\ RLeq(RSum(fs), "1")
=============================================================================
