CONSTANTS
  MaxSeq = 4
  CovDen = 4
  Lip = "2"
  Fs <- FsQuick
  Thresholds <- ThrQuick
SPECIFICATION Spec
CHECK_DEADLOCK FALSE
INVARIANT L_TwoPops
