----------------------------- MODULE Trace_Memo -----------------------------
(***************************************************************************)
(* Behaviour replay for C20, judged by TLC.  A trace is a sequence of      *)
(* histories produced by TLC from spec/Memo.tla (transition cover of the   *)
(* exhaustive graph and -simulate runs).  Every history was replayed call  *)
(* by call in ONE process against the real dadi; a record is one call:     *)
(*   out      digest / sample values of what the call returned,            *)
(*   fresh    the same call evaluated in processes that had done nothing   *)
(*            else (under other PYTHONHASHSEEDs),                          *)
(*   contig   the fresh result of the same call with contiguous arguments, *)
(*   args     bit-for-bit digests of every array / list / tuple argument   *)
(*            (the caller's own objects) before and after, whether the     *)
(*            result shares memory with it, and (integrators) the digest   *)
(*            after the result was rewritten in place by the caller,       *)
(*   tab      the lookups (hit / miss) and insertions the call made in     *)
(*            each memo table (observed by a logging dict), in the key     *)
(*            vocabulary of Memo.tla,                                      *)
(*   counter, ntheta, dlen   Inference._counter, len(_theta_store),        *)
(*            len(Demes.cache) after the call.                             *)
(* This module steps the Memo machine along each history (tables, counter, *)
(* event log) and computes the set of violated clauses of each record.     *)
(***************************************************************************)
EXTENDS Memo, Rat, Json, IOUtils
CONSTANTS TolLayout      \* relative tolerance where a reduction order may legitimately depend on the layout

Trace == JsonDeserialize(IOEnv.TRACE_FILE)
VARIABLE l
tvars == <<l, tabs, counter, theta, dlog, hist, kern, heap, res>>

F(name, ok) == IF ok THEN {} ELSE {name}
ToSet(q) == {q[j] : j \in 1..Len(q)}
ExactTables == Tables \ {"godambe"}

\* ---- comparison of two float sequences at the layout tolerance (non-finite entries must agree as tokens)
RECURSIVE MaxAbsNum(_, _, _)
MaxAbsNum(s, j, m) == IF j > Len(s) THEN m ELSE MaxAbsNum(s, j + 1, IF IsNum(s[j]) THEN RMax(m, RAbs(s[j])) ELSE m)
CloseSeq(a, b) ==
    /\ Len(a) = Len(b)
    /\ LET bound == RMul(TolLayout, MaxAbsNum(b, 1, "0")) IN
       \A j \in 1..Len(a) : IF IsNum(b[j]) THEN IsNum(a[j]) /\ RLeq(RAbs(RSub(a[j], b[j])), bound) ELSE a[j] = b[j]

SameObs(x, y) == x.dig = y.dig /\ x.vals = y.vals

\* ---- clauses of one record r, given the machine state before the call
Known(r) == /\ r.base \in AllBases
            /\ r.lay \in PhiLays(r.base) /\ r.xl \in XLays(r.base)
            /\ r.site = Site(r.base)

FValue(r) ==
    F("CallCompletes", r.out.dig # "CRASH") \cup
    F("ResultIndependentOfHistory", \A j \in 1..Len(r.fresh) : SameObs(r.out, r.fresh[j])) \cup
    F("ResultIndependentOfHashSeed", \A j \in 1..Len(r.fresh) : SameObs(r.fresh[1], r.fresh[j])) \cup
    (IF r.lay = "C" /\ r.xl = "C" THEN {}
     ELSE F("LayoutIndependent",
            \/ SameObs(r.out, r.contig)
            \/ /\ ~LayoutExact(r.base)
               /\ "outfull" \in DOMAIN r /\ "contigfull" \in DOMAIN r
               /\ CloseSeq(r.outfull, r.contigfull)))

FArgs(r) ==
    F("ArgumentsUnchanged", \A j \in 1..Len(r.args) :
          \* (obefore / oafter: the buffers that own the memory the argument is a view of - data and mask - collected before the call)
          (r.base \in DocumentedInPlace /\ r.args[j].name = "phi") \/ (r.args[j].before = r.args[j].after /\ r.args[j].obefore = r.args[j].oafter)) \cup
    \* an integrator's result shares no memory with any argument, and after the follow-up (every entry of the result
    \* rewritten in place by the caller) every argument still has the digest it had when the call returned
    (IF IsIntegrator(r.base) THEN F("ResultIsFresh", \A j \in 1..Len(r.args) : ~r.args[j].shares /\ r.args[j].afterw = r.args[j].after) ELSE {})

\* the state of the machine before the call: a history starts (k = 1) from a process that has only imported dadi
S0 == [tabs |-> [t \in Tables |-> {}], counter |-> 0, theta |-> {}, dlog |-> [len |-> 0, owner |-> "none", names |-> "raw", by |-> ""]]
Pre(r) == IF r.k = 1 THEN S0 ELSE [tabs |-> tabs, counter |-> counter, theta |-> theta, dlog |-> dlog]

\* memo tables: the lookups are the declared footprint; found = those stored earlier in this history; inserted = missed
TabOK(r, P, t) ==
    LET o == r.tab[t]
        hit == ToSet(o.hit) miss == ToSet(o.miss) new == ToSet(o.new)
        PrePresent(q) == q \in P.tabs["precalc"]
        need == NeedEff(r.base, r.k, PrePresent)
    IN /\ o.alien = <<>>          \* every key the call used is expressible in the spec's key vocabulary
       /\ hit \subseteq P.tabs[t]
       /\ miss \cap P.tabs[t] = {}
       /\ new = miss
       /\ IF t = "godambe"        \* (the stencil points are not enumerated: every key must belong to this call's function object)
          THEN \A k \in hit \cup miss : <<k[1], k[2]>> \in need[t]
          ELSE hit \cup miss = need[t]
FTables(r, P) ==
    F("FootprintAsDeclared", \A t \in Tables : TabOK(r, P, t)) \cup
    F("CachedValuesImmutable", r.unstable = <<>>)

LogLenAfter(r, P) ==
    LET e == IF r.base \in GodB /\ r.tab["godambe"].miss = <<>> THEN <<"none">> ELSE LogEffect(r.base) IN
    CASE e[1] = "append" -> P.dlog.len + e[2]
      [] e[1] = "reset"  -> e[2]
      [] e[1] = "model"  -> IF r.base \in DemesAgainB /\ P.dlog.owner = "m1" THEN P.dlog.len ELSE e[2]
      [] OTHER -> P.dlog.len
FState(r, P) ==
    F("BookkeepingAsDeclared",
        /\ IF r.base \in OptB THEN r.counter >= P.counter + 1 ELSE r.counter = P.counter + Evals(r.base)
        /\ r.ntheta = Cardinality(ThetaAfter(r.base, P.theta))
        /\ r.dlen = LogLenAfter(r, P))

Failed(r) ==
    IF ~Known(r) THEN {"UnknownCall"}
    ELSE IF "crashed" \in DOMAIN r THEN FValue(r)
    ELSE FValue(r) \cup FArgs(r) \cup FTables(r, Pre(r)) \cup FState(r, Pre(r))

\* ---- the machine follows what was observed (so that one bad record does not condemn the rest of its history)
TInit == /\ l = 0 /\ tabs = S0.tabs /\ counter = 0 /\ theta = {} /\ hist = <<>>
         /\ dlog = S0.dlog /\ heap = <<>> /\ res = NoRes /\ kern = [k \in 1..5 |-> NoGrid]
TNext ==
    /\ l < Len(Trace)
    /\ l' = l + 1
    /\ LET r == Trace[l + 1]
           f == Failed(r)
       IN IF f = {} THEN TRUE ELSE PrintT(<<"BAD", r.id, f>>)
    /\ LET r == Trace[l + 1]
           P == Pre(r)
       IN IF ~Known(r) \/ "crashed" \in DOMAIN r
          THEN /\ tabs' = P.tabs /\ counter' = P.counter /\ theta' = P.theta /\ dlog' = P.dlog
          ELSE /\ tabs' = [t \in Tables |-> P.tabs[t] \cup ToSet(r.tab[t].new)]
               /\ counter' = r.counter
               /\ theta' = ThetaAfter(r.base, P.theta)
               /\ dlog' = LET e == IF r.base \in GodB /\ r.tab["godambe"].miss = <<>> THEN <<"none">> ELSE LogEffect(r.base) IN
                          [len |-> r.dlen,
                           owner |-> IF e[1] = "model" THEN "m1" ELSE IF e[1] = "none" THEN P.dlog.owner ELSE "none",
                           names |-> "raw", by |-> r.base]
    /\ UNCHANGED <<hist, kern, heap, res>>
TSpec == TInit /\ [][TNext]_tvars
Done == (l = Len(Trace)) => PrintT(<<"DONE", l>>)
AllConsumed == TLCGet("stats").diameter - 1 = Len(Trace)
=============================================================================
