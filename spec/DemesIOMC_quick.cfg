CONSTANTS
  MaxBlocks = 3
  MaxPops = 3
  Rich = FALSE
  Gen = FALSE
  Grow = FALSE
SPECIFICATION Spec
CHECK_DEADLOCK FALSE
INVARIANT L_Exportable
INVARIANT L_RoundTrip
INVARIANT L_RoundTripYears
INVARIANT L_DefaultNe
INVARIANT L_ExportUnits
INVARIANT L_Scale
INVARIANT L_Units
INVARIANT L_Permute
INVARIANT L_AncientFrozen
INVARIANT L_AncientBoundary
