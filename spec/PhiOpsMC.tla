----------------------------- MODULE PhiOpsMC -----------------------------
(***************************************************************************)
(* Exhaustive exploration of the density state machine of C06: the state   *)
(* is one density with its grids, each operation of PhiManip is an action, *)
(* the laws of the property are invariants evaluated in every reachable    *)
(* state.  All operations are linear in the density, so unit vectors plus  *)
(* one generic (prime) vector decide each law for every density on the     *)
(* grids of the state.  Proportions come from {0, 1/4, 1/3, 1/2, 1} and    *)
(* the grids are chosen so that ad-mixed frequencies land exactly on grid  *)
(* points (e.g. 1/2*0 + 1/2*1 on a uniform grid, 1/4*1 on {0,1/4,1}) as    *)
(* well as strictly between them.                                          *)
(***************************************************************************)
EXTENDS PhiOps, TLC
CONSTANTS MaxDepth,     \* number of operations applied after the data are chosen
          Configs,      \* tuples of grids (one per population) of the initial densities
          ExtraNew,     \* grids for a new axis besides those of populations 1 and P
          PropSet,      \* admixture proportions
          UnitLimit,    \* every unit vector is used for arrays up to this size
          ActLimit,     \* operations are applied to densities up to this size
          GrowLimit     \* ... and a population is added to densities up to this size

G2 == <<"0", "1">>
U3 == <<"0", "1/2", "1">>
N3 == <<"0", "1/4", "1">>
U4 == <<"0", "1/3", "2/3", "1">>
N4 == <<"0", "1/4", "1/2", "1">>
U5 == <<"0", "1/4", "1/2", "3/4", "1">>
N5 == <<"0", "1/8", "1/3", "3/4", "1">>
AllGrids == {G2, U3, N3, U4, N4, U5, N5}

ConfigsQuick ==
    {<<g>> : g \in AllGrids}
    \cup {<<g, h>> : g, h \in {G2, U3, N3, N4}}
    \cup {<<U3, N3, G2>>, <<N3, U3, U3>>}
ConfigsThorough ==
    {<<g>> : g \in AllGrids}
    \cup {<<g, h>> : g, h \in {G2, U3, N3, U4, N4, N5}} \cup {<<U5, U5>>}
    \cup {<<g, h, k>> : g, h, k \in {U3, N3}}
    \cup {<<N3, U3, N4>>, <<N4, N4, N4>>, <<G2, N4, U3>>, <<U4, G2, N3>>}
ExtraNewQuick == {N4}
ExtraNewThorough == {N4, N5}
PropSetQuick == {"0", "1/4", "1/2", "1"}
PropSetThorough == {"0", "1/4", "1/3", "1/2", "1"}

VARIABLES s, depth
vars == <<s, depth>>

Primes == <<"2", "3", "5", "7", "11", "13", "17", "19", "23", "29", "31", "37", "41", "43", "47", "53", "59", "61",
            "67", "71", "73", "79", "83", "89", "97", "101", "103", "107", "109", "113", "127", "131", "137",
            "139", "149", "151", "157", "163", "167", "173", "179", "181", "191", "193", "197", "199", "211",
            "223", "227", "229", "233", "239", "241", "251", "257", "263", "269", "271", "277", "281", "283",
            "293", "307", "311", "313", "317", "331", "337", "347", "349", "353", "359", "367", "373", "379",
            "383", "389", "397", "401", "409", "419", "421", "431", "433", "439", "443", "449", "457", "461",
            "463", "467", "479", "487", "491", "499", "503", "509", "521", "523", "541", "547", "557", "563",
            "569", "571", "577", "587", "593", "599", "601", "607", "613", "617", "619", "631", "641", "643",
            "647", "653", "659", "661", "673", "677", "683", "691">>
ShapeOf(gs) == [k \in 1..Len(gs) |-> Len(gs[k])]
Generic(sh) == [k \in 1..Size(sh) |-> Primes[k]]
\* unit vectors for every point of small shapes; for larger ones the corners, the centre and a
\* spread of other points
UnitIdx(sh) == IF Size(sh) <= UnitLimit THEN 1..Size(sh)
               ELSE {1, Size(sh), (Size(sh) + 1) \div 2} \cup {k \in 1..Size(sh) : k % 7 = 3}
DataChoices(sh) == {[k \in 1..Size(sh) |-> IF k = u THEN "1" ELSE "0"] : u \in UnitIdx(sh)} \cup {Generic(sh)}

NP == Len(s.sh)
Phi == [sh |-> s.sh, d |-> s.d]
Free(n) == {f \in [1..n -> PropSet] : RLeq(RSum(f), "1")}
Compl(f) == RSub("1", RSum(f))
\* composition vectors: for a new population the last existing population takes the complement
\* (as in dadi's signatures), for a pulse the destination does
AdmixProps(n) == {Append(f, Compl(f)) : f \in Free(n - 1)}
PulseProps(n, dest) == {InsertAt(f, dest, Compl(f)) : f \in Free(n - 1)}
Perms(n) == {p \in [1..n -> 1..n] : \A i, j \in 1..n : i # j => p[i] # p[j]}
NewGrids == {s.gs[1], s.gs[NP]} \cup ExtraNew

\* Initial states fix the grids; the first step chooses the data (so that TLC's workers
\* evaluate the laws in parallel).
Init == /\ depth = -1
        /\ \E gs \in Configs : s = [sh |-> ShapeOf(gs), d |-> [k \in 1..Size(ShapeOf(gs)) |-> "0"], gs |-> gs, gen |-> FALSE]
Choose == /\ depth = -1 /\ depth' = 0
          /\ \E d \in DataChoices(s.sh) : s' = [s EXCEPT !.d = d, !.gen = (d = Generic(s.sh))]

Put(phi, gs) == s' = [sh |-> phi.sh, d |-> phi.d, gs |-> gs, gen |-> TRUE]
DoSplit1D  == NP = 1 /\ Put(PhiSplit1D(Phi, s.gs[1]), <<s.gs[1], s.gs[1]>>)
DoSplit    == NP = 2 /\ Size(s.sh) <= GrowLimit /\ \E k \in 1..NP : Put(PhiSplit(Phi, s.gs, k, s.gs[k]), Append(s.gs, s.gs[k]))
DoAdmixNew == NP <= 2 /\ Size(s.sh) <= GrowLimit /\ \E props \in AdmixProps(NP) : \E gn \in {s.gs[1], N3} :
                 Put(PhiAdmixNew(Phi, s.gs, props, gn), Append(s.gs, gn))
DoPulse    == NP >= 2 /\ \E dest \in 1..NP : \E props \in PulseProps(NP, dest) : Put(PhiPulse(Phi, s.gs, dest, props), s.gs)
DoRemove   == NP >= 2 /\ \E a \in 1..NP : Put(PhiRemove(Phi, s.gs[a], a), RemoveAt(s.gs, a))
DoReorder  == NP >= 2 /\ \E p \in Perms(NP) : Put(PhiReorder(Phi, p), ReorderSeq(s.gs, p))

\* operations are applied to the generic density only (the unit vectors are there to decide
\* the laws at depth 0; their images add nothing by linearity)
Next == Choose \/
        /\ depth >= 0 /\ depth < MaxDepth /\ s.gen /\ Size(s.sh) <= ActLimit /\ depth' = depth + 1
        /\ (DoSplit1D \/ DoSplit \/ DoAdmixNew \/ DoPulse \/ DoRemove \/ DoReorder)
Spec == Init /\ [][Next]_vars

TypeOK == PhiWellFormed(Phi, s.gs)
On == depth >= 0

\* ------------- creating a population -------------
\* (the clauses about one created density share its evaluation; each is a named predicate)
\* integrating the new population out returns the input density, at every point
AdmixMarginal(T, gn) == PG_Trapz(T, gn, NP + 1).d = s.d
\* the new population carries the mixture frequency: the values deposited along the new axis
\* interpolate it linearly,  sum_k x_k T[..,k] = z * sum_k T[..,k]   (the trapezoid first moment
\* equals z only where the two bracketing points have equal trapezoid weights); nothing negative
AdmixMean(T, gn, props) ==
    LET ones == [v \in 1..Len(gn) |-> "1"]
        A == PG_WSum(T, gn, NP + 1)
        B == PG_WSum(T, ones, NP + 1) IN
    /\ \A j \in 1..Size(s.sh) : A.d[j] = RMul(MixFreq(props, s.gs, Unflat(s.sh, j)), B.d[j])
    /\ \A k \in 1..Len(T.d) : RNonNeg(T.d[k])
\* the deposit is the normalised linear interpolation (hat functions) of the mixture frequency
AdmixHat(T, gn, props) ==
    LET n == Len(gn) IN
    \A j \in 1..Size(s.sh) :
       IF s.d[j] = "0" THEN \A k \in 0..(n - 1) : T.d[(j - 1) * n + k + 1] = "0"
       ELSE LET z == MixFreq(props, s.gs, Unflat(s.sh, j))
                nrm == RSum([m \in 0..(n - 1) |-> RMul(PhiHat(gn, m, z), PG_W(gn, m))]) IN
            \A k \in 0..(n - 1) : T.d[(j - 1) * n + k + 1] = RMul(s.d[j], RDiv(PhiHat(gn, k, z), nrm))
AdmixMass(T, gn) == PhiMass(T, Append(s.gs, gn)) = PhiMass(Phi, s.gs)
L_Admix == On => \A props \in AdmixProps(NP) : \A gn \in NewGrids :
    LET T == PhiAdmixNew(Phi, s.gs, props, gn) IN
    /\ T.sh = Append(s.sh, Len(gn)) /\ Len(T.d) = Size(T.sh)
    /\ AdmixMarginal(T, gn) /\ AdmixMean(T, gn, props) /\ AdmixHat(T, gn, props) /\ AdmixMass(T, gn)
\* relabelling the existing populations relabels the result (index bookkeeping: generic data)
L_AdmixRelabel == (depth = 0 /\ s.gen /\ NP >= 2) => \A props \in AdmixProps(NP) : \A p \in Perms(NP) :
    PhiAdmixNew(PhiReorder(Phi, p), ReorderSeq(s.gs, p), ReorderSeq(props, p), s.gs[1])
      = PhiReorder(PhiAdmixNew(Phi, s.gs, props, s.gs[1]), Append(p, NP + 1))
\* a pure split is a copy of the parent: on the parent's grid the density sits on the diagonal
\* x_new = x_k, and removing the parent leaves the child in its place
L_SplitCopy == On => \A k \in 1..NP :
    LET g == s.gs[k]
        n == Len(g)
        T == PhiSplit(Phi, s.gs, k, g) IN
    /\ \A j \in 1..Size(s.sh) : \A m \in 0..(n - 1) :
          T.d[(j - 1) * n + m + 1] = IF m = Unflat(s.sh, j)[k] THEN RDiv(s.d[j], PG_W(g, m)) ELSE "0"
    /\ PhiRemove(T, g, k) = PhiReorder(Phi, MoveToLast(NP, k))
    /\ PhiRemove(T, g, NP + 1) = Phi
\* dadi's 1-D -> 2-D split equals the general split at interior points and drops the end
\* points; removing either population returns the interior of the input
L_Split1D == (On /\ NP = 1) =>
    LET g == s.gs[1]
        n == Len(g)
        A == PhiSplit1D(Phi, g)
        B == PhiSplit(Phi, s.gs, 1, g)
        inner(i) == i > 0 /\ i < n - 1 IN
    /\ \A i, j \in 0..(n - 1) : PhiAt(A, <<i, j>>) = IF inner(i) THEN PhiAt(B, <<i, j>>) ELSE "0"
    /\ \A a \in 1..2 : \A i \in 0..(n - 1) : PhiRemove(A, g, a).d[i + 1] = IF inner(i) THEN s.d[i + 1] ELSE "0"

\* ------------- pulses -------------
L_PulseZero == On => \A dest \in 1..NP : PhiPulse(Phi, s.gs, dest, UnitVec(NP, dest)) = Phi
\* the joint density of the other populations is unchanged
PulseOthers(Q, dest) == PhiRemove(Q, s.gs[dest], dest) = PhiRemove(Phi, s.gs[dest], dest)
\* a pulse written out directly: every point v of the destination's old axis sends its mass
\* W_v * phi to the two points bracketing its mixture frequency
PulseHat(Q, dest, props) ==
    LET g == s.gs[dest]
        n == Len(g)
        z(ix) == MixFreq(props, s.gs, ix)
        nrm(zz) == RSum([m \in 0..(n - 1) |-> RMul(PhiHat(g, m, zz), PG_W(g, m))]) IN
    \A k \in 1..Size(s.sh) :
       LET ix == Unflat(s.sh, k) IN
       Q.d[k] = RSum([v \in 0..(n - 1) |->
                       LET src == [ix EXCEPT ![dest] = v] IN
                       IF PhiAt(Phi, src) = "0" THEN "0"
                       ELSE RMul(RMul(PG_W(g, v), PhiAt(Phi, src)), RDiv(PhiHat(g, ix[dest], z(src)), nrm(z(src))))])
\* a pulse that replaces the destination completely = remove it and create it anew
PulseReplace(Q, dest, props) ==
    props[dest] = "0" =>
       Q = PhiReorder(PhiAdmixNew(PhiRemove(Phi, s.gs[dest], dest), RemoveAt(s.gs, dest), RemoveAt(props, dest), s.gs[dest]),
                      MoveLastTo(NP, dest))
L_Pulse == (On /\ NP >= 2) => \A dest \in 1..NP : \A props \in PulseProps(NP, dest) :
    LET Q == PhiPulse(Phi, s.gs, dest, props) IN
    /\ Q.sh = s.sh /\ Len(Q.d) = Size(s.sh)
    /\ PulseOthers(Q, dest) /\ PulseHat(Q, dest, props) /\ PulseReplace(Q, dest, props)
    /\ PhiMass(Q, s.gs) = PhiMass(Phi, s.gs)
    /\ \A k \in 1..Len(Q.d) : RNonNeg(Q.d[k])
L_PulseRelabel == (depth = 0 /\ s.gen /\ NP >= 2) => \A p \in Perms(NP) : \A dd \in 1..NP : \A props \in PulseProps(NP, p[dd]) :
    PhiPulse(PhiReorder(Phi, p), ReorderSeq(s.gs, p), dd, ReorderSeq(props, p))
      = PhiReorder(PhiPulse(Phi, s.gs, p[dd], props), p)

\* ------------- removing, reordering -------------
L_ReorderIsPermutation == (On /\ NP >= 2) => \A p \in Perms(NP) :
    LET R == PhiReorder(Phi, p) IN
    /\ R.sh = ReorderSeq(s.sh, p)
    /\ \A k \in 1..Size(s.sh) : LET jx == Unflat(s.sh, k) IN PhiAt(R, ReorderSeq(jx, p)) = s.d[k]
L_ReorderCompose == (On /\ NP >= 2) => \A p, q \in Perms(NP) :
    PhiReorder(PhiReorder(Phi, p), q) = PhiReorder(Phi, [j \in 1..NP |-> p[q[j]]])
\* removing commutes with reordering
L_RemoveReorder == (On /\ NP >= 2) => \A p \in Perms(NP) : \A j \in 1..NP :
    PhiRemove(PhiReorder(Phi, p), s.gs[p[j]], j)
      = PhiReorder(PhiRemove(Phi, s.gs[p[j]], p[j]),
                   [m \in 1..(NP - 1) |-> LET o == RemoveAt(p, j)[m] IN IF o > p[j] THEN o - 1 ELSE o])
L_RemoveFubini == (On /\ NP = 3) => \A a, b \in 1..NP : a < b =>
    PhiRemove(PhiRemove(Phi, s.gs[b], b), s.gs[a], a) = PhiRemove(PhiRemove(Phi, s.gs[a], a), s.gs[b], b - 1)
\* removal is the explicit trapezoid sum
L_RemoveIsTrapz == (On /\ NP >= 2) => \A a \in 1..NP :
    LET R == PhiRemove(Phi, s.gs[a], a)
        g == s.gs[a] IN
    /\ R.sh = RemoveAt(s.sh, a)
    /\ \A k \in 1..Size(R.sh) : LET ix == Unflat(R.sh, k) IN
          R.d[k] = RSum([v \in 0..(Len(g) - 2) |->
                           RMul(RHalf(PG_Dx(g, v)), RAdd(PhiAt(Phi, InsertAt(ix, a, v)), PhiAt(Phi, InsertAt(ix, a, v + 1))))])
    /\ PhiMass(R, RemoveAt(s.gs, a)) = PhiMass(Phi, s.gs)
\* filter = iterated removal (one common grid, as in dadi's signature)
L_Filter == (On /\ NP >= 2 /\ \A k \in 1..NP : s.gs[k] = s.gs[1]) => \A a \in 1..NP :
    /\ PhiFilter(Phi, s.gs[1], (1..NP) \ {a}) = PhiRemove(Phi, s.gs[1], a)
    /\ PhiFilter(Phi, s.gs[1], 1..NP) = Phi
    /\ PhiFilter(Phi, s.gs[1], {a}).sh = <<s.sh[a]>>
    /\ PhiMass(PhiFilter(Phi, s.gs[1], {a}), <<s.gs[a]>>) = PhiMass(Phi, s.gs)

\* the searchsorted rule on an irregular grid, written out
ASSUME /\ PhiBracket("0", N5) = 1 /\ PhiBracket("1/8", N5) = 1 /\ PhiBracket("1/7", N5) = 2
       /\ PhiBracket("1/3", N5) = 2 /\ PhiBracket("3/4", N5) = 3 /\ PhiBracket("4/5", N5) = 4
       /\ PhiBracket("1", N5) = 4 /\ PhiBracket("9/8", N5) = 4 /\ PhiBracket("-1/8", N5) = 1
       /\ PhiBracket("0", G2) = 1 /\ PhiBracket("1/2", G2) = 1 /\ PhiBracket("1", G2) = 1
\* trapezoid weights sum to the length of the grid and integrate linear functions exactly
ASSUME \A g \in AllGrids : /\ RSum(PG_Weights(g)) = "1"
                           /\ RSum([v \in 1..Len(g) |-> RMul(PG_W(g, v - 1), g[v])]) = "1/2"
\* a deposit integrates to one and its two values interpolate the deposited frequency, for every
\* frequency of a fine lattice (including every grid point)
ASSUME \A g \in AllGrids : \A q \in 0..48 :
          LET z == RDiv(RInt(q), "48")
              dep == PhiDeposit(z, g) IN
          /\ dep.u = dep.l + 1 /\ dep.l >= 0 /\ dep.u <= Len(g) - 1
          /\ RLeq(PG_X(g, dep.l), z) /\ RLeq(z, PG_X(g, dep.u))
          /\ RNonNeg(dep.vl) /\ RNonNeg(dep.vu)
          /\ RAdd(RMul(dep.vl, PG_W(g, dep.l)), RMul(dep.vu, PG_W(g, dep.u))) = "1"
          /\ RAdd(RMul(dep.vl, PG_X(g, dep.l)), RMul(dep.vu, PG_X(g, dep.u))) = RMul(z, RAdd(dep.vl, dep.vu))
=============================================================================
