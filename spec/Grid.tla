------------------------------- MODULE Grid -------------------------------
(***************************************************************************)
(* Frequency grids and grid functions (shared by the numeric modules).     *)
(*                                                                         *)
(* A grid is a strictly increasing sequence g[1] < ... < g[L] of rationals *)
(* (module Rat) with 0 <= g[1] and g[L] <= 1, L >= 2.  A function on a     *)
(* grid is a sequence of L rationals.  A function on a product of P grids  *)
(* ("tensor") is a record [sh |-> <<L1,...,LP>>, d |-> flat C-order        *)
(* sequence]; grid indices are 1-based, multi-indices are tuples           *)
(* <<j1,...,jP>> with 1 <= jk <= Lk.                                        *)
(*                                                                         *)
(* Depends on module Rat only.  Names carry a G prefix where they could    *)
(* clash with the index helpers of other modules.                          *)
(***************************************************************************)
EXTENDS Rat, Integers, Sequences

\* ---- grids ----
IsGrid(g) == /\ Len(g) >= 2
             /\ \A j \in 1..(Len(g) - 1) : RLt(g[j], g[j + 1])
             /\ RLeq("0", g[1]) /\ RLeq(g[Len(g)], "1")
\* a grid whose end points overshoot [0,1] (by rounding) denotes the grid with the end points moved onto [0,1]
GClamp(g) == [j \in 1..Len(g) |-> RMin(RMax(g[j], "0"), "1")]
\* width of interval j = [g[j], g[j+1]], j in 1..L-1
Dx(g, j) == RSub(g[j + 1], g[j])
Mid(g, j) == RHalf(RAdd(g[j], g[j + 1]))
\* trapezoid weight of grid point j: Sum_j W(g,j) f[j] is the trapezoid rule = integral of the
\* piecewise-linear interpolant of f
W(g, j) == LET L == Len(g) IN
           IF j = 1 THEN RHalf(Dx(g, 1))
           ELSE IF j = L THEN RHalf(Dx(g, L - 1))
           ELSE RHalf(RAdd(Dx(g, j - 1), Dx(g, j)))
WSeq(g) == [j \in 1..Len(g) |-> W(g, j)]
\* hat function of grid point j at x: piecewise linear, 1 at g[j], 0 at every other grid point, 0 outside [g[1], g[L]]
Hat(g, j, x) ==
    LET L == Len(g) IN
    IF j > 1 /\ RLeq(g[j - 1], x) /\ RLeq(x, g[j]) THEN RDiv(RSub(x, g[j - 1]), Dx(g, j - 1))
    ELSE IF j < L /\ RLeq(g[j], x) /\ RLeq(x, g[j + 1]) THEN RDiv(RSub(g[j + 1], x), Dx(g, j))
    ELSE IF x = g[j] THEN "1" ELSE "0"
\* piecewise-linear interpolant of the grid function f at x
Interp(g, f, x) == RSum([j \in 1..Len(g) |-> RMul(f[j], Hat(g, j, x))])
\* trapezoid rule for a grid function
Trapz(g, f) == RDot(WSeq(g), f)
\* uniform grid with L points on [0,1]
Uniform(L) == [j \in 1..L |-> RDiv(RInt(j - 1), RInt(L - 1))]

\* ---- tensors on a product of grids ----
RECURSIVE GProd(_)
GProd(s) == IF s = <<>> THEN 1 ELSE Head(s) * GProd(Tail(s))
GSize(sh) == GProd(sh)
GStride(sh, a) == GProd(SubSeq(sh, a + 1, Len(sh)))
\* 1-based multi-index of flat position k (C order) and back
GUnflat(sh, k) == [a \in 1..Len(sh) |-> (((k - 1) \div GStride(sh, a)) % sh[a]) + 1]
RECURSIVE GFlatFrom(_, _, _)
GFlatFrom(sh, jx, a) == IF a > Len(sh) THEN 0 ELSE (jx[a] - 1) * GStride(sh, a) + GFlatFrom(sh, jx, a + 1)
GFlat(sh, jx) == 1 + GFlatFrom(sh, jx, 1)
GAt(t, jx) == t.d[GFlat(t.sh, jx)]
GShapeOf(grids) == [a \in 1..Len(grids) |-> Len(grids[a])]
IsTensorOn(t, grids) == t.sh = GShapeOf(grids) /\ Len(t.d) = GSize(t.sh)
GRemoveAt(q, a) == [j \in 1..(Len(q) - 1) |-> IF j < a THEN q[j] ELSE q[j + 1]]
GInsertAt(q, a, v) == [j \in 1..(Len(q) + 1) |-> IF j < a THEN q[j] ELSE IF j = a THEN v ELSE q[j - 1]]
\* the fibre of t along axis a through flat position k of the tensor with axis a removed
\* (positions: outer * (st * L) + (j-1) * st + inner + 1, st = stride of axis a)
GFibre(t, a, k) ==
    LET st == GStride(t.sh, a)
        L  == t.sh[a]
        outer == (k - 1) \div st
        inner == (k - 1) % st
    IN  [j \in 1..L |-> t.d[outer * (st * L) + (j - 1) * st + inner + 1]]
\* trapezoid integration of a tensor over axis a (grid g of that axis): a tensor with that axis removed
TrapzAxis(t, a, g) ==
    LET sh2 == GRemoveAt(t.sh, a)
        w == WSeq(g)
    IN  [sh |-> sh2, d |-> [k \in 1..GSize(sh2) |-> RDot(w, GFibre(t, a, k))]]
\* trapezoid integral over all axes
RECURSIVE TrapzAll(_, _)
TrapzAll(t, grids) == IF Len(t.sh) = 0 THEN t.d[1]
                      ELSE TrapzAll(TrapzAxis(t, Len(t.sh), grids[Len(t.sh)]), SubSeq(grids, 1, Len(grids) - 1))
\* product of the trapezoid weights at a multi-index
RECURSIVE WProdFrom(_, _, _)
WProdFrom(grids, jx, a) == IF a > Len(grids) THEN "1" ELSE RMul(W(grids[a], jx[a]), WProdFrom(grids, jx, a + 1))
WProd(grids, jx) == WProdFrom(grids, jx, 1)
\* a multi-index lies on the x_a = g[1] (resp. g[L]) face
IsFace0(jx, a) == jx[a] = 1
IsFace1(sh, jx, a) == jx[a] = sh[a]
\* linear combination of tensors of equal shape
GLin(c1, t1, c2, t2) == [sh |-> t1.sh, d |-> [k \in 1..Len(t1.d) |-> RAdd(RMul(c1, t1.d[k]), RMul(c2, t2.d[k]))]]
=============================================================================
