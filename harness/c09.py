"""C09 - folding, unfolding, misidentification, operator closure (spec/SpectrumOps.tla)."""
import random, itertools, operator
import numpy as np
from . import common
from .spectrum_common import enc, observe, rand_spectrum, rand_shape, rand_labels, mutate, relayout

PROP = 'C09'


def records(ctx):
    import dadi
    from dadi import Numerics
    rng = random.Random(ctx.seed + 9)
    recs = []
    nid = itertools.count()

    def add(op, inp, out, site):
        recs.append({'id': '%s-%d' % (op, next(nid)), 'op': op, 'in': inp, 'out': out, 'site': site})
    n = 60 if ctx.quick else 500
    dims = {1: 14, 2: 6, 3: 4, 4: 3, 5: 2}
    for k in range(n):
        ndim = [1, 2, 3, 4, 5, 2, 3][k % 7]          # every dimension count
        sh = rand_shape(rng, ndim, 1, dims[ndim])
        if k % 4 == 1:                                  # even and odd total sample size, deterministically
            sh[0] += (sum(x - 1 for x in sh) % 2)
        elif k % 4 == 3:
            sh[0] += 1 - (sum(x - 1 for x in sh) % 2)
        fs = rand_spectrum(rng, sh, folded=False, labels=rand_labels(rng, ndim),
                           mask_mode=['none', 'corners', 'random', 'single', 'random'][k % 5])
        if k % 3 == 2:      # non-contiguous memory layout, same abstract spectrum
            fs = relayout(fs, rot=(k // 3) % 3)
        add('fold', {'s': enc(fs)}, observe(lambda: fs.fold()), 'Spectrum.fold')
        add('fold_mirror', {'s': enc(fs)}, observe(lambda: dadi.Spectrum(Numerics.reverse_array(fs), mask_corners=False).fold()), 'Spectrum.fold')
        add('fuf', {'s': enc(fs)}, observe(lambda: fs.fold().unfold().fold()), 'Spectrum.unfold')
        ff = fs.fold()
        add('unfold', {'s': enc(ff)}, observe(lambda: ff.unfold()), 'Spectrum.unfold')
        if k % 7 == 0:
            add('fold', {'s': enc(ff)}, observe(lambda: ff.fold()), 'Spectrum.fold')
            add('unfold', {'s': enc(fs)}, observe(lambda: fs.unfold()), 'Spectrum.unfold')
        p = [0.0, 1.0, 0.5, rng.random(), rng.random() * 0.1][(k + k // 5) % 5]      # not tied to the mask pattern (k % 5)
        add('misid', {'s': enc(fs), 'p': common.rat(p)}, observe(lambda: Numerics.apply_anc_state_misid(fs, p)), 'Numerics.apply_anc_state_misid')
        if k % 5 == 0:
            g = Numerics.make_anc_state_misid_func(lambda params, ns, pts: fs * params[0])
            c = rng.uniform(0.5, 2)
            add('misid', {'s': enc(fs * c), 'p': common.rat(p)}, observe(lambda: g([c, p], None, None)), 'Numerics.make_anc_state_misid_func')
    # populations with more than 255 chromosomes (allele counts beyond one byte), 1-D and 2-D
    for sh in ([301], [280, 3], [2, 262]) if ctx.quick else ([301], [280, 3], [2, 262], [513], [3, 300], [258, 12]):
        fs = rand_spectrum(rng, sh, folded=False, labels=None, mask_mode='corners', integer=True)
        add('fold', {'s': enc(fs)}, observe(lambda: fs.fold()), 'Spectrum.fold')
        add('fuf', {'s': enc(fs)}, observe(lambda: fs.fold().unfold().fold()), 'Spectrum.unfold')
        ff = fs.fold()
        add('unfold', {'s': enc(ff)}, observe(lambda: ff.unfold()), 'Spectrum.unfold')
    # operator closure table: every binary operator x (spectrum|scalar) x reflected x in-place x folded flags
    ops = {'add': operator.add, 'sub': operator.sub, 'mul': operator.mul, 'div': operator.truediv,
           'floordiv': operator.floordiv, 'pow': operator.pow}
    iops = {'add': operator.iadd, 'sub': operator.isub, 'mul': operator.imul, 'div': operator.itruediv,
            'floordiv': operator.ifloordiv, 'pow': operator.ipow}
    reps = 2 if ctx.quick else 12
    for rep in range(reps):
        for opn in ops:
            for fa in (False, True):
                for fb in (False, True, None):       # None: scalar operand
                    for mode in ('plain', 'refl', 'inplace'):
                        ndim = rng.choice([1, 2, 3])
                        sh = rand_shape(rng, ndim, 2, 5)
                        la = rand_labels(rng, ndim)
                        a = rand_spectrum(rng, sh, folded=fa, labels=la, integer=False)
                        a.data[a.data == 0] = 1.5
                        if fb is None:
                            c = rng.choice([2.0, 0.5, rng.uniform(0.1, 9)])
                            if opn == 'pow':
                                c = float(rng.choice([2, 3]))       # integer exponents: exact in the specification
                            inp = {'a': enc(a), 'c': common.rat(c), 'op': opn, 'refl': mode == 'refl'}
                            b = c
                        else:
                            b = rand_spectrum(rng, sh, folded=fb, labels=rng.choice([la, None]), integer=False)
                            if rep % 2 == 1 and la is not None:      # every second repetition: the LEFT operand unlabelled, the right one labelled
                                a.pop_ids = None
                            b.data[b.data == 0] = 2.5
                            inp = {'a': enc(a), 'b': enc(b), 'op': opn, 'refl': mode == 'refl'}
                        if mode == 'plain':
                            out = observe(lambda: ops[opn](a, b))
                        elif mode == 'refl':
                            if fb is None:
                                out = observe(lambda: ops[opn](b, a))
                            else:
                                # b op a evaluated by a's reflected method
                                out = observe(lambda: getattr(a, '__r%s__' % {'add': 'add', 'sub': 'sub', 'mul': 'mul', 'div': 'truediv', 'floordiv': 'floordiv', 'pow': 'pow'}[opn])(b))
                        else:
                            def f():
                                x = a.copy()
                                x = iops[opn](x, b)
                                return x
                            out = observe(f)
                        inp['values'] = not (opn == 'floordiv' or (opn == 'pow' and (fb is not None or mode == 'refl')))
                        inp['inplace'] = (mode == 'inplace')
                        recs.append({'id': 'arith-%d' % next(nid), 'op': 'arith', 'in': inp, 'out': out,
                                     'site': 'Spectrum.__%s%s__' % ({'plain': '', 'refl': 'r', 'inplace': 'i'}[mode], opn)})
    # right operands that are not spectra: a plain numpy masked array (its mask must enter the result like a spectrum's), a
    # plain ndarray; binary, reflected and in-place forms (own RNG)
    r4 = random.Random(ctx.seed + 910)
    for rep in range(1 if ctx.quick else 6):
        for opn in ('add', 'sub', 'mul', 'div'):
            for kind in ('masked_array', 'ndarray'):
                for mode in ('plain', 'refl', 'inplace'):
                    ndim = r4.choice([1, 2, 3])
                    sh = rand_shape(r4, ndim, 2, 5)
                    fa = r4.random() < 0.5
                    a = rand_spectrum(r4, sh, folded=fa, labels=rand_labels(r4, ndim), integer=False, mask_mode=r4.choice(['corners', 'single']))
                    a.data[a.data == 0] = 1.5
                    bs = rand_spectrum(r4, sh, folded=fa, labels=None, integer=False, mask_mode='random' if kind == 'masked_array' else 'none')
                    bs.data[bs.data == 0] = 2.5
                    if kind == 'masked_array':
                        b = np.ma.masked_array(np.array(bs.data), mask=np.array(np.ma.getmaskarray(bs)))
                    else:
                        b = np.array(bs.data)
                    eb = enc(bs)
                    eb['m'] = [bool(x) for x in np.ma.getmaskarray(b).ravel()]
                    eb['f'] = bool(a.folded)          # a plain array carries no folding status: nothing to refuse
                    eb['ids'] = []
                    inp = {'a': enc(a), 'b': eb, 'op': opn, 'refl': mode == 'refl', 'values': True, 'operand': kind, 'inplace': mode == 'inplace'}
                    if mode == 'plain':
                        out = observe(lambda: ops[opn](a, b))
                    elif mode == 'refl':
                        out = observe(lambda: getattr(a, '__r%s__' % {'add': 'add', 'sub': 'sub', 'mul': 'mul', 'div': 'truediv'}[opn])(b))
                    else:
                        def f():
                            x = a.copy()
                            x = iops[opn](x, b)
                            return x
                        out = observe(f)
                    recs.append({'id': 'arith-%d' % next(nid), 'op': 'arith', 'in': inp, 'out': out,
                                 'site': 'Spectrum.__%s%s__[%s operand]' % ({'plain': '', 'refl': 'r', 'inplace': 'i'}[mode], opn, kind)})
    # unary operators, slicing and likelihood keep the folding status, mask and labels
    from dadi import Inference
    for k in range(20 if ctx.quick else 120):
        ndim = rng.choice([1, 2, 3])
        sh = rand_shape(rng, ndim, 2, 5)
        f = rng.random() < 0.5
        a = rand_spectrum(rng, sh, folded=f, labels=rand_labels(rng, ndim), integer=True)
        a.data[a.data == 0] = 3.0
        for name, fn, full in (('neg', lambda: -a, True), ('abs', lambda: abs(a), True), ('log', lambda: a.log(), True),
                               ('copy', lambda: a.copy(), True), ('slice', lambda: a[1:], False),
                               ('ll_per_bin', lambda: Inference.ll_per_bin(a * 1.1, a), False),
                               # a model without any mask against data with masks: the data's mask must survive
                               ('ll_per_bin_datamask', lambda: Inference.ll_per_bin(dadi.Spectrum(a.data * 1.1, mask_corners=False, data_folded=bool(a.folded), check_folding=False, pop_ids=a.pop_ids), a), True),
                               ('residual', lambda: Inference.linear_Poisson_residual(a * 1.1, a), False)):
            try:
                res = fn()
                out = {'f': str(getattr(res, 'folded', 'missing'))}
                if full:
                    out['ids'] = [str(x).split('+') for x in res.pop_ids] if res.pop_ids else []
                    out['m'] = [bool(x) for x in np.ma.getmaskarray(res).ravel()]
            except Exception as e:
                out = {'f': 'raised ' + type(e).__name__}
            recs.append({'id': 'keep-%d' % next(nid), 'op': 'keep', 'in': {'s': enc(a), 'what': name}, 'out': out, 'site': 'Spectrum.' + name})
    # misidentification at the end points p = 0 and p = 1, given as int / float / numpy scalar, on masks that are not
    # mirror-symmetric: the result's mask is the union with the mirrored mask for every p of the statement's [0,1]
    r3 = random.Random(ctx.seed + 909)
    for k, p in enumerate([0, 0.0, np.float64(0.0), 1, 1.0, np.float64(1.0), np.int64(0), np.float32(0.5)]):
        ndim = [1, 2, 3][k % 3]
        sh = rand_shape(r3, ndim, 2, {1: 10, 2: 6, 3: 4}[ndim])
        fs = rand_spectrum(r3, sh, folded=False, labels=rand_labels(r3, ndim), mask_mode=['single', 'random'][k % 2])
        if ndim == 1:
            fs.mask[1] = True           # singletons masked, the n-1 class kept
            fs.mask[-2] = False
        add('misid', {'s': enc(fs), 'p': common.rat(float(p))}, observe(lambda: Numerics.apply_anc_state_misid(fs, p)), 'Numerics.apply_anc_state_misid')
    # object re-use: fold / unfold / misidentification called twice on the same object, and the object left as it was
    for k in range(6 if ctx.quick else 36):
        ndim = [1, 2, 3][k % 3]
        sh = rand_shape(r3, ndim, 2, {1: 10, 2: 6, 3: 4}[ndim])
        fs = rand_spectrum(r3, sh, folded=False, labels=rand_labels(r3, ndim), mask_mode=['single', 'random', 'corners'][k % 3])
        ff = fs.fold()
        p = [0.0, 0.3, 1.0][k % 3]
        for op, obj, inp, call, site in (('fold', fs, {}, lambda: fs.fold(), 'Spectrum.fold'), ('unfold', ff, {}, lambda: ff.unfold(), 'Spectrum.unfold'),
                                         ('misid', fs, {'p': common.rat(p)}, lambda: Numerics.apply_anc_state_misid(fs, p), 'Numerics.apply_anc_state_misid')):
            before = enc(obj)
            o1, o2 = observe(call), observe(call)
            after = enc(obj)
            add(op, dict(inp, s=before), o1, site)
            add(op, dict(inp, s=before), o2, site + '[second call on the same object]')
            recs.append({'id': 'unchanged-%d' % next(nid), 'op': 'unchanged', 'in': {'law': 'ObjectUnchangedBy:' + op}, 'out': {'s': before, 't': after}, 'site': site})
    # per-bin likelihood where model and data hold exact zeros - in jointly unmasked bins and under masks (folded data hold
    # zeros in the folded-out half): the result keeps the folding status, the labels and EXACTLY the data's mask
    for k in range(6 if ctx.quick else 36):
        ndim = [1, 2, 3][k % 3]
        sh = rand_shape(r3, ndim, 3, {1: 10, 2: 6, 3: 4}[ndim])
        a = rand_spectrum(r3, sh, folded=(k % 2 == 0), labels=rand_labels(r3, ndim), integer=True, mask_mode=['single', 'random', 'corners'][k % 3])
        model = dadi.Spectrum(np.asarray(a.data) * 1.1, mask=np.ma.getmaskarray(a), mask_corners=False, data_folded=bool(a.folded), check_folding=False, pop_ids=a.pop_ids)
        free = [ix for ix in np.ndindex(*sh) if not np.ma.getmaskarray(a)[ix]]
        for ix in free[:: max(1, len(free) // 3)][:2]:       # exact zeros in both, in unmasked bins
            a.data[ix] = 0.0
            model.data[ix] = 0.0
        for name, fn in (('ll_per_bin_zeros', lambda: Inference.ll_per_bin(model, a)),):
            try:
                res = fn()
                out = {'f': str(getattr(res, 'folded', 'missing')), 'ids': [str(x).split('+') for x in res.pop_ids] if res.pop_ids else [],
                       'm': [bool(x) for x in np.ma.getmaskarray(res).ravel()]}
            except Exception as e:
                out = {'f': 'raised ' + type(e).__name__}
            recs.append({'id': 'keep-%d' % next(nid), 'op': 'keep', 'in': {'s': enc(a), 'what': name}, 'out': out, 'site': 'Spectrum.' + name})
    # a refused operation (mixed folding) must leave both operands as they were - in particular the in-place forms
    for k, opn in enumerate(['add', 'sub', 'mul', 'div', 'floordiv', 'pow']):
        ndim = [1, 2, 3][k % 3]
        sh = rand_shape(r3, ndim, 2, 5)
        a = rand_spectrum(r3, sh, folded=(k % 2 == 0), labels=rand_labels(r3, ndim), integer=False)
        b = rand_spectrum(r3, sh, folded=(k % 2 == 1), labels=a.pop_ids, integer=False)
        a.data[a.data == 0] = 1.5
        b.data[b.data == 0] = 2.5
        for mode, call in (('inplace', lambda: iops[opn](a, b)), ('plain', lambda: ops[opn](a, b))):
            ba, bb = enc(a), enc(b)
            try:
                call()
                raised = False
            except Exception:
                raised = True
            for nm, bef, obj in (('Left', ba, a), ('Right', bb, b)):
                recs.append({'id': 'unchanged-%d' % next(nid), 'op': 'unchanged', 'in': {'law': nm + 'OperandUnchangedByRefusedOperation', 'refused': raised},
                             'out': {'s': bef, 't': enc(obj)}, 'site': 'Spectrum.__%s%s__' % ('i' if mode == 'inplace' else '', opn)})
    # likelihood evaluation, residuals and scaling leave BOTH operands as they were (values, masks, folding, labels), also
    # when model and data carry different masks; in-place operators with a plain masked array as right operand
    for k in range(8 if ctx.quick else 48):
        ndim = [1, 2, 3][k % 3]
        sh = rand_shape(r3, ndim, 2, 5)
        f = (k % 2 == 0)
        for attempt in range(200):     # at least one jointly unmasked entry with data (an all-masked comparison is degenerate, not the property's subject)
            data = rand_spectrum(r3, sh, folded=f, labels=rand_labels(r3, ndim), integer=True, mask_mode=['single', 'random', 'corners', 'none'][k % 4])
            model = rand_spectrum(r3, sh, folded=f, labels=data.pop_ids, integer=False, mask_mode=['random', 'corners', 'single', 'random'][k % 4])
            model.data[model.data == 0] = 0.7
            joint = ~(np.ma.getmaskarray(data) | np.ma.getmaskarray(model))
            if joint.sum() >= 1 and (np.asarray(data.data)[joint] > 0).sum() >= 1:
                break
            sh = rand_shape(r3, ndim, 3, 8)
        else:
            continue
        for name, fn in (('ll', lambda: Inference.ll(model, data)), ('ll_multinom', lambda: Inference.ll_multinom(model, data)),
                         ('optimal_sfs_scaling', lambda: Inference.optimal_sfs_scaling(model, data)),
                         ('optimally_scaled_sfs', lambda: Inference.optimally_scaled_sfs(model, data)),
                         ('linear_Poisson_residual', lambda: Inference.linear_Poisson_residual(model, data)),
                         ('Anscombe_Poisson_residual', lambda: Inference.Anscombe_Poisson_residual(model, data)),
                         ('ll_per_bin', lambda: Inference.ll_per_bin(model, data))):
            bm, bd = enc(model), enc(data)
            try:
                fn()
                om, od = {'s': bm, 't': enc(model)}, {'s': bd, 't': enc(data)}
            except Exception as e:
                om = od = {'raised': type(e).__name__}
            recs.append({'id': 'unchanged-%d' % next(nid), 'op': 'unchanged', 'in': {'law': 'ModelUnchangedByLikelihood', 'what': name}, 'out': om, 'site': 'Inference.' + name})
            recs.append({'id': 'unchanged-%d' % next(nid), 'op': 'unchanged', 'in': {'law': 'DataUnchangedByLikelihood', 'what': name}, 'out': od, 'site': 'Inference.' + name})
    return recs


def nontrivial(r):
    i = r['in']
    if r['op'] == 'unchanged':
        return ('unchanged', r['site'], i['law'], tuple(r['out'].get('s', {}).get('sh', [])))
    if r['op'] == 'arith':
        return (r['site'], i['a']['f'], i['b']['f'] if 'b' in i else 'scalar', tuple(i['a']['sh']))
    s = i['s']
    ntot = sum(x - 1 for x in s['sh'])
    return (r['op'], r['site'], tuple(s['sh']), s['f'], ntot % 2, any(s['m'][1:-1]), i.get('p'), i.get('what'))


def run(ctx):
    if ctx.replay:
        recs = [ctx.replay_payload['payload']['record']]
        ctx.no_mc = True
    else:
        recs = records(ctx)
    return common.pipeline(
        ctx, ([('SpectrumOpsMC', 'SpectrumOpsMC_C09_quick.cfg')] if ctx.quick else [('SpectrumOpsMC', 'SpectrumOpsMC_C09_thoroughA.cfg'), ('SpectrumOpsMC', 'SpectrumOpsMC_C09_thoroughB.cfg')]), 'Trace_SpectrumOps', recs,
        nontrivial_of=nontrivial, mutator=mutate,
        rule='random 1-5-D spectra with even and odd total sample size, random masks, labels; fold, fold(mirror), fold(unfold(fold)), unfold, '
             'misid p in {0,1,1/2,random}; the operator closure table (4 operators x spectrum/scalar x plain/reflected/in-place x folded flags); '
             'distinct by (operation, site, shape, folded, parity of total, interior mask present, p)',
        assumptions=['BigInteger rational arithmetic of the Rat override', 'corner entries may carry dadi\'s default corner mask after fold/unfold',
                     'data compared at entries the specification leaves unmasked, relative tolerance 1e-10'])
