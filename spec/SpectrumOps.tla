---------------------------- MODULE SpectrumOps ----------------------------
(***************************************************************************)
(* The Spectrum object of dadi as an abstract value and its operations     *)
(* (properties C08 projection, C09 folding / misidentification, C10        *)
(* population bookkeeping).                                                *)
(*                                                                         *)
(* A spectrum is a record                                                  *)
(*   [sh  |-> <<n1+1, ..., nP+1>>,     shape                               *)
(*    d   |-> flat C-order sequence of rationals (module Rat),             *)
(*    m   |-> flat C-order sequence of BOOLEAN (TRUE = masked),            *)
(*    f   |-> BOOLEAN (folded),                                            *)
(*    ids |-> sequence of labels, <<>> meaning "no labels"; a label is a   *)
(*            sequence of atomic names (dadi joins them with "+")]         *)
(* Indices are 0-based tuples <<i1,...,iP>>, i_k = derived-allele count.   *)
(***************************************************************************)
EXTENDS Rat, Integers, Sequences, FiniteSets

RECURSIVE IProd(_)
IProd(s) == IF s = <<>> THEN 1 ELSE Head(s) * IProd(Tail(s))
RECURSIVE ISum(_)
ISum(s) == IF s = <<>> THEN 0 ELSE Head(s) + ISum(Tail(s))

Size(sh)      == IProd(sh)
Stride(sh, j) == IProd(SubSeq(sh, j + 1, Len(sh)))
Unflat(sh, k) == [j \in 1..Len(sh) |-> ((k - 1) \div Stride(sh, j)) % sh[j]]
Flat(sh, ix)  == 1 + ISum([j \in 1..Len(sh) |-> ix[j] * Stride(sh, j)])
Indices(sh)   == {Unflat(sh, k) : k \in 1..Size(sh)}
At(s, ix)     == s.d[Flat(s.sh, ix)]
MaskAt(s, ix) == s.m[Flat(s.sh, ix)]
NS(sh)        == [j \in 1..Len(sh) |-> sh[j] - 1]          \* sample sizes
NTot(sh)      == ISum(NS(sh))
Tot(ix)       == ISum(ix)
MirrorIx(sh, ix) == [j \in 1..Len(sh) |-> sh[j] - 1 - ix[j]]
IsCornerIx(sh, ix) == Tot(ix) = 0 \/ Tot(ix) = NTot(sh)
Mk(sh, D(_), M(_), f, ids) ==
    [sh |-> sh, d |-> [k \in 1..Size(sh) |-> D(Unflat(sh, k))],
     m |-> [k \in 1..Size(sh) |-> M(Unflat(sh, k))], f |-> f, ids |-> ids]
Total(s)      == RSum(s.d)
\* total over entries that are not corners (the "seen in none / in all" entries)
TotalNC(s)    == RSum([k \in 1..Size(s.sh) |-> IF IsCornerIx(s.sh, Unflat(s.sh, k)) THEN "0" ELSE s.d[k]])
WellFormed(s) == /\ Len(s.d) = Size(s.sh) /\ Len(s.m) = Size(s.sh)
                 /\ (s.ids = <<>> \/ Len(s.ids) = Len(s.sh))

(***************************************************************************)
(* C09: mirror, fold, unfold, misidentification                            *)
(***************************************************************************)
Mirror(s) == Mk(s.sh, LAMBDA ix : At(s, MirrorIx(s.sh, ix)), LAMBDA ix : MaskAt(s, MirrorIx(s.sh, ix)), s.f, s.ids)

FoldedOut(sh, ix) == 2 * Tot(ix) > NTot(sh)
Ambiguous(sh, ix) == 2 * Tot(ix) = NTot(sh)

\* Fold is defined on unfolded spectra
Fold(s) ==
    Mk(s.sh,
       LAMBDA ix : IF FoldedOut(s.sh, ix) THEN "0"
                   ELSE IF Ambiguous(s.sh, ix) THEN RHalf(RAdd(At(s, ix), At(s, MirrorIx(s.sh, ix))))
                   ELSE RAdd(At(s, ix), At(s, MirrorIx(s.sh, ix))),
       LAMBDA ix : MaskAt(s, ix) \/ MaskAt(s, MirrorIx(s.sh, ix)) \/ FoldedOut(s.sh, ix),
       TRUE, s.ids)

\* Unfold is defined on folded spectra (entries with FoldedOut hold 0 and are masked)
Unfold(s) ==
    LET own(ix) == MaskAt(s, ix) # FoldedOut(s.sh, ix)     \* masked for a reason other than folding
    IN  Mk(s.sh,
           LAMBDA ix : RHalf(RAdd(At(s, ix), At(s, MirrorIx(s.sh, ix)))),
           LAMBDA ix : own(ix) \/ own(MirrorIx(s.sh, ix)),
           FALSE, s.ids)

Misid(s, p) == Mk(s.sh, LAMBDA ix : RAdd(RMul(RSub("1", p), At(s, ix)), RMul(p, At(s, MirrorIx(s.sh, ix)))),
                  LAMBDA ix : MaskAt(s, ix) \/ MaskAt(s, MirrorIx(s.sh, ix)), s.f, s.ids)

(***************************************************************************)
(* C08: projection = hypergeometric subsampling                            *)
(***************************************************************************)
\* probability that a sample of m chromosomes drawn without replacement from n,
\* of which h are derived, contains k derived
Hyp(n, m, h, k) == RDiv(RMul(RBinom(m, k), RBinom(n - m, h - k)), RBinom(n, h))
HypSupport(n, m, h, k) == k >= 0 /\ k <= m /\ h - k >= 0 /\ h - k <= n - m

WithAxis(ix, a, v) == [ix EXCEPT ![a] = v]
ShWithAxis(sh, a, v) == [sh EXCEPT ![a] = v]

\* project axis a of an UNFOLDED spectrum down to sample size mm
ProjectAxis(s, a, mm) ==
    LET n   == s.sh[a] - 1
        sh2 == ShWithAxis(s.sh, a, mm + 1)
        src(ix) == {h \in 0..n : HypSupport(n, mm, h, ix[a])}
    IN  Mk(sh2,
           LAMBDA ix : RSum([h \in 0..n |-> IF HypSupport(n, mm, h, ix[a])
                                              THEN RMul(At(s, WithAxis(ix, a, h)), Hyp(n, mm, h, ix[a])) ELSE "0"]),
           LAMBDA ix : \E h \in src(ix) : MaskAt(s, WithAxis(ix, a, h)),
           FALSE, s.ids)

RECURSIVE ProjectFrom(_, _, _)
ProjectFrom(s, ns, a) == IF a > Len(ns) THEN s
                         ELSE ProjectFrom(IF ns[a] = s.sh[a] - 1 THEN s ELSE ProjectAxis(s, a, ns[a]), ns, a + 1)
CanProject(s, ns) == Len(ns) = Len(s.sh) /\ \A a \in 1..Len(ns) : ns[a] >= 0 /\ ns[a] <= s.sh[a] - 1
Project(s, ns) == IF s.f THEN Fold(ProjectFrom(Unfold(s), ns, 1)) ELSE ProjectFrom(s, ns, 1)

(***************************************************************************)
(* C10: population bookkeeping                                             *)
(***************************************************************************)
RemoveAt(q, a) == [j \in 1..(Len(q) - 1) |-> IF j < a THEN q[j] ELSE q[j + 1]]
InsertAt(q, a, v) == [j \in 1..(Len(q) + 1) |-> IF j < a THEN q[j] ELSE IF j = a THEN v ELSE q[j - 1]]

\* sum an unfolded spectrum over axis a (1-based)
SumAxis(s, a) ==
    LET sh2 == RemoveAt(s.sh, a)
    IN  Mk(sh2,
           LAMBDA ix : RSum([v \in 0..(s.sh[a] - 1) |-> At(s, InsertAt(ix, a, v))]),
           LAMBDA ix : \E v \in 0..(s.sh[a] - 1) : MaskAt(s, InsertAt(ix, a, v)),
           FALSE, IF s.ids = <<>> THEN <<>> ELSE RemoveAt(s.ids, a))
\* over = set of 1-based axes; remove from the highest down
RECURSIVE MargU(_, _)
MargU(s, over) == IF over = {} THEN s
                  ELSE LET a == CHOOSE x \in over : \A y \in over : y <= x IN MargU(SumAxis(s, a), over \ {a})
Marginalize(s, over) == IF s.f THEN Fold(MargU(Unfold(s), over)) ELSE MargU(s, over)
Filter(s, keep) == Marginalize(s, (1..Len(s.sh)) \ keep)

\* perm[j] = the old axis (1-based) that becomes new axis j
Reorder(s, perm) ==
    LET sh2 == [j \in 1..Len(perm) |-> s.sh[perm[j]]]
        old(ix) == [o \in 1..Len(perm) |-> ix[CHOOSE j \in 1..Len(perm) : perm[j] = o]]
    IN  Mk(sh2, LAMBDA ix : At(s, old(ix)), LAMBDA ix : MaskAt(s, old(ix)), s.f,
           IF s.ids = <<>> THEN <<>> ELSE [j \in 1..Len(perm) |-> s.ids[perm[j]]])

\* merge population b into population a (a < b, 1-based): allele counts add
CombineTwo(s, a, b) ==
    LET sh1 == ShWithAxis(s.sh, a, s.sh[a] + s.sh[b] - 1)
        sh2 == RemoveAt(sh1, b)
        srcs(ix) == {p \in (0..(s.sh[a] - 1)) \X (0..(s.sh[b] - 1)) : p[1] + p[2] = ix[a]}
        oldix(ix, p) == InsertAt(WithAxis(ix, a, p[1]), b, p[2])
        lab == IF s.ids = <<>> THEN <<>> ELSE RemoveAt([s.ids EXCEPT ![a] = s.ids[a] \o s.ids[b]], b)
    IN  Mk(sh2,
           LAMBDA ix : RSum([v \in 0..(s.sh[a] - 1) |->
                              IF ix[a] - v >= 0 /\ ix[a] - v <= s.sh[b] - 1
                              THEN At(s, oldix(ix, <<v, ix[a] - v>>)) ELSE "0"]),
           LAMBDA ix : \E p \in srcs(ix) : MaskAt(s, oldix(ix, p)),
           s.f, lab)

\* pool all chromosomes and re-deal them: multivariate hypergeometric
IProdR(q) == LET RECURSIVE go(_, _)
                 go(i, acc) == IF i > Len(q) THEN acc ELSE go(i + 1, RMul(acc, q[i]))
             IN go(1, "1")
MVHyp(sh, ix) == LET P == Len(sh) IN
    RDiv(IProdR([j \in 1..P |-> RBinom(sh[j] - 1, ix[j])]), RBinom(NTot(sh), Tot(ix)))
\* pooled spectrum: total count of the entries with t derived alleles in all populations together
\* (enumerating the first P-1 coordinates; the last one is determined by t)
PoolAt(s, t) ==
    LET P == Len(s.sh)
        front == SubSeq(s.sh, 1, P - 1)
    IN  IF P = 1 THEN s.d[t + 1]
        ELSE RSum([q \in 1..Size(front) |->
                 LET jx == Unflat(front, q) last == t - Tot(jx) IN
                 IF last >= 0 /\ last <= s.sh[P] - 1 THEN At(s, jx \o <<last>>) ELSE "0"])
ScrambleU(s) ==
    LET pool == [t \in 0..NTot(s.sh) |-> PoolAt(s, t)]
        \* a masked entry contaminates the pooled class of its total count
        badT == {Tot(Unflat(s.sh, k)) : k \in {q \in 1..Size(s.sh) : s.m[q]}}
    IN  Mk(s.sh, LAMBDA ix : RMul(MVHyp(s.sh, ix), pool[Tot(ix)]), LAMBDA ix : Tot(ix) \in badT, FALSE, s.ids)

(***************************************************************************)
(* Laws (checked exhaustively by TLC on the lattice of SpectrumOpsMC, and  *)
(* the reason per-operation conformance implies the composed statements).  *)
(***************************************************************************)
SameData(s, t) == s.sh = t.sh /\ s.d = t.d
Same(s, t)     == s.sh = t.sh /\ s.d = t.d /\ s.m = t.m /\ s.f = t.f /\ s.ids = t.ids
NoMask(s)      == \A k \in 1..Size(s.sh) : ~s.m[k]
=============================================================================
