CONSTANTS
  MaxBlocks = 6
  MaxPops = 5
  Rich = TRUE
  Gen = TRUE
  Grow = FALSE
SPECIFICATION Spec
CHECK_DEADLOCK FALSE
