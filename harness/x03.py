"""X03 (extension module) - the X-chromosome / sex-biased one-population machinery: Integration.one_pop_X and its
helpers solve the documented X scheme, PhiManip.phi_1D_X is its equilibrium (spec/SchemeX.tla, spec/SchemeXMC.tla,
spec/Trace_SchemeX.tla)."""
import random, itertools, math
from fractions import Fraction
import numpy as np
from . import common
from .common import rat, rats
from .scheme_common import rand_grid, rand_density, loguni
from .x03_common import rand_par_x, enc_par_x, delj_table_x, PNAMES

PROP = 'X03'


def _kv(beta):
    return (2 * beta + 4) * (beta + 1) / (9 * beta)


def fun_records(ctx, rng, nid):
    """The three helper functions on random arguments."""
    from dadi import Integration
    recs = []
    for rep in range(6 if ctx.quick else 40):
        p = rand_par_x(rng)
        n = rng.choice([5, 9, 17])
        g = rand_grid(rng, n)
        x = np.array(sorted([0.0, 1.0] + [rng.random() for _ in range(6)]))
        phi = rand_density(rng, [n])
        dt, theta0 = loguni(rng, 1e-6, 1e-1), rng.choice([1.0, rng.uniform(0.1, 5)])
        base = {'par': enc_par_x(p), 'x': rats(x), 'g': rats(g), 'phi': rats(phi), 'dt': rat(dt), 'theta0': rat(theta0)}
        V = Integration._Vfunc_X(x, p['nu'], p['beta'])
        M = Integration._Mfunc1D_X(x, p['gamma'], p['h'], p['beta'])
        inj = Integration._inject_mutations_1D_X(phi.copy(), dt, g, theta0, p['beta'], p['alpha'])
        for fn, site, out in (('V', 'Integration._Vfunc_X', rats(V)), ('M', 'Integration._Mfunc1D_X', rats(M)),
                              ('inj', 'Integration._inject_mutations_1D_X', rats(inj))):
            recs.append({'id': 'xfun-%d' % next(nid), 'op': 'xfun', 'site': site, 'in': dict(base, fn=fn), 'out': {'v': out}})
    return recs


def step_records(ctx, rng, nid):
    """One implicit step (T <= dt) through the public driver and through the constant-parameter worker."""
    from dadi import Integration
    recs = []
    old_tf, old_dj = Integration.timescale_factor, Integration.use_delj_trick
    try:
        for rep in range(12 if ctx.quick else 90):
            p = rand_par_x(rng)
            n = rng.choice([9, 17] if ctx.quick else [9, 17, 33])
            g = rand_grid(rng, n)
            phi = rand_density(rng, [n])
            theta0 = rng.choice([1.0, 0.0, rng.uniform(0.1, 5)])
            delj = (rep % 3 == 2)
            via = 'one_pop_X' if rep % 2 else '_one_pop_const_params_X'
            Integration.timescale_factor = loguni(rng, 1e-5, 1e-1)
            Integration.use_delj_trick = delj
            dt = Integration._compute_dt(np.diff(g), p['nu'], [0], p['gamma'], p['h']) * rng.uniform(0.2, 1.0)
            t0 = rng.choice([0.0, 0.25])
            try:
                if via == 'one_pop_X':
                    out = Integration.one_pop_X(phi.copy(), g, t0 + dt, nu=p['nu'], gamma=p['gamma'], h=p['h'], beta=p['beta'], alpha=p['alpha'],
                                                theta0=theta0, initial_t=t0)
                else:
                    out = Integration._one_pop_const_params_X(phi.copy(), g, t0 + dt, p['nu'], p['gamma'], p['h'], p['beta'], p['alpha'], theta0, t0)
                o = {'d': rats(np.asarray(out))}
            except Exception as ex:
                o = {'d': [], 'raised': type(ex).__name__}
            inp = {'g': rats(g), 'phi': rats(phi), 'par': enc_par_x(p), 'theta0': rat(theta0), 'dt': rat((t0 + dt) - t0), 'delj': delj, 'via': via}
            if delj:
                inp['deljtab'] = delj_table_x(g, p)
            recs.append({'id': 'xstep-%d' % next(nid), 'op': 'xstep', 'site': 'Integration.' + via, 'in': inp, 'out': o})
    finally:
        Integration.timescale_factor, Integration.use_delj_trick = old_tf, old_dj
    return recs


def rescale_records(ctx, rng, nid):
    """The same history relative to a reference size cc times smaller: nu*cc, gamma/cc, T*cc, theta0/cc."""
    from dadi import Integration
    recs = []
    for rep in range(6 if ctx.quick else 40):
        p = rand_par_x(rng)
        n = rng.choice([9, 17])
        g = rand_grid(rng, n)
        phi = rand_density(rng, [n])
        theta0 = rng.uniform(0.1, 5)
        cc = rng.choice([0.25, 8.0, loguni(rng, 0.05, 20), loguni(rng, 0.05, 20)])
        dt = Integration._compute_dt(np.diff(g), p['nu'], [0], p['gamma'], p['h'])
        T = dt * (rng.randint(0, 6) + rng.uniform(0.2, 0.8))          # keep T/dt away from an integer: same number of steps in both runs
        kw = dict(h=p['h'], beta=p['beta'], alpha=p['alpha'])
        try:
            a = Integration.one_pop_X(phi.copy(), g, T, nu=p['nu'], gamma=p['gamma'], theta0=theta0, **kw)
            b = Integration.one_pop_X(phi.copy(), g, T * cc, nu=p['nu'] * cc, gamma=p['gamma'] / cc, theta0=theta0 / cc, **kw)
            o = {'base': rats(np.asarray(a)), 'scaled': rats(np.asarray(b))}
        except Exception as ex:
            o = {'base': [], 'scaled': [], 'raised': type(ex).__name__}
        recs.append({'id': 'xrescale-%d' % next(nid), 'op': 'xrescale', 'site': 'Integration.one_pop_X',
                     'in': {'g': rats(g), 'par': enc_par_x(p), 'theta0': rat(theta0), 'T': rat(T), 'cc': rat(cc), 'steps': int(T / dt) + 1}, 'out': o})
    return recs


def phi_records(ctx, rng, nid):
    """phi_1D_X against the stationary density of the X scheme, D supplied by an independent evaluation (c01.D_table:
    closed form for genic selection, shifted composite Gauss-Legendre otherwise) of the effective autosomal parameters."""
    from dadi import Numerics, PhiManip
    from .c01 import D_table
    recs = []
    cases = []
    for rep in range(10 if ctx.quick else 60):
        nu = rng.choice([1.0, loguni(rng, 0.1, 10), loguni(rng, 0.1, 10)])
        beta = rng.choice([1.0, loguni(rng, 0.2, 5)])
        G = rng.choice([0.0, rng.uniform(-8, 8), rng.uniform(-40, 40)])       # effective selection gamma' * nu'
        gamma = G * _kv(beta) / nu * 0.75
        h = rng.choice([0.5, 0.5, 0.0, 1.0, rng.random()])
        cases.append((nu, gamma, h, beta, rng.choice([1.0, 0.0, loguni(rng, 0.2, 5)]), rng.uniform(0.2, 5), 'moderate'))
    # strong selection: only finiteness and sign are demanded
    for G in ((-250.0, -120.0, 120.0, 250.0) if ctx.quick else (-300.0, -250.0, -120.0, -60.0, 60.0, 120.0, 250.0, 300.0)):
        for nu in (1.0, 4.0):
            beta = rng.choice([1.0, 2.0, 0.5])
            cases.append((nu, G * _kv(beta) / nu * 0.75, rng.choice([0.5, 0.3, 0.8]), beta, 1.0, 1.0, 'strong'))
    # exp(+-Q) beyond the range of doubles: a distinct failure class with its own key
    for G in ((-450.0, 500.0, -5000.0) if ctx.quick else (-450.0, 450.0, -2000.0, 2000.0, -1e5, 1e5, -1e6)):
        for nu in (1.0, 10.0):
            beta = rng.choice([1.0, 2.0, 0.5])
            cases.append((nu, G * _kv(beta) / nu * 0.75, rng.choice([0.5, 0.3, 0.8, 0.0, 1.0]), beta, 1.0, 1.0, 'overflow'))
    for (nu, gamma, h, beta, alpha, theta0, regime) in cases:
        g = Numerics.default_grid(rng.choice([20, 40])) if rng.random() < 0.7 else rand_grid(rng, 15)
        p = {'nu': nu, 'gamma': gamma, 'h': h, 'beta': beta, 'alpha': alpha}
        try:
            phi = rats(PhiManip.phi_1D_X(g, nu=nu, theta0=theta0, gamma=gamma, h=h, beta=beta, alpha=alpha))
        except Exception as ex:
            phi = ['nan']
        G = (4 * gamma / 3) * (nu / _kv(beta))
        H = (1 + 2 * h) / 4
        D = np.maximum(D_table(np.asarray(g), G, H), 0.0) if regime == 'moderate' else np.zeros(len(g))     # the table is used in strict records only
        site = {'moderate': 'PhiManip.phi_1D_X', 'strong': 'PhiManip.phi_1D_X[strong selection]', 'overflow': 'PhiManip.phi_1D_X[overflow regime]'}[regime]
        recs.append({'id': 'xphi-%d' % next(nid), 'op': 'xphi', 'site': site,
                     'in': {'g': rats(g), 'par': enc_par_x(p), 'theta0': rat(theta0), 'G': rat(G), 'H': rat(H), 'D': rats(D), 'strict': regime == 'moderate'},
                     'out': {'phi': phi}})
    return recs


def stationary_records(ctx, rng, nid):
    from dadi import Numerics, PhiManip, Integration, Spectrum
    recs = []
    for c in range(5 if ctx.quick else 30):
        nu = 1.0 if c % 5 == 0 else loguni(rng, 0.1, 10)
        beta = rng.choice([1.0, loguni(rng, 0.3, 3)])
        alpha = rng.choice([1.0, loguni(rng, 0.3, 3)])
        G = 0.0 if c % 5 == 4 else rng.choice([rng.uniform(-8, -1), rng.uniform(1, 8)])
        gamma = G * _kv(beta) / nu * 0.75
        h = rng.choice([0.5, rng.random()]) if c % 4 != 1 else rng.choice([0.1, 0.9])
        theta0 = rng.uniform(0.5, 2)
        n = rng.choice([6, 12])
        T = rng.uniform(0.05, 0.3) * nu
        runs = []
        for pts in ([30, 60, 120] if ctx.quick else [30, 60, 120, 240]):
            xx = Numerics.default_grid(pts)
            try:
                phi = PhiManip.phi_1D_X(xx, nu=nu, theta0=theta0, gamma=gamma, h=h, beta=beta, alpha=alpha)
                before = Spectrum.from_phi(phi, [n], (xx,))
                phi2 = Integration.one_pop_X(phi, xx, T, nu=nu, gamma=gamma, h=h, beta=beta, alpha=alpha, theta0=theta0)
                after = Spectrum.from_phi(phi2, [n], (xx,))
                runs.append({'pts': pts, 'before': rats(np.asarray(before.data)), 'after': rats(np.asarray(after.data))})
            except Exception as ex:
                runs.append({'pts': pts, 'before': [], 'after': [], 'raised': type(ex).__name__})
        recs.append({'id': 'xstat-%d' % next(nid), 'op': 'xstat', 'site': 'PhiManip.phi_1D_X+Integration.one_pop_X',
                     'in': {'n': n, 'par': enc_par_x({'nu': nu, 'gamma': gamma, 'h': h, 'beta': beta, 'alpha': alpha}), 'theta0': rat(theta0), 'T': rat(T)},
                     'out': {'runs': runs}})
    return recs


def reexecute(rec):
    """Replay: run the real code again from the record's inputs (equilibrium records); other records are re-validated as stored."""
    from dadi import Numerics, PhiManip, Integration, Spectrum
    i = rec['in']
    if rec['op'] not in ('xphi', 'xstat'):
        return rec
    p = {k: float(Fraction(i['par'][k])) for k in PNAMES}
    theta0 = float(Fraction(i['theta0']))
    if rec['op'] == 'xphi':
        g = np.array([float(Fraction(v)) for v in i['g']])
        try:
            rec['out'] = {'phi': rats(PhiManip.phi_1D_X(g, theta0=theta0, **p))}
        except Exception as ex:
            rec['out'] = {'phi': ['nan']}
        return rec
    runs = []
    n, T = i['n'], float(Fraction(i['T']))
    for pts in [r['pts'] for r in rec['out']['runs']]:
        xx = Numerics.default_grid(pts)
        try:
            phi = PhiManip.phi_1D_X(xx, theta0=theta0, **p)
            before = Spectrum.from_phi(phi, [n], (xx,))
            after = Spectrum.from_phi(Integration.one_pop_X(phi, xx, T, theta0=theta0, **p), [n], (xx,))
            runs.append({'pts': pts, 'before': rats(np.asarray(before.data)), 'after': rats(np.asarray(after.data))})
        except Exception as ex:
            runs.append({'pts': pts, 'before': [], 'after': [], 'raised': type(ex).__name__})
    rec['out'] = {'runs': runs}
    return rec


def mutate(rec):
    o = rec['out']

    def bump(d, f=Fraction(1000001, 1000000)):
        cand = [j for j in range(len(d)) if d[j] not in ('nan', 'inf', '-inf') and Fraction(d[j]) != 0]
        if not cand:
            return False
        j = cand[len(cand) // 2]
        d[j] = rat(Fraction(d[j]) * f)
        return True
    if rec['op'] == 'xfun':
        if rec['in']['fn'] == 'inj':
            o['v'][1] = rat(Fraction(o['v'][1]) * Fraction(1001, 1000) + Fraction(1, 1000))
            return rec
        return rec if bump(o['v']) else None
    if rec['op'] == 'xstep':
        return rec if bump(o['d']) else None
    if rec['op'] == 'xrescale':
        d = o['scaled']
        if not d or any(v in ('nan', 'inf', '-inf') for v in d):
            return None
        j = max(range(len(d)), key=lambda q: abs(Fraction(d[q])))     # the tolerance is relative to the largest entry
        d[j] = rat(Fraction(d[j]) * Fraction(1000001, 1000000) + Fraction(1, 10 ** 9))
        return rec
    if rec['op'] == 'xphi':
        v = o['phi']
        if v == ['nan'] or len(v) < 3:
            return None
        if rec['in']['strict']:
            v[len(v) // 2] = rat(Fraction(v[len(v) // 2]) * Fraction(10001, 10000))
        else:
            v[len(v) // 2] = rat(-abs(Fraction(v[len(v) // 2])) - 1)
        return rec
    if rec['op'] == 'xstat':
        run = o['runs'][-1]
        if len(run['after']) < 3:
            return None
        run['after'][1] = rat(Fraction(run['after'][1]) * 3)
        return rec
    return None


def nontrivial(r):
    i = r['in']
    p = i.get('par', {})
    sel = (p.get('gamma') != '0', p.get('h'), p.get('beta') != '1', p.get('alpha') != '1', p.get('nu') != '1')
    if r['op'] == 'xfun':
        return (r['site'],) + sel
    if r['op'] == 'xstep':
        return (r['site'], i['delj'], len(i['g'])) + sel
    if r['op'] == 'xrescale':
        return (r['site'], i['steps'], i['cc']) + sel
    return (r['op'], r['site']) + sel


def run(ctx):
    from . import x03_common
    rng = random.Random(ctx.seed + 303)
    nid = itertools.count()
    if ctx.replay:
        pay = ctx.replay_payload['payload']
        ctx.no_mc = True
        if pay.get('driver'):
            return x03_common.replay_driver(ctx, pay)
        recs = [reexecute(pay['record'])]
    else:
        recs = (fun_records(ctx, rng, nid) + step_records(ctx, rng, nid) + rescale_records(ctx, rng, nid) + phi_records(ctx, rng, nid)
                + stationary_records(ctx, rng, nid))
    res = common.pipeline(
        ctx, [('SchemeXMC', 'SchemeXMC_%s.cfg' % ctx.tier)], 'Trace_SchemeX', recs, nontrivial_of=nontrivial, mutator=mutate,
        rule='helper functions _Vfunc_X/_Mfunc1D_X/_inject_mutations_1D_X on random arguments; single implicit steps through one_pop_X and '
             '_one_pop_const_params_X (random grids uniform/exponential/quadratic/random monotone with 9-33 points, densities, nu in [1e-2,1e2], gamma in [-40,40], '
             'h in [0,1], beta, alpha in {1} U [0.2,5] (alpha also 0), dt over 4 decades, Chang-Cooper switch off/on); reference-size rescaling with cc in '
             '{1/4, 8} U [0.05,20] over 1-7 steps; phi_1D_X at effective selection in [-40,40] against the independently evaluated stationary density and at '
             '|effective selection| up to 300 and in the overflow regime (450 ... 1e6) for finiteness/sign; stationarity of phi_1D_X under one_pop_X on doubled grids; driver event traces of one_pop_X '
             '(constant / function-constant / linear-in-time parameters, zero-duration, backwards, frozen, refused values); distinct by (function, path, switch, '
             'size, selection on/off, h, beta = 1?, alpha = 1?, nu = 1?)',
        assumptions=['exact rational residuals; backward-error tolerance 1e-11 per row; float-evaluated formulas within 1e-10',
                     'dadi has no compiled X kernel (no implicit_1Dx_X): the X line system is assembled in Python and solved by tridiag_cython.tridiag, so the kernel '
                     'conformance is the single-step records plus the tridiag events of the driver traces',
                     'with the Chang-Cooper switch on, delj comes from an independent stable evaluation (recorder) and the bounds are widened by the conditioning '
                     'allowance of the documented double-precision formula',
                     'the stationary density D(x) is supplied at the grid points by an independent evaluation (closed form / composite quadrature) and compared at 1e-6 for '
                     '|effective selection| <= 40; beyond, only finiteness and sign are demanded (phi_1D_X integrates with the default absolute quadrature tolerance)',
                     'parameters given as functions of time: the code documents that only constant parameters are implemented; NotImplementedError is accepted',
                     'convergence of the stationarity distance is sampled at 3-4 refinement levels (ratio 1/2 per doubling, floor 5e-4), not proved'],
        parallel=4)
    if not ctx.replay:
        res = x03_common.add_driver_traces_x(ctx, res, rng)
    return res
