"""Recorders for the integration layer (C02, C03, C04): kernel calls through the
Cython wrapper and through ctypes, the int_c logging proxy, generators of grids,
densities and parameters."""
import ctypes, math, os, random
from fractions import Fraction
import numpy as np
from .common import rat, rats

AXN = 'xyzab'


def kernel_names():
    names = []
    for P in range(1, 6):
        for k in range(P):
            names.append((P, k + 1, 'implicit_%dD%s' % (P, AXN[k])))
    return names           # 15 per-axis kernels


def rand_grid(rng, n, kind=None):
    """A grid on [0,1] with n points (0 and 1 are end points)."""
    from dadi import Numerics
    kind = kind or rng.choice(['uniform', 'exponential', 'quadratic', 'random', 'random'])
    if kind == 'uniform':
        g = np.linspace(0, 1, n)
    elif kind == 'exponential':
        g = Numerics.exponential_grid(n, crwd=rng.choice([2., 8., 20.]))
    elif kind == 'crowded':
        # first / last interior point within 1e-9 .. 1e-11 of the boundary (as exponential_grid with a large crowding gives)
        if n >= 5:
            g = Numerics.exponential_grid(n, crwd=rng.choice([1.05, 1.15, 1.25]) * 20.0 / (1.0 - 2.0 / (n - 1)))
        else:       # too few points for the exponential formula: put the interior point(s) next to the boundary directly
            eps_ = rng.choice([1e-9, 1e-10, 3e-11])
            g = np.array([0.0, eps_, 1.0]) if n == 3 else np.array([0.0, eps_, 1.0 - eps_, 1.0])
    elif kind == 'quadratic' and n >= 4:
        if n >= 20:
            g = Numerics.quadratic_grid(n)
        else:       # quadratic_grid needs >= 20 points: take n of the points of a 41-point one
            q = Numerics.quadratic_grid(41)
            g = q[[int(round(j * 40 / (n - 1))) for j in range(n)]]
    else:
        pts = sorted(rng.uniform(0.001, 0.999) for _ in range(n - 2))
        # keep points apart so that no interval is degenerate
        g = np.array([0.0] + pts + [1.0])
        for j in range(1, n - 1):
            if g[j] - g[j - 1] < 1e-3:
                g[j] = g[j - 1] + 1e-3 * (1 + rng.random())
        g[-1] = 1.0
        if g[-2] >= 1.0 - 1e-3:
            g = np.linspace(0, 1, n)
    g = np.ascontiguousarray(g, dtype=float)
    g[0], g[-1] = 0.0, 1.0
    return g


def rand_density(rng, shape):
    a = np.array([rng.choice([0.0, rng.random(), 10 ** rng.uniform(-3, 3)]) for _ in range(int(np.prod(shape)))])
    return np.ascontiguousarray(a.reshape(shape))


def loguni(rng, lo, hi):
    return math.exp(rng.uniform(math.log(lo), math.log(hi)))


def rand_params(rng, P, k):
    """Parameters of a sweep along axis k (1-based) in P populations; all migration rates distinct."""
    mig = []
    used = set()
    for j in range(1, P + 1):
        if j == k:
            mig.append(0.0)
            continue
        m = 0.0 if rng.random() < 0.25 else round(rng.uniform(0.05, 20), 3) + j * 1e-3
        mig.append(m)
    return {'nu': loguni(rng, 1e-2, 1e2), 'gamma': rng.choice([0.0, rng.uniform(-40, 40), rng.uniform(-2, 2)]),
            'h': rng.choice([0.5, 0.0, 1.0, rng.random()]), 'beta': loguni(rng, 0.2, 5) if P == 1 else 1.0, 'mig': mig}


def enc_par(p):
    return {'nu': rat(p['nu']), 'gamma': rat(p['gamma']), 'h': rat(p['h']), 'beta': rat(p['beta']), 'mig': [rat(m) for m in p['mig']]}


def enc_phi(a):
    return {'sh': [int(x) for x in a.shape], 'd': rats(np.asarray(a, dtype=float).ravel())}


def delj_table(grids, k, par, shape):
    """Chang-Cooper weights per grid line, computed independently of the code under test with a
    numerically stable formula: delj = 1 - 1/z + 1/(e^z - 1), z = 2 M dx / V at the interval midpoint."""
    P = len(shape)
    g = [Fraction(x) for x in grids[k - 1]]
    N = len(g)
    nu, gam, h, beta = (Fraction(par[x]) for x in ('nu', 'gamma', 'h', 'beta'))
    mig = [Fraction(m) for m in par['mig']]
    bf = (beta + 1) ** 2 / (4 * beta)
    tab = {}
    strides = [int(np.prod(shape[j + 1:])) for j in range(P)]
    for ix in np.ndindex(*shape):
        if ix[k - 1] != 0:
            continue
        oth = [Fraction(grids[j][ix[j]]) for j in range(P)]
        row = []
        for i in range(N - 1):
            x = (g[i] + g[i + 1]) / 2
            M = sum(mig[j] * (oth[j] - x) for j in range(P) if j != k - 1) + gam * 2 * (h + (1 - 2 * h) * x) * x * (1 - x)
            V = x * (1 - x) / nu * bf
            z = float(2 * M * (g[i + 1] - g[i]) / V)
            if z == 0:
                d = 0.5
            elif abs(z) < 1e-2:
                d = 0.5 + z / 12 - z ** 3 / 720 + z ** 5 / 30240
            elif z > 700:
                d = 1 - 1 / z
            elif z < 0:
                d = -1 / z + (math.exp(z) / math.expm1(z) if z > -700 else 0.0)
            else:
                d = 1 - 1 / z + 1 / math.expm1(z)
            row.append(rat(d))
        tab[str(sum(i_ * s for i_, s in zip(ix, strides)))] = row
    return tab


class CLib:
    """The hand-written kernels compiled into a plain shared library (no Cython wrapper)."""

    def __init__(self, overlay):
        self.lib = ctypes.CDLL(os.path.join(overlay, 'libkernels.so'))

    def call(self, P, k, phi, grids, par, dt, delj):
        name = 'implicit_%dD%s' % (P, AXN[k - 1])
        f = getattr(self.lib, name)
        dp = ctypes.POINTER(ctypes.c_double)
        phi = np.ascontiguousarray(phi, dtype=float).copy()
        gs = [np.ascontiguousarray(g, dtype=float) for g in grids]
        args = [phi.ctypes.data_as(dp)] + [g.ctypes.data_as(dp) for g in gs]
        mig = [par['mig'][j] for j in range(P) if j != k - 1]
        if P == 1:
            args += [ctypes.c_double(par['nu']), ctypes.c_double(par['gamma']), ctypes.c_double(par['h']), ctypes.c_double(par['beta'])]
        else:
            args += [ctypes.c_double(par['nu'])] + [ctypes.c_double(m) for m in mig] + [ctypes.c_double(par['gamma']), ctypes.c_double(par['h'])]
        args += [ctypes.c_double(dt)] + [ctypes.c_int(s) for s in phi.shape] + [ctypes.c_int(1 if delj else 0)]
        if P == 2:
            other = phi.shape[1] if k == 1 else phi.shape[0]
            args += [ctypes.c_int(0), ctypes.c_int(other)]
        elif P == 3:
            # implicit_3Dx loops jj in [Mstart, Mend) over axis 2; 3Dy and 3Dz loop ii in [Lstart, Lend) over axis 1
            other = phi.shape[1] if k == 1 else phi.shape[0]
            args += [ctypes.c_int(0), ctypes.c_int(other)]
        f.restype = None
        f(*args)
        return phi


def call_wrapper(P, k, phi, grids, par, dt, delj):
    """The same kernel through dadi.integration_c (the Cython wrapper used by the drivers)."""
    import dadi.integration_c as int_c
    name = 'implicit_%dD%s' % (P, AXN[k - 1])
    f = getattr(int_c, name)
    phi = np.ascontiguousarray(phi, dtype=float).copy()
    gs = [np.ascontiguousarray(g, dtype=float) for g in grids]
    mig = [par['mig'][j] for j in range(P) if j != k - 1]
    if P == 1:
        return f(phi, gs[0], par['nu'], par['gamma'], par['h'], par['beta'], dt, 1 if delj else 0)
    return f(phi, *gs, par['nu'], *mig, par['gamma'], par['h'], dt, 1 if delj else 0)
