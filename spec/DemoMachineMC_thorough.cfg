CONSTANTS
  MaxDepth = 4
  MaxP = 4
SPECIFICATION Spec
CHECK_DEADLOCK FALSE
INVARIANT L_WellFormed
INVARIANT L_NormWellFormed
INVARIANT L_Preserved
INVARIANT L_Idempotent
INVARIANT L_Congruence
INVARIANT L_ArgsIdempotent
INVARIANT L_ZeroDurationStutters
INVARIANT L_SymmetricMigration
INVARIANT L_NeutralSelection
INVARIANT L_SingleGamma
INVARIANT L_UnitAdmixtureIsSplit
INVARIANT L_Faithful
INVARIANT L_Distribution
INVARIANT L_ReorderInverse
