"""X01 (extension module) - simulator output readers and command builders of dadi
(spec/MsIO.tla, spec/MsIOMC.tla, spec/Trace_MsIO.tla).

The driver WRITES synthetic output files of Hudson's ms and of sfs_code for
seeded random abstract contents (replicates x sites x chromosomes; iterations
x mutation listings), reads them with the real Spectrum.from_ms_file /
Spectrum.from_sfscode_file under every option, and records the abstract
content, the lines found on disk and what dadi returned (exact rationals).
For Misc.ms_command and Demographics2D.*_mscore it records (arguments, text).
TLC (Trace_MsIO) decides every record: the lines must be read back to the
content by the specification's line-stream machine, the spectra must equal
SpectrumOfMs / SpectrumOfSfs of the content entry by entry (mask, folding flag,
labels included), the command texts must instantiate the templates.
"""
import io, math, os, random, shutil, tempfile
from fractions import Fraction
import numpy as np
from . import common
from .common import rat, rats

PROP = 'X01'
LABELS = ['YRI', 'CEU', 'pop 1', 'a+b', 'x', 'CHB', 'anc', 'p7']
PROGS = ['ms', './ms', '/usr/local/bin/ms', 'msdir/ms', 'msms']


def chars(s):
    return list(s)


def enc(fs):
    """dadi.Spectrum -> abstract spectrum [sh, d, m, f, ids] (labels as character sequences, [] = None)"""
    ids = getattr(fs, 'pop_ids', None)
    return {'sh': [int(x) for x in fs.shape],
            'd': rats(np.asarray(fs.data, dtype=float).ravel()),
            'm': [bool(x) for x in np.ma.getmaskarray(fs).ravel()],
            'f': bool(fs.folded),
            'ids': [chars(str(x)) for x in ids] if ids is not None else []}


def lines_of(text):
    """the lines of a file as character lists (a final newline does not start another line)"""
    ls = text.split('\n')
    if ls and ls[-1] == '':
        ls = ls[:-1]
    return [chars(l) for l in ls]


def text_of(lines):
    return ''.join(''.join(l) + '\n' for l in lines)


# --------------------------------------------------------------------------
# ms: what ms.c prints for a content
# --------------------------------------------------------------------------
def ms_text(command, seeds, content, tbs='', tail=''):
    nsam = content['nsam']
    out = [command + '\n', seeds + '\n']
    for rep in content['reps']:
        out.append('\n//' + tbs + '\n')
        out.append('segsites: %d\n' % len(rep))
        if rep:
            out.append('positions: ' + ''.join('%6.4f ' % float(Fraction(s['pos'])) for s in rep) + '\n')
            for c in range(nsam):
                out.append(''.join(str(s['al'][c]) for s in rep) + '\n')
        else:
            out.append('\n')
    return ''.join(out) + tail


def rand_positions(rng, S, B):
    """S sorted positions with 4 decimals in [0, 1]; break points k/B, 0 and 1 and ties occur"""
    ps = []
    for _ in range(S):
        u = rng.random()
        if u < 0.12 and B > 1:
            k = rng.randint(1, B - 1)
            ps.append(Fraction(round(Fraction(k, B) * 10000), 10000))      # on (or, for 1/3, next to) an inner break point
        elif u < 0.17:
            ps.append(Fraction(rng.choice([0, 10000]), 10000))
        elif u < 0.22 and ps:
            ps.append(rng.choice(ps))
        else:
            ps.append(Fraction(rng.randint(0, 10000), 10000))
    return sorted(ps)


def rand_content(rng, nsam, pops, nreps, max_sites, B):
    reps = []
    for r in range(nreps):
        S = 0 if rng.random() < 0.2 else rng.randint(1, max_sites)
        pos = rand_positions(rng, S, B)
        freq = rng.random()
        sites = []
        for j in range(S):
            u = rng.random()
            if u < 0.06:
                al = [0] * nsam                      # not segregating in the sample (other ms-like simulators print such columns)
            elif u < 0.12:
                al = [1] * nsam
            else:
                q = rng.choice([freq, rng.random(), 1.0 / nsam])
                al = [1 if rng.random() < q else 0 for _ in range(nsam)]
            sites.append({'pos': rat(pos[j]), 'al': al})
        reps.append(sites)
    return {'nsam': nsam, 'pops': list(pops), 'reps': reps}


def composition(rng, n, parts, allow_zero=True):
    cuts = sorted(rng.randint(0 if allow_zero else 1, n) for _ in range(parts - 1))
    edges = [0] + cuts + [n]
    return [edges[k + 1] - edges[k] for k in range(parts)]


def ms_command_line(rng, content, style):
    """the first line of the output: the command as ms echoes it"""
    nsam, pops, nreps = content['nsam'], content['pops'], len(content['reps'])
    if style == 'dadi':
        import dadi
        ns = pops if pops else [nsam]
        core = rng.choice(['', '-ej 0.3 2 1' if len(ns) == 2 else '-eN 0.2 0.5',
                           dadi.Demographics2D.split_mig_mscore((1.5, 0.5, 0.2, 1.0)) if len(ns) == 2 else '-G 2.0'])
        return dadi.Misc.ms_command(rng.choice([1.0, 2.5, 0.01]), ns, core, nreps, recomb=rng.choice([0, 0.5]),
                                    seeds=rng.choice([None, (11, 22, 33)]))
    toks = [rng.choice(PROGS), str(nsam), str(nreps)] + rng.choice([['-t', '5.0'], ['-s', '4'], ['-t', '2.5', '-r', '1.0', '100']])
    if pops:
        toks += ['-I', str(len(pops))] + [str(v) for v in pops] + ([rng.choice(['0.5', '2', '0'])] if rng.random() < 0.4 else [])
        if len(pops) > 1 and rng.random() < 0.6:
            toks += ['-ej', '0.25', '2', '1']
        if rng.random() < 0.3:
            toks += ['-n', '1', '2.0']
    sep = '  ' if style == 'wide' else ' '
    return sep.join(toks) + (' ' if style == 'wide' else '')


def ms_cases(ctx, rng):
    out = []
    n_rand = 170 if ctx.quick else 1500
    hows = ['path', 'path', 'fileobj', 'stringio', 'popen']
    for t in range(n_rand):
        dims = rng.choice([1, 1, 2, 2, 2, 3, 3])
        if t % 29 == 28:
            dims = 4 + (t // 29) % 4                     # 4..7 populations: the special-cased and the generic counting branch
        if dims <= 3:
            nsam = rng.randint(max(1, dims), 12 if dims < 3 else 9)
            pops = composition(rng, nsam, dims, allow_zero=rng.random() < 0.25)
        else:
            pops = [rng.choice([1, 1, 2]) for _ in range(dims)]
            nsam = sum(pops)
        style = rng.choice(['plain', 'plain', 'wide', 'dadi'])
        with_I = dims > 1 or (rng.random() < 0.4 and style != 'dadi')      # ms_command writes no -I for one population
        B = 1 if rng.random() < 0.65 else rng.randint(2, 6)
        content = rand_content(rng, nsam, pops if with_I else [], rng.randint(1, 4), 12 if dims <= 3 else 6, B)
        u = rng.random()
        if u < 0.55:
            pa = []
        elif u < 0.85:
            pa = composition(rng, nsam, rng.randint(1, min(3, nsam)), allow_zero=rng.random() < 0.2)      # all chromosomes, regrouped
        else:
            pa = composition(rng, rng.randint(1, nsam), rng.randint(1, 2), allow_zero=False)              # only the first chromosomes
        ngroups = len(pa) if pa else (len(pops) if with_I else 1)
        ids = [chars(rng.choice(LABELS)) for _ in range(ngroups)] if rng.random() < 0.5 else []
        command = ms_command_line(rng, content, style)
        text = ms_text(command, '%d %d %d' % (rng.randint(1, 65000), rng.randint(1, 65000), rng.randint(1, 65000)), content,
                       tbs=rng.choice(['', '', '\t0.5\t1.25']), tail=rng.choice(['', '', '\n', '\n\n']))
        out.append(('from_ms_file', {'content': content, 'lines': lines_of(text), 'expect': 'ok',
                                     'opt': {'avg': rng.random() < 0.5, 'mc': rng.random() < 0.5, 'pa': pa, 'ids': ids, 'B': B,
                                             'hdr': rng.random() < 0.4, 'how': rng.choice(hows)},
                                     'origin': style}))
    out += ms_boundary(ctx, rng)
    return out


def ms_boundary(ctx, rng):
    """deterministic in both tiers: the outputs of the exhaustive model (<= 2 populations x <= 3 chromosomes x <= 3 sites x <= 2
    replicates, sampled), every option on one fixed file, default arguments, zero-site replicates first / last / only, refusals"""
    out = []

    def case(content, opt, command=None, origin='boundary', tail='', expect='ok', tbs=''):
        o = {'avg': True, 'mc': True, 'pa': [], 'ids': [], 'B': 1, 'hdr': False, 'how': 'path'}
        o.update(opt)
        if command is None:
            command = ' '.join(['ms', str(content['nsam']), str(len(content['reps'])), '-t', '3.0'] +
                               (['-I', str(len(content['pops']))] + [str(v) for v in content['pops']] if content['pops'] else []))
        text = ms_text(command, '1 2 3', content, tail=tail, tbs=tbs)
        out.append(('from_ms_file', {'content': content, 'lines': lines_of(text), 'expect': expect, 'opt': o, 'origin': origin}))
    # the small outputs of the model
    for t in range(24 if ctx.quick else 200):
        nsam = rng.randint(1, 3)
        pops = rng.choice([[], [nsam]] + [[a, nsam - a] for a in range(nsam + 1)])
        nreps = rng.randint(1, 2)
        reps = []
        for r in range(nreps):
            S = rng.randint(0, 3)
            pos = rand_positions(rng, S, 2)
            reps.append([{'pos': rat(pos[j]), 'al': [rng.randint(0, 1) for _ in range(nsam)]} for j in range(S)])
        pa = rng.choice([[], [nsam]] + [[a, nsam - a] for a in range(nsam + 1)])
        case({'nsam': nsam, 'pops': pops, 'reps': reps}, {'avg': t % 2 == 0, 'mc': t % 3 != 0, 'pa': pa, 'B': 1 + t % 2}, origin='model')
    # one fixed two-population file under every option combination
    fixed = rand_content(random.Random(7), 7, [3, 4], 3, 9, 3)
    for avg in (True, False):
        for mc in (True, False):
            for pa in ([], [7], [4, 3], [2, 2, 3], [3, 2]):
                for B in (1, 3):
                    n = len(pa) if pa else 2
                    case(fixed, {'avg': avg, 'mc': mc, 'pa': pa, 'B': B, 'ids': [chars(LABELS[k]) for k in range(n)] if (avg != mc) else [],
                                 'hdr': B == 3, 'how': ['path', 'fileobj', 'stringio'][len(pa) % 3]}, origin='options')
    case(fixed, {'defaults': True}, origin='defaults')
    # replicates without segregating sites: first, last, in the middle, all of them
    site = lambda p, al: {'pos': rat(Fraction(p, 10000)), 'al': al}
    some = [site(1200, [1, 0, 0, 1]), site(5000, [0, 1, 1, 1]), site(9999, [0, 0, 1, 0])]
    for k, reps in enumerate(([[], some], [some, []], [some, [], [], some], [[]], [[], [], []])):
        for tail in ('', '\n\n'):
            case({'nsam': 4, 'pops': [2, 2] if k % 2 == 0 else [], 'reps': reps}, {'avg': k % 2 == 1, 'B': 1 + k % 3}, origin='zero-sites', tail=tail,
                 tbs='\t1.0' if k == 2 else '')
    # one chromosome, one population of size zero, long rows
    case({'nsam': 1, 'pops': [], 'reps': [[site(5000, [1])], [site(2500, [0]), site(2500, [1])]]}, {'mc': False, 'avg': False}, origin='nsam=1')
    case(rand_content(rng, 6, [0, 6], 2, 8, 1), {'mc': True}, origin='empty population')
    case(rand_content(rng, 5, [5, 0, 0], 2, 8, 1), {'mc': False, 'ids': [chars('a'), chars('b'), chars('c')]}, origin='empty population')
    case(rand_content(rng, 40, [15, 25], 2, 60 if ctx.quick else 300, 1), {}, origin='large')
    # the reader refuses what is not ms output (first word without "ms")
    for prog in ('scrm', 'simulate'):
        c = rand_content(rng, 4, [], 1, 3, 1)
        case(c, {}, command='%s 4 1 -t 1.0' % prog, origin='not ms', expect='refuse')
    return out


# --------------------------------------------------------------------------
# sfs_code
# --------------------------------------------------------------------------
NUC = 'ACGT'
AA = 'ACDEFGHIKLMNPQRSTVWY'


def sfs_listing_text(l):
    return ','.join([''.join(f) for f in l['f']] + ['%d.%d' % (p, c) for p, c in l['car']]) + ';'


def sfs_text(command, seeds, third, content, hdr, split, tail=''):
    out = [command + '\n', seeds + '\n', third + '\n']
    n = len(content['its'])
    for r, it in enumerate(content['its']):
        out.append('//iteration:%d/%d\n' % (r + 1, n))
        out += [h + '\n' for h in hdr]
        for q in range(0, len(it), split):
            out.append(''.join(sfs_listing_text(l) for l in it[q:q + split]) + '\n')
    return ''.join(out) + tail


def rand_iteration(rng, npop, nchrom, nmut):
    """listings of nmut distinct mutations; a mutation is listed once, or once per population it occurs in"""
    ls = []
    used = set()
    for _ in range(nmut):
        while True:
            ident = (str(rng.randint(0, 2)), rng.choice('AX'), str(rng.randint(0, 4999)), str(rng.randint(1, 9999)))
            if ident not in used:
                used.add(ident)
                break
        syn = rng.choice('01')
        tail = [''.join(rng.choice(NUC) for _ in range(3)), rng.choice(NUC), syn, rng.choice(AA), rng.choice(AA),
                rng.choice(['0.0', '-0.001', '0.0025', '-1.5e-05'])]
        per_pop = []
        for p in range(npop):
            u = rng.random()
            if u < 0.12:
                per_pop.append([[p, -1]])
            elif u < 0.35:
                per_pop.append([])
            else:
                k = rng.randint(1, nchrom[p]) if nchrom[p] else 0
                per_pop.append([[p, c] for c in sorted(rng.sample(range(nchrom[p]), k))])
        pops_with = [p for p in range(npop) if per_pop[p]]
        if len(pops_with) > 1 and rng.random() < 0.4:
            groups = [[p] for p in pops_with]            # one listing per population
            rng.shuffle(groups)
        else:
            groups = [list(range(npop))]
        for g in groups:
            car = [e for p in g for e in per_pop[p]]
            fixgen = str(rng.randint(1, 9999)) if any(e[1] == -1 for e in car) else '0'
            f = list(ident) + [fixgen] + tail + [str(sum(nchrom[e[0]] if e[1] == -1 else 1 for e in car))]
            ls.append({'f': [chars(x) for x in f], 'car': car})
    rng.shuffle(ls)
    return ls


def sfs_cases(ctx, rng):
    out = []
    n_rand = 70 if ctx.quick else 600
    for t in range(n_rand):
        npop = rng.choice([1, 1, 2, 2, 3])
        form = rng.choice(['--sampSize', '--sampSize', '--sampSize', 'default', '-n'])
        if form == 'default':
            npop = min(npop, 2)
            samp = []
        else:
            samp = [rng.randint(1, 4 if npop < 3 else 2) for _ in range(npop)]
        nchrom = [2 * v for v in samp] if samp else [12] * npop
        nit = rng.randint(1, 3)
        content = {'npop': npop, 'samp': samp, 'its': [rand_iteration(rng, npop, nchrom, rng.choice([0, 1, 3, 6, 10])) for _ in range(nit)]}
        out.append(sfs_case(rng, content, form, {'sites': rng.choice(['all', 'all', 'syn', 'nonsyn']), 'avg': rng.random() < 0.5, 'mc': rng.random() < 0.5,
                                                 'ids': [chars(rng.choice(LABELS)) for _ in range(npop)] if rng.random() < 0.5 else [],
                                                 'hdr': rng.random() < 0.4, 'how': rng.choice(['path', 'path', 'fileobj', 'stringio'])},
                            split=rng.choice([1, 2, 1000]), tail=rng.choice(['', '', '\n', '\n\n'])))
    # one fixed file under every option; defaults; iterations without mutations first / last / only
    fixed = {'npop': 2, 'samp': [2, 3], 'its': [rand_iteration(random.Random(5), 2, [4, 6], 7) for _ in range(2)]}
    for sites in ('all', 'syn', 'nonsyn'):
        for avg in (True, False):
            for mc in (True, False):
                out.append(sfs_case(rng, fixed, '--sampSize', {'sites': sites, 'avg': avg, 'mc': mc, 'ids': [chars('A'), chars('B')] if avg == mc else [],
                                                               'hdr': sites == 'syn', 'how': 'path'}, split=2, origin='options'))
    out.append(sfs_case(rng, fixed, '--sampSize', {'defaults': True, 'sites': 'all', 'avg': True, 'mc': True, 'ids': [], 'hdr': False, 'how': 'path'}, split=3, origin='defaults'))
    some = rand_iteration(rng, 1, [4], 4)
    for k, its in enumerate(([[], some], [some, []], [[]], [some, [], some])):
        out.append(sfs_case(rng, {'npop': 1, 'samp': [2], 'its': its}, '--sampSize', {'sites': 'all', 'avg': k % 2 == 0, 'mc': k % 2 == 1, 'ids': [], 'hdr': False, 'how': 'path'},
                            split=2, tail='\n' if k % 2 else '', origin='no mutations'))
    return out


def sfs_case(rng, content, form, opt, split=2, tail='', origin='random'):
    toks = [rng.choice(['sfs_code', './sfs_code']), str(content['npop']), str(len(content['its']))] + rng.choice([[], ['-TE', '0.5'], ['-t', '0.002', '-L', '1', '5000']])
    if content['samp']:
        toks += [form] + [str(v) for v in content['samp']]
    toks += rng.choice([[], ['-r', '0.0'], ['-W', '1', '5', '0', '1']])
    hdr = ['Nc:%d;' % rng.choice([100, 500]), 'MALES:%d;' % rng.randint(1, 6), 'locus_0:5000;', ''.join(rng.choice(NUC) for _ in range(30)) + ';']
    text = sfs_text(' '.join(toks), 'SEED = -%d' % rng.randint(1, 99999), '', content, hdr, split, tail)
    o = dict(opt)
    return ('from_sfscode_file', {'content': content, 'lines': lines_of(text), 'opt': o, 'form': form if content['samp'] else 'default', 'origin': origin})


# --------------------------------------------------------------------------
# command builders
# --------------------------------------------------------------------------
MODELS = {'split_mig': ['nu1', 'nu2', 'T', 'm'], 'IM': ['s', 'nu1', 'nu2', 'T', 'm12', 'm21'],
          'IM_pre': ['nuPre', 'TPre', 's', 'nu1', 'nu2', 'T', 'm12', 'm21']}


def rand_param(rng, name):
    if name == 's':
        return rng.choice([rng.uniform(0.01, 0.99), 0.5, 0.05])
    if name.startswith('nu'):
        return rng.choice([10 ** rng.uniform(-2, 2), 1.0, float(rng.randint(1, 20))])
    if name.startswith('T'):
        return rng.choice([10 ** rng.uniform(-2, 0.7), 0.5])
    return rng.choice([rng.uniform(0, 20), 0.0, 1.0])      # migration rates


def ln_table(model, p):
    """ln at the arguments the core needs, computed here with math.log (not with the code under test)"""
    f = {k: Fraction(v) for k, v in p.items()}
    if model == 'IM':
        args = [f['nu1'] / f['s'], f['nu2'] / (1 - f['s'])]
    elif model == 'IM_pre':
        args = [f['nu1'] / (f['nuPre'] * f['s']), f['nu2'] / (f['nuPre'] * (1 - f['s']))]
    else:
        args = []
    return {'ln': [[rat(a), rat(math.log(a))] for a in args]}


def builder_cases(ctx, rng):
    out = []
    cores = []
    n_core = 14 if ctx.quick else 120
    for model, names in MODELS.items():
        for t in range(n_core):
            p = {n: rand_param(rng, n) for n in names}
            if t == 0:
                p = {n: {'s': 0.25, 'T': 0.2}.get(n, 1.0 if n.startswith('nu') else 0.0) for n in names}      # sizes 1, no migration
            out.append(('mscore', {'model': model, 'p': {k: rat(v) for k, v in p.items()}, 'tab': ln_table(model, p)}))
            cores.append((model, p))
    n_cmd = 60 if ctx.quick else 500
    for t in range(n_cmd):
        npop = rng.choice([1, 1, 2, 2, 3])
        ns = [rng.randint(1, 30) for _ in range(npop)]
        theta = rng.choice([10 ** rng.uniform(-3, 3.5), 1.0, float(rng.randint(1, 5000)), 0.5])
        if npop == 2 and rng.random() < 0.7:
            core = ('model',) + cores[rng.randrange(len(cores))]
        else:
            core = ('text', rng.choice(['', '-eN 0.1 0.5', '-G 6.93 -eG 0.2 0.0', '-ej 0.5 2 1 -en 0.5 1 2.0' if npop > 1 else '-T']))
        recomb = 0 if rng.random() < 0.5 else rng.choice([10 ** rng.uniform(-2, 2), 1.0])
        out.append(('ms_command', {'theta': rat(theta), 'ns': ns, 'corespec': list(core[:2]) if core[0] == 'model' else list(core),
                                   'corep': {k: rat(v) for k, v in core[2].items()} if core[0] == 'model' else {},
                                   'iter': rng.choice([1, 10, 1000, rng.randint(1, 10 ** 6)]), 'recomb': rat(recomb),
                                   'rsites': 'none' if (recomb == 0 or rng.random() < 0.5) else str(rng.randint(2, 10 ** 6)),
                                   'seeds': [] if rng.random() < 0.5 else [rng.randint(1, 2 ** 31 - 1) for _ in range(3)],
                                   'nstype': rng.choice(['list', 'tuple', 'numpy']), 'itertype': rng.choice(['int', 'int', 'float'])}))
    return out


# --------------------------------------------------------------------------
# executing one case on the real dadi
# --------------------------------------------------------------------------
def _open(how, path):
    if how == 'fileobj':
        return open(path, 'r')
    if how == 'stringio':
        with open(path, 'r') as f:
            return io.StringIO(f.read())
    if how == 'popen':
        return os.popen('cat %s' % path)
    return path


def execute(op, inp, rid, tmpd):
    import dadi
    rec = {'id': rid, 'op': op, 'in': inp}
    if op in ('from_ms_file', 'from_sfscode_file'):
        opt = inp['opt']
        path = os.path.join(tmpd, rid.replace('/', '_') + ('.msout' if op == 'from_ms_file' else '.sfsout'))
        with open(path, 'w') as f:
            f.write(text_of(inp['lines']))
        ids = [''.join(l) for l in opt['ids']] or None
        src = _open(opt['how'], path)
        try:
            if op == 'from_ms_file':
                partial = bool(opt['pa']) and sum(opt['pa']) < inp['content']['nsam']
                rec['site'] = 'Spectrum.from_ms_file' + ('[partial pop_assignments]' if partial else '')
                if opt.get('defaults'):
                    res = dadi.Spectrum.from_ms_file(src)
                else:
                    res = dadi.Spectrum.from_ms_file(src, average=opt['avg'], mask_corners=opt['mc'], return_header=opt['hdr'],
                                                     pop_assignments=list(opt['pa']) or None, pop_ids=ids, bootstrap_segments=opt['B'])
            else:
                rec['site'] = 'Spectrum.from_sfscode_file' + ('[-n]' if inp['form'] == '-n' else '')
                if opt.get('defaults'):
                    res = dadi.Spectrum.from_sfscode_file(src)
                else:
                    res = dadi.Spectrum.from_sfscode_file(src, sites=opt['sites'], average=opt['avg'], mask_corners=opt['mc'],
                                                          return_header=opt['hdr'], pop_ids=ids)
            out = {}
            if opt['hdr']:
                res, (command, seeds) = res
                out['command'], out['seeds'] = chars(command), chars(seeds)
            if op == 'from_ms_file':
                out['specs'] = [enc(s) for s in res] if isinstance(res, list) else [enc(res)]
                out['returned'] = 'list' if isinstance(res, list) else 'spectrum'
            else:
                out['spec'] = enc(res)
            rec['out'] = out
        except Exception as e:
            rec['out'] = {'raised': type(e).__name__, 'msg': str(e)[:120]}
        finally:
            if hasattr(src, 'close'):
                src.close()
            os.unlink(path)
    elif op == 'mscore':
        rec['site'] = 'Demographics2D.%s_mscore' % inp['model']
        fn = getattr(dadi.Demographics2D, inp['model'] + '_mscore')
        params = [float(Fraction(inp['p'][n])) for n in MODELS[inp['model']]]
        try:
            text = fn(tuple(params) if len(params) % 2 == 0 else params)
            rec['out'] = {'text': chars(text)}
        except Exception as e:
            rec['out'] = {'raised': type(e).__name__, 'msg': str(e)[:120]}
    elif op == 'ms_command':
        rec['site'] = 'Misc.ms_command'
        try:
            cs = inp['corespec']
            if cs[0] == 'model':
                fn = getattr(dadi.Demographics2D, cs[1] + '_mscore')
                core = fn([float(Fraction(inp['corep'][n])) for n in MODELS[cs[1]]])
            else:
                core = cs[1]
            inp['core'] = [chars(t) for t in core.split()]          # the core as passed, token by token
            ns = {'list': list, 'tuple': tuple, 'numpy': lambda v: np.array(v, dtype=np.int64)}[inp['nstype']](inp['ns'])
            it = float(inp['iter']) if inp['itertype'] == 'float' else inp['iter']
            kw = {}
            if Fraction(inp['recomb']) != 0:
                kw['recomb'] = float(Fraction(inp['recomb']))
                if inp['rsites'] != 'none':
                    kw['rsites'] = int(inp['rsites'])
            if inp['seeds']:
                kw['seeds'] = tuple(inp['seeds'])
            text = dadi.Misc.ms_command(float(Fraction(inp['theta'])), ns, core, it, **kw)
            rec['out'] = {'text': chars(text)}
        except Exception as e:
            inp.setdefault('core', [])
            rec['out'] = {'raised': type(e).__name__, 'msg': str(e)[:120]}
    else:
        raise common.MachineryError('unknown op %s' % op)
    return rec


def records(ctx):
    rng = random.Random(ctx.seed + 101)
    tmpd = tempfile.mkdtemp(prefix='x01-', dir=common.SCRATCH_ROOT)
    err = io.StringIO()
    import sys
    old_err = sys.stderr
    try:
        sys.stderr = err                 # from_sfscode_file writes diagnostics to stderr
        recs = []
        for n, (op, inp) in enumerate(ms_cases(ctx, rng) + sfs_cases(ctx, rng) + builder_cases(ctx, rng)):
            recs.append(execute(op, inp, '%s-%d' % (op, n), tmpd))
        return recs
    finally:
        sys.stderr = old_err
        shutil.rmtree(tmpd, ignore_errors=True)


# --------------------------------------------------------------------------
def nontrivial(r):
    i = r['in']
    if r['op'] == 'from_ms_file':
        c, o = i['content'], i['opt']
        nsites = sum(len(rep) for rep in c['reps'])
        if nsites == 0 and i['expect'] == 'ok':
            return None
        return ('ms', c['nsam'], tuple(c['pops']), len(c['reps']), nsites, any(not rep for rep in c['reps']), o['avg'], o['mc'], tuple(o['pa']),
                bool(o['ids']), o['B'], o['hdr'], o['how'], i['expect'])
    if r['op'] == 'from_sfscode_file':
        c, o = i['content'], i['opt']
        nl = sum(len(it) for it in c['its'])
        if nl == 0:
            return None
        return ('sfs', c['npop'], tuple(c['samp']), len(c['its']), nl, i['form'], o['sites'], o['avg'], o['mc'], bool(o['ids']), o['hdr'])
    if r['op'] == 'mscore':
        return ('core', i['model'], tuple(sorted(i['p'].items())))
    return ('cmd', i['theta'], tuple(i['ns']), tuple(i['corespec'][:2]), i['iter'], i['recomb'], i['rsites'], bool(i['seeds']))


def mutate(rec):
    """Corrupt one observed field so that a sound trace spec must reject the record."""
    out = rec['out']
    if 'raised' in out:
        return None
    if rec['op'] in ('from_ms_file', 'from_sfscode_file'):
        s = out['specs'][-1] if rec['op'] == 'from_ms_file' else out['spec']
        k = len(s['d']) // 2
        if rec['id'].endswith(('1', '4', '7')):
            s['m'][k] = not s['m'][k]
        else:
            s['d'][k] = rat(Fraction(s['d'][k]) + (1 if rec['in']['opt']['avg'] is False else Fraction(1, 64)))
        return rec
    text = out['text']
    digits = [j for j, ch in enumerate(text) if ch.isdigit()]
    if not digits:
        return None
    j = digits[len(digits) // 2]
    text[j] = str((int(text[j]) + 1) % 10)
    return rec


def run(ctx):
    if ctx.replay:
        old = ctx.replay_payload['payload']['record']
        tmpd = tempfile.mkdtemp(prefix='x01-', dir=common.SCRATCH_ROOT)
        try:
            recs = [execute(old['op'], dict(old['in']), old['id'], tmpd)]     # re-executed on the current tree from the recorded inputs
        finally:
            shutil.rmtree(tmpd, ignore_errors=True)
        ctx.no_mc = True
    else:
        recs = records(ctx)
    return common.pipeline(
        ctx, [('MsIOMC', 'MsIOMC_%s.cfg' % ctx.tier)], 'Trace_MsIO', recs,
        nontrivial_of=nontrivial, mutator=mutate,
        rule='from_ms_file on written ms outputs: 1-7 populations (with / without -I, optional migration rate after -I, empty populations), 1-40 chromosomes, '
             '1-4 replicates incl. replicates with "segsites: 0" first / last / only, trailing blank lines, tbs arguments after "//", command lines in '
             'several styles incl. the text of Misc.ms_command, every option (average, mask_corners, pop_assignments full / partial, pop_ids, '
             'bootstrap_segments 1-6 with sites on break points, return_header, path / file object / StringIO / pipe) plus the small outputs of the '
             'exhaustive model; from_sfscode_file on written sfs_code outputs: 1-3 populations, default / --sampSize / -n sample sizes, 1-3 iterations '
             'incl. empty ones, mutations listed once or once per population, fixed (-1) carriers, sites all / syn / nonsyn, every option; '
             'ms_command and the three *_mscore builders on random arguments. Distinct by content sizes and the full option tuple; '
             'outputs without any site / listing are trivial',
        assumptions=['BigInteger rational arithmetic of the Rat override (self-tested against the TLA+ definitions)',
                     'the synthetic files follow the print statements of ms.c (and of sfs_code as far as from_sfscode_file looks at the text); TLC checks that the '
                     'specification\'s line-stream machine recovers exactly the recorded content from the lines found on disk',
                     'averaging: one float division, relative tolerance Tau = 2.5e-16; sums are exact integers',
                     'bootstrap segments: a site exactly on an inner break point k/B may be counted in either neighbouring segment (not documented); all other '
                     'sites by [ (b-1)/B, b/B ), the segments add up to the whole',
                     'command texts: a "%f" slot must be a decimal within 5e-7 (+1e-12 relative) of the value; ln for the growth rates from math.log on the exact argument; '
                     'dadi -> ms unit conversion T/2, 2m, 2 alpha as in the documented example (doc/examples/YRI_CEU)',
                     'labels: pop_ids given -> those; pop_ids None -> "pop0", "pop1", .. as both docstrings state'])
