"""C12 - optimisers honour bounds and fixed parameters and report the point they found
(spec/Optimizer.tla, spec/OptimizerMC.tla, spec/Trace_Optimizer.tla).

The driver runs every public optimiser of dadi on a cheap analytic model whose
model function logs each call (= one Eval event with the exact parameter
vector), records what the call returned and re-evaluates the model at the
returned point (Probe).  One record = one optimiser call = one behaviour of
the protocol state machine of Optimizer.tla; TLC replays it and names the
violated requirements.  Nothing is judged here.
"""
import itertools, logging, random
from fractions import Fraction
import numpy as np
from . import common
from .common import rat, rats

PROP = 'C12'
NONE = 'none'
KINDS = ['opt', 'optimize', 'optimize_log', 'optimize_lbfgsb', 'optimize_log_lbfgsb',
         'optimize_log_fmin', 'optimize_log_powell', 'optimize_cons', 'optimize_grid']
ALWAYS_LOG = {'optimize_log', 'optimize_log_lbfgsb', 'optimize_log_fmin', 'optimize_log_powell'}
NSAMP = 10


BOUND_CHECK_AFTER_EXP = {'optimize_log', 'optimize_log_fmin', 'optimize_log_powell'}


def site_of(kind, log, on_bound=False):
    """The dadi function.  The three log-parameter wrappers that test the bounds on exp(log(p)) share
    Inference._object_func_log; their calls whose start point lies exactly on a bound are a failure
    class of their own (exp(log(bound)) need not be the bound) with that function as site."""
    if kind == 'opt':
        return 'NLopt_mod.opt(log_opt=True)' if log else 'NLopt_mod.opt'
    if on_bound and kind in BOUND_CHECK_AFTER_EXP:
        return 'Inference._object_func_log[start on a bound]'
    return 'Inference.' + kind


def num(s):
    """rational string (or 'none') -> float / None, exactly the double that was recorded"""
    if s == NONE:
        return None
    return float(Fraction(s))


def enc(v):
    return NONE if v is None else rat(v)


# --------------------------------------------------------------------------
# the model: a smooth positive spectrum-valued function of 1-4 parameters
# --------------------------------------------------------------------------
class Problem:
    """m_j(p) = c_j * exp(1/2 * sum_k A_kj g(p_k)),  g(p) = 4p/(4+|p|)  (monotone, bounded, so the
    model is finite and positive for every parameter value an optimiser may try).  The data are the
    rounded model at 'truth' with a deterministic 5% ripple."""

    def __init__(self, npar, mseed, truth):
        j = np.arange(NSAMP + 1) / NSAMP
        shapes = [j - 0.5, 4 * (j - 0.5) ** 2 - 1. / 3, np.cos(3 * j + 0.3), np.sin(5 * j)]
        rng = np.random.RandomState(mseed)
        self.A = np.array([shapes[k] * (0.6 + 0.4 * rng.rand()) for k in range(npar)])
        self.c = 20 + 60 * (1 - j)
        self.npar = npar
        ripple = 1 + 0.05 * rng.randn(NSAMP + 1)
        import dadi
        self.data = dadi.Spectrum(np.round(self.values(np.asarray(truth, float)) * ripple))

    def values(self, p):
        g = 4 * p / (4 + np.abs(p))
        return self.c * np.exp(0.5 * self.A.T.dot(g))

    def spectrum(self, p):
        import dadi
        return dadi.Spectrum(self.values(p))


class LoggingModel:
    """The user's model function handed to the optimiser.  Every call is an evaluation."""

    def __init__(self, prob, multinom):
        self.prob, self.multinom = prob, multinom
        self.events = []
        self.mode = 'eval'
        self.last = None

    def __call__(self, params, ns, pts=None):
        from dadi import Inference
        p = np.atleast_1d(np.asarray(params, dtype=float)).ravel()
        sfs = self.prob.spectrum(p)
        ll = Inference.ll_multinom(sfs, self.prob.data) if self.multinom else Inference.ll(sfs, self.prob.data)
        try:
            ll = float(ll)
        except Exception:
            ll = float('nan')
        if self.mode == 'eval':
            self.events.append({'ev': 'Eval', 'p': rats(p), 'll': rat(ll)})
        self.last = ll
        return sfs


# --------------------------------------------------------------------------
# one optimiser call
# --------------------------------------------------------------------------
def as_values(obj):
    """the parameter values an object holds right now"""
    return rats(np.atleast_1d(np.asarray(obj, dtype=float)).ravel())


def execute_run(cfg, rid, objs=None, keep=None):
    """cfg is the record's 'in' (everything needed to repeat the call).  objs (call sequences): the caller's own
    p0 / lower_bound / upper_bound / fixed_params objects, handed to dadi as they are (their contents equal cfg's).
    keep: a list that receives the very object the optimiser returned as its parameters (None if the call raised)."""
    import dadi
    from dadi import Inference
    import scipy.optimize  # noqa: F401
    logging.getLogger('Inference').setLevel(logging.CRITICAL)
    kind, log = cfg['kind'], cfg['log']
    npar = cfg['npar']
    prob = Problem(npar, cfg['mseed'], [num(t) for t in cfg['truth']])
    model = LoggingModel(prob, cfg['multinom'])
    fixed = [num(v) for v in cfg['fixed']]
    lb = [num(v) for v in cfg['lb']]
    ub = [num(v) for v in cfg['ub']]
    wrap = CONTAINERS[cfg.get('container', 'list')]
    fixed_arg = None if cfg['fixed_is_none'] else wrap(fixed, True)
    if objs is not None:
        for key, want in (('p0', [num(v) for v in cfg['p0']]), ('lb', lb), ('ub', ub), ('fixed', fixed)):
            if [None if v is None else float(v) for v in objs[key]] != want:
                raise common.MachineryError('C12 sequence %s: the re-used %s object does not hold the recorded values' % (rid, key))
        fixed_arg = objs['fixed']
    kw = dict(multinom=cfg['multinom'], fixed_params=fixed_arg)
    full = cfg['full_output']
    scale = num(cfg['ll_scale'])
    cfg = dict(cfg)
    on_bound = False
    if kind != 'optimize_grid':
        p0 = [num(v) for v in cfg['p0']]
        on_bound = any(fixed[i] is None and p0[i] in (lb[i], ub[i]) for i in range(npar))
        start = [p0[i] if fixed[i] is None else fixed[i] for i in range(npar)]
        model.mode = 'probe'
        model(start, None)
        cfg['f0'] = rat(model.last)
        kw['lower_bound'] = None if cfg['lb_is_none'] else wrap(lb)
        kw['upper_bound'] = None if cfg['ub_is_none'] else wrap(ub)
        p0 = wrap(p0)
        if objs is not None:
            p0, kw['lower_bound'], kw['upper_bound'] = objs['p0'], objs['lb'], objs['ub']
    else:
        cfg['f0'] = NONE
    model.mode = 'eval'
    b = cfg['budget']
    returned = None
    try:
        fraw = None
        if cfg.get('constraint'):
            # the documented constraint options (free parameters sum to at most 3); bounds and protocol are unchanged
            if kind == 'opt':
                import nlopt
                kw.update(algorithm=nlopt.LN_COBYLA, ineq_constraints=[(lambda p, grad: p[0] + p[1] - 3.0, 1e-6)])
            else:
                kw.update(ieq_constraint=lambda p, *args: np.array([3.0 - (p[0] + p[1])]))
        if kind == 'opt':
            x, fraw = Inference.opt(p0, prob.data, model, None, log_opt=log, maxeval=b, **kw)
        elif kind == 'optimize_grid':
            if cfg.get('int_grid'):     # numpy.index_exp[1:4:1]: Python ints, the grid points are integer-typed arrays
                grid = tuple(slice(int(num(g[0])), int(num(g[1])), int(num(g[2]))) for g in cfg['grid'])
            else:
                grid = tuple(slice(num(g[0]), num(g[1]), complex(0, g[2]) if g[3] else num(g[2])) for g in cfg['grid'])
            out = Inference.optimize_grid(prob.data, model, None, grid, full_output=full, **kw)
            x, fraw = (out[0], out[1]) if full else (out, None)
        else:
            fn = getattr(Inference, kind)
            if kind in ('optimize', 'optimize_log', 'optimize_lbfgsb', 'optimize_log_lbfgsb', 'optimize_cons'):
                kw['ll_scale'] = scale
            out = fn(p0, prob.data, model, None, maxiter=b, full_output=full, **kw)
            x, fraw = (out[0], out[1]) if full else (out, None)
        returned = x
        x = np.array(np.atleast_1d(np.asarray(x, dtype=float)).ravel(), copy=True)
        model.events.append({'ev': 'Return', 'x': rats(x), 'f': enc(fraw), 'scale': rat(scale)})
        model.mode = 'probe'
        model(x, None)
        model.events.append({'ev': 'Probe', 'x': rats(x), 'll': rat(model.last)})
    except Exception as e:          # recorded; the specification has no action for it
        model.events.append({'ev': 'Raised', 'type': type(e).__name__, 'msg': str(e)[:120]})
    if keep is not None:
        keep.append(returned)
    return {'id': rid, 'op': 'run', 'site': site_of(kind, log, on_bound) + (SEQ_SUFFIX if objs is not None else ''), 'in': cfg,
            'out': {'events': model.events}}


def _ints(v, mask=False):
    """Python ints where the value is integral (0 stays the int 0), floats elsewhere"""
    return [x if x is None else (int(x) if float(x).is_integer() else x) for x in v]


def _array(v, mask=False):
    # a mask or a bound list holding None cannot be a float array: such lists stay lists
    # the array is a strided (non-contiguous) view: nothing in the statement restricts the layout
    return list(v) if any(x is None for x in v) else np.repeat(np.array(v, dtype=float), 2)[::2]


#: how start point, bounds and mask are handed to dadi (record field 'container')
CONTAINERS = {'list': lambda v, mask=False: list(v), 'tuple': lambda v, mask=False: tuple(v),
              'array': _array, 'ints': _ints}


BUDGET = {'opt': 40, 'optimize': 3, 'optimize_log': 3, 'optimize_lbfgsb': 25, 'optimize_log_lbfgsb': 25,
          'optimize_log_fmin': 12, 'optimize_log_powell': 1, 'optimize_cons': 4, 'optimize_grid': 0}


#: the boundary block uses smaller budgets (its point is the first evaluations and the returned point)
EDGE_BUDGET = {'opt': 20, 'optimize': 2, 'optimize_log': 2, 'optimize_lbfgsb': 12, 'optimize_log_lbfgsb': 12,
               'optimize_log_fmin': 8, 'optimize_log_powell': 1, 'optimize_cons': 3, 'optimize_grid': 0}


def make_cfg(rng, kind, log, npar, mask, multinom):
    """Random call: bounds (present / absent, of either sign where the parameterisation allows),
    a start point inside them, fixed values inside them, the optimum inside or outside."""
    positive = log                      # log parameterisation: parameters are positive
    lb, ub, truth, p0, fixed = [], [], [], [], []
    for i in range(npar):
        if positive:
            lo = rng.choice([None, None, 0.0, 0.05, 0.3, rng.uniform(0.01, 0.5)])
            base = lo or 0.0
            hi = rng.choice([None, base + 3.0, base + rng.uniform(0.8, 8.0)])
            tlo, thi = max(base, 0.1), (hi if hi is not None else base + 4.0)
        else:
            lo = rng.choice([None, None, 0.0, 0.25, -2.0, -rng.uniform(0.1, 3.0), rng.uniform(0.01, 0.5)])
            base = lo if lo is not None else -2.0
            hi = rng.choice([None, base + 3.0, base + rng.uniform(0.8, 8.0)])
            tlo, thi = base, (hi if hi is not None else base + 4.0)
        # the optimum: inside the bounds, or beyond one of them (then the best point lies on the bound)
        u = rng.random()
        if u < 0.6:
            t = rng.uniform(tlo + 0.15 * (thi - tlo), thi - 0.15 * (thi - tlo))
        elif u < 0.8 and hi is not None:
            t = hi + rng.uniform(0.5, 2.0)
        elif lo is not None and (not positive or lo > 0.2):
            t = lo - rng.uniform(0.05, 0.15) if positive else lo - rng.uniform(0.5, 2.0)
        else:
            t = rng.uniform(tlo, thi)
        # the start point: uniform inside, sometimes on / next to a bound
        u = rng.random()
        s = rng.uniform(tlo + 0.02 * (thi - tlo), thi)
        if u < 0.08 and hi is not None:
            s = hi
        elif u < 0.16 and lo is not None and lo > 0:
            s = lo
        elif u < 0.20 and lo is not None and lo > 0:
            s = lo * (1 + 10 ** rng.uniform(-9, -2))
        elif u < 0.24 and hi is not None and hi > 0:
            s = hi * (1 - 10 ** rng.uniform(-9, -2))
        fx = None
        if mask[i]:
            fx = rng.uniform(tlo + 0.05 * (thi - tlo), thi - 0.05 * (thi - tlo))
            if not positive and (lo is None or lo <= 0) and (hi is None or hi >= 0) and rng.random() < 0.35:
                fx = 0.0                                                        # a parameter fixed at exactly 0
            s = fx * rng.choice([0.5, 2.0, 1.25]) + (0.0 if positive else 0.3)   # ignored by a correct wrapper
        lb.append(lo)
        ub.append(hi)
        truth.append(t)
        p0.append(s)
        fixed.append(fx)
    cfg = {'kind': kind, 'log': log, 'npar': npar, 'mseed': rng.randrange(10 ** 6), 'truth': rats(truth),
           'multinom': multinom, 'fixed': [enc(v) for v in fixed],
           'fixed_is_none': (not any(mask)) and rng.random() < 0.5,
           'full_output': kind != 'opt' and rng.random() < 0.6,
           'll_scale': rat(rng.choice([1.0, 1.0, 2.0]) if kind in ('optimize', 'optimize_log', 'optimize_lbfgsb', 'optimize_log_lbfgsb', 'optimize_cons') else 1.0),
           'budget': BUDGET[kind]}
    if kind == 'optimize_grid':
        grid = []
        glb, gub = [], []
        for i in range(npar):
            if mask[i]:
                glb.append(None)
                gub.append(None)
                continue
            start = rng.choice([-1.0, 0.0, 0.25, 0.5])
            if rng.random() < 0.5:      # start:stop:count*j  (stop included)
                cnt = rng.choice([2, 3, 4])
                stop = start + rng.choice([1.0, 1.5, 2.0])
                grid.append([rat(start), rat(stop), cnt, True])
            else:                       # start:stop:step  (stop excluded)
                step = rng.choice([0.25, 0.5, 0.75])
                stop = start + step * rng.choice([2, 3, 4]) - 0.125
                grid.append([rat(start), rat(stop), rat(step), False])
            glb.append(start)
            gub.append(stop)
        # the ranges of the search grid are its bounds
        cfg.update({'grid': grid, 'p0': [NONE] * npar, 'lb': [enc(v) for v in glb], 'ub': [enc(v) for v in gub],
                    'lb_is_none': False, 'ub_is_none': False, 'll_scale': '1'})
    else:
        cfg.update({'p0': rats(p0), 'lb': [enc(v) for v in lb], 'ub': [enc(v) for v in ub],
                    'lb_is_none': all(v is None for v in lb) and rng.random() < 0.7,
                    'ub_is_none': all(v is None for v in ub) and rng.random() < 0.7})
    return cfg


def edge_cfgs(kind, log, seed):
    """The boundary values of the stated domain, drawn deterministically for every optimiser: start point
    exactly on a bound, one-sided / absent bounds in both spellings (None argument, list of None), bounds
    exactly 0, equal bounds, start value 0, fixed values 0.0 and int 0 in first / middle / last position,
    tuples / arrays / Python ints as containers, full_output on and off, ll_scale."""
    pos = log
    scaled = kind in ('optimize', 'optimize_log', 'optimize_lbfgsb', 'optimize_log_lbfgsb', 'optimize_cons')
    cases = []

    def case(name, p0, lb, ub, fixed=None, truth=None, multinom=None, full=None, **extra):
        n = len(p0)
        k = len(cases)
        fx = [None] * n if fixed is None else fixed
        t = truth if truth is not None else [1.4, 0.8, 2.2, 1.1][:n]
        c = {'kind': kind, 'log': log, 'npar': n, 'mseed': (seed + 31 * k) % 10 ** 6, 'truth': rats(t),
             'multinom': (k % 2 == 0) if multinom is None else multinom, 'fixed': [enc(v) for v in fx],
             'fixed_is_none': fixed is None and k % 2 == 1,
             'full_output': kind != 'opt' and ((k % 3 != 0) if full is None else full),
             'll_scale': '1', 'budget': EDGE_BUDGET[kind], 'edge': name,
             'p0': rats(p0), 'lb': [enc(v) for v in (lb if lb is not None else [None] * n)],
             'ub': [enc(v) for v in (ub if ub is not None else [None] * n)],
             'lb_is_none': lb is None, 'ub_is_none': ub is None}
        c.update(extra)
        cases.append(c)
    lo2, hi2 = ([0.25, 0.5], [3.0, 4.0]) if pos else ([-1.0, 0.25], [2.0, 3.0])
    mid = [1.0, 1.5]
    for mn in (True, False):
        case('start_on_lower', [lo2[0], mid[1]], lo2, hi2, multinom=mn)
        case('start_on_upper', [mid[0], hi2[1]], lo2, hi2, multinom=mn)
        case('start_on_both', [lo2[0], hi2[1]], lo2, hi2, multinom=mn, truth=[lo2[0] - 0.1, hi2[1] + 1.0])
    case('lower_only_list', mid, lo2, [None, None])
    case('upper_only_list', mid, [None, None], hi2)
    case('lower_only_arg', mid, lo2, None)
    case('upper_only_arg', mid, None, hi2)
    case('no_bounds_args', mid, None, None)
    case('no_bounds_lists', mid, [None, None], [None, None])
    case('mixed_one_sided', mid, [lo2[0], None], [None, hi2[1]])
    case('lower_zero', mid, [0.0, 0.0], [3.0, None], truth=[0.3, 0.2])
    case('lower_zero_optimum_beyond', mid, [0.0, 0.0], hi2, truth=[-0.5, 1.0] if not pos else [0.02, 1.0])
    case('equal_bounds', [1.0, 1.5], [1.0, lo2[1]], [1.0, hi2[1]])
    case('equal_bounds_all', [1.0, 1.5], [1.0, 1.5], [1.0, 1.5])
    if not pos:
        case('start_on_zero_lower', [0.0, 1.5], [0.0, 0.0], hi2)
        case('upper_zero', [-1.0, -0.5], [-3.0, None], [0.0, 0.0], truth=[-0.4, 0.6])
        case('start_on_zero_upper', [0.0, -0.5], [-3.0, -3.0], [0.0, 0.0], truth=[0.5, -1.0])
        case('start_zero_inside', [0.0, 0.5], [-1.0, -1.0], [1.0, 1.0], truth=[0.4, 0.3])
        case('start_all_zero', [0.0, 0.0], None, None, truth=[0.4, 0.3])
        case('negative_box', [-1.5, -2.0], [-3.0, -4.0], [-0.5, -1.0], truth=[-1.0, -0.2])
    # fixed values that are falsy in Python: 0.0 and the int 0, in first / middle / last position
    for container in ('list', 'ints'):
        z = 0.0
        case('fixed_zero_middle', [1.0, 5.0, 1.5], [lo2[0], 0.0, lo2[1]], [hi2[0], 2.0, hi2[1]], fixed=[None, z, None], container=container)
        case('fixed_zero_first', [5.0, 1.5], [0.0, lo2[1]], [2.0, hi2[1]], fixed=[z, None], container=container)
        case('fixed_zero_last', [1.0, 5.0], [lo2[0], None], [hi2[0], None], fixed=[None, z], container=container)
        case('fixed_zero_twice', [1.0, 5.0, 7.0, 1.5], None, None, fixed=[None, z, z, None], container=container)
        case('fixed_zero_and_one', [1.0, 5.0, 7.0], [0.0, 0.0, 0.0], None, fixed=[z, None, 1.0], container=container)
    for container in ('tuple', 'array', 'ints'):
        case('container_' + container, [1.0, 2.0], [0.0, 1.0], [3.0, 4.0], container=container, full=True)
        case('container_' + container + '_fixed', [1.0, 2.0, 1.0], [0.0, 1.0, 0.0], [3.0, 4.0, 3.0], fixed=[None, 2.0, None],
             container=container, full=False)
    for full in (True, False):
        for mn in (True, False):
            case('plain', mid, lo2, hi2, multinom=mn, full=full)
    if kind == 'optimize_cons' or (kind == 'opt' and not log):
        for mn in (True, False):
            case('constraint', mid, lo2, hi2, multinom=mn, full=True, truth=[2.2, 2.4], constraint=True)
    if scaled:
        case('ll_scale', mid, lo2, hi2, full=True, ll_scale=rat(2.0))
        case('ll_scale_fixed', [1.0, 1.5, 1.0], None, None, fixed=[None, None, 0.5], full=True, ll_scale=rat(4.0))
    return cases


def edge_grid_cfgs(seed):
    """optimize_grid: ranges starting at / ending at / containing 0, both range spellings, fixed 0.0 / int 0,
    one to three free parameters, full_output on and off."""
    cases = []

    def case(name, grid, fixed, multinom, full, container='list', **extra):
        k = len(cases)
        it = iter(grid)
        g = [None if f is not None else next(it) for f in fixed]
        cases.append({'kind': 'optimize_grid', 'log': False, 'npar': len(fixed), 'mseed': (seed + 17 * k) % 10 ** 6,
                      'truth': rats([(0.4, 0.9, -0.3, 0.6)[i] for i in range(len(fixed))]), 'multinom': multinom,
                      'fixed': [enc(v) for v in fixed], 'fixed_is_none': all(f is None for f in fixed) and k % 2 == 0,
                      'full_output': full, 'll_scale': '1', 'budget': 0, 'edge': name, 'container': container,
                      'grid': [[rat(a), rat(b), c, d] if d else [rat(a), rat(b), rat(c), d] for a, b, c, d in grid],
                      'p0': [NONE] * len(fixed), 'lb': [enc(None if x is None else x[0]) for x in g],
                      'ub': [enc(None if x is None else x[1]) for x in g], 'lb_is_none': False, 'ub_is_none': False})
        cases[-1].update(extra)
    for full in (True, False):
        for mn in (True, False):
            case('one_free', [(0.0, 2.0, 3, True)], [None], mn, full)
            case('two_free_from_zero', [(0.0, 1.0, 0.5, False), (-1.0, 0.0, 3, True)], [None, None], mn, full)
            case('fixed_zero_float', [(0.25, 1.25, 0.5, False)], [None, 0.0], mn, full)
            case('fixed_zero_int', [(-0.5, 0.5, 3, True)], [0, None], mn, full, 'ints')
            case('fixed_zero_middle', [(0.0, 1.0, 2, True), (0.5, 1.5, 0.5, False)], [None, 0.0, None], mn, full)
            case('three_free', [(0.0, 1.0, 2, True), (-1.0, 1.0, 1.0, False), (0.5, 1.0, 2, True)], [None, None, None], mn, full)
            case('single_point_range', [(0.5, 0.5, 1, True), (0.0, 1.0, 3, True)], [None, None], mn, full)
    # integer grids (slice objects with integer start / stop / step) with NON-integer fixed parameters
    for full in (True, False):
        for mn in (True, False):
            case('int_grid_fixed_last', [(1, 4, 1, False)], [None, 0.4], mn, full, int_grid=True)
            case('int_grid_fixed_first', [(1, 4, 1, False)], [1.7, None], mn, full, int_grid=True)
            case('int_grid_fixed_middle', [(1, 3, 1, False), (0, 3, 1, False)], [None, 0.4, None], mn, full, int_grid=True)
            case('int_grid_negative', [(-1, 2, 1, False)], [None, -0.55], mn, full, int_grid=True)
    return cases


def run_records(ctx):
    recs = []
    reps = 1 if ctx.quick else 6
    variants = [(k, k in ALWAYS_LOG) for k in KINDS] + [('opt', True)]
    n = 0
    for rep in range(reps):
        for kind, log in variants:
            for npar in (1, 2, 3, 4):
                for mask in itertools.product([False, True], repeat=npar):
                    if all(mask):
                        continue        # nothing to optimise (assumption listed in the evidence)
                    for multinom in (True, False):
                        rng = random.Random(ctx.seed * 1000003 + n)
                        cfg = make_cfg(rng, kind, log, npar, mask, multinom)
                        recs.append(execute_run(cfg, 'run-%d' % n))
                        n += 1
    # the boundary values of the domain, deterministically (quick and thorough)
    for kind, log in variants:
        cfgs = edge_grid_cfgs(ctx.seed) if kind == 'optimize_grid' else edge_cfgs(kind, log, ctx.seed)
        for k, cfg in enumerate(cfgs):
            recs.append(execute_run(cfg, 'edge-%s%s-%d-%s' % (kind, '-log' if log and kind == 'opt' else '', k, cfg['edge'])))
    return recs


# --------------------------------------------------------------------------
# sequences of optimiser calls in one process that re-use the SAME argument objects, edited in place between calls
# --------------------------------------------------------------------------
SEQ_SUFFIX = '[re-used argument lists]'
SEQ_BUDGET = {'opt': 25, 'optimize': 2, 'optimize_log': 2, 'optimize_lbfgsb': 12, 'optimize_log_lbfgsb': 12,
              'optimize_log_fmin': 10, 'optimize_log_powell': 1, 'optimize_cons': 3}


def seq_script(rng, with_none=True):
    """The user's session: (step name, in-place edits [(object, index, value)], the optimum of this step's data).
    Start points and fixed values stay strictly inside the bounds passed at each call; after an edit the optimum
    lies beyond the edited bound, so an optimiser that still works with the earlier contents leaves the bounds."""
    def j(x):                       # the seed moves every number a little
        return round(x * (1 + 0.04 * rng.uniform(-1, 1)), 6)
    first = {'p0': [j(1.0), j(2.5), j(1.5)], 'lb': [j(0.25), j(0.5), j(0.2)], 'ub': [j(3.0), j(4.0), j(3.5)], 'fixed': [None, None, None]}
    steps = [('first', [], [j(2.4), j(3.2), j(1.0)]),
             ('tighten_upper', [('ub', 0, j(1.25))], [j(2.4), j(3.2), j(1.0)]),
             ('raise_lower', [('lb', 1, j(2.0))], [j(2.4), j(1.0), j(1.0)])]
    if with_none:
        steps += [('bounds_to_none', [('ub', 0, None), ('ub', 2, None), ('lb', 2, None)], [j(2.0), j(1.2), j(1.0)]),
                  ('none_to_upper', [('ub', 0, j(1.4)), ('ub', 2, j(2.0))], [j(2.6), j(1.0), j(3.0)]),
                  ('none_to_lower', [('lb', 2, j(1.2))], [j(2.6), j(1.0), j(0.5)])]
    else:
        steps += [('tighten_both', [('ub', 2, j(2.0)), ('lb', 2, j(1.2))], [j(2.6), j(1.0), j(3.0)])]
    steps += [('edit_start', [('p0', 0, j(0.6)), ('p0', 1, j(3.0))], [j(2.6), j(1.0), j(0.5)]),
              ('fix_one', [('fixed', 1, j(2.2))], [j(2.6), j(1.0), j(0.5)]),
              ('move_fixed', [('fixed', 1, None), ('fixed', 0, j(0.9))], [j(2.6), j(1.0), j(2.5)]),
              ('loosen', [('ub', 0, j(3.0)), ('lb', 1, j(0.5)), ('fixed', 0, None)], [j(2.0), j(1.0), j(1.6)])]
    return first, steps


def seq_cfgs(rng, kinds, name, with_none=True, container='list'):
    """The recorded calls of one session: kinds[k % len(kinds)] = (kind, log) makes call k."""
    first, steps = seq_script(rng, with_none)
    cur = {k: list(v) for k, v in first.items()}
    cfgs = []
    for k, (step, edits, truth) in enumerate(steps):
        for obj, idx, val in edits:
            cur[obj][idx] = val
        kind, log = kinds[k % len(kinds)]
        cfgs.append({'kind': kind, 'log': log, 'npar': 3, 'mseed': rng.randrange(10 ** 6), 'truth': rats(truth),
                     'multinom': rng.random() < 0.5, 'fixed': [enc(v) for v in cur['fixed']], 'fixed_is_none': False,
                     'full_output': kind != 'opt' and k % 2 == 0, 'll_scale': '1', 'budget': SEQ_BUDGET[kind],
                     'p0': rats(cur['p0']), 'lb': [enc(v) for v in cur['lb']], 'ub': [enc(v) for v in cur['ub']],
                     'lb_is_none': False, 'ub_is_none': False, 'container': container,
                     'seq': {'name': name, 'step': step, 'k': k, 'edits': [[o, i, enc(v)] for o, i, v in edits]}})
    return cfgs


def execute_sequence(cfgs, ids):
    """Make the calls one after the other in this process.  The four argument objects are created once; before each call
    the entries that differ from the call's recorded values are assigned IN PLACE (object[i] = value)."""
    def values(c, key):
        return [num(v) for v in c[key]]
    keys = ('p0', 'lb', 'ub', 'fixed')
    as_array = cfgs[0].get('container') == 'array'
    objs = {}
    for key in keys:
        v = values(cfgs[0], key)
        objs[key] = np.array(v, dtype=float) if as_array and key != 'fixed' and None not in v else list(v)
    recs = []
    results = []        # the objects the calls returned, kept as a multi-start loop keeps its (popt, ll) pairs
    at_return = []      # their values when they were returned
    for c, rid in zip(cfgs, ids):
        for key in keys:
            want = values(c, key)
            for i in range(len(want)):
                have = objs[key][i]
                if (None if have is None else float(have)) != want[i]:
                    objs[key][i] = want[i]
        r = execute_run(c, rid, objs=objs, keep=results)
        mine = results[-1]
        ev = r['out']['events']
        at_return.append(next((e['x'] for e in ev if e['ev'] == 'Return'), None))
        earlier = [q for q in range(len(results) - 1) if results[q] is not None]
        # the SAME objects, read again after this call (and after the in-place edits of the arguments before it)
        r['out']['kept'] = {'calls': [ids[q] for q in earlier], 'at_return': [at_return[q] for q in earlier],
                            'now': [as_values(results[q]) for q in earlier],
                            'shares': [bool(mine is not None and np.shares_memory(np.asarray(mine), np.asarray(results[q]))) for q in earlier]}
        recs.append(r)
    return recs


def sequence_records(ctx):
    rng = random.Random(ctx.seed + 1200)
    variants = [(k, k in ALWAYS_LOG) for k in KINDS if k != 'optimize_grid'] + [('opt', True)]
    sessions = []
    for rep in range(1 if ctx.quick else 5):
        for kind, log in variants:              # one optimiser through the whole session
            sessions.append(seq_cfgs(rng, [(kind, log)], '%s%s-%d' % (kind, '-log' if log and kind == 'opt' else '', rep)))
        # numpy arrays as bound / start objects, edited in place (no None entries)
        for kind, log in variants[rep % 2::2]:
            sessions.append(seq_cfgs(rng, [(kind, log)], '%s%s-arrays-%d' % (kind, '-log' if log and kind == 'opt' else '', rep),
                                     with_none=False, container='array'))
        # the same objects handed from one optimiser to the next
        for shift in (0, 3):
            order = variants[shift:] + variants[:shift]
            rng.shuffle(order)
            sessions.append(seq_cfgs(rng, order, 'mixed-%d-%d' % (shift, rep)))
        # the brute-force search: four searches over two parameters with one fixed_params list
        two = [c for c in edge_grid_cfgs(ctx.seed) if c['npar'] == 2]
        grid = [dict(c, container='list', mseed=rng.randrange(10 ** 6)) for c in two[:4] + [c for c in two if c.get('int_grid')][:2]]
        sessions.append([dict(c, seq={'name': 'grid-%d' % rep, 'step': c['edge'], 'k': k, 'edits': []}) for k, c in enumerate(grid)])
    recs = []
    for cfgs in sessions:
        ids = ['seq-%s-%d-%s' % (c['seq']['name'], c['seq']['k'], c['seq']['step']) for c in cfgs]
        got = execute_sequence(cfgs, ids)
        for k, r in enumerate(got):
            # what a replay needs: the calls made before this one on the same objects
            r['in']['seq']['prior'] = [{a: b for a, b in c.items() if a != 'seq'} for c in cfgs[:k]]
        recs.extend(got)
    return recs


def replay_sequence(old):
    """Re-execute the session up to and including the recorded call; return the fresh record of that call."""
    this = {a: b for a, b in old['in'].items() if a != 'f0'}
    prior = [dict(c, seq={'name': this['seq']['name'], 'step': 'prior', 'k': k, 'edits': []}) for k, c in enumerate(this['seq']['prior'])]
    prior = [{a: b for a, b in c.items() if a != 'f0'} for c in prior]
    got = execute_sequence(prior + [this], ['prior-%d' % k for k in range(len(prior))] + [old['id']])
    return got[-1]


# --------------------------------------------------------------------------
# single calls: _project_params_up / _project_params_down / perturb_params
# --------------------------------------------------------------------------
def rand_mask(rng, n, p=0.4):
    # a fixed value may be exactly 0 (falsy in Python): a common choice, e.g. a migration rate switched off
    return [rng.choice([round(rng.uniform(-3, 5), 3), round(rng.uniform(-3, 5), 3), 0.0, 0]) if rng.random() < p else None for _ in range(n)]


def observe(fn, key, keep=None):
    try:
        res = fn()
        out = {key: rats(list(np.atleast_1d(np.asarray(res, dtype=float)).ravel()))}
        if keep is not None:
            keep.append((key, res, out))
        return out
    except Exception as e:
        return {'raised': type(e).__name__}


class Kept:
    """Results of earlier single calls, kept by the caller.  shares(): does a new result overlap one of them in memory;
    finish(): read every kept object again after all later calls (out[key + '_end'])."""

    def __init__(self):
        self.items = []
        self.spans = []         # sorted (start address, end address, index into items) of the kept ndarray results

    def add(self, item):
        import bisect
        key, res, out = item
        if isinstance(res, np.ndarray) and res.size:
            lo, hi = _byte_bounds(res)
            k = bisect.bisect_left(self.spans, (lo - 65536,))
            shares = False
            while k < len(self.spans) and self.spans[k][0] < hi:
                if self.spans[k][1] > lo and np.shares_memory(res, self.items[self.spans[k][2]][1]):
                    shares = True
                    break
                k += 1
            out['shares_earlier'] = shares
            bisect.insort(self.spans, (lo, hi, len(self.items)))
        self.items.append(item)

    def finish(self):
        for key, res, out in self.items:
            out[key + '_end'] = rats(list(np.atleast_1d(np.asarray(res, dtype=float)).ravel()))


def _byte_bounds(a):
    lo = hi = a.__array_interface__['data'][0]
    for n, st in zip(a.shape, a.strides):
        if st < 0:
            lo += (n - 1) * st
        else:
            hi += (n - 1) * st
    return lo, hi + a.itemsize


def execute_static(op, inp, rid, kept=None, later=False):
    """kept (a Kept): the caller keeps the returned object.  later (replay): the same function is called once more on
    shifted values and the first result is read again afterwards."""
    from dadi import Inference, Misc
    keep = [] if (kept is not None or later) and op != 'perturb' else None
    if later and keep is not None:
        kept = Kept()
        inp2 = dict(inp, **{a: [v if v == NONE else rat(Fraction(v) + 1) for v in inp[a]] for a in ('x', 'y', 'fixed') if a in inp})
        execute_static(op, inp2, rid + '-before', kept=kept)
    wrap = CONTAINERS[inp.get('container', 'list')]
    fixed = [num(v) for v in inp['fixed']] if 'fixed' in inp else None
    fx_arg = None if inp.get('fixed_is_none') else (None if fixed is None else wrap(fixed, True))
    def typed(v):
        """the vector as the recorded dtype: an int64 / int32 / float32 array or a list of Python ints (values are exact in it)"""
        dt = inp.get('dtype')
        if dt == 'pyint':
            return [int(q) for q in v]
        return np.array(v, dtype={'int64': np.int64, 'int32': np.int32, 'float32': np.float32}[dt])
    if op == 'up':
        x = [num(v) for v in inp['x']]
        arg = np.float64(x[0]) if inp.get('scalar') else (_array(x) if inp.get('array') and x else x)
        if inp.get('dtype'):
            arg = typed(x)
        out = observe(lambda: Inference._project_params_up(arg, fx_arg), 'y', keep)
        site = 'Inference._project_params_up'
    elif op == 'down':
        y = [num(v) for v in inp['y']]
        yarg = typed(y) if inp.get('dtype') else (_array(y) if inp.get('array') and y else y)
        out = observe(lambda: Inference._project_params_down(yarg, fx_arg), 'x', keep)
        site = 'Inference._project_params_down'
    elif op == 'up_down':
        x = [num(v) for v in inp['x']]
        xarg = typed(x) if inp.get('dtype') else np.array(x)
        out = observe(lambda: Inference._project_params_down(Inference._project_params_up(xarg, fx_arg), fx_arg), 'x', keep)
        site = 'Inference._project_params_up'
    elif op == 'down_up':
        y = [num(v) for v in inp['y']]
        yarg = typed(y) if inp.get('dtype') else np.array(y)
        out = observe(lambda: Inference._project_params_up(Inference._project_params_down(yarg, fx_arg), fx_arg), 'y', keep)
        site = 'Inference._project_params_down'
    elif op == 'perturb':
        params = [num(v) for v in inp['params']]
        params = np.array(_ints(params)) if inp.get('container') == 'ints' else (wrap(params) if 'container' in inp else np.array(params))
        lb = None if inp['lb_is_none'] else wrap([num(v) for v in inp['lb']])
        ub = None if inp['ub_is_none'] else wrap([num(v) for v in inp['ub']])
        np.random.seed(inp['seed'])
        out = observe(lambda: Misc.perturb_params(params, fold=inp['fold'], lower_bound=lb, upper_bound=ub), 'p')
        site = 'Misc.perturb_params'
    else:
        raise common.MachineryError('unknown op %s' % op)
    if keep:
        kept.add(keep[0])
        if later:
            execute_static(op, inp2, rid + '-after', kept=kept)
            kept.finish()
    return {'id': rid, 'op': op, 'site': site, 'in': inp, 'out': out}


def static_records(ctx):
    rng = random.Random(ctx.seed + 12)
    recs = []
    nid = itertools.count()

    kept = Kept()

    def add(op, inp):
        recs.append(execute_static(op, inp, '%s-%d' % (op, next(nid)), kept=kept))
    # deterministic part: every mask pattern over 0-3 parameters with the fixed value 0.0, the int 0 and a
    # negative number; free values include 0; list and array arguments; the scalar argument for one free entry
    for n in range(0, 4):
        for pattern in itertools.product([False, True], repeat=n):
            for v, container in ((0.0, 'list'), (0, 'ints'), (-2.5, 'array')):
                mask = [v if f else None for f in pattern]
                nfree = n - sum(pattern)
                x = [0.0, 1.25, -3.0][:nfree]
                y = [([0.0, 1.25, -3.0][i] if m is None else m) for i, m in enumerate(mask)]
                base = {'fixed': [enc(m) for m in mask], 'fixed_is_none': False, 'array': container == 'array', 'container': container}
                add('up', dict(base, x=rats(x), scalar=False))
                if nfree == 1:
                    add('up', dict(base, x=rats(x), scalar=True))
                add('down', dict(base, y=rats(y)))
                add('up_down', dict(base, x=rats(x)))
                add('down_up', dict(base, y=rats(y)))
        free = {'fixed': [NONE] * n, 'fixed_is_none': True, 'array': n % 2 == 0}
        add('up', dict(free, x=rats([0.0, 1.25, -3.0][:n]), scalar=False))
        add('down', dict(free, y=rats([0.0, 1.25, -3.0][:n])))
    # the free vector in other dtypes (integer arrays as numpy.mgrid / an integer search grid produce them, float32, lists of
    # Python ints) around NON-integer fixed values: 0.4 / 1.7 are not exact in float32, 0.5 / 1.75 are (then a float32 y can agree)
    for n in (2, 3):
        for pattern in itertools.product([False, True], repeat=n):
            if all(pattern) or not any(pattern):
                continue
            for dt in ('int64', 'int32', 'float32', 'pyint'):
                free = [1.25, -3.0, 0.5] if dt == 'float32' else [2.0, -3.0, 0.0]
                for fv in ([0.4, -2.5, 1.7], [0.5, -2.5, 1.75]):
                    mask = [fv[i] if f else None for i, f in enumerate(pattern)]
                    x = free[:n - sum(pattern)]
                    y = [(m if m is not None and dt == 'float32' and float(np.float32(m)) == m else free[i]) for i, m in enumerate(mask)]
                    base = {'fixed': [enc(m) for m in mask], 'fixed_is_none': False, 'array': False, 'dtype': dt}
                    add('up', dict(base, x=rats(x), scalar=False))
                    add('up_down', dict(base, x=rats(x)))
                    add('down', dict(base, y=rats(y)))
                    add('down_up', dict(base, y=rats(y)))
    for k in range(80 if ctx.quick else 1500):
        n = rng.randint(1, 6)
        mask = rand_mask(rng, n, rng.choice([0.0, 0.3, 0.6, 1.0]))
        nfree = sum(1 for v in mask if v is None)
        x = [rng.uniform(-4, 9) for _ in range(nfree)]
        y = [rng.uniform(-4, 9) if v is None or rng.random() < 0.3 else v for v in mask]
        none_mask = nfree == n and rng.random() < 0.5
        base = {'fixed': [enc(v) for v in mask], 'fixed_is_none': none_mask, 'array': rng.random() < 0.5}
        add('up', dict(base, x=rats(x), scalar=(nfree == 1 and not none_mask and rng.random() < 0.3)))
        add('down', dict(base, y=rats(y)))
        add('up_down', dict(base, x=rats(x)))
        add('down_up', dict(base, y=rats(y)))
    # deterministic part: every pairing of {no argument, None entry, negative, 0, positive} lower and upper
    # bounds, equal bounds, parameters -1 / 0 / 1, folds 0 / 1 / 3, tuples / arrays / Python ints
    pseed = itertools.count(ctx.seed % 1000)
    ABSENT = 'absent'
    for lo in (ABSENT, None, -2.0, 0.0, 0.5):
        for hi in (ABSENT, None, -0.5, 0.0, 3.0):
            if isinstance(lo, float) and isinstance(hi, float) and lo > hi:
                continue
            for fold in (0, 1, 3):
                add('perturb', {'params': rats([-1.0, 0.0, 1.0]), 'fold': fold, 'seed': next(pseed),
                                'lb': [enc(None if lo == ABSENT else lo)] * 3, 'ub': [enc(None if hi == ABSENT else hi)] * 3,
                                'lb_is_none': lo == ABSENT, 'ub_is_none': hi == ABSENT})
    for b in (-1.0, 0.0, 2.0):
        for fold in (0, 1, 3):
            add('perturb', {'params': rats([-1.0, 0.0, 1.0, b]), 'fold': fold, 'seed': next(pseed), 'lb': [enc(b)] * 4, 'ub': [enc(b)] * 4,
                            'lb_is_none': False, 'ub_is_none': False})
    for container in ('tuple', 'array', 'ints', 'list'):
        for lo, hi in (([-3.0, 0.0, 1.0], [-1.0, 2.0, 4.0]), ([0.0, 0.0, 0.0], [1.0, 1.0, 1.0])):
            add('perturb', {'params': rats([-2.0, 1.0, 3.0]), 'fold': 2, 'seed': next(pseed), 'lb': [enc(v) for v in lo], 'ub': [enc(v) for v in hi],
                            'lb_is_none': False, 'ub_is_none': False, 'container': container})
    for k in range(250 if ctx.quick else 4000):
        n = rng.randint(1, 5)
        params, lb, ub = [], [], []
        for i in range(n):
            style = rng.choice(['pos', 'pos', 'neg', 'span', 'narrow', 'zero'])
            if style == 'pos':
                lo, hi = rng.choice([None, 10 ** rng.uniform(-3, 0)]), rng.choice([None, 10 ** rng.uniform(0.1, 2)])
                p = 10 ** rng.uniform(-2, 1.5)
            elif style == 'neg':        # a parameter that may be negative (e.g. a selection coefficient)
                lo, hi = rng.choice([None, -10 ** rng.uniform(0, 2)]), rng.choice([None, -10 ** rng.uniform(-3, -0.5)])
                p = -10 ** rng.uniform(-2, 1.5)
            elif style == 'span':
                lo, hi = rng.choice([None, -10 ** rng.uniform(-1, 1.5)]), rng.choice([None, 10 ** rng.uniform(-1, 1.5)])
                p = rng.choice([-1, 1]) * 10 ** rng.uniform(-2, 1.5)
            elif style == 'narrow':     # bounds closer together than the 1% margins
                lo = rng.choice([-1, 1]) * 10 ** rng.uniform(-1, 1)
                hi = lo + abs(lo) * 10 ** rng.uniform(-4, -2)
                p = lo * rng.uniform(0.5, 2)
            else:
                lo, hi = rng.choice([0.0, None]), rng.choice([0.0, None, 5.0])
                if lo == 0.0 and hi == 0.0:
                    hi = 1.0
                p = rng.choice([-1, 1]) * 10 ** rng.uniform(-2, 1) if lo is None else 10 ** rng.uniform(-2, 1)
            params.append(p)
            lb.append(lo)
            ub.append(hi)
        add('perturb', {'params': rats(params), 'fold': rng.choice([0, 1, 1, 2, 3]), 'seed': rng.randrange(2 ** 31 - 1),
                        'lb': [enc(v) for v in lb], 'ub': [enc(v) for v in ub],
                        'lb_is_none': all(v is None for v in lb) and rng.random() < 0.5,
                        'ub_is_none': all(v is None for v in ub) and rng.random() < 0.5})
    kept.finish()       # every kept result, read again after all later calls
    return recs


# --------------------------------------------------------------------------
# evidence helpers
# --------------------------------------------------------------------------
def nontrivial(r):
    i = r['in']
    if r['op'] == 'run':
        ev = r['out']['events']
        pts = {tuple(e['p']) for e in ev if e['ev'] == 'Eval'}
        if len(pts) < 3 or ev[-1]['ev'] != 'Probe':
            return None
        return ('run', r['site'], i['npar'], tuple(v != NONE for v in i['fixed']), i['multinom'], i['full_output'],
                tuple((a != NONE, b != NONE) for a, b in zip(i['lb'], i['ub'])), i['seq']['step'] if 'seq' in i else None)
    if r['op'] == 'perturb':
        if all(v == NONE for v in i['lb'] + i['ub']):
            return None
        return ('perturb', i['seed'])
    fx = [v != NONE for v in i['fixed']]
    if not any(fx) or all(fx):
        return None
    return (r['op'], tuple(fx), common.digest(i))


def mutate(rec):
    """Corrupt one observed field so that a sound trace spec must reject the record."""
    out = rec['out']
    bump = Fraction(1000001, 1000000)
    if 'raised' in out:
        return None
    if rec['op'] == 'run':
        ev = out['events']
        if not ev or ev[-1]['ev'] != 'Probe':
            return None
        kept = out.get('kept')
        if kept and kept['now'] and rec['in']['seq']['k'] % 2 == 1:
            # an earlier result of the session is said to hold other values after this call
            kept['now'][-1][0] = rat(Fraction(kept['now'][-1][0]) + Fraction(1, 1000))
            return rec
        if kept and kept['now'] and rec['in']['seq']['k'] % 4 == 2:
            kept['shares'][0] = True
            return rec
        ret = ev[-2]
        if ret['f'] not in (NONE, 'nan', 'inf', '-inf') and Fraction(ret['f']) != 0:
            ret['f'] = rat(Fraction(ret['f']) * bump)           # reported optimum no longer the probe's likelihood
            return rec
        free = [k for k, v in enumerate(rec['in']['fixed']) if v == NONE and ret['x'][k] not in ('nan', 'inf', '-inf')]
        if not free:
            return None
        k = free[0]
        v = Fraction(ret['x'][k])
        ret['x'][k] = rat(v * Fraction(1001, 1000) if v != 0 else Fraction(1, 1000))   # a point that was never evaluated
        ev[-1]['x'] = list(ret['x'])
        return rec
    if rec['op'] == 'perturb':
        i = rec['in']
        for k in range(len(out['p'])):
            if i['ub'][k] != NONE:
                out['p'][k] = rat(Fraction(i['ub'][k]) + abs(Fraction(i['ub'][k])) / 10 ** 6 + Fraction(1, 10 ** 9))
                return rec
            if i['lb'][k] != NONE:
                out['p'][k] = rat(Fraction(i['lb'][k]) - abs(Fraction(i['lb'][k])) / 10 ** 6 - Fraction(1, 10 ** 9))
                return rec
        return None
    key = 'y' if 'y' in out else 'x'
    if not out[key]:
        return None
    if key + '_end' in out and int(rec['id'].rsplit('-', 1)[1]) % 3 == 1:
        out[key + '_end'][0] = rat(Fraction(out[key + '_end'][0]) + 1)     # the kept result is said to have changed later
        return rec
    if rec['op'] == 'down_up' and any(f != NONE and y != f for f, y in zip(rec['in']['fixed'], rec['in']['y'])):
        return None         # y does not agree with the mask: nothing is demanded of the result
    out[key][-1] = rat(Fraction(out[key][-1]) * bump + Fraction(1, 10 ** 6))
    return rec


def what_of(rec, clause):
    i = rec['in']
    if rec['op'] == 'run':
        ev = rec['out']['events']
        tail = ev[-1]
        extra = ' (%s: %s)' % (tail.get('type'), tail.get('msg')) if tail['ev'] == 'Raised' else ''
        return ('%s: %s violated%s; %d parameters, fixed=%s, lower=%s, upper=%s, multinom=%s, full_output=%s, %d evaluations (record %s)'
                % (rec['site'], clause, extra, i['npar'], [v if v == NONE else float(Fraction(v)) for v in i['fixed']],
                   [v if v == NONE else float(Fraction(v)) for v in i['lb']], [v if v == NONE else float(Fraction(v)) for v in i['ub']],
                   i['multinom'], i['full_output'], sum(1 for e in ev if e['ev'] == 'Eval'), rec['id']))
    return '%s: %s violated (record %s, in=%s, out=%s)' % (rec['site'], clause, rec['id'],
                                                             {k: common._shorten(v) for k, v in i.items()}, common._shorten(rec['out']))


BUGS = [('ret_start', 'ReturnMatchesProbe'), ('wrong_start', 'FirstEvalIsStart'), ('eval_oob', 'EvalInBounds'),
        ('ret_oob', 'ReturnInBounds'), ('fixed_lost', 'FixedKept'), ('ret_worst', 'NoWorseThanStart')]


def nonvacuity():
    """Each defective wrapper of OptimizerMC (constant Bug) must be caught by the requirement it is aimed at."""
    from concurrent.futures import ThreadPoolExecutor
    res = []

    def one(b):
        r = common.tlc('OptimizerMC', 'OptimizerMC_bug_%s.cfg' % b[0], workers=2, heap='2g')
        return b, r
    with ThreadPoolExecutor(max_workers=6) as ex:
        for (bug, inv), r in ex.map(one, BUGS):
            if r.ok or ('Invariant %s is violated' % inv) not in r.out:
                raise common.MachineryError('OptimizerMC: defective wrapper %s was not caught by %s (%s)' % (bug, inv, r.violation))
            res.append({'defective_wrapper': bug, 'violates': inv, 'states_to_counterexample': r.states})
    return res


def run(ctx):
    if ctx.replay:
        old = ctx.replay_payload['payload']['record']
        ctx.no_mc = True
        if old['op'] == 'run' and 'seq' in old['in']:
            recs = [replay_sequence(old)]
        else:
            recs = [execute_run(old['in'], old['id']) if old['op'] == 'run' else execute_static(old['op'], old['in'], old['id'], later=True)]
    else:
        recs = None
    extra = {'tolerances': {'Tau (log-likelihood, relative)': '1e-9', 'TauX (parameter values after a coordinate map, relative)': '1e-12'}}
    mcs = [('OptimizerMC', 'OptimizerMC_quick.cfg')] if ctx.quick else \
          [('OptimizerMC', 'OptimizerMC_thorough.cfg'), ('OptimizerMC', 'OptimizerMC_thorough2.cfg')]
    pending = None
    if not getattr(ctx, 'no_mc', False):
        # the exhaustive runs do not depend on the records: TLC works while Python drives the optimisers
        from concurrent.futures import ThreadPoolExecutor
        pool = ThreadPoolExecutor(max_workers=1 + len(mcs))
        pending = (pool.submit(nonvacuity), [pool.submit(common.run_mc, spec, cfg) for spec, cfg in mcs])
    if recs is None:
        recs = run_records(ctx) + sequence_records(ctx) + static_records(ctx)
    res = _pipeline(ctx, recs, extra)
    if pending:
        cov = res['coverage']
        cov['nonvacuity'] = pending[0].result()
        for (spec, cfg), (r, v) in zip(mcs, [f.result() for f in pending[1]]):
            cov['states'] += r.states
            cov['transitions'] += r.transitions
            cov['model_checking_runs'].append({'spec': spec, 'cfg': cfg, 'distinct_states': r.states, 'states_generated': r.transitions,
                                               'wall_s': round(r.wall, 1), 'ok': r.ok})
            res['violations'] += v
    return res


def _pipeline(ctx, recs, extra):
    mc_off = getattr(ctx, 'no_mc', False)
    ctx.no_mc = True            # the exhaustive runs are started by run() itself
    try:
        return _pipeline1(ctx, recs, extra)
    finally:
        ctx.no_mc = mc_off


def _pipeline1(ctx, recs, extra):
    return common.pipeline(
        ctx, [], 'Trace_Optimizer', recs, nontrivial_of=nontrivial, mutator=mutate, what_of=what_of, extra_cov=extra,
        rule='run: one call of an optimiser (9 public functions, opt in both parameterisations) x every mask of fixed parameters '
             'with a free one x multinom on/off x 1-4 parameters, random bounds (absent / zero / negative / positive), start point inside '
             '(also on or next to a bound), optimum inside or beyond the bounds; non-trivial if the model was evaluated at >= 3 distinct '
             'points and the call returned; distinct by (function, #parameters, mask, multinom, full_output, pattern of present bounds). '
             'up/down: non-trivial if the mask has fixed and free entries. perturb: non-trivial if a bound is present. '
             'Deterministic boundary block (both tiers), for every optimiser: start exactly on the lower / upper / both bounds, one-sided and absent '
             'bounds as None argument and as list of None, bounds exactly 0, start value 0, equal bounds, negative box, fixed value 0.0 and int 0 in '
             'first / middle / last / two positions, tuples / arrays / Python ints as containers, full_output on and off x multinom on and off, ll_scale; '
             'optimize_grid: ranges from / to / across 0, both range spellings, single-point range, 1-3 free parameters, fixed 0.0 / int 0; '
             'call sequences in one process on the SAME p0 / lower_bound / upper_bound / fixed_params objects (lists; numpy arrays), edited in place between the calls: '
             'tighten an upper bound, raise a lower bound, bounds to None, None to an upper / a lower bound, edit the start point, fix a parameter, move the fixed '
             'parameter, loosen - one session per optimiser and two sessions in which the objects pass from one optimiser to the next; every call is judged '
             'against the values the objects held at that call (after each edit the optimum lies beyond the edited bound); every session (all calls pass a '
             'fixed_params list of the same length; plus a session of four optimize_grid searches) keeps the parameter object each call returned and reads all earlier '
             'ones again after every later call (values at return vs now, memory overlap with the newest result); the results of the direct '
             '_project_params_up / _project_params_down calls are kept likewise and read again after all later calls; '
             'up/down: every mask pattern over 0-3 entries with fixed 0.0 / int 0 / negative, free value 0, scalar argument; int64 / int32 / float32 arrays and '
             'lists of Python ints as the free (full) vector around non-integer fixed values; optimize_grid over integer slices with non-integer fixed parameters; '
             'perturb: every pairing of {no argument, None entry, negative, 0, positive} bounds, equal bounds, parameters -1/0/1, folds 0/1/3, containers.',
        assumptions=['at least one parameter is free (with every parameter fixed there is nothing to optimise; nlopt refuses dimension 0)',
                     'start points and fixed values lie inside the bounds (the quantifier of C12)',
                     'an evaluation is a call of the user\'s model function; its likelihood is computed by the logging model function with dadi.Inference.ll / ll_multinom',
                     'parameter values are compared up to relative 1e-12: round-off of the coordinate maps between the user\'s parameters and the inner optimiser\'s variables (exp(log(x)) in the log parameterisation, NLopt\'s internal rescaling); fixed parameters and perturb_params bounds are compared exactly',
                     'opt is run with its default algorithm (nlopt.LN_BOBYQA); budgets (maxeval / maxiter) are small so that one call takes well under a second',
                     'where the API returns only parameters (full_output=False) the clause is: the returned point is one that was evaluated (the best one for optimize_grid)',
                     'optimize_grid: the ranges of the search grid are taken as its bounds',
                     'BigInteger rational arithmetic of the Rat override (self-tested against the TLA+ definitions)'])
