\* C20: all 3-call histories over three uncertainty calls (object-identity keyed table); dumped, every path is replayed
CONSTANTS
  MaxDepth = 3
  BaseSel = "god"
  LaySel = "C"
  ProjKeyMode = "full"
  DbetaKeyMode = "full"
  PartKeyMode = "full"
  EntryMode = "copy_all"
  XXMode = "contig"
  GodMode = "object"
  DemesMode = "pure"
  PerturbMode = "pure"
  HashMode = "ordered"
  SFSMode = "copies"
  VectorMode = "copies"
  MaskMode = "setter"
  KernelMode = "stateless"
  MaxTable = 60
SPECIFICATION Spec
CHECK_DEADLOCK FALSE
CONSTRAINT TableBound
INVARIANT TypeOK
INVARIANT AlphabetOK
INVARIANT TablesSound
INVARIANT ResultIndependentOfHistory
INVARIANT ResultIndependentOfHashSeed
INVARIANT LayoutIndependent
INVARIANT ArgumentsUnchanged
INVARIANT ResultIsFresh
