CONSTANTS
  Tau = "1/1000000000"
  EpsQ = "1/10000000"
  EpsA = "1/10000"
  EpsR = "1/1000"
  TauPdf = "1/1000000000"
SPECIFICATION Spec
CHECK_DEADLOCK FALSE
INVARIANT Done
POSTCONDITION AllConsumed
