\* Non-vacuity: the defective wrapper "eval_oob" must violate ReturnInBounds (TLC is expected to report the violation).
CONSTANTS
  Tau = "1/1000000000"
  TauX = "1/1000000000000"
  MaxN = 2
  MaxEvals = 2
  FullBoxN = 2
  Bug = "eval_oob"
SPECIFICATION Spec
CHECK_DEADLOCK FALSE
INVARIANT ReturnInBounds
