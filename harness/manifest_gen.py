"""Regenerates MANIFEST.json from the table below (kept valid at all times)."""
import json, os
VERIF = os.path.dirname(os.path.dirname(os.path.abspath(__file__)))
BASE = "cd /repo && /venv/bin/python -m pytest -ra -q -p no:cacheprovider --timeout=900 --continue-on-collection-errors"
# id -> (technique, text, note, design_ref)
CHECKS = {}
NA = {}

def load():
    p = os.path.join(VERIF, 'harness', 'manifest_table.json')
    with open(p) as f:
        t = json.load(f)
    return t

def main():
    t = load()
    props = [json.loads(l)['id'] for l in open(os.path.join(VERIF, 'properties.jsonl'))]
    checks = []
    na = []
    for pid in props:
        if pid in t['checks']:
            c = t['checks'][pid]
            checks.append({
                'property_id': pid,
                'quick_cmd': './check %s --tier quick' % pid,
                'thorough_cmd': './check %s --tier thorough' % pid,
                'evidence_file': 'evidence/%s.json' % pid,
                'replay_cmd_template': './check %s --replay {path}' % pid,
                'engine': 'tlc-rat',
                'level_claimed': {'category': 'model_checking', 'text': c['text'], 'design_ref': c.get('design_ref', 'DESIGN.md section 5 (%s)' % pid)},
                'level_note': c['note'],
                'technique': c['technique'],
            })
        else:
            na.append({'property_id': pid, 'reason': t['not_applicable'].get(pid, 'check not built yet in this round; see DESIGN.md section 5 for the plan')})
    m = {
        'version': 1,
        'setup_cmd': './setup.sh',
        'hooks': {'guard': 'DADI_VERIF', 'enable': 'none needed: observation through external proxies (int_c proxy, model functions, fake multiprocessing); the guard name is reserved',
                  'baseline_off_cmd': BASE, 'source_commits': t.get('source_commits', []), 'add_only': True},
        'engines': [{'name': 'tlc-rat', 'path': 'harness/common.py', 'serves_properties': sorted(t['checks']),
                     'kind_free_text': 'TLC 1.8 with a BigInteger operator override for module Rat (exact rationals); exhaustive model checking of spec/*.tla plus trace validation of records produced by the real dadi built from /repo'}],
        'checks': checks,
        'notes': t.get('notes', ''),
        'not_applicable': na,
    }
    with open(os.path.join(VERIF, 'MANIFEST.json'), 'w') as f:
        json.dump(m, f, indent=1)
    import subprocess
    r = subprocess.run(['python3-vt', '-c', "import json,jsonschema;jsonschema.validate(json.load(open('%s/MANIFEST.json')), json.load(open('/root/.vp/MANIFEST.schema.json')))" % VERIF])
    assert r.returncode == 0, 'MANIFEST.json does not validate'
    print('MANIFEST.json: %d checks, %d not_applicable' % (len(checks), len(na)))

if __name__ == '__main__':
    main()
