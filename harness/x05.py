"""X05 (extension module) - dadi.TwoLocus: the two-locus haplotype frequency spectrum object
(TLSpectrum_mod.TLSpectrum) and the discrete helpers of TwoLocus.numerics
(spec/TLSpectrum.tla, spec/TLSpectrumMC.tla, spec/Trace_TLSpectrum.tla).

The driver builds seeded random two-locus spectra / densities, calls the real
code (constructor, fold / fold_ancestral / fold_lr / unfold, project and its
weights, marginals, condition, mean_r2, LD_per_bin, file and pickle round
trips, arithmetic, misidentification, grid / domain / quadrature weights,
surface layout, sample_cached, quadrinomial, transition1D) and records the
exact inputs and the raw result.  TLC (Trace_TLSpectrum) decides every record.
"""
import contextlib, io, itertools, operator, os, pickle, random, shutil, tempfile
from fractions import Fraction
import numpy as np
from . import common
from .common import rat, rats

PROP = 'X05'


# --------------------------------------------------------------------------
# encoding
# --------------------------------------------------------------------------
def fl(n, i, j, k):
    return (i * (n + 1) + j) * (n + 1) + k


def cube(n):
    return [(i, j, k) for i in range(n + 1) for j in range(n + 1) for k in range(n + 1)]


def feasible(n, ix):
    return sum(ix) <= n


def informative(n, ix):
    i, j, k = ix
    return i + j + k <= n and 0 < i + j < n and 0 < i + k < n


def enc(fs):
    """TLSpectrum -> abstract value [n, d, m, f]"""
    f = getattr(fs, 'folded', None)
    return {'n': int(fs.shape[0]) - 1,
            'd': rats(np.asarray(fs.data, dtype=float).ravel()),
            'm': [bool(x) for x in np.ma.getmaskarray(fs).ravel()],
            'f': 'folded' if f is True or (isinstance(f, np.bool_) and bool(f)) else
                 'unfolded' if f is False or (isinstance(f, np.bool_) and not bool(f)) else 'other:%r' % (f,)}


def arr3(n, d):
    return np.array([float(Fraction(v)) for v in d], dtype=float).reshape((n + 1,) * 3)


def dec(s):
    from dadi.TwoLocus.TLSpectrum_mod import TLSpectrum
    n = s['n']
    return TLSpectrum(arr3(n, s['d']), mask=np.array(s['m'], dtype=bool).reshape((n + 1,) * 3), mask_infeasible=False,
                      data_folded=(s['f'] == 'folded'))


def enc1(fs):
    return {'d': rats(np.asarray(fs.data, dtype=float).ravel()), 'm': [bool(x) for x in np.ma.getmaskarray(fs).ravel()]}


def rand_data(rng, n, kind=None):
    kind = kind or rng.choice(['int', 'int', 'float', 'wide'])
    size = (n + 1) ** 3
    if kind == 'int':
        v = [float(rng.randrange(0, 40)) for _ in range(size)]
    elif kind == 'float':
        v = [rng.uniform(0, 5) for _ in range(size)]
    else:
        v = [rng.choice([0.0, rng.uniform(0, 1), 10 ** rng.uniform(-6, 6)]) for _ in range(size)]
    return v


def rand_abs(rng, n, mask_mode=None, kind=None, folded=False):
    """abstract random spectrum: data everywhere (also under the mask), mask = non-informative entries + extras"""
    d = rand_data(rng, n, kind)
    inf = [ix for ix in cube(n) if informative(n, ix)]
    m = [not informative(n, ix) for ix in cube(n)]
    mask_mode = mask_mode or rng.choice(['default', 'default', 'single', 'orbit', 'random'])
    extra = []
    if inf and mask_mode == 'single':
        extra = [rng.choice(inf)]
    elif inf and mask_mode == 'orbit':
        i, j, k = rng.choice(inf)
        l = n - i - j - k
        extra = [(i, j, k), (k, l, i), (j, i, l), (l, k, j)]
    elif mask_mode == 'random':
        extra = [ix for ix in inf if rng.random() < 0.25]
    elif mask_mode == 'row' and inf:          # a whole (nAB, nAb) row
        i, j, _ = rng.choice(inf)
        extra = [(i, j, k) for k in range(n + 1) if informative(n, (i, j, k))]
    for ix in extra:
        m[fl(n, *ix)] = True
    return {'n': n, 'd': [rat(x) for x in d], 'm': m, 'f': 'folded' if folded else 'unfolded'}


def observe(fn):
    try:
        return fn()
    except Exception as e:           # recorded, judged by the specification
        return {'raised': type(e).__name__, 'msg': str(e)[:160]}


OPS = {'add': operator.add, 'sub': operator.sub, 'mul': operator.mul, 'div': operator.truediv, 'pow': operator.pow}
IOPS = {'add': operator.iadd, 'sub': operator.isub, 'mul': operator.imul, 'div': operator.itruediv, 'pow': operator.ipow}


# --------------------------------------------------------------------------
# one call on the real code
# --------------------------------------------------------------------------
def execute(op, site, inp, rid, tmpd):
    import dadi
    import dadi.TwoLocus
    from dadi.TwoLocus import numerics as N
    from dadi.TwoLocus.TLSpectrum_mod import TLSpectrum
    rec = {'id': rid, 'op': op, 'site': site, 'in': inp}

    def body():
        if op == 'construct':
            n = inp['n']
            data = arr3(n, inp['d'])
            if inp['form'] == 'list':
                data = data.tolist()
            kw = {}
            if not inp['nomask']:
                kw['mask'] = np.array(inp['m'], dtype=bool).reshape((n + 1,) * 3)
            if not inp['mi']:
                kw['mask_infeasible'] = False
            if inp['df'] != 'none':
                kw['data_folded'] = inp['df'] == 'folded'
            return {'s': enc(TLSpectrum(data, **kw))}
        if op == 'fold':
            F = dec(inp['s'])
            if site == 'TLSpectrum.fold':
                G = F.fold()
                return {'s': enc(G), 'self': enc(F)}
            return {'s': enc(N.fold_ancestral(F))}
        if op == 'fold_lr':
            return {'s': enc(N.fold_lr(dec(inp['s'])))}
        if op == 'unfold':
            return {'s': enc(dec(inp['s']).unfold())}
        if op == 'fuf':
            return {'s': enc(dec(inp['s']).fold().unfold().fold())}
        if op == 'project':
            return {'s': enc(N.project(dec(inp['s']), inp['m']))}
        if op == 'project2':
            return {'s': enc(N.project(N.project(dec(inp['s']), inp['m1']), inp['m2']))}
        if op == 'weights':
            return {'w': rats(np.asarray(N.cached_projection(inp['m'], inp['n'], tuple(inp['hits'])), dtype=float).ravel())}
        if op == 'marginal':
            F = dec(inp['s'])
            if site == 'TLSpectrum.marginalA':
                return enc1(F.marginalA())
            if site == 'TLSpectrum.marginalB':
                return enc1(F.marginalB())
            a, b = N.to_single_locus(F)
            return enc1(a if inp['locus'] == 'A' else b)
        if op == 'condition':
            return {'c': rats(np.asarray(N.condition(dec(inp['s']), inp['a']), dtype=float))}
        if op == 'mean_r2':
            F = dec(inp['s'])
            v = F.mean_r2() if site == 'TLSpectrum.mean_r2' else N.mean_r2(F)
            return {'v': rat(float(v))}
        if op == 'ld_per_bin':
            D, r2 = N.LD_per_bin(inp['n'])
            return {'D': enc(D), 'r2': enc(r2)}
        if op == 'file':
            F = dec(inp['s'])
            path = os.path.join(tmpd, rid + '.fs')
            kw = {'precision': inp['precision']} if inp['precision'] != 16 or inp['how'] == 'file' else {}
            if inp['comments']:
                kw['comment_lines'] = list(inp['comments'])
            try:
                if inp['how'] == 'file':
                    with open(path, 'w') as fid:
                        F.to_file(fid, **kw)
                    with open(path) as fid:
                        G, com = TLSpectrum.from_file(fid, mask_infeasible=inp['mi'], return_comments=True)
                else:
                    F.to_file(path, **kw)
                    G, com = TLSpectrum.from_file(path, mask_infeasible=inp['mi'], return_comments=True)
            finally:
                if os.path.exists(path):
                    os.unlink(path)
            return {'s': enc(G), 'comments': [str(c) for c in com]}
        if op == 'pickle':
            return {'s': enc(pickle.loads(pickle.dumps(dec(inp['s']), protocol=inp['protocol'])))}
        if op == 'arith':
            a = dec(inp['a'])
            other = dec(inp['b']) if 'b' in inp else float(Fraction(inp['c']))
            if inp['inplace']:
                res = IOPS[inp['op']](a, other)
            elif inp['refl']:
                res = OPS[inp['op']](other, a)
            else:
                res = OPS[inp['op']](a, other)
            return {'s': enc(res), 'type': type(res).__name__}
        if op == 'misid':
            return {'s': enc(N.misidentification(dec(inp['s']), float(Fraction(inp['p']))))}
        if op == 'grid':
            x = N.grid(inp['P'])
            dx = N.grid_dx(x)
            return {'x': rats(x), 'dx': rats(dx), 'U': rats(N.domain(x).ravel()), 'DX': rats(N.grid_dx3(x, dx).ravel()),
                    'U2': rats(N.domain_surf(x).ravel()), 'DXX': rats(N.grid_dx_2d(x, dx).ravel())}
        if op == 'surf':
            P = inp['P']
            x = N.grid(P)
            phi = arr3(P, inp['phi'])
            surf = np.array([float(Fraction(v)) for v in inp['surf']]).reshape(P + 1, P + 1)
            return {'surf': rats(np.asarray(N.phi_to_surf(phi.copy(), x)).ravel()),
                    'back': rats(np.asarray(N.surf_to_phi(surf, phi.copy(), x)).ravel())}
        if op == 'sample':
            P, n = inp['P'], inp['n']
            x = np.array([float(Fraction(v)) for v in inp['x']])
            ns = {'int': n, 'tuple': (n,), 'list': [n]}[inp['nsform']]
            return {'s': enc(N.sample_cached(arr3(P, inp['phi']), ns, x))}
        if op == 'quadrinomial':
            return {'v': rat(float(N.quadrinomial(inp['n'], *inp['ix'])))}
        if op == 'transition1D':
            x = np.array([float(Fraction(v)) for v in inp['x']])
            dx = np.array([float(Fraction(v)) for v in inp['dx']])
            M = N.transition1D(x, dx, float(Fraction(inp['dt'])), float(Fraction(inp['gamma'])), float(Fraction(inp['nu'])))
            return {'P': rats(np.asarray(M, dtype=float))}
        if op == 'advance1D':
            M = np.array([[float(Fraction(v)) for v in row] for row in inp['P']])
            u = np.array([float(Fraction(v)) for v in inp['u']])
            return {'u': rats(np.asarray(N.advance1D(u, M), dtype=float))}
        if op == 'advance_adi':
            P = inp['P']
            x = N.grid(P)
            Pm = np.array([float(Fraction(v)) for v in inp['Pm']]).reshape(P + 1, P + 1, 3, P + 1)
            fn = {1: N.advance_adi1, 2: N.advance_adi2, 3: N.advance_adi3}[inp['axis']]
            return {'phi': rats(np.asarray(fn(arr3(P, inp['phi']), N.domain(x), Pm, x), dtype=float).ravel())}
        if op == 'equilibrium':
            from dadi.TwoLocus import demographics as D
            old = D.cache_path
            cdir = os.path.join(tmpd, 'cache-' + rid)
            D.set_cache_path(cdir)
            try:
                kw = dict(rho=float(Fraction(inp['rho'])), dt=float(Fraction(inp['dt'])), gammaA=float(Fraction(inp['gammaA'])))
                with contextlib.redirect_stdout(io.StringIO()):
                    F1 = D.equilibrium(inp['pts'], inp['ns'], **kw)
                    F2 = D.equilibrium(inp['pts'], inp['ns'], **kw)
                    F3 = D.two_epoch((2.0, 0.0), inp['pts'], inp['ns'], **kw)
                return {'s': enc(F1), 'again': enc(F2), 'zero': enc(F3), 'files': len(os.listdir(cdir))}
            finally:
                D.cache_path = old
                shutil.rmtree(cdir, ignore_errors=True)
        if op == 'array_to_spectrum':
            fs = N.array_to_spectrum(arr3(inp['n'], inp['d']))
            return enc1(fs)
        if op == 'pairings':
            v = N.pairings(inp['n'])
            return {'v': rat(int(v)) if float(v) == int(v) else rat(float(v))}
        if op == 'geno_pairs':
            key = (inp['n'], tuple(inp['counts']))
            N.prob_cache.pop(key, None)
            pr = N.cached_genotype_exact_projection(*key)
            ks = sorted(pr)
            return {'keys': [[int(a) for a in k_] for k_ in ks], 'vals': [rat(float(pr[k_])) for k_ in ks]}
        if op == 'geno_spectrum':
            F = dec(inp['s'])
            if inp['form'] == 'dict':
                G = N.observed_genotype_spectrum_dict_from_F(F)
                (ng, dd), = G.items()
                ks = sorted(dd)
                return {'ng': int(ng) if float(ng) == int(ng) else str(ng), 'keys': [[int(a) for a in k_] for k_ in ks], 'vals': [rat(float(dd[k_])) for k_ in ks]}
            A = np.asarray(N.observed_genotype_spectrum_from_F(F) if inp['form'] == 'array8' else N.genotype_spectrum_from_F(F), dtype=float)
            nz = np.argwhere(A != 0)
            return {'ng': int(A.shape[0]) - 1, 'keys': [[int(a) for a in k_] for k_ in nz], 'vals': [rat(float(A[tuple(k_)])) for k_ in nz]}
        if op == 'geno_weights':
            key = (inp['nf'], inp['nt'], tuple(inp['hits']))
            N.genotype_projection_cache.pop(key, None)
            w = N.projection_cache_Gdict(*key)
            ks = sorted(w)
            return {'keys': [[int(a) for a in k_] for k_ in ks], 'vals': [rat(float(w[k_])) for k_ in ks]}
        if op == 'geno_project':
            G = {inp['nf']: {tuple(k_): float(Fraction(v)) for k_, v in zip(inp['keys'], inp['vals'])}}
            R = N.project_Gdict(G, inp['nf'], inp['nt'])
            (nt, dd), = R.items()
            ks = sorted(dd)
            return {'nt': int(nt), 'keys': [[int(a) for a in k_] for k_ in ks], 'vals': [rat(float(dd[k_])) for k_ in ks]}
        raise common.MachineryError('unknown op %s' % op)
    rec['out'] = observe(body)
    return rec


# --------------------------------------------------------------------------
# cases
# --------------------------------------------------------------------------
def cases(ctx, rng):
    q = ctx.quick
    out = []

    def add(op, site, inp):
        out.append((op, site, inp))
    NMAX = 7 if q else 9
    # 1. constructor: every combination of (mask given?, mask_infeasible, data_folded, container), sizes 1..6
    k = 0
    for nomask in (True, False):
        for mi in (True, False):
            for df in ('none', 'folded', 'unfolded'):
                for form in ('array', 'list'):
                    for rep in range(1 if q else 3):
                        n = 1 + (k % 6)
                        k += 1
                        d = [rat(x) for x in rand_data(rng, n)]
                        m = [False] * len(d) if nomask else [rng.random() < 0.2 for _ in d]
                        add('construct', 'TLSpectrum.__new__', {'n': n, 'd': d, 'm': m, 'nomask': nomask, 'mi': mi, 'df': df, 'form': form})
    # 2. folding
    modes = ['default', 'single', 'orbit', 'random', 'default', 'row']
    for k in range(36 if q else 150):
        n = 2 + k % (NMAX - 1)
        s = rand_abs(rng, n, modes[k % 6])
        add('fold', 'TLSpectrum.fold', {'s': s, 'flag': True})
    for k in range(24 if q else 100):
        n = 2 + k % (NMAX - 1)
        add('fold', 'numerics.fold_ancestral', {'s': rand_abs(rng, n, modes[k % 6]), 'flag': False})
    for k in range(16 if q else 60):
        n = 2 + k % (NMAX - 1)
        add('fold_lr', 'numerics.fold_lr', {'s': rand_abs(rng, n, modes[k % 6])})
    for k in range(4):        # folding a folded spectrum is refused
        add('fold', 'TLSpectrum.fold', {'s': rand_abs(rng, 2 + k, 'default', folded=True), 'flag': True})
    for k in range(12 if q else 40):
        n = 2 + k % 5
        if k % 4 == 0:       # unfold of an unfolded spectrum is refused
            add('unfold', 'TLSpectrum.unfold', {'s': rand_abs(rng, n, 'default')})
        else:                # a folded spectrum as a user would hold it: folded-out entries masked, zero
            s = rand_abs(rng, n, ['default', 'orbit'][k % 2], folded=True)
            for ix in cube(n):
                i, j, kk = ix
                if feasible(n, ix) and (2 * (i + j) > n or 2 * (i + kk) > n):
                    s['m'][fl(n, *ix)] = True
                    s['d'][fl(n, *ix)] = '0'
            add('unfold', 'TLSpectrum.unfold', {'s': s})
    for k in range(8 if q else 30):
        add('fuf', 'TLSpectrum.fold', {'s': rand_abs(rng, 2 + k % (NMAX - 1), 'default')})
    # 3. projection and its weights
    for k in range(30 if q else 120):
        n = 3 + k % (NMAX - 2)
        s = rand_abs(rng, n, modes[k % 5])
        if k % 10 == 9:
            add('project', 'numerics.project', {'s': s, 'm': n})                 # same size: returned as is
        elif k % 3 == 2 and n >= 4:
            m1 = rng.randint(3, n - 1)
            add('project2', 'numerics.project', {'s': s, 'm1': m1, 'm2': rng.randint(2, m1 - 1)})
        else:
            add('project', 'numerics.project', {'s': s, 'm': rng.randint(1 if k % 7 == 0 else 2, n - 1)})
    NW = 4 if q else 6
    for n in range(2, NW + 1):                                                    # exhaustive
        for m in range(1, n):
            for X in cube(n):
                if feasible(n, X):
                    add('weights', 'numerics.cached_projection', {'n': n, 'm': m, 'hits': list(X)})
    for k in range(30 if q else 200):
        n = rng.randint(NW + 1, 30)
        m = rng.randint(1, min(n - 1, 5))
        i = rng.randint(0, n); j = rng.randint(0, n - i); kk = rng.randint(0, n - i - j)
        add('weights', 'numerics.cached_projection', {'n': n, 'm': m, 'hits': [i, j, kk]})
    # 4. marginals, conditioning
    for k in range(42 if q else 150):
        n = 2 + k % (NMAX - 1)
        s = rand_abs(rng, n, modes[(k // 6) % 6])
        site, locus = [('TLSpectrum.marginalA', 'A'), ('TLSpectrum.marginalB', 'B'), ('numerics.to_single_locus', 'A'),
                       ('numerics.to_single_locus', 'B'), ('TLSpectrum.marginalA', 'A'), ('TLSpectrum.marginalB', 'B')][k % 6]
        add('marginal', site, {'s': s, 'locus': locus})
    for k in range(14 if q else 60):
        n = 2 + k % (NMAX - 1)
        add('condition', 'numerics.condition', {'s': rand_abs(rng, n, modes[k % 4]), 'a': k % (n + 1)})
    # 5. statistics
    for k in range(30 if q else 120):
        n = 2 + k % (NMAX - 1)
        s = rand_abs(rng, n, modes[k % 4] if n > 2 else 'default', kind=['int', 'float'][k % 2])
        free = [q_ for q_ in range(len(s['d'])) if not s['m'][q_]]
        if all(Fraction(s['d'][q_]) == 0 for q_ in free):
            s['d'][free[0]] = '1'
        if k % 5 == 4:          # the statistic of a folded spectrum
            s = enc_fold_abs(s)
        add('mean_r2', ['TLSpectrum.mean_r2', 'numerics.mean_r2'][k % 2], {'s': s})
    for n in (range(2, 11) if q else range(2, 21)):
        add('ld_per_bin', 'numerics.LD_per_bin', {'n': n})
    # 6. files and pickles
    COMMENTS = [[], ['two-locus spectrum'], ['a', 'b  c', 'x=1 # y'], ['  padded  ']]
    for k in range(24 if q else 80):
        n = 1 + k % 6
        s = rand_abs(rng, n, modes[k % 4], kind=['float', 'int', 'wide'][k % 3], folded=(k % 4 == 3))
        com = [c.strip() for c in COMMENTS[k % 4]]
        add('file', 'TLSpectrum.to_file+from_file', {'s': s, 'precision': [16, 17, 17, 8, 16, 12][k % 6], 'comments': com,
                                                      'how': ['path', 'file'][k % 2], 'mi': k % 5 != 4})
    for k in range(8 if q else 30):
        add('pickle', 'TLSpectrum pickle', {'s': rand_abs(rng, 1 + k % 5, modes[k % 4], folded=(k % 3 == 2)), 'protocol': [2, 4, 5][k % 3]})
    # 7. arithmetic
    opn = ['add', 'sub', 'mul', 'div', 'pow']
    for k in range(60 if q else 240):
        n = 1 + k % 5
        a = rand_abs(rng, n, modes[k % 4], kind='float', folded=(k % 7 == 3))
        op = opn[k % 5]
        inplace = (k // 5) % 3 == 2
        refl = (k // 5) % 3 == 1
        if (k // 15) % 2 == 0 and op != 'pow':
            b = rand_abs(rng, n, modes[(k + 1) % 4], kind='float', folded=(k % 7 == 3) != (k % 11 == 5))
            if op == 'div':
                b['d'] = [v if Fraction(v) != 0 else '1' for v in b['d']]
            add('arith', 'TLSpectrum.__%s%s%s__' % ('i' if inplace else '', 'r' if refl and not inplace else '', {'div': 'truediv'}.get(op, op)),
                {'a': a, 'b': b, 'op': op, 'refl': refl and not inplace, 'inplace': inplace})
        else:
            c = rat(float(rng.choice([2, 3, 0.5, 1.5, 2.25]) if op != 'pow' else rng.choice([2, 3])))
            if op == 'pow' and refl and not inplace:
                a['d'] = [rat(float(rng.randrange(0, 4))) for _ in a['d']]
            if op == 'div' and refl and not inplace:
                a['d'] = [v if Fraction(v) != 0 else '1' for v in a['d']]
            add('arith', 'TLSpectrum.__%s%s%s__' % ('i' if inplace else '', 'r' if refl and not inplace else '', {'div': 'truediv'}.get(op, op)),
                {'a': a, 'c': c, 'op': op, 'refl': refl and not inplace, 'inplace': inplace})
    # 8. misidentification
    for k in range(20 if q else 80):
        n = 2 + k % (NMAX - 1)
        p = ['0', '1', rat(0.5), rat(0.125), rat(rng.uniform(0, 0.3))][k % 5]
        add('misid', 'numerics.misidentification', {'s': rand_abs(rng, n, modes[k % 4]), 'p': p})
    # 9. grids, domain, weights, surface layout, sampling, step matrix
    for P in (range(2, 10) if q else range(2, 17)):
        add('grid', 'numerics.grid+grid_dx+domain+grid_dx3', {'P': P})
    for k in range(8 if q else 30):
        P = 2 + k % 6
        add('surf', 'numerics.phi_to_surf+surf_to_phi',
            {'P': P, 'phi': [rat(float(rng.randrange(1, 1000))) for _ in range((P + 1) ** 3)],
             'surf': [rat(float(rng.randrange(1000, 2000))) for _ in range((P + 1) ** 2)]})
    from dadi.TwoLocus import numerics as N
    for k in range(18 if q else 60):
        P = [4, 3, 5, 8, 6, 7][k % 6] if not q or k < 12 else [4, 3, 5][k % 3]
        n = [2, 3, 4, 5, 3, 6][k % 6] if P <= 6 else [2, 3, 4][k % 3]
        x = N.grid(P)
        dens = k % 3
        phi = []
        for g in cube(P):
            if sum(g) > P:
                phi.append(0.0)
            elif dens == 0:                       # short dyadic values
                phi.append(rng.randrange(0, 64) / 8.0)
            elif dens == 1:                       # mass at a single grid point
                phi.append(0.0)
            else:
                phi.append(rng.uniform(0, 10))
        if dens == 1:
            inside = [g for g in cube(P) if sum(g) <= P]
            phi[fl(P, *rng.choice(inside))] = 1.0
        add('sample', 'numerics.sample_cached', {'P': P, 'x': rats(x), 'phi': [rat(v) for v in phi], 'n': n, 'nsform': ['int', 'tuple', 'list'][k % 3]})
    for k in range(40 if q else 160):
        n = rng.randint(1, 12) if k % 4 else rng.randint(13, 60)
        i = rng.randint(0, n); j = rng.randint(0, n - i); kk = rng.randint(0, n - i - j)
        add('quadrinomial', 'numerics.quadrinomial', {'n': n, 'ix': [i, j, kk]})
    for k in range(14 if q else 50):
        P = [4, 8, 5, 10, 16, 7, 3][k % 7]
        x = N.grid(P)
        dx = N.grid_dx(x)
        add('transition1D', 'numerics.transition1D',
            {'x': rats(x), 'dx': rats(dx), 'dt': rat([2.0 ** -7, 2.0 ** -10, 0.005][k % 3]), 'gamma': rat([0.0, 1.5, -2.0, 8.0, -0.75][k % 5]),
             'nu': rat([1.0, 0.25, 4.0][k % 3])})
    for k in range(10 if q else 30):
        P = [4, 8, 5, 10, 6][k % 5]
        x = N.grid(P)
        dx = N.grid_dx(x)
        M = N.transition1D(x, dx, [2.0 ** -7, 0.005][k % 2], [0.0, 1.5, -2.0][k % 3], [1.0, 0.25][k % 2])
        add('advance1D', 'numerics.advance1D', {'P': rats(np.asarray(M, dtype=float)), 'u': [rat(float(rng.randrange(0, 64)) / 8.0) for _ in range(P + 1)]})
    for k in range(9 if q else 30):
        P = [4, 5, 6][k % 3] if q else [4, 5, 6, 8][k % 4]
        axis = 1 + k % 3
        x = N.grid(P)
        dx = N.grid_dx(x)
        U01 = N.domain(x)
        tr = {1: N.transition1, 2: N.transition2, 3: N.transition3}[axis]
        dt = [2.0 ** -7, 2.0 ** -9][k % 2]
        Pm = np.outer([0, 1, 0], np.ones(len(x))) + dt * np.asarray(tr(x, dx, U01, [0.0, 1.0][k % 2], [0.0, -0.5][(k // 2) % 2], [0.0, 2.0][(k // 3) % 2], [1.0, 0.5][k % 2]))
        phi = [(rng.randrange(0, 64) / 8.0 if sum(g) <= P else 0.0) for g in cube(P)]
        add('advance_adi', 'numerics.advance_adi%d' % axis, {'P': P, 'axis': axis, 'Pm': rats(np.asarray(Pm, dtype=float).ravel()), 'phi': [rat(v) for v in phi]})
    for k in range(1 if q else 3):
        add('equilibrium', 'demographics.equilibrium+two_epoch', {'pts': [6, 8, 7][k], 'ns': [3, 4, 2][k], 'rho': ['1', '0', '5'][k], 'dt': rat([0.02, 0.01, 0.02][k]),
                                                                    'gammaA': ['0', '0', '-1'][k]})
    for n in (2, 3, 5):
        add('array_to_spectrum', 'numerics.array_to_spectrum', {'n': n, 'd': [rat(x) for x in rand_data(rng, n, 'int')]})
    # 10. diploid genotypes: random pairing of the sampled chromosomes, observed genotype spectra, subsampling individuals
    for n in (2, 4, 6, 8, 10, 12):
        add('pairings', 'numerics.pairings', {'n': n})
    for n in ((2, 4) if q else (2, 4, 6)):
        for X in cube(n):
            if feasible(n, X):
                add('geno_pairs', 'numerics.cached_genotype_exact_projection', {'n': n, 'counts': list(X) + [n - sum(X)]})
    for k in range(8 if q else 12):
        n = 6 if q else 8
        i = rng.randint(0, n); j = rng.randint(0, n - i); kk = rng.randint(0, n - i - j)
        add('geno_pairs', 'numerics.cached_genotype_exact_projection', {'n': n, 'counts': [i, j, kk, n - i - j - kk]})
    gs = [(2, 'dict'), (4, 'dict'), (4, 'array8'), (4, 'pairs'), (4, 'dict'), (2, 'pairs')] + ([] if q else [(6, 'dict'), (6, 'array8'), (6, 'pairs'), (4, 'array8')])
    for k, (n, form) in enumerate(gs):
        s = rand_abs(rng, n, ['default', 'single'][k % 2], kind=['int', 'float'][k % 2])
        add('geno_spectrum', {'dict': 'numerics.observed_genotype_spectrum_dict_from_F', 'array8': 'numerics.observed_genotype_spectrum_from_F',
                              'pairs': 'numerics.genotype_spectrum_from_F'}[form], {'s': s, 'form': form})
    # fixed cases: one individual out of an aaBb + AaBb pair; two out of AABB + AaBb + aabb
    add('geno_weights', 'projection_genotypes.projection_genotypes', {'nf': 2, 'nt': 1, 'hits': [0, 0, 0, 0, 1, 0, 0, 1]})
    add('geno_weights', 'projection_genotypes.projection_genotypes', {'nf': 3, 'nt': 2, 'hits': [1, 0, 0, 0, 1, 0, 0, 0]})
    add('geno_project', 'numerics.project_Gdict', {'nf': 3, 'nt': 2, 'keys': [[1, 0, 0, 0, 1, 0, 0, 0], [0, 1, 0, 0, 0, 1, 0, 1]], 'vals': ['3', '5']})
    for k in range(24 if q else 80):
        nf = 2 + k % (3 if q else 4)
        nt = 1 + k % min(nf - 1, 2 if q else 3)
        hits = [0] * 9
        for _ in range(nf):
            hits[rng.choice([0, 1, 2, 3, 4, 4, 5, 6, 7, 8])] += 1
        add('geno_weights', 'projection_genotypes.projection_genotypes', {'nf': nf, 'nt': nt, 'hits': hits[:8]})
    for k in range(6 if q else 20):
        nf = 2 + k % 2
        nt = 1 + k % (nf - 1)
        keys = set()
        while len(keys) < 3 + k % 3:
            h = [0] * 9
            for _ in range(nf):
                h[rng.randrange(9)] += 1
            keys.add(tuple(h[:8]))
        keys = sorted(keys)
        add('geno_project', 'numerics.project_Gdict', {'nf': nf, 'nt': nt, 'keys': [list(k_) for k_ in keys], 'vals': [rat(float(rng.randrange(1, 50))) for _ in keys]})
    return out


def enc_fold_abs(s):
    """the folded form of an abstract spectrum, as input for statistics of folded spectra (computed here only to
    build an input; the folding operation itself is judged on its own records)"""
    n = s['n']
    d = [Fraction(v) for v in s['d']]
    m = list(s['m'])
    nd = list(d)
    for (i, j, k) in cube(n):
        if not feasible(n, (i, j, k)) or s['m'][fl(n, i, j, k)]:
            continue
        l = n - i - j - k
        hA, hB = 2 * (i + j) > n, 2 * (i + k) > n
        t = (l, k, j) if hA and hB else (k, l, i) if hA else (j, i, l) if hB else None
        if t:
            nd[fl(n, *t)] += d[fl(n, i, j, k)]
            nd[fl(n, i, j, k)] = Fraction(0)
            m[fl(n, i, j, k)] = True
    return {'n': n, 'd': [rat(float(v)) for v in nd], 'm': m, 'f': 'folded'}


def records(ctx):
    rng = random.Random(ctx.seed + 505)
    tmpd = tempfile.mkdtemp(prefix='x05-', dir=common.SCRATCH_ROOT)
    try:
        with np.errstate(all='ignore'):
            return [execute(op, site, inp, '%s-%d' % (op, k), tmpd) for k, (op, site, inp) in enumerate(cases(ctx, rng))]
    finally:
        shutil.rmtree(tmpd, ignore_errors=True)


# --------------------------------------------------------------------------
def nontrivial(r):
    i = r['in']
    op = r['op']
    if 's' in i:
        s = i['s']
        extra = sum(1 for q, ix in enumerate(cube(s['n'])) if s['m'][q] and informative(s['n'], ix))
        key = (op, r['site'], s['n'], s['f'], min(extra, 3), i.get('form'), i.get('m'), i.get('m1'), i.get('m2'), i.get('a'), i.get('locus'), i.get('precision'),
               i.get('how'), i.get('mi'), i.get('p'))
        if s['n'] < 2 and op not in ('file', 'pickle'):
            return None
        return key
    if op == 'construct':
        return (op, i['n'], i['nomask'], i['mi'], i['df'], i['form'])
    if op == 'weights':
        X = i['hits']
        cnt = X + [i['n'] - sum(X)]
        return (op, i['n'], i['m'], tuple(X)) if sum(1 for c in cnt if c > 0) >= 2 else None
    if op == 'arith':
        return (op, r['site'], i['a']['n'], i['a']['f'], 'b' in i, i.get('c'))
    if op == 'quadrinomial':
        return (op, i['n'], tuple(i['ix']))
    if op == 'sample':
        return (op, i['P'], i['n'], i['nsform'], sum(1 for v in i['phi'] if v != '0') > 1)
    if op == 'transition1D':
        return (op, len(i['x']), i['dt'], i['gamma'], i['nu'])
    if op == 'advance1D':
        return (op, len(i['u']), common.digest(i['P']))
    if op == 'advance_adi':
        return (op, i['P'], i['axis'], common.digest(i['Pm']))
    if op == 'equilibrium':
        return (op, i['pts'], i['ns'], i['rho'], i['dt'], i['gammaA'])
    if op == 'geno_pairs':
        return (op, i['n'], tuple(i['counts'])) if sum(1 for c in i['counts'] if c > 0) >= 2 else None
    if op == 'geno_weights':
        return (op, i['nf'], i['nt'], tuple(i['hits']))
    if op == 'geno_project':
        return (op, i['nf'], i['nt'], len(i['keys']))
    return (op, i.get('n'), i.get('P'))


def mutate(rec):
    """Corrupt one observed field so that a sound trace spec must reject the record."""
    out = rec['out']
    op = rec['op']
    if 'raised' in out:
        return None
    bump = lambda v: rat(Fraction(v) * Fraction(1000001, 1000000) if Fraction(v) != 0 else Fraction(1, 1000))   # noqa: E731

    def bump_spec(s, want_unmasked=True):
        cand = [k for k in range(len(s['d'])) if (not s['m'][k]) and s['d'][k] not in ('nan', 'inf', '-inf')]
        nz = [k for k in cand if Fraction(s['d'][k]) != 0]
        if nz or cand:
            k = (nz or cand)[len(nz or cand) // 2]
            if op == 'sample' and nz:               # the comparison has an absolute floor: corrupt the largest entry
                k = max(nz, key=lambda j: abs(Fraction(s['d'][j])))
                if abs(Fraction(s['d'][k])) * 10 ** 6 < sum(abs(Fraction(v)) for v in s['d']):
                    return False                    # (all the mass sits in masked entries: corrupt the mask instead)
            s['d'][k] = bump(s['d'][k])
            return True
        return False
    if op == 'unfold':
        s, si = out['s'], rec['in']['s']
        keep = [k for k, ix in enumerate(cube(si['n'])) if not si['m'][k] and informative(si['n'], ix)]
        if keep and not rec['id'].endswith(('3', '7')):
            s['d'][keep[len(keep) // 2]] = bump(s['d'][keep[len(keep) // 2]])
        else:
            s['f'] = 'folded'
        return rec
    if op in ('fold', 'fold_lr', 'fuf', 'project', 'project2', 'misid', 'sample', 'arith', 'file', 'pickle', 'construct'):
        s = out['s']
        if rec['id'].endswith(('3', '7')) or not bump_spec(s):
            n = s['n']
            inf = [k for k, ix in enumerate(cube(n)) if informative(n, ix)]
            if not inf:
                return None
            k = inf[len(inf) // 2]
            s['m'][k] = not s['m'][k]
        return rec
    if op == 'weights':
        w = out['w']
        k = max(range(len(w)), key=lambda j: Fraction(w[j]))
        w[k] = bump(w[k])
        return rec
    if op in ('marginal', 'array_to_spectrum'):
        n = len(out['d']) - 1
        if op == 'marginal':
            if n < 2:
                return None
            k = 1 + (n - 1) // 2
            out['m'][k] = False
            out['d'][k] = bump(out['d'][k])
        else:
            out['d'][len(out['d']) // 2] = bump(out['d'][len(out['d']) // 2])
        return rec
    if op == 'condition':
        c = out['c']
        c[len(c) // 2][len(c[0]) // 2] = bump(c[len(c) // 2][len(c[0]) // 2])
        return rec
    if op in ('mean_r2', 'quadrinomial'):
        out['v'] = bump(out['v'])
        return rec
    if op == 'ld_per_bin':
        n = out['D']['n']
        inf = [k for k, ix in enumerate(cube(n)) if informative(n, ix)]
        k = inf[len(inf) // 2]
        which = 'D' if rec['id'].endswith(('0', '2', '4', '6', '8')) else 'r2'
        out[which]['d'][k] = rat(Fraction(out[which]['d'][k]) + Fraction(1, 1000))
        return rec
    if op == 'grid':
        P = rec['in']['P']
        if P % 3 == 0:
            out['U'][fl(P, 1, 1, P - 1)] = '0' if out['U'][fl(P, 1, 1, P - 1)] == '1' else '1'
        elif P % 3 == 1:
            out['DX'][fl(P, 1, 0, P - 1)] = bump(out['DX'][fl(P, 1, 0, P - 1)])
        else:
            out['dx'][1] = bump(out['dx'][1])
        return rec
    if op == 'surf':
        P = rec['in']['P']
        if rec['id'].endswith(('0', '2', '4', '6', '8')):
            out['surf'][1 * (P + 1) + 1] = bump(out['surf'][1 * (P + 1) + 1])
        else:
            out['back'][fl(P, 1, 1, P - 2)] = bump(out['back'][fl(P, 1, 1, P - 2)])
        return rec
    if op == 'transition1D':
        M = out['P']
        M[1][2] = bump(M[1][2])
        return rec
    if op == 'advance1D':
        out['u'][len(out['u']) // 2] = bump(out['u'][len(out['u']) // 2])
        return rec
    if op == 'advance_adi':
        P = rec['in']['P']
        out['phi'][fl(P, 1, 1, 1)] = bump(out['phi'][fl(P, 1, 1, 1)])
        return rec
    if op == 'equilibrium':
        s = out['again'] if 'again' in out else None
        if s is None:
            return None
        k = fl(s['n'], 1, 0, 0)
        s['d'][k] = bump(s['d'][k])
        return rec
    if op == 'pairings':
        out['v'] = rat(Fraction(out['v']) + 1)
        return rec
    if op in ('geno_pairs', 'geno_spectrum', 'geno_weights', 'geno_project'):
        if not out['vals']:
            return None
        k = len(out['vals']) // 2
        out['vals'][k] = bump(out['vals'][k])
        return rec
    return None


RULE = ('TLSpectrum constructor under every (mask given, mask_infeasible, data_folded, container) combination, n = 1..6; TLSpectrum.fold, '
        'numerics.fold_ancestral, fold_lr, unfold, fold.unfold.fold on random spectra n = 2..7 (quick) / 2..9 (thorough) with the constructor mask, one extra '
        'masked entry, a masked orbit, 25 % random extra masks, a masked (nAB,nAb) row; numerics.project (one and two stages, same size) and '
        'cached_projection (every source configuration for n <= 4 / 6, sampled to n = 30); marginalA / marginalB / to_single_locus, condition; '
        'mean_r2 (method and function, also on folded spectra), LD_per_bin n = 2..10 / 20; to_file / from_file (path and file object, precision 8, 12, 16, 17, '
        'comments, folded flag, mask_infeasible on / off) and pickle protocols 2, 4, 5; the 5 arithmetic operators in plain, reflected and in-place form '
        'with spectrum and scalar operands incl. mixed folding status; misidentification p in {0, 1, 1/2, 1/8, random}; grid / grid_dx / domain / grid_dx3 '
        'for P = 2..9 / 16, phi_to_surf / surf_to_phi, sample_cached (P = 3..8, n = 2..6, ns as int / tuple / list, dyadic, point-mass and random densities), '
        'quadrinomial n <= 60, transition1D, array_to_spectrum; the diploid-genotype helpers: pairings n <= 12, cached_genotype_exact_projection for every '
        'haplotype count vector of n = 2, 4 (6 thorough) and sampled n = 6 (8), the three genotype-spectrum builders on n = 2, 4 (6), the compiled '
        'projection_genotypes weights for 2-4 (5) individuals, project_Gdict.  Distinct by (operation, function, n, folding status, number of extra masked entries, '
        'the integer arguments); spectra with n < 2 (no informative entry) are trivial')
ASSUME = ['BigInteger rational arithmetic of the Rat override (self-tested against the TLA+ definitions)',
          'data are compared at the entries the specification leaves unmasked (relative 1e-10; sums of non-negative terms, no cancellation); masks and the '
          'folding flag are compared exactly',
          'fold / project / misidentification / marginals are stated for spectra whose infeasible entries are masked (what the constructor produces); '
          'masked entries take no part in sums (as all these functions document by skipping them)',
          'marginalA / marginalB: an interior entry may come back masked only when an informative entry contributing to it was masked by the user',
          'unfold has no documented meaning beyond undoing the folded status: demanded are the refusal of unfolded input, the flag, unmasked informative entries '
          'kept, non-informative entries masked, and fold(unfold(fold(s))) = fold(s)',
          'file round trip: exact for precision >= 17, relative 10^(1-precision) otherwise',
          'sample_cached: densities that vanish outside the domain (what the integrator produces); absolute floor 1e-14 times the integral of |phi|',
          'LD_per_bin: D within 1e-14 absolutely (difference of O(1) numbers), r^2 relative 1e-10 + 1e-14',
          'genotype helpers: random pairing of the n sampled chromosomes into n/2 diploids (uniform over perfect matchings); dictionaries compared key by key '
          '(every returned value, every expected key with a non-zero value present); projection_genotypes: weights for exactly the target genotype counts in '
          'which both loci segregate among the 2 n_to chromosomes (the filter the compiled code evidently intends)',
          'advance1D / advance_adi1..3: the tridiagonal systems built by the real transition1D / transition1..3 are solved (row residuals, backward error 1e-10); '
          'equilibrium / two_epoch: existence, mask, finiteness, cache file transparency and zero-duration epoch only (one small grid in quick)',
          'not covered: accuracy of the two-locus PDE solution (what the ADI / covariance / surface transition matrices other than transition1D contain, '
          'injection, surface interaction / recombination), TwoLocus.inference, plotting, the extrap_x / extrap_t '
          'attributes, misidentification_genotype_dict and genotype_exp_data_to_arrays, numerics.project to a larger size (prints a message, returns its input)']


def run(ctx):
    if ctx.replay:
        old = ctx.replay_payload['payload']['record']
        tmpd = tempfile.mkdtemp(prefix='x05-', dir=common.SCRATCH_ROOT)
        try:
            with np.errstate(all='ignore'):
                recs = [execute(old['op'], old.get('site', old['op']), dict(old['in']), old['id'], tmpd)]   # re-executed on the current tree
        finally:
            shutil.rmtree(tmpd, ignore_errors=True)
        ctx.no_mc = True
    else:
        recs = records(ctx)
    mcs = [('TLSpectrumMC', 'TLSpectrumMC_quick.cfg')] if ctx.quick else [('TLSpectrumMC', 'TLSpectrumMC_thorough%s.cfg' % c) for c in 'ABC']
    return common.pipeline(ctx, mcs, 'Trace_TLSpectrum', recs,
                           nontrivial_of=nontrivial, mutator=mutate, rule=RULE, assumptions=ASSUME)
