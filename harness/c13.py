"""C13 - genotype data -> data dictionary -> spectrum and statistics (spec/DataDict.tla).

The driver invents abstract genotype matrices, writes them as VCF + popinfo (or
SNP-table) files with the textual variety real files have, calls the real dadi
and records the *abstract matrix it wrote* next to what dadi returned.  TLC
(spec/Trace_DataDict.tla) computes dictionary, counts, spectra, chunks, bootstrap
sums and statistics from the matrix and judges every record.
"""
import itertools, math, os, random, shutil, tempfile, warnings
from fractions import Fraction
import numpy as np
from . import common
from .common import rat, rats
from .spectrum_common import enc

PROP = 'C13'
BASES = 'ACGT'
MISSING = 2
CHROMS = ['1', 'chr2', 'chr_2', 'sc.3', 'scaf_12.1', 'X', 'un_loc_7']
POPS = ['YRI', 'CEU', 'CHB']


# --------------------------------------------------------------------------
# abstract scenario -> files
# --------------------------------------------------------------------------
def gen_scenario(rng, k, quick, kind):
    """An abstract VCF: samples (population per column, '' = not in popinfo) and lines."""
    # the number of populations cycles deterministically with the scenario index (period 3 against the
    # period-8 cycle of kinds), so every (kind, #populations) pair occurs within 24 scenarios
    if kind == 'small':
        npop = [1, 2, 2][k % 3]
        ninds = [rng.randint(2, 3) for _ in range(npop)]
        nlines = rng.randint(6, 14)
    elif kind == 'big':
        npop = k % 3 + 1
        hi = {1: 12, 2: 12, 3: 8}[npop]
        ninds = [rng.randint(2, hi) for _ in range(npop)]
        if rng.random() < 0.5:
            ninds[rng.randrange(npop)] = hi
        nlines = rng.randint(20, 45)
    else:
        npop = k % 3 + 1
        ninds = [rng.randint(2, 6) for _ in range(npop)]
        nlines = rng.randint(10, 30)
    pops = rng.sample(POPS, npop)
    cols = []
    for p, n in zip(pops, ninds):
        cols += [p] * n
    cols += [''] * rng.choice([0, 0, 1, 2])            # samples the popinfo file does not mention
    rng.shuffle(cols)
    names = ['s%d_%s' % (j, (c or 'zz')[:2]) for j, c in enumerate(cols)]
    chroms = rng.sample(CHROMS, rng.randint(1, 3))
    if not any('_' in c for c in chroms):                 # every scenario has a chromosome name with '_' and one with '.'
        chroms[0] = rng.choice(['chr_2', 'un_loc_7', 'scaf_12.1'])
    if not any('.' in c for c in chroms):
        if len(chroms) == 1:
            chroms[0] = 'scaf_12.1'
        else:
            chroms[-1] = rng.choice(['sc.3', 'scaf_12.1'])
    miss = rng.choice([0.0, 0.05, 0.15, 0.3])
    lines = [{'kind': 'meta'}, {'kind': 'meta'}, {'kind': 'header'}]
    span = rng.choice([30, 100, 1000])
    used = []
    for _ in range(nlines):
        if used and rng.random() < 0.12:
            chrom, pos = rng.choice(used)               # duplicate CHROM_POS key
        else:
            chrom, pos = rng.choice(chroms), rng.randint(1, span)
        used.append((chrom, pos))
        ref, alt = rng.sample(BASES, 2)
        u = rng.random()
        if u < 0.06:
            ref = ref + rng.choice(BASES)               # deletion
        elif u < 0.12:
            alt = alt + rng.choice(BASES) * rng.randint(1, 2)   # insertion
        elif u < 0.16:
            alt = alt + ',' + rng.choice([b for b in BASES if b not in (ref, alt)])   # multi-allelic
        elif u < 0.19:
            alt = rng.choice(['<DEL>', '.', '*', 'N'])
        filt = rng.choice(['PASS'] * 6 + ['.', 'q10', 'LowQual', 's50;q10'])
        v = rng.random()
        if v < 0.2:
            aa = 'absent'
        elif v < 0.5:
            aa = ref[0]
        elif v < 0.78:
            aa = alt[0] if alt[0] in BASES else ref[0]
        elif v < 0.9:
            aa = rng.choice([b for b in BASES if b not in (ref[0], alt[0])])    # mismatching
        else:
            aa = rng.choice(['N', '.', '-', 'AT', ''])
        freq = rng.choice([0.0, 0.1, 0.3, 0.5, 0.8, 1.0]) if rng.random() < 0.3 else rng.random()
        pfreq = {p: min(1.0, max(0.0, freq + rng.uniform(-0.3, 0.3))) for p in pops + ['']}
        gts = []
        for c in cols:
            if rng.random() < miss:
                g = [MISSING, MISSING] if rng.random() < 0.85 else rng.choice([[MISSING, rng.randint(0, 1)], [rng.randint(0, 1), MISSING]])
            else:
                g = [int(rng.random() < pfreq[c]), int(rng.random() < pfreq[c])]
            gts.append(g)
        lines.append({'kind': 'data', 'chrom': chrom, 'pos': pos, 'filt': filt, 'ref': ref, 'alt': alt, 'aa': aa, 'gts': gts})
        if rng.random() < 0.05:
            lines.append({'kind': 'meta'})
    return {'k': k, 'pops': pops, 'ninds': ninds, 'samples': cols, 'names': names, 'lines': lines, 'kind': kind}


def write_vcf(scn, rng, d):
    """Write the abstract file with textual variety (case, phasing, AA spelling, extra INFO/FORMAT fields)."""
    vcf = os.path.join(d, 'scn%d.vcf' % scn['k'])
    gz = rng.random() < 0.2
    fmt = scn.get('fmt') or ('GT:DP' if rng.random() < 0.4 else 'GT')
    out = []
    for l in scn['lines']:
        if l['kind'] == 'meta':
            out.append(rng.choice(['##fileformat=VCFv4.2', '##INFO=<ID=AA,Number=1,Type=String,Description="Ancestral Allele">',
                                   '##contig=<ID=chr_2>', '##comment with\ttab']))
        elif l['kind'] == 'header':
            out.append('\t'.join(['#CHROM', 'POS', 'ID', 'REF', 'ALT', 'QUAL', 'FILTER', 'INFO', 'FORMAT'] + scn['names']))
        else:
            case = rng.choice([str.upper, str.upper, str.lower])
            info = []
            if rng.random() < 0.5:
                info.append(rng.choice(['DP=%d' % rng.randint(1, 99), 'AAF=0.5', 'XAA=T', 'NS=3;AC=2']))
            if l['aa'] != 'absent':
                key = rng.choice(['AA', 'AA', 'AA', 'AA_ensembl', 'AA_chimp'])
                val = rng.choice([str.upper, str.lower])(l['aa'])
                if rng.random() < 0.3:
                    val += rng.choice(['|||', '|-|ACG|insertion'])
                info.append('%s=%s' % (key, val))
            if rng.random() < 0.4:
                info.append(rng.choice(['RFL=ACG', 'AFL=TG', 'VT=SNP', 'H2']))
            cols = [l['chrom'], str(l['pos']), rng.choice(['.', 'rs%d' % rng.randint(1, 999)]), case(l['ref']), case(l['alt']),
                    rng.choice(['.', '50', '3.2']), l['filt'], ';'.join(info) or '.', fmt]
            for g in l['gts']:
                sep = rng.choice(['/', '|'])
                s = sep.join('.' if a == MISSING else str(a) for a in g)
                if fmt == 'GT:DP':
                    s += ':%d' % rng.randint(1, 60)
                elif fmt == 'GT:AD':             # allelic depths; no reads where nothing is called
                    s += ':0,0' if all(a == MISSING for a in g) else ':%d,%d' % (rng.randint(1, 30), rng.randint(0, 30))
                cols.append(s)
            out.append('\t'.join(cols))
    text = '\n'.join(out) + '\n'
    if gz:
        import gzip
        vcf += '.gz'
        with gzip.open(vcf, 'wt') as f:
            f.write(text)
    else:
        with open(vcf, 'w') as f:
            f.write(text)
    pop = os.path.join(d, 'scn%d.popinfo.txt' % scn['k'])
    rows = [(n, c) for n, c in zip(scn['names'], scn['samples']) if c]
    rows += [('ghost%d' % j, rng.choice(scn['pops'])) for j in range(rng.choice([0, 0, 2]))]   # samples absent from the VCF
    rng.shuffle(rows)
    style = rng.choice(['plain', 'header', 'swapped'])
    with open(pop, 'w') as f:
        f.write('# population assignment\n')
        if style == 'header':
            f.write('sample\tpop\n')
        elif style == 'swapped':
            f.write('POP SAMPLE extra\n')
        for n, c in rows:
            f.write(('%s %s x\n' % (c, n)) if style == 'swapped' else ('%s\t%s\n' % (n, c)))
            if rng.random() < 0.1:
                f.write('\n')
    return vcf, pop


def abstract_vcf(scn):
    return {'samples': scn['samples'], 'lines': scn['lines']}


# a Python mirror of the dictionary semantics, used ONLY to pick interesting parameters and to
# compute the argument of the sqrt table (which TLC verifies); never used for a verdict
def model_dd(scn, filt):
    dd = {}
    for l in scn['lines']:
        if l['kind'] != 'data':
            continue
        if filt and l['filt'] not in ('PASS', '.'):
            continue
        if l['ref'] not in BASES or l['alt'] not in BASES or len(l['ref']) != 1 or len(l['alt']) != 1:
            continue
        calls = {}
        for p in scn['pops']:
            r = sum(g.count(0) for g, c in zip(l['gts'], scn['samples']) if c == p)
            a = sum(g.count(1) for g, c in zip(l['gts'], scn['samples']) if c == p)
            calls[p] = (r, a)
        og = l['aa'] if (l['aa'] in BASES and len(l['aa']) == 1) else '-'
        dd['%s_%d' % (l['chrom'], l['pos'])] = {'seg': (l['ref'], l['alt']), 'og': og, 'calls': calls}
    return dd


def model_nh(e, p):
    r, a = e['calls'][p][0], e['calls'][p][1]
    pol = e['og'] != '-' and e['og'] in e['seg']
    return r + a, (r if (pol and e['og'] != e['seg'][0]) else a), pol


def covered_proj(rng, mdd, pops, nchr, cap, lo=1):
    """A projection vector most SNPs of the model dictionary are adequately called for."""
    proj = []
    for p, n in zip(pops, nchr):
        called = sorted(sum(e['calls'][p][:2]) for e in mdd.values() if len(e['seg']) == 2)
        q = called[len(called) // 3] if called else n
        proj.append(rng.randint(lo, max(lo, min(cap, q, n))))
    return proj


def sqrt_table(dd, p, m, pol):
    """c = sqrt(e1 S + e2 S (S-1)) with S counted from the model dictionary (float sqrt; verified by TLC)."""
    if m < 4:
        return None
    S = Fraction(0)
    for e in dd.values():
        if len(e['seg']) != 2:
            continue
        n, h, ispol = model_nh(e, p)
        if n < m or (pol and not ispol):
            continue
        S += 1 - Fraction(math.comb(n - h, m) + math.comb(h, m), math.comb(n, m))
    a1 = sum(Fraction(1, i) for i in range(1, m))
    a2 = sum(Fraction(1, i * i) for i in range(1, m))
    b1 = Fraction(m + 1, 3 * (m - 1))
    b2 = Fraction(2 * (m * m + m + 3), 9 * m * (m - 1))
    c1 = b1 - 1 / a1
    c2 = b2 - Fraction(m + 2, 1) / (a1 * m) + a2 / a1 ** 2
    csq = (c1 / a1) * S + (c2 / (a1 ** 2 + a2)) * S * (S - 1)
    if csq <= 0:
        return None
    return rat(math.sqrt(csq.numerator / csq.denominator) if csq.denominator < 10 ** 300 else float(csq) ** 0.5)


# --------------------------------------------------------------------------
# recording
# --------------------------------------------------------------------------
def enc_dd(dd):
    out = []
    for k, v in dd.items():
        out.append({'key': str(k), 'seg': [str(x) for x in v['segregating']], 'og': str(v.get('outgroup_allele', '(absent)')),
                    'calls': {str(p): [int(x) for x in c] for p, c in v['calls'].items()}})
    return out


def stat(fn):
    try:
        with np.errstate(all='ignore'):
            v = fn()
    except Exception:
        return 'raised'
    if v is np.ma.masked:
        return 'masked'
    return rat(float(v))


def where_of(dd_keys, known):
    return [{'key': k, 'chrom': known[k][0], 'pos': known[k][1]} for k in dd_keys]


def scenario_records(ctx, k, workdir):
    """All records of scenario k (deterministic in (ctx.seed, k, tier))."""
    import dadi
    from dadi import Misc
    Spectrum = dadi.Spectrum
    quick = ctx.quick
    rng = random.Random(ctx.seed * 1000 + k)
    kinds = ['small', 'small', 'mid', 'big', 'mid', 'small', 'big', 'mid']
    scn = gen_scenario(rng, k, quick, kinds[k % len(kinds)])
    vcf, popf = write_vcf(scn, rng, workdir)
    A = abstract_vcf(scn)
    pops = scn['pops']
    P = len(pops)
    tag = {'seed': ctx.seed % 100000, 'k': k}
    recs = []
    nid = itertools.count()

    def add(op, site, inp, out, tab=None):
        inp = dict(inp)
        inp['scn'] = tag
        r = {'id': '%s-%d-%d' % (op, k, next(nid)), 'op': op, 'site': site, 'in': inp, 'out': out}
        if tab is not None:
            r['tab'] = tab
        recs.append(r)

    def observe(fn, wrap):
        try:
            with warnings.catch_warnings():
                warnings.simplefilter('ignore')
                res = fn()
        except Exception as e:
            return None, {'raised': type(e).__name__ + ': ' + str(e)[:80]}
        return res, wrap(res)

    # ---- 1. the dictionary, with and without the FILTER test (and with flanking fields requested)
    dds = {}
    for filt in (True, False):
        kw = {}
        if rng.random() < 0.3:
            kw['flanking_info'] = ['RFL', 'AFL']
        dd, out = observe(lambda: Misc.make_data_dict_vcf(vcf, popf, filter=filt, **kw), lambda d: {'dd': enc_dd(d)})
        add('vcf', 'Misc.make_data_dict_vcf', {'vcf': A, 'filter': filt}, out)
        dds[filt] = dd
    # the documentation allows either file to be gzipped or zipped: same dictionary expected
    if k % 3 == 1:
        how = rng.choice(['gz', 'zip'])
        cpop = popf + '.' + how
        if how == 'gz':
            import gzip
            with open(popf, 'rb') as fi, gzip.open(cpop, 'wb') as fo:
                fo.write(fi.read())
        else:
            import zipfile
            with zipfile.ZipFile(cpop, 'w') as z:
                z.write(popf, os.path.basename(popf))
        _, out = observe(lambda: Misc.make_data_dict_vcf(vcf, cpop, filter=True), lambda d: {'dd': enc_dd(d)})
        add('vcf', 'Misc.make_data_dict_vcf:popinfo.' + how, {'vcf': A, 'filter': True, 'popinfo': how}, out)
    filt = rng.random() < 0.75
    dd = dds[filt]
    if dd is None:
        return recs
    src = {'vcf': A, 'filter': filt}
    mdd = model_dd(scn, filt)
    nchr = [2 * n for n in scn['ninds']]
    known = {'%s_%d' % (l['chrom'], l['pos']): (l['chrom'], l['pos']) for l in scn['lines'] if l['kind'] == 'data'}

    # ---- 2. count_data_dict (population order is the caller's)
    order = list(pops)
    rng.shuffle(order)
    _, out = observe(lambda: Misc.count_data_dict(dd, order),
                     lambda cd: {'counts': [{'called': [int(x) for x in c[0]], 'derived': [int(x) for x in c[1]], 'pol': bool(c[2]), 'n': int(n)}
                                            for c, n in cd.items()]})
    add('count', 'Misc.count_data_dict', dict(src, pops=order), out)

    # ---- 3. Spectrum.from_data_dict: projections x polarized x mask_corners
    def fs_record(source, dct, pp, proj, pol, mc):
        _, out = observe(lambda: Spectrum.from_data_dict(dct, list(pp), list(proj), mask_corners=mc, polarized=pol), lambda fs: {'s': enc(fs)})
        add('fs', 'Spectrum.from_data_dict', dict(source, pops=list(pp), proj=[int(x) for x in proj], pol=pol, mask_corners=mc), out)
    if scn['kind'] == 'small':
        allproj = list(itertools.product(*[range(1, n + 1) for n in nchr]))
        rng.shuffle(allproj)
        for proj in allproj[:(len(allproj) if not quick else 14)]:
            fs_record(src, dd, pops, proj, rng.random() < 0.6, rng.random() < 0.5)
    else:
        cap = {1: 24, 2: 24, 3: 9}[P]
        for _ in range(4 if quick else 8):
            proj = [rng.randint(1, min(n, cap)) for n in nchr]
            if rng.random() < 0.3:
                proj = [min(n, cap) for n in nchr]
            fs_record(src, dd, pops, proj, rng.random() < 0.6, rng.random() < 0.5)
    # a subset / permutation of the populations, and the dictionary read without the FILTER test
    sub_p = rng.sample(pops, rng.randint(1, P))
    fs_record(src, dd, sub_p, [rng.randint(1, min(2 * scn['ninds'][pops.index(p)], 8)) for p in sub_p], rng.random() < 0.5, False)
    if dds[not filt] is not None:
        fs_record({'vcf': A, 'filter': not filt}, dds[not filt], pops, [rng.randint(1, min(n, 6)) for n in nchr], True, False)

    # ---- 4. fragment_data_dict, chunk spectra, bootstraps
    span = max(p for _, p in known.values())
    sizes = sorted({1, rng.randint(2, 9), max(2, span // rng.randint(2, 6)), span + rng.randint(0, 50), rng.choice([10, 25, 250])})
    if quick:
        sizes = rng.sample(sizes, min(3, len(sizes)))
    for cs in sizes:
        csv = cs if rng.random() < 0.8 else float(cs)
        frags, out = observe(lambda: Misc.fragment_data_dict(dd, csv), lambda fr: {'chunks': [[str(x) for x in f] for f in fr]})
        add('fragment', 'Misc.fragment_data_dict', {'where': where_of(list(dd), known), 'cs': int(cs)}, out)
        if frags is None or cs == 1 and len(frags) > 60:
            continue
        chunks = out['chunks']
        if len(chunks) > 80:
            continue
        proj = covered_proj(rng, mdd, pops, nchr, {1: 10, 2: 5, 3: 3}[P])
        pol = rng.random() < 0.6
        mc = rng.random() < 0.5

        def chunk_fs():
            ss = [Spectrum.from_data_dict(f, pops, proj, mask_corners=mc, polarized=pol) for f in frags]
            return ss, Spectrum.from_data_dict(dd, pops, proj, mask_corners=mc, polarized=pol)
        _, out2 = observe(chunk_fs, lambda t: {'ss': [enc(s) for s in t[0]], 'whole': enc(t[1])})
        add('chunk_fs', 'Misc.fragment_data_dict', dict(src, pops=pops, proj=proj, pol=pol, chunks=chunks), out2)
        # bootstraps: the drawn chunk indices are those of `random.choices` after random.seed(bseed),
        # replicated here with the same generator state and recorded as input
        nboot = rng.randint(2, 4)
        bseed = rng.randint(0, 10 ** 6)
        random.seed(bseed)
        drawn = [[j + 1 for j in random.choices(range(len(frags)), k=len(frags))] for _ in range(nboot)]

        def boots():
            random.seed(bseed)
            return Misc.bootstraps_from_dd_chunks(frags, nboot, pops, proj, mask_corners=mc, polarized=pol)
        _, out3 = observe(boots, lambda bs: {'bs': [enc(b) for b in bs]})
        add('boot', 'Misc.bootstraps_from_dd_chunks', dict(src, pops=pops, proj=proj, pol=pol, mask_corners=mc, chunks=chunks, drawn=drawn, bseed=bseed), out3)

    # ---- 5. statistics of the spectrum
    def stats_record(source, dct, mdl, pp, proj, pol, mc):
        def calc():
            fs = Spectrum.from_data_dict(dct, list(pp), list(proj), mask_corners=mc, polarized=pol)
            o = {'S': stat(fs.S)}
            if len(pp) == 1:
                o.update(pi=stat(fs.pi), W=stat(fs.Watterson_theta), D=stat(fs.Tajima_D), thetaL=stat(fs.theta_L))
            else:
                o['Fst'] = stat(fs.Fst)
            return o
        _, out = observe(calc, lambda o: o)
        tab = None
        if len(pp) == 1:
            c = sqrt_table(mdl, pp[0], proj[0], pol)
            tab = {'sqrtC': c if c is not None else 'na'}
        add('stats', 'Spectrum.statistics', dict(source, pops=list(pp), proj=[int(x) for x in proj], pol=pol, mask_corners=mc), out, tab=tab)
    for p, n in zip(pops, nchr):
        ms = sorted(set([n, rng.randint(2, n), rng.randint(4, max(4, n)), covered_proj(rng, mdd, [p], [n], n, lo=4)[0]]))
        for m in (ms if not quick else rng.sample(ms, min(2, len(ms)))):
            if m <= n:
                stats_record(src, dd, mdd, [p], [m], rng.random() < 0.7, rng.random() < 0.5)
    if P >= 2:
        cap = {2: 12, 3: 6}[P]
        for _ in range(2 if quick else 4):
            proj = covered_proj(rng, mdd, pops, nchr, cap, lo=2) if rng.random() < 0.7 else [rng.randint(2, min(n, cap)) for n in nchr]
            stats_record(src, dd, mdd, pops, proj, rng.random() < 0.7, rng.random() < 0.5)
        two = rng.sample(pops, 2)
        stats_record(src, dd, mdd, two, [min(2 * scn['ninds'][pops.index(p)], 10) for p in two], True, True)

    # ---- 6. subsampling: exactly k individuals per population and SNP
    for _ in range(1 if quick else 3):
        sp = rng.sample(pops, rng.randint(max(1, P - 1), P))
        sub = {p: rng.randint(1, scn['ninds'][pops.index(p)]) for p in sp}
        seed = rng.choice([None, rng.randint(0, 10 ** 6)])
        sfilt = rng.random() < 0.7
        sdd, out = observe(lambda: Misc.make_data_dict_vcf(vcf, popf, subsample=dict(sub), filter=sfilt, seed=seed), lambda d: {'dd': enc_dd(d)})
        add('vcf_sub', 'Misc.make_data_dict_vcf', {'vcf': A, 'filter': sfilt, 'sub': [{'pop': p, 'k': int(v)} for p, v in sub.items()],
                                                 'seed': -1 if seed is None else seed}, out)
        if sdd is None or not sdd:
            continue
        dsrc = {'dd': out['dd']}
        full = [2 * sub[p] for p in sp]
        fs_record(dsrc, sdd, sp, full, rng.random() < 0.6, False)                 # no projection: integer counts
        fs_record(dsrc, sdd, sp, [rng.randint(1, x) for x in full], rng.random() < 0.6, rng.random() < 0.5)
        mdl = {e['key']: {'seg': tuple(e['seg']), 'og': e['og'], 'calls': {p: tuple(c) for p, c in e['calls'].items()}} for e in out['dd']}
        stats_record(dsrc, sdd, mdl, [sp[0]], [full[0]], True, True)

    # ---- 7. bootstraps_subsample_vcf: the per-population subsample DICT lists the populations in another order than
    # pop_ids (reversed, rotated), with unequal sizes.  The dictionaries and fragments made inside the call are captured
    # (module attributes are looked up at call time) and the chunk draws are those of random.choices after random.seed:
    # every replicate is one 'boot' record over the subsampled dictionary with the documented sample sizes 2 * subsample[pop]
    # in pop_ids order, and one 'vcf_sub' record for the dictionary itself.
    if P >= 2:
        orders = [('reversed', lambda q: q[::-1])] + ([('rotated', lambda q: q[1:] + q[:1])] if P >= 3 else [])
        for oname, reorder in orders:
            pop_ids = list(pops) if rng.random() < 0.5 else rng.sample(pops, P)
            ks = [rng.randint(1, max(1, (scn['ninds'][pops.index(p)] + 1) // 2)) for p in pop_ids]
            for attempt in range(20):
                if len(set(ks)) == len(ks) or all(scn['ninds'][pops.index(p)] == 1 for p in pop_ids):
                    break
                ks = [rng.randint(1, scn['ninds'][pops.index(p)]) for p in pop_ids]
            sub = {p: ks[pop_ids.index(p)] for p in reorder(pop_ids)}         # insertion order differs from pop_ids
            sfilt, pol, mc = rng.random() < 0.7, rng.random() < 0.6, rng.random() < 0.5
            bseed = rng.randint(0, 10 ** 6)
            cs = span + 1
            made, drawn, chunks = [], [], []
            orig_mk, orig_boot = Misc.make_data_dict_vcf, Misc.bootstraps_from_dd_chunks

            def mk(*a, **kw):
                d = orig_mk(*a, **kw)
                made.append(d)
                return d

            def boot(fragments, nb, *a, **kw):
                random.seed(bseed + len(drawn))
                drawn.append([[j + 1 for j in random.choices(range(len(fragments)), k=len(fragments))] for _ in range(nb)])
                chunks.append([[str(x) for x in f] for f in fragments])
                random.seed(bseed + len(drawn) - 1)
                return orig_boot(fragments, nb, *a, **kw)
            Misc.make_data_dict_vcf, Misc.bootstraps_from_dd_chunks = mk, boot
            try:
                res, out = observe(lambda: Misc.bootstraps_subsample_vcf(vcf, popf, dict(sub), 2, cs, list(pop_ids), filter=sfilt,
                                                                          mask_corners=mc, polarized=pol), lambda bs: {'bs': [enc(b) for b in bs]})
            finally:
                Misc.make_data_dict_vcf, Misc.bootstraps_from_dd_chunks = orig_mk, orig_boot
            site = 'Misc.bootstraps_subsample_vcf'
            proj = [2 * int(sub[p]) for p in pop_ids]
            call = {'sub_order': list(sub), 'order': oname, 'cs': int(cs)}
            if res is None and made and not made[-1]:
                continue        # the subsample left no SNP: no chunk to draw from, nothing is stated about bootstraps of an empty genome
            if res is None or len(made) != len(res) or len(drawn) != len(res):
                add('boot', site, dict({'vcf': A, 'filter': sfilt}, pops=list(pop_ids), proj=proj, pol=pol, mask_corners=mc, chunks=[], drawn=[[], []],
                                       bseed=bseed, call=call), out if res is None else {'raised': 'driver: %d dictionaries, %d draws for %d replicates' % (len(made), len(drawn), len(res))})
                continue
            for b in range(len(res)):
                sdd_enc = enc_dd(made[b])
                add('vcf_sub', site, {'vcf': A, 'filter': sfilt, 'sub': [{'pop': p, 'k': int(v)} for p, v in sub.items()], 'seed': -1}, {'dd': sdd_enc})
                if len(chunks[b]) > 80:
                    continue
                add('boot', site, dict({'dd': sdd_enc}, pops=list(pop_ids), proj=proj, pol=pol, mask_corners=mc, chunks=chunks[b], drawn=drawn[b],
                                       bseed=bseed + b, call=call), {'bs': [out['bs'][b]]})
    return recs


def table_records(ctx, k, workdir):
    """Misc.make_data_dict (SNP table) and hand-made dictionaries: non-biallelic entries, missing
    outgroup information, keys with additional info after the position."""
    import dadi
    from dadi import Misc
    Spectrum = dadi.Spectrum
    rng = random.Random(ctx.seed * 1000 + 500 + k)
    recs = []
    nid = itertools.count()
    tag = {'seed': ctx.seed % 100000, 'k': k}

    def add(op, site, inp, out, tab=None):
        inp = dict(inp)
        inp['scn'] = tag
        r = {'id': '%s-T%d-%d' % (op, k, next(nid)), 'op': op, 'site': site, 'in': inp, 'out': out}
        if tab is not None:
            r['tab'] = tab
        recs.append(r)

    def observe(fn, wrap):
        try:
            with warnings.catch_warnings():
                warnings.simplefilter('ignore')
                res = fn()
        except Exception as e:
            return None, {'raised': type(e).__name__ + ': ' + str(e)[:80]}
        return res, wrap(res)
    P = k % 3 + 1
    pops = rng.sample(POPS, P)
    nchr = [rng.randint(4, 14) for _ in pops]
    with_ids = rng.random() < 0.7
    chroms = rng.sample(CHROMS, 2)
    rows, text = [], ['# a comment before the header', 'Human Chimp Allele1 ' + ' '.join(pops) + ' Allele2 ' + ' '.join(pops) + (' Chrom Pos' if with_ids else '')]
    body_line = 0
    known = {}
    for _ in range(rng.randint(8, 25)):
        if rng.random() < 0.1:
            text.append('# comment inside the table')
            body_line += 1
        a1, a2 = rng.sample(BASES, 2)
        og = rng.choice([a1, a1, a2, a2, '-', rng.choice([b for b in BASES if b not in (a1, a2)])])
        c1, c2 = [], []
        for n in nchr:
            called = n if rng.random() < 0.6 else rng.randint(0, n)
            h = rng.randint(0, called)
            c1.append(called - h)
            c2.append(h)
        if with_ids:
            chrom, pos = rng.choice(chroms), rng.randint(1, 60)
            # additional info after the position distinguishes recurrent mutations at one site
            styled = known.setdefault((chrom, pos), rng.random() < 0.15)
            idcols = [chrom, str(pos) + (rng.choice(['.a', '.b2']) if styled else '')]
        else:
            idcols = []
        row = {'idcols': idcols, 'ii': body_line, 'a1': a1, 'a2': a2, 'og': og, 'c1': c1, 'c2': c2}
        rows.append(row)
        case = rng.choice([str.upper, str.lower])
        text.append(' '.join([case(rng.choice(BASES) + a1 + rng.choice(BASES)), case(rng.choice(BASES + '-') + og + rng.choice(BASES)), case(a1)] +
                             [str(x) for x in c1] + [case(a2)] + [str(x) for x in c2] + idcols))
        body_line += 1
    path = os.path.join(workdir, 'table%d.txt' % k)
    with open(path, 'w') as f:
        f.write('\n'.join(text) + '\n')
    dd, out = observe(lambda: Misc.make_data_dict(path), lambda d: {'dd': enc_dd(d)})
    add('snpfile', 'Misc.make_data_dict', {'pops': pops, 'rows': rows}, out)
    if dd is None:
        return recs
    # add hand-made entries: tri-allelic, monomorphic (one allele listed), no outgroup key
    extra = dict(dd)
    for j in range(3):
        kind = rng.choice(['tri', 'mono', 'noog'])
        calls = {p: (rng.randint(0, n), rng.randint(0, 3)) for p, n in zip(pops, nchr)}
        if kind == 'tri':
            e = {'segregating': ('A', 'C', 'G'), 'outgroup_allele': 'A', 'calls': {p: c + (1,) for p, c in calls.items()}}
        elif kind == 'mono':
            e = {'segregating': ('A',), 'outgroup_allele': 'A', 'calls': {p: (c[0],) for p, c in calls.items()}}
        else:
            e = {'segregating': ('G', 'T'), 'calls': calls}
        extra['%s_%d' % (chroms[0], 100 + j)] = e
    dsrc = {'dd': enc_dd(extra)}
    order = list(pops)
    rng.shuffle(order)
    _, out = observe(lambda: Misc.count_data_dict(extra, order),
                     lambda cd: {'counts': [{'called': [int(x) for x in c[0]], 'derived': [int(x) for x in c[1]], 'pol': bool(c[2]), 'n': int(n)}
                                            for c, n in cd.items()]})
    add('count', 'Misc.count_data_dict', dict(dsrc, pops=order), out)
    cap = {1: 14, 2: 8, 3: 4}[P]
    for _ in range(3):
        proj = [rng.randint(1, min(n, cap)) for n in nchr]
        pol, mc = rng.random() < 0.6, rng.random() < 0.5
        _, out = observe(lambda: Spectrum.from_data_dict(extra, pops, proj, mask_corners=mc, polarized=pol), lambda fs: {'s': enc(fs)})
        add('fs', 'Spectrum.from_data_dict', dict(dsrc, pops=pops, proj=proj, pol=pol, mask_corners=mc), out)
    if with_ids:
        kn = {}
        for key in extra:
            c, p = key.rsplit('_', 1)
            kn[key] = (c, int(p.split('.')[0]))
        for cs in (rng.randint(1, 5), rng.randint(6, 40)):
            frags, out = observe(lambda: Misc.fragment_data_dict(extra, cs), lambda fr: {'chunks': [[str(x) for x in f] for f in fr]})
            add('fragment', 'Misc.fragment_data_dict', {'where': where_of(list(extra), kn), 'cs': cs}, out)
        # a recurrent mutation at a site that also has a plain key: chromosome_position and chromosome_position.info
        plain = [key for key in extra if '.' not in key.rsplit('_', 1)[1]]
        if plain:
            rec_dd = dict(extra)
            key = rng.choice(plain)
            rec_dd[key + '.r2'] = extra[key]
            kn2 = dict(kn)
            kn2[key + '.r2'] = kn[key]
            cs = rng.randint(3, 30)
            frags, out = observe(lambda: Misc.fragment_data_dict(rec_dd, cs), lambda fr: {'chunks': [[str(x) for x in f] for f in fr]})
            add('fragment', 'Misc.fragment_data_dict:recurrent-site', {'where': where_of(list(rec_dd), kn2), 'cs': cs}, out)
    return recs


# --------------------------------------------------------------------------
# fixed boundary scenarios (drawn in every tier): end points of every stated range, every named
# option, argument types
# --------------------------------------------------------------------------
def _line(chrom, pos, ref, alt, aa, filt, gts):
    return {'kind': 'data', 'chrom': chrom, 'pos': pos, 'filt': filt, 'ref': ref, 'alt': alt, 'aa': aa, 'gts': [list(g) for g in gts]}


def _fixed_scenario(which, rng):
    M = MISSING
    hdr = [{'kind': 'meta'}, {'kind': 'header'}]
    if which == 0:
        # one population, 2 diploids (lower end points) + a sample the popinfo file omits; one line per class
        pops, ninds, cols = ['YRI'], [2], ['YRI', '', 'YRI']
        x = (1, 1)
        lines = hdr + [
            _line('chr_2', 1, 'A', 'T', 'A', 'PASS', [(0, 1), x, (1, 1)]),            # ancestral = REF, position 1
            _line('chr_2', 10, 'C', 'G', 'G', 'PASS', [(0, 0), x, (0, 1)]),           # ancestral = ALT, position = chunk boundary
            _line('chr_2', 11, 'C', 'G', 'absent', 'PASS', [(1, 1), x, (1, 1)]),      # no AA, fixed for ALT in the sample
            _line('chr_2', 20, 'G', 'A', 'T', 'PASS', [(0, 0), x, (0, 0)]),           # mismatching AA, fixed for REF
            _line('chr_2', 20, 'G', 'A', 'G', 'q10', [(1, 1), x, (1, 1)]),            # duplicate key, fails FILTER
            _line('sc.3', 5, 'AT', 'G', 'A', 'PASS', [(0, 1), x, (0, 1)]),            # multi-character REF
            _line('sc.3', 5, 'T', 'C', 'T', 'PASS', [(M, M), x, (0, 1)]),             # same key as a skipped line; one individual missing
            _line('sc.3', 6, 'T', 'CA', 'T', 'PASS', [(0, 1), x, (0, 1)]),            # multi-character ALT
            _line('sc.3', 7, 'T', 'C,G', 'T', 'PASS', [(0, 1), x, (0, 1)]),           # multi-allelic
            _line('sc.3', 30, 'T', 'C', 'N', '.', [(M, M), x, (M, M)]),               # every call of the population missing; FILTER '.'
            {'kind': 'meta'},
            _line('scaf_12.1', 1, 'A', 'C', 'C', 'PASS', [(0, M), x, (1, 1)]),        # half-missing call
            _line('scaf_12.1', 1, 'A', 'C', 'A', 'PASS', [(0, 1), x, (0, 1)]),        # duplicate key, both stored: later wins
            _line('scaf_12.1', 2, 'A', 'G', 'absent', 'LowQual', [(0, 1), x, (0, 1)]),
            _line('scaf_12.1', 40, 'G', 'T', 'G', 'PASS', [(1, 0), x, (0, 0)]),
            _line('scaf_12.1', 21, 'G', 'T', 'T', 'PASS', [(1, 0), x, (1, 1)]),        # positions not in file order
        ]
    elif which == 1:
        # three populations, 12 diploids each (upper end points), interleaved columns
        pops, ninds = ['CEU', 'CHB', 'YRI'], [12, 12, 12]
        cols = [pops[j % 3] for j in range(36)]
        lines = list(hdr)
        for j in range(10):
            ref, alt = rng.sample(BASES, 2)
            freq = [0.1, 0.5, 0.9, 0.3, 0.0, 1.0, 0.5, 0.2, 0.7, 0.5][j]
            pf = {p: min(1.0, max(0.0, freq + d)) for p, d in zip(pops, (0.0, 0.25, -0.25))}
            gts = []
            for c in cols:
                if j >= 6 and rng.random() < 0.2:
                    gts.append((M, M))
                else:
                    gts.append((int(rng.random() < pf[c]), int(rng.random() < pf[c])))
            aa = [ref, alt, ref, alt, ref, alt, 'absent', ref, rng.choice([b for b in BASES if b not in (ref, alt)]), alt][j]
            lines.append(_line(['un_loc_7', 'scaf_12.1'][j % 2], 3 + 7 * j, ref, alt, aa, 'PASS' if j != 7 else 's50;q10', gts))
    else:
        # every line fails FILTER or is not a SNP: the dictionary is empty with filter=True; 2 and 12 diploids
        pops, ninds = ['CHB', 'YRI'], [2, 12]
        cols = ['CHB', 'YRI'] * 2 + ['YRI'] * 10
        lines = list(hdr)
        for j in range(4):
            gts = [(int(rng.random() < 0.5), int(rng.random() < 0.4)) for _ in cols]
            lines.append(_line('chr_2' if j < 2 else 'sc.3', 5 + 5 * j, 'A', 'G' if j != 3 else 'GT', ['A', 'G', 'absent', 'A'][j],
                               ['q10', 'LowQual', 'q10;s50', 'PASS'][j], gts))
    names = ['s%d_%s' % (j, (c or 'zz')[:2]) for j, c in enumerate(cols)]
    return {'k': 900 + which, 'pops': pops, 'ninds': ninds, 'samples': cols, 'names': names, 'lines': lines, 'kind': 'fixed',
            'fmt': ['GT:AD', 'GT', 'GT:DP'][which]}                 # every FORMAT layout is drawn


def boundary_records(ctx, which, workdir):
    import dadi
    from dadi import Misc
    Spectrum = dadi.Spectrum
    rng = random.Random(ctx.seed * 1000 + 900 + which)
    scn = _fixed_scenario(which, rng)
    vcf, popf = write_vcf(scn, rng, workdir)
    A = abstract_vcf(scn)
    pops, P = scn['pops'], len(scn['pops'])
    nchr = [2 * n for n in scn['ninds']]
    tag = {'seed': ctx.seed % 100000, 'k': which}
    recs = []
    nid = itertools.count()

    def add(op, site, inp, out, tab=None):
        inp = dict(inp)
        inp['scn'] = tag
        r = {'id': '%s-B%d-%d' % (op, which, next(nid)), 'op': op, 'site': site, 'in': inp, 'out': out}
        if tab is not None:
            r['tab'] = tab
        recs.append(r)

    def observe(fn, wrap):
        try:
            with warnings.catch_warnings():
                warnings.simplefilter('ignore')
                res = fn()
        except Exception as e:
            return None, {'raised': type(e).__name__ + ': ' + str(e)[:80]}
        return res, wrap(res)
    known = {'%s_%d' % (l['chrom'], l['pos']): (l['chrom'], l['pos']) for l in scn['lines'] if l['kind'] == 'data'}
    dds, mdds = {}, {}
    for filt in (True, False):
        kw = {'flanking_info': ['RFL', 'AFL']} if filt else {}
        dd, out = observe(lambda: Misc.make_data_dict_vcf(vcf, popf, filter=filt, **kw), lambda d: {'dd': enc_dd(d)})
        add('vcf', 'Misc.make_data_dict_vcf', {'vcf': A, 'filter': filt}, out)
        dds[filt], mdds[filt] = dd, model_dd(scn, filt)
    # the remaining keywords of the signature add information; the dictionary of calls must not change
    if which == 0:
        _, out = observe(lambda: Misc.make_data_dict_vcf(vcf, popf, filter=True, calc_coverage=True), lambda d: {'dd': enc_dd(d)})
        add('vcf', 'Misc.make_data_dict_vcf', {'vcf': A, 'filter': True, 'option': 'calc_coverage'}, out)
        _, out = observe(lambda: Misc.make_data_dict_vcf(vcf, popf, filter=False, extract_ploidy=True), lambda t: {'dd': enc_dd(t[0])})
        add('vcf', 'Misc.make_data_dict_vcf', {'vcf': A, 'filter': False, 'option': 'extract_ploidy'}, out)
    elif which == 1:
        # no AD field in FORMAT (the function documents coverage '-' for that case)
        _, out = observe(lambda: Misc.make_data_dict_vcf(vcf, popf, filter=True, calc_coverage=True), lambda d: {'dd': enc_dd(d)})
        add('vcf', 'Misc.make_data_dict_vcf:calc_coverage-no-AD', {'vcf': A, 'filter': True, 'option': 'calc_coverage'}, out)
    if any(d is None for d in dds.values()):
        return recs

    def src(filt):
        return {'vcf': A, 'filter': filt}

    def count(filt, order):
        _, out = observe(lambda: Misc.count_data_dict(dds[filt], order),
                         lambda cd: {'counts': [{'called': [int(x) for x in c[0]], 'derived': [int(x) for x in c[1]], 'pol': bool(c[2]), 'n': int(n)}
                                                for c, n in cd.items()]})
        add('count', 'Misc.count_data_dict', dict(src(filt), pops=list(order)), out)

    def fs(filt, pp, proj, pol, mc, as_types=None):
        a_pp, a_proj = list(pp), list(proj)
        if as_types == 'tuple':
            a_pp, a_proj = tuple(pp), tuple(proj)
        elif as_types == 'array':
            a_pp, a_proj = tuple(pp), np.array(proj)
        elif as_types == 'npint':
            a_proj = [np.int64(x) for x in proj]
        _, out = observe(lambda: Spectrum.from_data_dict(dds[filt], a_pp, a_proj, mask_corners=mc, polarized=pol), lambda f: {'s': enc(f)})
        add('fs', 'Spectrum.from_data_dict', dict(src(filt), pops=list(pp), proj=[int(x) for x in proj], pol=pol, mask_corners=mc), out)

    def stats(filt, pp, proj, pol, mc):
        def calc():
            f = Spectrum.from_data_dict(dds[filt], list(pp), list(proj), mask_corners=mc, polarized=pol)
            o = {'S': stat(f.S)}
            if len(pp) == 1:
                o.update(pi=stat(f.pi), W=stat(f.Watterson_theta), D=stat(f.Tajima_D), thetaL=stat(f.theta_L))
            else:
                o['Fst'] = stat(f.Fst)
            return o
        _, out = observe(calc, lambda o: o)
        tab = None
        if len(pp) == 1:
            c = sqrt_table(mdds[filt], pp[0], proj[0], pol)
            tab = {'sqrtC': c if c is not None else 'na'}
        add('stats', 'Spectrum.statistics', dict(src(filt), pops=list(pp), proj=[int(x) for x in proj], pol=pol, mask_corners=mc), out, tab=tab)

    def chunks(filt, cs_arg, cs, proj, pol, mc, nboot, bseed, with_spectra=True):
        dd = dds[filt]
        frags, out = observe(lambda: Misc.fragment_data_dict(dd, cs_arg), lambda fr: {'chunks': [[str(x) for x in f] for f in fr]})
        add('fragment', 'Misc.fragment_data_dict', {'where': where_of(list(dd), known), 'cs': int(cs)}, out)
        if frags is None or not with_spectra:
            return

        def chunk_fs():
            return ([Spectrum.from_data_dict(f, pops, proj, mask_corners=mc, polarized=pol) for f in frags],
                    Spectrum.from_data_dict(dd, pops, proj, mask_corners=mc, polarized=pol))
        _, out2 = observe(chunk_fs, lambda t: {'ss': [enc(x) for x in t[0]], 'whole': enc(t[1])})
        add('chunk_fs', 'Misc.fragment_data_dict', dict(src(filt), pops=pops, proj=list(proj), pol=pol, chunks=out['chunks']), out2)
        if not frags:
            return                      # no chunk to draw from: nothing is stated about bootstraps of an empty genome
        random.seed(bseed)
        drawn = [[j + 1 for j in random.choices(range(len(frags)), k=len(frags))] for _ in range(nboot)]

        def boots():
            random.seed(bseed)
            return Misc.bootstraps_from_dd_chunks(frags, nboot, pops, list(proj), mask_corners=mc, polarized=pol)
        _, out3 = observe(boots, lambda bs: {'bs': [enc(b) for b in bs]})
        add('boot', 'Misc.bootstraps_from_dd_chunks', dict(src(filt), pops=pops, proj=list(proj), pol=pol, mask_corners=mc,
                                                            chunks=out['chunks'], drawn=drawn, bseed=bseed), out3)

    def subsample(sub, seed, filt, proj_list=()):
        sdd, out = observe(lambda: Misc.make_data_dict_vcf(vcf, popf, subsample=dict(sub), filter=filt, seed=seed), lambda d: {'dd': enc_dd(d)})
        add('vcf_sub', 'Misc.make_data_dict_vcf', {'vcf': A, 'filter': filt, 'sub': [{'pop': p, 'k': int(v)} for p, v in sub.items()],
                                                 'seed': -1 if seed is None else seed}, out)
        if not sdd:
            return
        sp = list(sub)
        for proj, pol in proj_list:
            _, o2 = observe(lambda: Spectrum.from_data_dict(sdd, sp, list(proj), mask_corners=False, polarized=pol), lambda f: {'s': enc(f)})
            add('fs', 'Spectrum.from_data_dict', {'dd': out['dd'], 'pops': sp, 'proj': list(proj), 'pol': pol, 'mask_corners': False}, o2)

    if which == 0:
        count(True, ['YRI'])
        count(False, ('YRI',))
        for m in range(1, 5):                                   # every projection x polarized x mask_corners
            for pol in (True, False):
                for mc in (True, False):
                    fs(True, pops, [m], pol, mc)
        fs(False, pops, [4], True, False)
        fs(True, pops, [5], True, False)                        # more than the sample holds: no SNP is adequately called
        fs(True, pops, [3], True, False, 'tuple')
        fs(True, pops, [3], False, True, 'array')
        fs(False, pops, [2], True, False, 'npint')
        for cs_arg, cs in ((1, 1), (10, 10), (10.0, 10), (np.int64(10), 10), (np.float64(20.0), 20), (39, 39), (40, 40), (41, 41), (10 ** 6, 10 ** 6)):
            chunks(True, cs_arg, cs, [2], cs % 2 == 0, cs % 3 == 0, 1 if cs == 10 else 3, [0, 1, 10 ** 9][cs % 3], with_spectra=(cs != 1))
        chunks(False, 10, 10, [3], False, False, 2, 12345)
        for m in (2, 3, 4):
            for pol in (True, False):
                stats(True, pops, [m], pol, m == 3)
        stats(False, pops, [4], True, False)
        subsample({'YRI': 1}, None, True, [([2], True), ([1], False)])
        subsample({'YRI': 2}, 0, True, [([4], True), ([3], True)])          # every individual; seed 0
        subsample({'YRI': 2}, 77, False, [([4], False)])
        subsample({'YRI': 3}, 5, True)                                       # more than exist: nothing can be stored
    elif which == 1:
        count(True, ['YRI', 'CEU', 'CHB'])
        for proj in ([24, 1, 1], [1, 24, 1], [1, 1, 24], [2, 2, 2], [24, 2, 3]):
            fs(True, pops, proj, True, False)
        fs(True, pops, [3, 24, 2], False, True)
        fs(True, ['YRI', 'CEU'], [24, 24], True, False)                      # full size of two 12-diploid populations
        fs(True, ['CHB', 'YRI'], [24, 23], False, False)
        fs(False, ('CHB',), [24], True, True, 'tuple')
        if not ctx.quick:
            fs(True, pops, [12, 12, 12], True, False)
            fs(True, pops, [24, 24, 8], False, False)
        for p in pops:
            stats(True, [p], [24], True, False)
            stats(True, [p], [23], False, True)
        stats(True, pops, [6, 6, 6], True, False)                            # equal sizes
        stats(True, pops, [24, 2, 5], True, True)                            # very unequal sizes
        stats(True, ['YRI', 'CEU'], [24, 24], True, False)
        stats(True, ['CEU', 'CHB'], [1, 2], True, False)
        stats(True, pops, [2, 2, 2], False, False)
        if not ctx.quick:
            stats(True, pops, [12, 12, 12], True, False)
        span = max(p for _, p in known.values())
        chunks(True, span, span, [2, 1, 1], True, False, 2, 4242)
        chunks(True, 7, 7, [1, 2, 1], False, True, 1, 1)
        subsample({'CEU': 12, 'CHB': 12, 'YRI': 12}, 7, True, [([24, 1, 1], True)])   # every individual of every population
        subsample({'YRI': 1}, None, True, [([2], False)])
        subsample({'CHB': np.int64(11), 'CEU': 1}, 2 ** 31 - 1, False, [([2, 2], True)])
    else:
        count(True, pops)
        count(False, list(reversed(pops)))
        fs(True, pops, [2, 3], True, False)                                  # empty dictionary: all-zero spectrum
        fs(True, pops, [2, 3], False, True)
        fs(False, pops, [4, 24], True, False)                                # 2 and 12 diploids at full size
        fs(False, list(reversed(pops)), [24, 4], False, False)
        fs(False, pops, [1, 1], True, False)
        for j, (m1, m2) in enumerate(itertools.product(range(1, 5), (1, 2, 23, 24))):    # every projection of the small population
            fs(False, pops, [m1, m2], j % 3 != 0, j % 2 == 0)                          # against the end points of the large one
        chunks(True, 10, 10, [2, 2], True, False, 2, 3)                      # nothing to split
        chunks(False, 5, 5, [2, 2], True, False, 2, 3)
        stats(False, pops, [4, 24], True, False)
        stats(False, pops, [4, 4], False, True)
        stats(False, ['CHB'], [4], True, False)
        subsample({'CHB': 2, 'YRI': 12}, 11, False, [([4, 24], True)])
        subsample({'CHB': 2, 'YRI': 12}, 11, True)                           # everything filtered
    return recs


def records(ctx, only=None):
    workdir = tempfile.mkdtemp(prefix='c13-', dir=common.SCRATCH_ROOT)
    recs = []
    try:
        nscn = 9 if ctx.quick else 64      # (the fixed boundary scenarios are drawn in addition)
        ntab = 4 if ctx.quick else 16
        for k in range(nscn):
            if only is None or only == ('scn', k):
                recs += scenario_records(ctx, k, workdir)
        for k in range(ntab):
            if only is None or only == ('tab', k):
                recs += table_records(ctx, k, workdir)
        for k in range(3):
            if only is None or only == ('bnd', k):
                recs += boundary_records(ctx, k, workdir)
    finally:
        shutil.rmtree(workdir, ignore_errors=True)
    # spread heavy records over the validation batches
    random.Random(ctx.seed).shuffle(recs)
    return recs


# --------------------------------------------------------------------------
# binding demonstration, evidence classes
# --------------------------------------------------------------------------
def _bump_spectrum(s):
    cand = [k for k in range(len(s['d'])) if not s['m'][k] and s['d'][k] not in ('nan', 'inf', '-inf') and Fraction(s['d'][k]) != 0]
    if not cand:
        return False
    k = cand[len(cand) // 2]
    s['d'][k] = rat(Fraction(s['d'][k]) * Fraction(1000001, 1000000))
    return True


def mutate(rec):
    out = rec['out']
    if 'raised' in out:
        return None
    op = rec['op']
    if op in ('vcf', 'vcf_sub', 'snpfile'):
        for e in out['dd']:
            for p, c in e['calls'].items():
                if len(c) == 2 and c[0] + c[1] > 0:
                    if op == 'vcf_sub':
                        e['calls'][p] = [c[0] + 1, c[1]]           # one allele more than k individuals carry
                    elif c[1] > 0:
                        e['calls'][p] = [c[0] + 1, c[1] - 1]
                    else:
                        e['calls'][p] = [c[0] - 1, c[1] + 1]
                    return rec
        return None
    if op == 'count':
        if not out['counts']:
            return None
        out['counts'][0]['n'] += 1
        return rec
    if op == 'fs':
        return rec if _bump_spectrum(out['s']) else None
    if op == 'fragment':
        ch = out['chunks']
        full = [j for j in range(len(ch)) if ch[j]]
        if not full:
            return None
        if len(ch) >= 2:
            j = full[0]
            ch[(j + 1) % len(ch)].append(ch[j][0])       # a SNP lands in two chunks
        else:
            ch[0].pop()                                    # a SNP lands in none
        return rec
    if op == 'chunk_fs':
        for s in out['ss']:
            if _bump_spectrum(s):
                return rec
        return None
    if op == 'boot':
        for s in out['bs']:
            if _bump_spectrum(s):
                return rec
        return None
    if op == 'stats':
        for key in ('Fst', 'pi', 'S'):
            v = out.get(key)
            if v and v not in ('nan', 'inf', '-inf', 'raised', 'masked') and Fraction(v) != 0:
                out[key] = rat(Fraction(v) * Fraction(1000001, 1000000))
                return rec
        return None
    return None


def nontrivial(r):
    i = r['in']
    op = r['op']
    if op in ('vcf', 'vcf_sub'):
        v = i['vcf']
        data = [l for l in v['lines'] if l['kind'] == 'data']
        return (op, i['scn']['k'], i['filter'], len(v['samples']), len(data), str(i.get('sub')))
    if op == 'snpfile':
        return (op, i['scn']['k'])
    if op == 'fragment':
        return (op, i['scn']['k'], i['cs'], len(i['where']))
    return (op, i['scn']['k'], tuple(i.get('pops', ())), tuple(i.get('proj', ())), i.get('pol'), i.get('mask_corners'),
            len(i.get('chunks', ())), 'dd' in i, i.get('filter'))


def run(ctx):
    mcs = [('DataDictMC', 'DataDictMC_%s_%s.cfg' % (m, ctx.tier)) for m in (('geno1', 'geno2', 'flags') if ctx.quick else ('geno1', 'geno2', 'geno2b', 'flags'))]
    if ctx.replay:
        rec = ctx.replay_payload['payload']['record']
        ctx.no_mc = True
        # re-execute the scenario the record came from (deterministic in seed / index) and judge the fresh record
        try:
            ctx.seed = ctx.replay_payload.get('seed', ctx.seed)
            ctx.quick = ctx.replay_payload.get('tier', 'quick') == 'quick'
            k = rec['in']['scn']['k']
            fresh = [r for r in records(ctx, only=(('tab', k) if '-T' in rec['id'] else ('bnd', k) if '-B' in rec['id'] else ('scn', k))) if r['id'] == rec['id']]
        except Exception:
            fresh = []
        recs = fresh or [rec]
    else:
        recs = records(ctx)
    return common.pipeline(
        ctx, mcs, 'Trace_DataDict', recs, nontrivial_of=nontrivial, mutator=mutate,
        rule='synthetic VCF + popinfo files (1-3 populations, 2-12 diploids each, missing and half-missing calls, filtered lines, absent / '
             'mismatching / malformed AA, indels, multi-allelic and symbolic ALT, duplicate CHROM_POS, chromosome names with _ and .) and SNP '
             'tables; distinct by (operation, scenario, populations, projection, polarized, mask_corners, number of chunks, source, filter)',
        assumptions=['BigInteger rational arithmetic of the Rat override',
                     'the abstract genotype matrix recorded is the one the driver wrote to the files (the writer adds case, phasing, INFO/FORMAT variety)',
                     'spectra compared entry-wise at relative tolerance 1e-10 (weights go through exp(gammaln)); a corner entry dadi masks is not compared',
                     'bootstrap draws are those of random.choices after random.seed(s), replicated by the driver with the same seed and recorded as input',
                     'Tajima D: sqrt supplied by the recorder as a table entry, verified by TLC (c^2 = C^2 to 1e-12) before use',
                     'statistics judged with backward tolerance 1e-10 relative to the sum of the magnitudes of their terms'])
